"""C02 - each stream task receives its selected points exactly once, in order (spec/Routing)."""
import json
import os

import verifylib as V

ASSUME = [
    "edge buffers (1000 messages) never fill in the explored histories, so forkPoint never blocks on a slow task",
    "one TaskMaster is reused for many traces; every trace ends with a fence, StopTask of every task and an empty fork table",
    "StartTask is never called for a task that is already executing (the task store stops it first); tasks consist of from()|log() chains",
    "concurrent histories depend on the Go scheduler: an observed loss/duplicate is real, absence is a pass (one-sided)",
    "histories that can take the process down (a backed-up task stopped while others receive) run in child processes; the race is aimed with short sleeps, a dead child is a verdict, a surviving one is a pass (one-sided)",
    "a task that dies at run time is out of the verdict itself; which later points meet its aborted edge first depends on Go map order (one-sided, repeated)",
    "TLC fingerprint collisions are negligible; the libflux link stub is never executed",
]

MODELS = {
    "quick": ["Routing_quick.cfg", "Routing_dead.cfg"],
    # 2 tasks x 8 shapes, 2 writes, 4 lifecycle calls | 3 tasks | 1 task, 4 writes
    "thorough": ["Routing_thorough.cfg", "Routing_thorough3.cfg", "Routing_thorough_deep.cfg", "Routing_dead.cfg"],
}


def _first_trace_with_obs(path, max_lines=4000):
    """First trace (Reset..End) that has an Obs line with a sink of >= 2 arrivals."""
    cur = []
    with open(path) as f:
        for n, ln in enumerate(f):
            if n > max_lines:
                break
            ln = ln.rstrip("\n")
            if ln.startswith('{"ev":"Reset"'):
                cur = []
            cur.append(ln)
            if '"ev":"End"' in ln:
                for i, x in enumerate(cur):
                    o = json.loads(x)
                    if o["ev"] == "Obs" and any(len(s) >= 2 for s in o["sinks"]):
                        return cur, i
    return None, None


def selftest(sc, seq_file, tier):
    """Binding self-test: corrupt ONE logged field of a recorded trace in five ways; the
    verdict-level specification must reject each at exactly that line (else it is vacuous)."""
    tr, i = _first_trace_with_obs(seq_file)
    if tr is None:
        raise V.Broken("self-test: no trace with a non-trivial Obs line found")
    obs = json.loads(tr[i])
    k = next(j for j, s in enumerate(obs["sinks"]) if len(s) >= 2)

    def variant(fn):
        o = json.loads(tr[i])
        fn(o["sinks"][k])
        return tr[:i] + [json.dumps(o, separators=(",", ":"), sort_keys=True)] + tr[i + 1:]

    def foreign(s):
        s[0]["s"] = 9999

    cases = {
        "lost": lambda s: s.pop(0),
        "duplicated": lambda s: s.insert(1, dict(s[0])),
        "reordered": lambda s: s.__setitem__(slice(0, 2), [s[1], s[0]]),
        "altered": lambda s: s[0].__setitem__("sig", s[0]["sig"] + "x"),
        "foreign": foreign,
    }
    if tier == "quick":
        cases = {k: cases[k] for k in ("lost", "duplicated", "reordered")}
    d = sc.sub("selftest")
    files = {}
    for name, fn in cases.items():
        fp = os.path.join(d, name + ".ndjson")
        with open(fp, "w") as f:
            f.write("\n".join(variant(fn)) + "\n")
        files[fp] = name
    orig = os.path.join(d, "original.ndjson")
    with open(orig, "w") as f:
        f.write("\n".join(tr) + "\n")
    val = V.validate_traces(sc, "Routing", "RoutingTraceMC.tla", "RoutingTrace.cfg", list(files) + [orig])
    rejected = {fp: ln for fp, ln, _ in val["rejections"]}
    for fp, name in files.items():
        if rejected.get(fp) != i + 1:
            raise V.Broken("self-test: a %s delivery in a recorded trace was not rejected at its Obs line (got %r)" % (name, rejected.get(fp)))
    if orig in rejected:
        raise V.Broken("self-test: the unmodified trace is rejected")
    return sorted(cases)


def _kapacitor_panic(out):
    """First 'panic:' / 'fatal error:' line of a Go crash report whose first goroutine stack runs kapacitor code."""
    lines = out.splitlines()
    for i, ln in enumerate(lines):
        if ln.startswith("panic:") or ln.startswith("fatal error:"):
            frames = [x for x in lines[i + 1:i + 40] if x and not x.startswith("\t") and "(" in x and not x.startswith("goroutine") and not x.startswith("[")]
            for fr in frames[:6]:
                if fr.startswith("kapverif/"):
                    return ""
                if fr.startswith("github.com/influxdata/kapacitor"):
                    return ln.strip()[:200]
            return ""
    return ""


def run(sc, tier, seed):
    R = V.Result("C02", tier, seed)
    V.build_harness()
    # design level: every interleaving of writes, forkPoint, task consumption and lifecycle calls
    for cfg in MODELS[tier]:
        R.add_model(V.model_check(sc, "Routing", "RoutingMC.tla", cfg, workers=8, timeout=2400))
    # negative controls: the code-shaped model WITHOUT the two repairs must show the defects
    # (forkPoint without per-point de-duplication; StartTask that fails without removing its fork)
    # (and forkPoint that stops at the first failing Collect next to a task that died at run time;
    #  forkPoint that remembers the fork-table lookup of the previous point)
    for cfg, inv in (("Routing_nodedup.cfg", "ExactlyOnce"), ("Routing_nocleanup.cfg", "TableConsistent"),
                     ("Routing_stopfirst.cfg", "ExactlyOnce"), ("Routing_cachedlookup.cfg", "ExactlyOnce")):
        obs = V.model_check(sc, "Routing", "RoutingMC.tla", cfg, workers=2, timeout=900, expect_violation={inv})
        if obs["violated"] != inv:
            raise V.Broken("%s no longer yields the %s counterexample: the invariant has become vacuous" % (cfg, inv))
    # B1/B3: systematic, random and concurrent histories on the real TaskMaster
    try:
        out, meta = V.run_driver(sc, "c02", tier, seed, timeout=3000)
    except V.Broken as e:
        # The driver process itself died.  When the Go runtime reports a panic / fatal error whose goroutine is running
        # kapacitor code (not harness code) - e.g. "send on closed channel" in the forking goroutine - that is the
        # daemon dying under an ordinary history: every task loses its points.  Structural evidence (the runtime's own
        # report), so a verdict; anything else stays a broken check.
        msg = str(e)
        died = _kapacitor_panic(msg)
        if not died:
            raise
        d = V.save_replay("C02", "the process running the tasks died: " + died, [json.dumps({"ev": "Died", "panic": died})], [], None, extra=msg[-6000:])
        R.violations.append(("the process running the tasks died under an ordinary history: " + died, d))
        return R.finish("model_checking", ASSUME)
    R.add_meta(meta)
    stuck = meta.get("extra", {}).get("stuck_lifecycle_calls") or []
    for h in stuck:
        V.log("stuck lifecycle call (TaskMaster abandoned, trace cut short):", h)
    files = meta["trace_files"]
    seq = [f for f in files if f.endswith("seq.ndjson")]
    # impl level: the targeted and random histories (the exhaustive ones cost millions of
    # silent-step states at this level and add nothing the verdict level does not decide)
    impl_files = [f for f in files if f.endswith("mix.ndjson")]
    # verdict level: every recorded line against what the property promises
    # (one concatenated file: fewer, fuller JVMs)
    allf = os.path.join(out, "all.ndjson")
    with open(allf, "w") as o:
        for f in files:
            with open(f) as i:
                o.write(i.read())
    val = V.validate_traces(sc, "Routing", "RoutingTraceMC.tla", "RoutingTrace.cfg", [allf], timeout=2400)
    R.states += val["states"]
    R.handle_validation(val)
    # impl level (drift only, never a verdict): the sequential traces against the code-shaped model
    drift, corrupted = [], []
    if val["accepted"]:
        corrupted = selftest(sc, seq[0], tier)
        val2 = V.validate_traces(sc, "Routing", "RoutingTraceMC.tla", "RoutingImplTrace.cfg", impl_files, timeout=2400)
        R.states += val2["states"]
        for fp, line_no, res in val2["rejections"]:
            seg, _ = V.segment_of(fp, line_no)
            drift.append({"line": seg[-1][:300] if seg else "?", "trace_len": len(seg)})
            V.log("impl drift (not a violation): code-shaped model cannot explain", seg[-1][:200] if seg else "?")
    if stuck and not R.violations:
        # a missed deadline is never a verdict: without a recorded violation the check is broken
        raise V.Broken("lifecycle calls did not return (TaskMaster stuck): " + "; ".join(stuck))
    return R.finish("model_checking", ASSUME, {
        "impl_drift": drift, "impl_level_validated": bool(val["accepted"]),
        "selftest_corruptions_rejected": corrupted, "model_configs": MODELS[tier] + ["Routing_nodedup.cfg, Routing_nocleanup.cfg, Routing_stopfirst.cfg, Routing_cachedlookup.cfg (expected counterexamples)"]})


def replay(sc, path):
    seg = os.path.join(path, "segment.ndjson")
    val = V.validate_traces(sc, "Routing", "RoutingTraceMC.tla", "RoutingTrace.cfg", [seg])
    if val["accepted"]:
        print("replay: segment is accepted by the current specification")
        return 0
    print("VIOLATION property=C02 replay=%s" % path)
    return 1
