"""C08 - alert state survives restart: no lost or phantom level after recovery (spec/AlertPersist).

1. AlertPersist.tla is model checked exhaustively (all level histories up to the bound x every crash
   point x {anonymous, named, both topics} x stateChangesOnly, in-process task restarts, service-level
   Collect/CloseTopic/DeleteTopic histories).
2. Driver c08 runs a real AlertNode task on a real alert service with PersistTopics=true over a
   harness-owned Bolt store, copies the store before/after every topic-store commit, restarts a fresh
   service + TaskMaster on every copy, feeds the remaining points again and records both runs.
3. Every recorded two-run history is validated by TLC twice:
     verdict level  AlertPersistVerdict.tla - the property text on API-level observables; a rejection is
                    a VIOLATION, the one recorded deviation prints KF-HIT;
     drift level    AlertPersistTrace.tla - the same history must be a behaviour of the code-shaped model;
                    a rejection the verdict level accepts is reported as impl_drift (exit 0).
"""
import concurrent.futures
import os
import tempfile
import time

import verifylib as V

ASSUME = [
    "a crash loses exactly the in-memory state; Bolt commits are atomic and durable (snapshots are taken through a read transaction before a write transaction begins and after it has committed)",
    "after a restart the data point whose processing had not completed all its commits is fed again (DESIGN.md C08: the reading under which equality with an uninterrupted run is meaningful)",
    "handlers are told = the event was handed to the topic's handler queue before the crash moment (queues are drained at every observation; an event still queued at a real crash would be lost, which only weakens what the handlers were told before)",
    "level conditions are plain per-point predicates, no flapping/noRecoveries/stateChangesOnly(duration); one alert node per task; at most one crash per history on the code side (two in the model)",
    "TLC fingerprint collisions are negligible; the libflux link stub is never executed",
]

MODULE_DIR = "AlertPersist"


def _validate_jobs(sc, jobs, parallel=8, timeout=1500):
    """jobs: [(tag, file, module, cfg)].  One TLC run per job (no re-splitting: the driver already writes
    files of ~25k lines).  Returns {tag: {"accepted", "rejections": [(fp, line, res)], "kf", "states"}}."""
    out = {}

    def one(j):
        tag, fp, module, cfg = j
        return tag, fp, module, cfg, V.run_tlc(sc, MODULE_DIR, module, cfg, workers=1, timeout=timeout,
                                               env_extra={"TRACE_FILE": fp})

    t = time.time()
    with concurrent.futures.ThreadPoolExecutor(max_workers=parallel) as ex:
        for tag, fp, module, cfg, res in ex.map(one, jobs):
            o = out.setdefault(tag, {"rejections": [], "kf": set(), "states": 0, "files": 0})
            o["files"] += 1
            o["states"] += res["distinct"]
            o["kf"].update(res["kf"])
            if res["rejected_at"] is not None:
                o["rejections"].append((fp, res["rejected_at"], res))
            elif res["violated"]:
                o["rejections"].append((fp, None, res))
            elif "Postcondition" in res["out"] and "is false" in res["out"]:
                o["rejections"].append((fp, None, res))
            elif not res.get("completed"):
                raise V.Broken("TLC did not complete on %s/%s:\n%s" % (module, cfg, V._tail(res["out"])))
    for tag, o in sorted(out.items()):
        o["accepted"] = not o["rejections"]
        V.log("trace validation %s (%s): %d file(s), %d spec states, %d rejection(s)" %
              (MODULE_DIR, tag, o["files"], o["states"], len(o["rejections"])))
    V.log("trace validation wall %.1fs" % (time.time() - t))
    return out


VERDICT = ("AlertPersistVerdictMC.tla", "AlertPersistVerdict.cfg")
DRIFT = ("AlertPersistTraceMC.tla", "AlertPersistTrace.cfg")
EMPTY = {"accepted": True, "rejections": [], "kf": set(), "states": 0}


def _trace_start(fp, line_no):
    """1-based line number of the Reset line of the trace containing line_no."""
    lines = open(fp).read().splitlines()
    if line_no is None or line_no > len(lines):
        line_no = len(lines)
    for i in range(line_no - 1, -1, -1):
        if lines[i].startswith('{"ev":"Reset"'):
            return i + 1
    return 1


def _rest_after(sc, fp, line_no):
    """A file holding the traces of fp after the trace that contains line_no (None if there are none)."""
    lines = open(fp).read().splitlines()
    k = line_no if line_no is not None else len(lines)
    while k < len(lines) and not lines[k].startswith('{"ev":"Reset"'):
        k += 1
    if k >= len(lines):
        return None
    fd, p = tempfile.mkstemp(prefix="rest-", suffix=".ndjson", dir=sc.dir)
    with os.fdopen(fd, "w") as f:
        f.write("\n".join(lines[k:]) + "\n")
    return p


def run(sc, tier, seed):
    R = V.Result("C08", tier, seed)
    # 1. design level
    cfg = "AlertPersist_quick.cfg" if tier == "quick" else "AlertPersist_thorough.cfg"
    R.add_model(V.model_check(sc, MODULE_DIR, "AlertPersistMC.tla", cfg, workers=8 if tier == "quick" else 16, timeout=1500))
    # the recorded deviation is a genuine counterexample of the un-weakened property in the model as well
    obs = V.model_check(sc, MODULE_DIR, "AlertPersistMC.tla", "AlertPersist_obs.cfg", workers=4, timeout=600,
                        expect_violation=["StrictFinalStateEq"])
    R.notes["model_counterexample_without_deviation"] = obs["violated"] or "none"
    # 2. real code
    out, meta = V.run_driver(sc, "c08", tier, seed, timeout=2400)
    R.add_meta(meta)
    files = meta["trace_files"]
    # 3. verdict level and drift level, one pool
    jobs = [("verdict", f) + VERDICT for f in files] + [("drift", f) + DRIFT for f in files]
    res = _validate_jobs(sc, jobs, parallel=8 if tier == "quick" else 12)
    val = res.get("verdict", EMPTY)
    R.states += val["states"]
    R.handle_validation(val, what="two-run history violates C08 (verdict level)")
    drift = []
    dstates = 0
    dv = res.get("drift", EMPTY)
    rounds = 0
    while True:
        dstates += dv["states"]
        todo = []
        for fp, line_no, r in dv["rejections"]:
            seg, _ = V.segment_of(fp, line_no)
            drift.append({"file": os.path.basename(fp), "line": line_no, "violated": r.get("violated"),
                          "reset": seg[0][:300] if seg else "", "event": seg[-1][:300] if seg else ""})
            rest = _rest_after(sc, fp, line_no)
            if rest:
                todo.append(rest)
        rounds += 1
        if not todo or rounds >= 3:
            break
        dv = _validate_jobs(sc, [("drift", f) + DRIFT for f in todo]).get("drift", EMPTY)
    R.states += dstates
    # 4. neighbouring behaviour: crash + restart inside the one-time V1 -> V2 topic store migration
    R.add_model(V.model_check(sc, MODULE_DIR, "TopicMigrateMC.tla", "TopicMigrate.cfg", workers=2, timeout=600))
    pre = V.model_check(sc, MODULE_DIR, "TopicMigrateMC.tla", "TopicMigrate_prefix.cfg", workers=2, timeout=600,
                        expect_violation=["Restartable"])
    R.notes["migration_model_counterexample_before_fix_504e8c9"] = pre["violated"] or "none"
    out2, meta2 = V.run_driver(sc, "c08mig", tier, seed, timeout=1200)
    R.add_meta(meta2)
    mv = _validate_jobs(sc, [("migration", f, "TopicMigrateTrace.tla", "TopicMigrateTrace.cfg") for f in meta2["trace_files"]]).get("migration", EMPTY)
    R.states += mv["states"]
    R.handle_validation(mv, what="restart inside the topic store migration loses the alert state or fails (verdict level)")
    # 5. concurrent transactions on the one shared topic store (TopicStoreTx.tla)
    R.add_model(V.model_check(sc, MODULE_DIR, "TopicStoreTxMC.tla", "TopicStoreTx.cfg", workers=2, timeout=600))
    shared = V.model_check(sc, MODULE_DIR, "TopicStoreTxMC.tla", "TopicStoreTx_shared.cfg", workers=2, timeout=600,
                           expect_violation=["ReadOwnTopic", "WriteOwnTopic"])
    R.notes["shared_bucket_slot_model_counterexample"] = shared["violated"] or "none"
    out3, meta3 = V.run_driver(sc, "c08tx", tier, seed, timeout=1200)
    R.add_meta(meta3)
    xv = _validate_jobs(sc, [("transactions", f, "TopicStoreTxTraceMC.tla", "TopicStoreTxTrace.cfg") for f in meta3["trace_files"]]).get("transactions", EMPTY)
    R.states += xv["states"]
    R.handle_validation(xv, what="a transaction on the shared topic store touched another topic's bucket (verdict level)")
    verdict_rejected = bool(val["rejections"])
    if drift:
        for d in drift[:5]:
            V.log("IMPL-DRIFT (code no longer matches the code-shaped model; %s): %s | %s" %
                  ("a verdict-level violation was reported as well" if verdict_rejected else "verdict level accepts, no violation",
                   d["reset"][:160], d["event"][:200]))
    R.notes["impl_drift"] = drift[:20]
    R.notes["impl_drift_count"] = len(drift)
    R.notes["drift_level_complete"] = not todo
    return R.finish("model_checking", ASSUME)


def replay(sc, path):
    """Re-run the history of a saved violation on the real code (every crash point, task restart) and
    validate it again at verdict level."""
    seg = os.path.join(path, "segment.ndjson")
    first = open(seg).readline()
    if '"kind":"tx"' in first or '"kind":"mig"' in first:
        # the transaction / migration drivers are small: re-run them completely
        drv, spec = ("c08tx", ("TopicStoreTxTraceMC.tla", "TopicStoreTxTrace.cfg")) if '"kind":"tx"' in first \
            else ("c08mig", ("TopicMigrateTrace.tla", "TopicMigrateTrace.cfg"))
        out, meta = V.run_driver(sc, drv, "quick", 1, timeout=1200, outname="drv-replay")
        jobs = [("verdict", f) + spec for f in meta["trace_files"]]
    else:
        out, meta = V.run_driver(sc, "c08", "quick", 1, timeout=600, args=["replay=" + seg], outname="drv-replay")
        jobs = [("verdict", f) + VERDICT for f in meta["trace_files"]]
    val = _validate_jobs(sc, jobs, parallel=2).get("verdict", EMPTY)
    kfs = V.known_findings("C08")
    unlisted = [k for k in val["kf"] if k not in kfs]
    if val["accepted"] and not unlisted:
        print("replay: the history no longer violates C08 on this tree (%d restarts re-executed)" % meta["traces"])
        return 0
    for fp, line_no, res in val["rejections"][:3]:
        s, _ = V.segment_of(fp, line_no)
        V.log("rejected: " + (s[0][:200] if s else "?") + " ... " + (s[-1][:300] if s else "?"))
    print("VIOLATION property=C08 replay=%s" % path)
    return 1
