"""C07 - a graceful stop processes everything already accepted, then terminates (spec/Pipeline).

Design level : Pipeline.tla (+Edge.tla) model checked exhaustively (all interleavings of producer, forking
               goroutine, node goroutines, write buffer / handler / reader goroutines, sinks and the stop
               protocol, stop requested in any state, optional node failure); terminal-state check = liveness
               (the state graph is acyclic), plus the temporal properties themselves in the thorough tier.
               The same model with the flags of the ORIGINAL code must still produce the counterexamples that
               were reproduced on the real code (observations, and a guard against a model that went blind).
Binding (B3) : driver c07 forces the stop schedules on real tasks with gates (sink stalled, node not started,
               node parked after its k-th message), several attempts each; every recorded run is validated by
               TLC against PipelineTrace.tla (NoAcceptedLoss at the return of the stop call, StopCompletes,
               AllGoroutinesExit from a goroutine census).
"""
import os

import verifylib as V

ASSUME = [
    "overflow scenarios (ingest side parked in forkPoint -> Collect on the stopped task's full source edge): the points whose Collect had completed when StopTask/DeleteTask was requested must all be processed; of the acknowledged rest the task may still be handed a prefix (the Collect the stop had to wait for), which must then reach every output; a neighbour task on the same db/rp must end up with every acknowledged point",
    "accepted by a task = acknowledged by WritePoints (nil error) AND forked into the task's source edge before the stop; StopTask/DeleteTask stop feeding the task by design (points still in the TaskMaster's ingest edge are not the task's); for TaskMaster.Close / Drain every acknowledged point counts",
    "alert handler buffers (5000 events) never fill: a full buffer is a reported error by design",
    "kapacitorLoopback during daemon shutdown: a write refused with the reported error 'TaskMaster is closed' counts as handed over (not silent)",
    "join drops unmatched points by design: join pipelines are judged for termination and goroutine exit only",
    "goroutine leak / hung stop are decided from goroutine dumps: every goroutine of the module under test parked on a synchronisation object and motionless over 3 consecutive dumps 1 s apart; anything slower than the deadlines is exit 2, never a verdict",
    "edge capacity 1000 is represented by K in {1,2} in the model; the driver uses the real capacity with 5..2400 points in flight",
    "the task store's concurrent caller of ExecutingTask.Wait() is modelled as a Waiter process (1 in the main quick config, 2 in Pipeline_waiters2.cfg) and exercised with 1-2 harness goroutines in et.Wait() and with the real services/task_store over its HTTP handlers",
    "the node.run / edge.emit hooks (build tag verif) only delay or fail a goroutine at a point where the Go scheduler could have delayed it / the node could have returned an error",
    "UDF nodes are exercised with an in-process mirror agent over pipes (real UDFNode, udf.Server and Go agent; no external process); batch tasks are not covered",
    "TLC fingerprint collisions are negligible; the libflux link stub is never executed",
]

# model of the code as it was before the repairs: each must still yield its counterexample
ORIGINAL = [
    ("Pipeline_orig_influx.cfg", "NoAcceptedLoss", "influxDBOut.stopOut (flush; abort) ran before the node had drained its input"),
    ("Pipeline_orig_reader.cfg", "Deadlock reached", "multiConsumer readers blocked for ever after Consume returned an error"),
    ("Pipeline_orig_alertlock.cfg", "Deadlock reached", "alert node start needs tm.mu while StopTask holds it"),
    ("Pipeline_orig_alerterr.cfg", "Deadlock reached", "failed alert node left its handler goroutines behind"),
    ("Pipeline_loop.cfg", "Deadlock reached", "KNOWN FINDING loopback-stop-deadlock (not repaired)"),
    ("Pipeline_udf.cfg", "NoAcceptedLoss", "stopUDF aborted the UDF (and whatever it held) on every graceful stop"),
    ("Pipeline_forknolock.cfg", "NoCollectOnClosed", "a forkPoint that collects without tm.mu.RLock (seeded C07-r3m1): delFork closes the source edge under the forking goroutine"),
    ("Pipeline_waitnomu.cfg", "Deadlock reached", "a node.Wait that does not hold finishedMu across the receive (seeded C07-r2m1): stop and waiter both receive from the one-shot errCh"),
]


def run(sc, tier, seed):
    R = V.Result("C07", tier, seed)
    V.build_harness("c07")
    # ---- design level
    if tier == "quick":
        cfgs = ["Pipeline_quick.cfg", "Pipeline_waiters2.cfg", "Pipeline_loopclose.cfg"]   # K=2: Pipeline_quick_k2.cfg by hand, thorough tier has K=2 with 4 and 5 points
    else:
        cfgs = ["Pipeline_thorough.cfg", "Pipeline_thorough_k2.cfg", "Pipeline_thorough_buf.cfg", "Pipeline_thorough_p5.cfg", "Pipeline_waiters2.cfg", "Pipeline_loopclose.cfg"]
    per_cfg = {}
    for cfg in cfgs:
        res = V.model_check(sc, "Pipeline", "PipelineMC.tla", cfg, timeout=2400)
        R.add_model(res)
        per_cfg[cfg] = {"distinct": res["distinct"], "generated": res["states"], "wall_s": round(res["wall"], 1)}
    observed = {}
    originals = ORIGINAL if tier != "quick" else [o for o in ORIGINAL if o[0] in ("Pipeline_orig_influx.cfg", "Pipeline_loop.cfg", "Pipeline_waitnomu.cfg", "Pipeline_forknolock.cfg")]
    for cfg, want, what in originals:
        res = V.model_check(sc, "Pipeline", "PipelineMC.tla", cfg, workers=4, timeout=600, expect_violation=[want])
        if res["violated"] != want:
            raise V.Broken("model %s no longer produces the counterexample %s (%s): the specification went blind" % (cfg, want, what))
        observed[cfg] = want
    # ---- B3: gate-forced stop schedules on the real code, validated run by run
    out, meta = V.run_driver(sc, "c07", tier, seed, timeout=3000)
    R.add_meta(meta)
    val = V.validate_traces(sc, "Pipeline", "PipelineTraceMC.tla", "PipelineTrace.cfg", meta["trace_files"], parallel=3)
    R.states += val["states"]
    R.handle_validation(val, what="recorded stop of a real task violates C07 (loss at stop return / stop never returns / goroutines left)")
    _keep_dumps(R, out)
    return R.finish("model_checking", ASSUME, extra_cov={"model_configs": per_cfg, "original_code_counterexamples": observed})


def _keep_dumps(R, out):
    """Copy the goroutine dumps of anomalies next to the replay dirs of this run (debugging aid)."""
    if not R.violations:
        return
    dumps = [f for f in os.listdir(out) if f.startswith("dump-")]
    for _, d in R.violations[:3]:
        for f in dumps:
            try:
                with open(os.path.join(out, f)) as src, open(os.path.join(d, f), "w") as dst:
                    dst.write(src.read())
            except OSError:
                pass


def replay(sc, path):
    seg = os.path.join(path, "segment.ndjson")
    val = V.validate_traces(sc, "Pipeline", "PipelineTraceMC.tla", "PipelineTrace.cfg", [seg])
    if val["accepted"]:
        print("replay: segment is accepted by the current specification")
        return 0
    print("VIOLATION property=C07 replay=%s" % path)
    return 1
