"""C09 - topic state and handler delivery (spec/Topics)."""
import verifylib as V

ASSUME = [
    "handler buffers (>=1000 events) never fill in the explored histories; a full buffer returns an error to the collector by design",
    "nested Collect of a publish handler is modelled as one atomic step (hides only cross-collector ordering on the target topic, which C09 does not constrain)",
    "aggregate handlers are timer driven: the driver waits (up to 10 s) until the summaries account for every event, TLC chooses the grouping; events still buffered when an aggregate handler is removed are not examined",
    "TLC fingerprint collisions are negligible; the libflux link stub is never executed",
]


def run(sc, tier, seed):
    R = V.Result("C09", tier, seed)
    V.build_harness()
    # design level: every interleaving of two publishers, handler steps and registration churn
    cfg = "Topics_quick.cfg" if tier == "quick" else "Topics_thorough.cfg"
    R.add_model(V.model_check(sc, "Topics", "TopicsMC.tla", cfg, timeout=1500))
    # B1: systematic + random histories on the real alert service, validated line by line
    out, meta = V.run_driver(sc, "c09", tier, seed)
    R.add_meta(meta)
    val = V.validate_traces(sc, "Topics", "TopicsTraceMC.tla", "TopicsTrace.cfg", meta["trace_files"])
    R.states += val["states"]
    R.handle_validation(val)
    # B3: two concurrent publishers stepped through gate-forced interleavings
    out2, meta2 = V.run_driver(sc, "c09conc", tier, seed)
    R.add_meta(meta2)
    val2 = V.validate_traces(sc, "Topics", "TopicsTraceMC.tla", "TopicsConcTrace.cfg", meta2["trace_files"])
    R.states += val2["states"]
    R.handle_validation(val2)
    # B3: moments that need a gate: backlog at handler update/removal; first collects on a missing topic
    out3, meta3 = V.run_driver(sc, "c09race", tier, seed)
    R.add_meta(meta3)
    val3 = V.validate_traces(sc, "Topics", "TopicsTraceMC.tla", "TopicsTrace.cfg", meta3["trace_files"])
    R.states += val3["states"]
    R.handle_validation(val3)
    # free-running publisher rounds (no gates): TLC searches for an explaining interleaving
    out5, meta5 = V.run_driver(sc, "c09free", tier, seed)
    R.add_meta(meta5)
    val5 = V.validate_traces(sc, "Topics", "TopicsTraceMC.tla", "TopicsFreeTrace.cfg", meta5["trace_files"])
    R.states += val5["states"]
    R.handle_validation(val5)
    # handler registry across rename / CloseTopic / restore on a persisting service
    out6, meta6 = V.run_driver(sc, "c09restore", tier, seed)
    R.add_meta(meta6)
    val6 = V.validate_traces(sc, "Topics", "TopicsTraceMC.tla", "TopicsTrace.cfg", meta6["trace_files"], parallel=2)
    R.states += val6["states"]
    R.handle_validation(val6)
    # aggregate handlers: design level (AggTick) and timer-driven real runs; TLC chooses the grouping
    R.add_model(V.model_check(sc, "Topics", "TopicsMC.tla", "Topics_agg.cfg", workers=8, timeout=1500))
    out4, meta4 = V.run_driver(sc, "c09agg", tier, seed)
    R.add_meta(meta4)
    val4 = V.validate_traces(sc, "Topics", "TopicsTraceMC.tla", "TopicsAggTrace.cfg", meta4["trace_files"], parallel=4)
    R.states += val4["states"]
    R.handle_validation(val4)
    # a publish handler with two target topics on a persisting service whose store refuses writes for a while
    out9, meta9 = V.run_driver(sc, "c09full", tier, seed, timeout=600)
    R.add_meta(meta9)
    val9 = V.validate_traces(sc, "Topics", "TopicsTraceMC.tla", "TopicsFullTrace.cfg", meta9["trace_files"], parallel=2)
    R.states += val9["states"]
    R.handle_validation(val9)
    return R.finish("model_checking", ASSUME)


def replay(sc, path):
    import os
    seg = os.path.join(path, "segment.ndjson")
    text = open(seg).read()
    # the configuration the segment was recorded under: gate-stepped publishers, free-running publishers, aggregate
    # handler, three topics - else the plain one
    if '"ev":"Upd"' in text or '"ev":"Enq"' in text:
        cfg = "TopicsConcTrace.cfg"
    elif '"ev":"Start"' in text:
        cfg = "TopicsFullTrace.cfg" if '"t3"' in text else "TopicsFreeTrace.cfg"
    elif '"kind":"agg"' in text:
        cfg = "TopicsAggTrace.cfg"
    elif '"t3"' in text:
        cfg = "TopicsFullTrace.cfg"
    else:
        cfg = "TopicsTrace.cfg"
    val = V.validate_traces(sc, "Topics", "TopicsTraceMC.tla", cfg, [seg])
    if val["accepted"]:
        print("replay: segment is accepted by the current specification")
        return 0
    print("VIOLATION property=C09 replay=%s" % path)
    return 1
