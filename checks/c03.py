"""C03 - a window holds exactly the points of its period, emitted on schedule (spec/Window).

1. design level: WindowTime (abstract window, two interleaved groups), WindowRing (the code's ring buffer in
   lock step with it: RingRefinesSeq/RingEmitsBuf), WindowCount - exhaustive TLC within small bounds; the ring as
   it was before the fix must still produce its counterexample (the model can tell the difference);
2. transition cover: TLC computes, per ring branch, a short input reaching it (WindowRing_cover.cfg);
3. binding: driver c03 runs the cover inputs, ALL short timestamp sequences and seeded random long ones through
   real tasks (from|window|log) and TLC validates every group's trace against WindowTrace / WindowCountTrace.
"""
import concurrent.futures
import json
import math
import os
import re

import verifylib as V

ASSUME = [
    "per group timestamps do not decrease (the property's quantifier); times are whole seconds on an epoch that is a multiple of every 'every' used, so Go's Truncate agrees with integer arithmetic (nanosecond rounding is not covered)",
    "outputs are observed at a log() sink directly below the window and attributed to the triggering point by content; the task is stopped after the stream source has taken every written point off its input (StopTask then drains every node)",
    "fillPeriod is required to delay the first batch to a full period for every period/every combination (property text and the code at HEAD); the documentation sentence 'only applies if the period is greater than the every value' is not accepted as a licence for a partial first window",
    "group deletion is driven through the real barrier node (idle 1s, delete): the driver works in phases and awaits the deletion of every group through the window node's working_cardinality; a phase that needed more than 0.7 s to pass the barrier node is discarded and repeated (timing decides conclusive/inconclusive only, never a verdict); periodic barriers, barriers without delete and out-of-order points within one life of a group are not driven",
    "TLC fingerprint collisions are negligible; the libflux link stub is never executed",
]

BRANCHES = ["grow_empty", "grow_contig", "grow_wrapped", "wrap", "wrap_after_drain", "append", "overwrite",
            "purge_nil", "purge_contig", "purge_tail_valid", "purge_tail_expired",
            "purge_start_eq_len", "purge_guard_decides", "purge_tail_stale", "purge_drain", "purge_drain_at_end", "purge_none"]

_RE_HITS = re.compile(r'"RING-HITS",\s*<<([\d,\s]*)>>', re.S)
_RE_DRIFT = re.compile(r'"RING-DRIFT at line", (\d+)')
PART_LINES = 45000
# Many TLC processes run side by side: cap every JVM (the default max heap is a quarter of the machine's RAM and the
# parallel collector lets it fill up before collecting; 16 trace validators would take ~70 GB between them).
JVM_SMALL = {"JAVA_TOOL_OPTIONS": "-Xmx1g -XX:ParallelGCThreads=2"}        # a 50k-line trace part validates in < 1 GB
JVM_MODEL_QUICK = {"JAVA_TOOL_OPTIONS": "-Xmx3g -XX:ParallelGCThreads=4"}
JVM_MODEL = {"JAVA_TOOL_OPTIONS": "-Xmx8g -XX:ParallelGCThreads=4"}


def transition_cover(sc):
    """Per ring branch: a breadth-first (short) input reaching it, from TLC's counterexample to CoverNotHit."""
    out_dir = sc.sub("cover")

    def one(b):
        path = os.path.join(out_dir, b + ".json")
        res = V.run_tlc(sc, "Window", "WindowRingMC.tla", "WindowRing_cover.cfg", workers=2, timeout=900,
                        env_extra=dict(JVM_SMALL, C03_COVER=b), extra_args=["-dumpTrace", "json", path])
        if res["violated"] != "CoverNotHit":
            if res["violated"]:
                raise V.Broken("cover run for %s violated %s" % (b, res["violated"]))
            return b, None, res
        j = json.load(open(path))
        steps = j["counterexample"]["action"]
        if not steps:
            raise V.Broken("cover run for %s: empty counterexample" % b)
        cfg = steps[0][0][1]["cfg"]
        times = []
        for pre, _act, post in steps:
            g = sorted(post[1]["recv"])[0]
            times.append(post[1]["recv"][g][-1][0])
        if b not in steps[-1][2][1]["hit"][sorted(steps[-1][2][1]["hit"])[0]]:
            raise V.Broken("cover run for %s: final state does not hit it" % b)
        return b, {"branch": b, "period": cfg["period"], "every": cfg["every"], "align": cfg["align"],
                   "fill": cfg["fill"], "times": times}, res

    items, unreachable, states, generated = [], [], 0, 0
    with concurrent.futures.ThreadPoolExecutor(max_workers=8) as ex:
        for b, item, res in ex.map(one, BRANCHES):
            states += res["distinct"]
            generated += res["states"]
            if item is None:
                unreachable.append(b)
            else:
                items.append(item)
    V.log("transition cover: %d branches with an input, unreachable within the bound: %s" % (len(items), unreachable))
    path = os.path.join(out_dir, "cover.json")
    json.dump(items, open(path, "w"))
    return path, items, unreachable, states, generated


def split_by_lines(path, sc):
    n = sum(1 for _ in open(path))
    if n == 0:
        return []
    return V.split_trace(path, max(1, math.ceil(n / PART_LINES)), sc)


def validate(sc, jobs, timeout=3000, parallel=8):
    """Like V.validate_traces for several (tag, module, cfg, files) jobs sharing one pool of TLC processes;
    also collects the ring branch counters and drift reports printed by WindowTrace.  Returns {tag: result}."""
    import time
    work, out = [], {}
    for tag, module, cfg, files in jobs:
        out[tag] = {"accepted": True, "rejections": [], "kf": set(), "states": 0, "generated": 0, "parts": 0,
                    "hits": dict.fromkeys(BRANCHES, 0), "drift": []}
        for f in files:
            for part in split_by_lines(f, sc):
                work.append((tag, module, cfg, part))
                out[tag]["parts"] += 1

    stop = {"set": False, "skipped": 0}

    def one(w):
        tag, module, cfg, fp = w
        if stop["set"]:
            # a rejection is already in hand: the verdict cannot change, do not burn the machine on the rest
            stop["skipped"] += 1
            return w, None
        res = V.run_tlc(sc, "Window", module, cfg, workers=1, timeout=timeout,
                        env_extra=dict(JVM_SMALL, TRACE_FILE=fp))
        if res["rejected_at"] is not None or res["violated"] or ("Postcondition" in res["out"] and "is false" in res["out"]):
            stop["set"] = True
        return w, res

    t = time.time()
    with concurrent.futures.ThreadPoolExecutor(max_workers=parallel) as ex:
        for (tag, module, cfg, fp), res in ex.map(one, work):
            if res is None:
                continue
            o = out[tag]
            o["states"] += res["distinct"]
            o["generated"] += res["states"]
            o["kf"].update(res["kf"])
            m = _RE_HITS.search(res["out"])
            if m:
                nums = [int(x) for x in re.findall(r"\d+", m.group(1))]
                if len(nums) == len(BRANCHES):
                    for b, k in zip(BRANCHES, nums):
                        o["hits"][b] += k
            for d in _RE_DRIFT.findall(res["out"]):
                o["drift"].append("%s:%s" % (os.path.basename(fp), d))
            if res["rejected_at"] is not None:
                o["rejections"].append((fp, res["rejected_at"], res))
            elif res["violated"]:
                o["rejections"].append((fp, None, res))
            elif "Postcondition" in res["out"] and "is false" in res["out"]:
                o["rejections"].append((fp, None, res))
    if stop["skipped"]:
        V.log("trace validation: stopped after the first rejection, %d part(s) not validated" % stop["skipped"])
    for tag, o in out.items():
        o["accepted"] = not o["rejections"]
        V.log("trace validation %s: %d part(s), %d spec states, %d rejection(s), %d drift report(s)" %
              (tag, o["parts"], o["states"], len(o["rejections"]), len(o["drift"])))
    V.log("trace validation took %.1fs" % (time.time() - t))
    return out


def run(sc, tier, seed):
    R = V.Result("C03", tier, seed)
    V.build_harness("c03")
    extra = {}
    # ---- design level (runs in the background while the real code is driven)
    q = tier == "quick"
    models = [("WindowTimeMC.tla", "WindowTime_quick.cfg" if q else "WindowTime_thorough.cfg"),
              ("WindowRingMC.tla", "WindowRing_quick.cfg" if q else "WindowRing_thorough.cfg"),
              ("WindowCountMC.tla", "WindowCount_quick.cfg" if q else "WindowCount_thorough.cfg")]
    # barrier messages, group deletion and come-back (bound to the real node through the Quiet lines of the traces)
    models.append(("WindowBarrierMC.tla", "WindowBarrier_quick.cfg" if q else "WindowBarrier_thorough.cfg"))
    if not q:
        models.append(("WindowRingMC.tla", "WindowRing_deep.cfg"))

    def design_level():
        per_model, results = {}, []
        for mod, cfg in models:
            res = V.run_tlc(sc, "Window", mod, cfg, workers=8 if q else 16, timeout=2400,
                            env_extra=JVM_MODEL_QUICK if q else JVM_MODEL)
            if res["violated"]:
                # a counterexample in the model alone is not a verdict about the code (DESIGN 2.2)
                raise V.Broken("model Window/%s violates %s - the specification itself is inconsistent:\n%s" %
                               (cfg, res["violated"], "\n".join(res["out"].splitlines()[-60:])))
            V.log("model Window/%s: %d states, %d distinct, %.1fs" % (cfg, res["states"], res["distinct"], res["wall"]))
            results.append(res)
            per_model[cfg] = {"states": res["distinct"], "transitions": res["states"], "wall_s": round(res["wall"], 1)}
        # the ring before the fix: the model must still find the drain-then-wrap counterexample
        pre = V.run_tlc(sc, "Window", "WindowRingMC.tla", "WindowRing_prefix.cfg", workers=8, timeout=900, env_extra=JVM_MODEL_QUICK)
        if pre["violated"] not in ("RingRefinesSeq", "RingEmitsBuf"):
            raise V.Broken("the ring model without the purge guard no longer yields the drain-then-wrap counterexample "
                           "(got %r): the specification lost its ability to tell the two apart" % pre["violated"])
        per_model["WindowRing_prefix.cfg"] = {"expected_counterexample": pre["violated"], "states": pre["distinct"]}
        return per_model, results

    bg = concurrent.futures.ThreadPoolExecutor(max_workers=1)
    fut = bg.submit(design_level)
    try:
        # ---- transition cover from the ring state graph
        cover_path, items, unreachable, cstates, cgen = transition_cover(sc)
        R.states += cstates
        R.transitions += cgen
        # ---- binding: real tasks, every group's trace validated
        out, meta = V.run_driver(sc, "c03", tier, seed, args=[cover_path], timeout=3000)
        R.add_meta(meta)
        tf = meta["trace_files"]
        cover_files = [f for f in tf if os.path.basename(f) == "time_cover.ndjson"]
        time_files = [f for f in tf if os.path.basename(f).startswith("time_") and f not in cover_files]
        count_files = [f for f in tf if os.path.basename(f).startswith("count_")]
        # the count traces are few: one file, one TLC process
        merged = os.path.join(out, "count_all.ndjson")
        with open(merged, "w") as mf:
            for f in sorted(count_files):
                mf.write(open(f).read())
        count_files = [merged]
        val = validate(sc, [("cover inputs", "WindowTraceMC.tla", "WindowTrace.cfg", cover_files),
                            ("time windows", "WindowTraceMC.tla", "WindowTrace.cfg", time_files),
                            ("count windows", "WindowCountTraceMC.tla", "WindowCountTrace.cfg", count_files)],
                       parallel=8 if q else 12)
        vc, vt, vn = val["cover inputs"], val["time windows"], val["count windows"]
        for v in (vc, vt, vn):
            R.states += v["states"]
            R.transitions += v["generated"]
            R.handle_validation(v)
        per_model, results = fut.result()      # re-raises V.Broken from the model runs
    finally:
        bg.shutdown(wait=True)
    for res in results:
        R.add_model(res)
    extra["models"] = per_model
    extra["ring_branch_hits_cover_inputs"] = vc["hits"]
    extra["ring_branch_hits_all_validated_traces"] = {b: vc["hits"][b] + vt["hits"][b] for b in BRANCHES}
    extra["ring_branches_unreachable_within_cover_bound"] = unreachable
    extra["ring_branches_never_hit"] = [b for b in BRANCHES if vc["hits"][b] + vt["hits"][b] == 0]
    extra["transition_cover"] = items
    extra["impl_drift"] = (vc["drift"] + vt["drift"])[:20]
    # A cover input whose branch the ring MODEL did not take while validating what the real code did is drift
    # information (the inputs ran and were judged at verdict level), never a broken check.
    missing = [it["branch"] for it in items if vc["hits"][it["branch"]] == 0] if vc["accepted"] else []
    extra["cover_branches_not_taken_by_ring_model"] = missing
    extra["cover_inputs_accepted"] = bool(vc["accepted"])
    if missing:
        V.log("drift: the ring model did not take %s while validating the cover inputs" % missing)
    return R.finish("model_checking", ASSUME, extra_cov=extra)


def replay(sc, path):
    seg = os.path.join(path, "segment.ndjson")
    first = open(seg).readline()
    count = '"use_align"' not in first
    if count:
        val = validate(sc, [("replay", "WindowCountTraceMC.tla", "WindowCountTrace.cfg", [seg])])
    else:
        val = validate(sc, [("replay", "WindowTraceMC.tla", "WindowTrace.cfg", [seg])])
    if val["replay"]["accepted"]:
        print("replay: segment is accepted by the current specification")
        return 0
    print("VIOLATION property=C03 replay=%s" % path)
    return 1
