"""C15 - indexed key/value store consistency (spec/IndexedStore)."""
import json
import os

import verifylib as V

ASSUME = [
    "index values and IDs are drawn from {x,y} (unique secondary index: id+a, empty for one object) and {\"\",a,ab,b,.,..}: byte order of the real keys equals segment-wise order for these (checked per run by the raw key dump comparison); values containing '/' or bytes below '/' are not explored",
    "a history's state is carried only by the Bolt file: tree edges restore the file content of the parent node and reopen the store (IndexedStore keeps no state in memory); random histories run on one open handle as a cross-check",
    "injected failures are errors returned by tx.Put/tx.Delete (k-th write of a transaction) or by tx.Commit (which rolls back itself, as bbolt does), and panics of the update function after k writes recovered by the caller; process crashes inside a Bolt commit are Bolt's own guarantee and are not exercised",
    "path.Match is trusted; the specification's match table is compared with the table Go computes in every run",
    "TLC fingerprint collisions are negligible; the libflux link stub is never executed",
]

SPEC = "IndexedStore"


def _minimal_segment(fp, line_no):
    """Reset + the chain of operations / transactions that produced the pre-state of the offending line + that
    line (with the lines of its own transaction, if it is inside one)."""
    lines = open(fp).read().splitlines()
    if line_no is None or line_no > len(lines):
        return V.segment_of(fp, line_no)
    try:
        evs = {}

        def ev(i):
            if i not in evs:
                evs[i] = json.loads(lines[i])
            return evs[i]

        def tx_start(i):      # index of the TxBegin line of the transaction line i belongs to
            while ev(i).get("ev") != "TxBegin":
                i -= 1
            return i

        last = line_no - 1
        if ev(last).get("ev") == "Reset":
            return [lines[last]], []
        chain = []            # list of (start, end) index ranges, newest first
        if ev(last).get("ev") in ("TxOp", "TxEnd", "TxBegin"):
            b = tx_start(last)
            chain.append((b, last))
            need, i = ev(b)["pre"], b - 1
        else:
            chain.append((last, last))
            need, i = ev(last).get("pre", ev(last).get("at")), last - 1
        reset = None
        while i >= 0:
            if lines[i].startswith('{"ev":"Reset"'):
                reset = i
                break
            e = ev(i)
            if e.get("ev") == "Op" and e.get("post") == need:
                chain.append((i, i))
                need = e["pre"]
            elif e.get("ev") == "TxEnd" and e.get("post") == need:
                b = tx_start(i)
                chain.append((b, i))
                need = ev(b)["pre"]
                i = b
            i -= 1
        if reset is None:
            return V.segment_of(fp, line_no)
        seg = [lines[reset]]
        for a, b in chain[::-1]:
            seg += lines[a:b + 1]
        return seg, []
    except Exception:
        return V.segment_of(fp, line_no)


def _handle(R, val, what):
    kfs = V.known_findings(R.prop)
    for key in val["kf"]:
        if key in kfs:
            R.kf_hits[key] = kfs[key]
        else:
            d = V.save_replay(R.prop, "deviation %s taken but not listed in KNOWN_FINDINGS.txt" % key, [], [], None)
            R.violations.append(("unlisted deviation " + key, d))
    segs = sorted(((_minimal_segment(fp, line_no), res) for fp, line_no, res in val["rejections"]), key=lambda x: len(x[0][0]))
    for (seg, rest), res in segs[:5]:      # shortest histories first
        d = V.save_replay(R.prop, what, seg, rest, res,
                          extra="segment.ndjson is minimised: the Reset line, the chain of operations leading to the pre-state, and the rejected line (last).")
        last = json.loads(seg[-1]) if seg else {}
        brief = {k: last.get(k) for k in ("op", "id", "a", "v", "failAt", "fired", "res", "pre", "post")}
        hist = []
        for x in seg[1:]:
            e = json.loads(x)
            if e.get("ev") == "TxBegin":
                hist.append("tx[")
            elif e.get("ev") == "TxEnd":
                hist.append("]%s=%s" % ("abort" if e.get("abort") else "", e.get("res")))
            else:
                hist.append("%s(%s,%s)=%s" % (e.get("op"), e.get("id"), e.get("a"), e.get("res")))
        brief = {k: v for k, v in brief.items() if v is not None}
        brief["ev"] = last.get("ev")
        R.violations.append(("%s: history %s, rejected line %s" % (what, " ".join(hist), brief), d))


def _validate(sc, files, cfg, tier="quick"):
    """Like V.validate_traces but one TLC per trace file (the driver already balances 16+4 files; splitting
    them further only multiplies JVM start-ups) and with the JVM's GC threads capped: the machine is shared."""
    import concurrent.futures
    import time
    # memory budget: quick 6 x 1g (trace files ~2 MB each), thorough 8 x 2g (~10 MB each)
    parallel, heap = (6, "1g") if tier == "quick" else (8, "2g")
    jopts = {"JAVA_TOOL_OPTIONS": "-Xmx%s -XX:ParallelGCThreads=2" % heap}
    rej, kf, states = [], set(), 0

    def one(fp):
        ee = {"TRACE_FILE": fp}
        ee.update(jopts)
        return fp, V.run_tlc(sc, SPEC, "IndexedStoreTraceMC.tla", cfg, workers=1, timeout=2400, env_extra=ee)

    t = time.time()
    files = sorted(files, key=os.path.getsize, reverse=True)
    with concurrent.futures.ThreadPoolExecutor(max_workers=parallel) as ex:
        for fp, res in ex.map(one, files):
            states += res["distinct"]
            kf.update(res["kf"])
            if res["rejected_at"] is not None:
                rej.append((fp, res["rejected_at"], res))
            elif res["violated"] or ("Postcondition" in res["out"] and "is false" in res["out"]):
                rej.append((fp, None, res))
    V.log("trace validation %s/%s: %d file(s), %d spec states, %d rejection(s), %.1fs" % (SPEC, cfg, len(files), states, len(rej), time.time() - t))
    return {"accepted": not rej, "rejections": rej, "kf": kf, "states": states}


def _expect_counterexample(sc, R, cfg, inv):
    res = V.run_tlc(sc, SPEC, "IndexedStoreMC.tla", cfg, workers=1, timeout=600)
    if res["violated"] != inv:
        raise V.Broken("model %s: expected a counterexample to %s for the pinned code variant, got %r (invariant vacuous?)"
                       % (cfg, inv, res["violated"]))
    V.log("model %s: counterexample to %s as expected for the defective code variant (%d states)" % (cfg, inv, res["distinct"]))
    return res["distinct"]


def run(sc, tier, seed):
    R = V.Result("C15", tier, seed)
    # design level: Impl => Ref and the invariants over every reachable store content
    # (single-operation transactions over more IDs / payloads; multi-operation transactions - MaxTxOps 2 and 3 -
    # over fewer, with TxSeesOwnWrites evaluated between the operations of a transaction)
    cfgs = (["IndexedStore_quick.cfg", "IndexedStore_tx_quick.cfg"] if tier == "quick" else
            ["IndexedStore_thorough.cfg", "IndexedStore_ids5_thorough.cfg", "IndexedStore_tx_thorough.cfg", "IndexedStore_tx3_thorough.cfg"])
    for cfg in cfgs:
        R.add_model(V.model_check(sc, SPEC, "IndexedStoreMC.tla", cfg, workers=8, timeout=1500))
    # the same model with the two pre-fix code variants must violate the invariants (non-vacuity)
    pinned = {
        "path.Join index keys (JoinCollapse)": _expect_counterexample(sc, R, "IndexedStore_pinned_join.cfg", "Bijection"),
        "limit<0 ignores pattern/offset (NoLimitRaw)": _expect_counterexample(sc, R, "IndexedStore_pinned_nolimit.cfg", "ListIsSlice"),
        "a panicking update function is committed (PanicCommits)": _expect_counterexample(sc, R, "IndexedStore_pinned_panic.cfg", "FailedOpLeavesNoTrace"),
    }
    # B1: history trees + random histories on the real store
    out, meta = V.run_driver(sc, "c15", tier, seed, timeout=2400)
    R.add_meta(meta)
    # samples: the scripted sample history and the start of the first tree, without the bulky grids
    def slim(ev):
        ev = {k: v for k, v in ev.items() if k not in ("grid", "gridb", "glob")}
        if len(ev.get("full") or []) > 8:
            ev["full"] = "<%d list results>" % len(ev["full"])
        return ev
    R.samples = [[slim(ev) for ev in s[:8]] for s in R.samples[:2]]
    files = [f for f in meta["trace_files"] if os.path.getsize(f) > 0]
    # One pass validates both levels at once (CheckImpl = TRUE: Ref observations AND the code-shaped layer:
    # write counts, FailAt effect, raw key dump, Impl invariants).  Only a file it rejects is re-validated at
    # verdict level alone: rejected there -> violation; accepted there -> the code drifted from the Impl model.
    both = _validate(sc, files, "IndexedStoreTraceImpl.cfg", tier)
    R.states += both["states"]
    drift = []
    if not both["accepted"]:
        bad = [fp for fp, _, _ in both["rejections"]]
        val = _validate(sc, bad, "IndexedStoreTrace.cfg", tier)
        _handle(R, val, "observations of the real IndexedStore are not those the operation history promises")
        verdict_bad = set(fp for fp, _, _ in val["rejections"])
        for fp, line_no, res in both["rejections"]:
            if fp in verdict_bad:
                continue
            seg, _ = _minimal_segment(fp, line_no)
            drift.append({"file": os.path.basename(fp), "line": line_no, "event": (seg[-1][:600] if seg else "?"),
                          "invariant": res.get("violated")})
        if drift:
            V.log("impl drift (not a verdict): %d trace file(s) no longer match the code-shaped model, first: %s" % (len(drift), drift[0]["event"][:300]))
    else:
        _handle(R, both, "")
    extra = {"impl_drift": drift[:5], "impl_drift_count": len(drift), "drift_level_validated": True,
             "pinned_variant_counterexamples": pinned}
    return R.finish("model_checking", ASSUME, extra_cov=extra)


def replay(sc, path):
    seg = os.path.join(path, "segment.ndjson")
    val = _validate(sc, [seg], "IndexedStoreTrace.cfg")
    if val["accepted"]:
        print("replay: segment is accepted by the current specification")
        return 0
    print("VIOLATION property=C15 replay=%s" % path)
    return 1
