"""C13 - formatting / re-serialising a TICKscript never changes the task it defines (partial; spec/TickExpr)."""
import os
import verifylib as V

ASSUME = [
    "partial claim (DESIGN.md C13/§6): a round-trip law over a grammar. The specification owns the expression kernel (token classes, precedence climbing, Parens flag, formatter, JSON form of binary/unary/function/literal nodes): TLC decides the laws for every tree of depth <= 3 over one operator per precedence class, and every parser-producible tree of that set is also run as text through the real code and compared with the model's parser and printer. Everything else (statements, literal spellings, comments, layout, node kinds and properties, pipeline/tick, pipeline JSON) is enumeration with the round-trip law itself as oracle, compared literally by TLC on canonical trees and digests",
    "statement-level scripts are generated from the node kinds, chaining/property methods and argument types that reflection (with tick.ReflectionDescriber's own rules, minus members marked tick:ignore) finds in the pipeline package of the tree under test; only scripts the real CreatePipeline accepts count; the scope is TaskMaster.CreateTICKScope plus three fake UDFs",
    "pipelines are compared by DOT, by a reflective dump of every exported node field (lambdas as canonical trees with negative literals folded, regexes by pattern) and by pipeline JSON; across pipeline/tick and pipeline JSON up to renaming of nodes and order of children",
    "deviations of pipeline/tick and of the pipeline JSON form are catalogued by exact signature (spec/TickExpr/TickExprKnown.tla, 8 known-finding keys); a signature that is not catalogued is a violation. The catalogue was built from seeds 1..12 of the quick tier and seed 1 of the thorough tier: another seed can reach a member/argument-class combination with a further, real, not yet catalogued deviation of these two unreferenced packages",
    "the API histories trust the driver's bookkeeping of which request the server accepted (HTTP 200) for the script in force; tickfmt is built with `go build ./tick/cmd/tickfmt` from the tree under test and run as root (file modes cannot be exercised)",
    "formatting 'stable after at most one further pass' is the alarm condition (Format^3 = Format^2); immediate stability is reported as an observation only (multi-line layout can move once)",
    "TLC fingerprint collisions are negligible; the libflux link stub is never executed",
]


def run(sc, tier, seed):
    R = V.Result("C13", tier, seed)
    # design level: Parse(Format(t)) = t, Unmarshal(Marshal(t)) = t, FormatIdempotentAfterOne, ... for all trees
    cfg = "TickExpr_quick.cfg" if tier == "quick" else "TickExpr_thorough.cfg"
    R.add_model(V.model_check(sc, "TickExpr", "TickExprMC.tla", cfg, workers=4 if tier == "quick" else 8, timeout=1500))
    # token values with line ends / control characters inside and look-alike strings ('1m' vs 1m): byte for byte, kind kept
    R.add_model(V.model_check(sc, "TickExpr", "TickExprMC.tla", "TickExpr_ctl.cfg", workers=2, timeout=600))
    # observations: the two original behaviours (repaired in /repo, see KNOWN_FINDINGS.txt) are the expected counterexamples
    V.model_check(sc, "TickExpr", "TickExprMC.tla", "TickExpr_orig_json.cfg", workers=2, timeout=600,
                  expect_violation={"JsonIdentity"})
    V.model_check(sc, "TickExpr", "TickExprMC.tla", "TickExpr_orig_parens.cfg", workers=2, timeout=600,
                  expect_violation={"JsonThenFormatSameExpr"})
    # B1: the same trees as text + grammar-generated scripts through the real code, validated line by line
    out, meta = V.run_driver(sc, "c13", tier, seed, timeout=1700)
    R.add_meta(meta)
    val = V.validate_traces(sc, "TickExpr", "TickExprTrace.tla", "TickExprTrace.cfg", meta["trace_files"],
                            parallel=6 if tier == "quick" else 10, timeout=1500)
    R.states += val["states"]
    R.handle_validation(val, "the formatted / re-serialised script or expression is not the one that went in")
    return R.finish("exploration", ASSUME)


def replay(sc, path):
    seg = os.path.join(path, "segment.ndjson")
    val = V.validate_traces(sc, "TickExpr", "TickExprTrace.tla", "TickExprTrace.cfg", [seg], parallel=1)
    if val["accepted"]:
        print("replay: segment is accepted by the current specification")
        return 0
    print("VIOLATION property=C13 replay=%s" % path)
    return 1
