"""C10 - per-point / per-group node semantics and sibling isolation (spec/Nodes)."""
import concurrent.futures
import os
import re
import time

import verifylib as V

ASSUME = [
    "lambdas come from a fixed catalogue of 5 predicates and 7 scalar expressions whose truth tables are part of the specification (the evaluator itself is C04)",
    "inputs and parameters are dyadic rationals and per-group times span at most three equidistant instants, so every float result is exact at scale 1/1024; floating-point rounding on arbitrary values is out of reach",
    "order across groups is not compared (per-group sequences; bags per group below a batch groupBy, whose flush order is unspecified); flatten.dropOriginalFieldName with several fields per point and a second batch groupBy have no unique reference and are skipped (counted in amb_skipped_sinks)",
    "what a stream flatten/combine or a batch groupBy still buffers when the task stops is not emitted (modelled as the code does; delivery on stop is C07)",
    "TLC fingerprint collisions are negligible; the libflux link stub is never executed",
]

_RE_AMB = re.compile(r'"AMB-SKIPPED-SINKS", (\d+)')
_RE_DRIFT = re.compile(r'"DRIFT"')


JVM_VALIDATE = {"JAVA_TOOL_OPTIONS": "-Xmx2g -XX:ParallelGCThreads=2 -Xss64m"}
JVM_MODEL = {"JAVA_TOOL_OPTIONS": "-Xmx6g -XX:ParallelGCThreads=4 -Xss64m"}
PARALLEL = 12


def _validate(sc, files, nparts=PARALLEL):
    """V.validate_traces, but keeping what the trace spec prints about skipped sinks and drift.
    (-Xss64m: the reference is a deep composition of lazily evaluated functions; TLC's default
    thread stack overflows on batches of 6 points.)"""
    parts = []
    for f in files:
        parts += V.split_trace(f, nparts, sc)
    rej, kf, states, amb, drift = [], set(), 0, 0, 0

    def one(fp):
        ee = dict(JVM_VALIDATE)
        ee["TRACE_FILE"] = fp
        return fp, V.run_tlc(sc, "Nodes", "NodesTraceMC.tla", "NodesTrace.cfg", workers=1, timeout=1500, env_extra=ee)

    t = time.time()
    with concurrent.futures.ThreadPoolExecutor(max_workers=PARALLEL) as ex:
        for fp, res in ex.map(one, parts):
            states += res["distinct"]
            kf.update(res["kf"])
            for m in _RE_AMB.finditer(res["out"]):
                amb += int(m.group(1))
            drift += len(_RE_DRIFT.findall(res["out"]))
            if res["rejected_at"] is not None:
                rej.append((fp, res["rejected_at"], res))
            elif res["violated"]:
                rej.append((fp, None, res))
            elif "Postcondition" in res["out"] and "is false" in res["out"]:
                rej.append((fp, None, res))
    V.log("trace validation Nodes/NodesTrace.cfg: %d file(s), %d spec states, %d rejection(s), %.1fs" %
          (len(parts), states, len(rej), time.time() - t))
    return {"accepted": not rej, "rejections": rej, "kf": kf, "states": states, "amb": amb, "drift": drift}


def _model(sc, cfg, workers=8, timeout=1500):
    res = V.run_tlc(sc, "Nodes", "NodesMC.tla", cfg, workers=workers, timeout=timeout, env_extra=JVM_MODEL)
    return res


def run(sc, tier, seed):
    R = V.Result("C10", tier, seed)
    V.build_harness()
    # design level: pipelined node processes with shared message objects = composition of the operators
    cfg = "Nodes_quick.cfg" if tier == "quick" else "Nodes_thorough.cfg"
    res = _model(sc, cfg)
    if res["violated"] or not res["completed"]:
        raise V.Broken("model Nodes/%s is inconsistent (%s):\n%s" % (cfg, res["violated"], V._tail(res["out"], 60)))
    V.log("model Nodes/%s: %d states, %d distinct, %.1fs" % (cfg, res["states"], res["distinct"], res["wall"]))
    R.add_model(res)
    # the seeded aliasing bug must be found by the same invariants (otherwise they are vacuous)
    bad = _model(sc, "Nodes_inplace.cfg", workers=4, timeout=600)
    if bad["violated"] not in ("NoSiblingInterference", "ImplMatchesRef"):
        raise V.Broken("Nodes_inplace.cfg: the in-place update model was not rejected (violated=%r)" % bad["violated"])
    V.log("model Nodes/Nodes_inplace.cfg: in-place update rejected by %s as expected" % bad["violated"])
    # B1: systematic chains and forks on real tasks, every sink compared by TLC
    out, meta = V.run_driver(sc, "c10", tier, seed, timeout=3000)
    R.add_meta(meta)
    # thorough: more, smaller parts (each JVM holds its whole part in memory), still PARALLEL at a time
    val = _validate(sc, meta["trace_files"], PARALLEL if tier == "quick" else 6 * PARALLEL)
    R.states += val["states"]
    R.handle_validation(val)
    extra = {"amb_skipped_sinks": val["amb"], "impl_drift": {"message_changed_after_delivery_in_chain": val["drift"]},
             "inplace_model_rejected_by": bad["violated"]}
    return R.finish("model_checking", ASSUME, extra_cov=extra)


def replay(sc, path):
    seg = os.path.join(path, "segment.ndjson")
    val = _validate(sc, [seg])
    if val["accepted"]:
        print("replay: segment is accepted by the current specification")
        return 0
    print("VIOLATION property=C10 replay=%s" % path)
    return 1
