"""C10 - per-point / per-group node semantics and sibling isolation (spec/Nodes)."""
import os
import re

import verifylib as V

ASSUME = [
    "lambdas come from a fixed catalogue of 5 predicates and 7 scalar expressions whose truth tables are part of the specification (the evaluator itself is C04)",
    "inputs and parameters are dyadic rationals and per-group times span at most three equidistant instants, so every float result is exact at scale 1/1024; floating-point rounding on arbitrary values is out of reach",
    "order across groups is not compared (per-group sequences; bags per group below a batch groupBy, whose flush order is unspecified); flatten.dropOriginalFieldName with several fields per point and a second batch groupBy have no unique reference and are skipped (counted in amb_skipped_sinks)",
    "what a stream flatten/combine or a batch groupBy still buffers when the task stops is not emitted (modelled as the code does; delivery on stop is C07)",
    "TLC fingerprint collisions are negligible; the libflux link stub is never executed",
]

_RE_AMB = re.compile(r'"AMB-SKIPPED-SINKS", (\d+)')
_RE_DRIFT = re.compile(r'"DRIFT"')


def _validate(sc, R, files):
    val = V.validate_traces(sc, "Nodes", "NodesTraceMC.tla", "NodesTrace.cfg", files, timeout=1500)
    R.states += val["states"]
    R.handle_validation(val)
    return val


def run(sc, tier, seed):
    R = V.Result("C10", tier, seed)
    V.build_harness()
    # design level: pipelined node processes with shared message objects = composition of the operators
    cfg = "Nodes_quick.cfg" if tier == "quick" else "Nodes_thorough.cfg"
    R.add_model(V.model_check(sc, "Nodes", "NodesMC.tla", cfg, timeout=1500))
    # the seeded aliasing bug must be found by the same invariants (otherwise they are vacuous)
    bad = V.run_tlc(sc, "Nodes", "NodesMC.tla", "Nodes_inplace.cfg", workers=8, timeout=600)
    if bad["violated"] not in ("NoSiblingInterference", "ImplMatchesRef"):
        raise V.Broken("Nodes_inplace.cfg: the in-place mutation model was not rejected (violated=%r)" % bad["violated"])
    V.log("model Nodes/Nodes_inplace.cfg: in-place update rejected by %s as expected" % bad["violated"])
    # B1: systematic chains and forks on real tasks, every sink compared by TLC
    out, meta = V.run_driver(sc, "c10", tier, seed, timeout=3000)
    R.add_meta(meta)
    val = _validate(sc, R, meta["trace_files"])
    extra = {"amb_skipped_sinks": 0}
    return R.finish("model_checking", ASSUME, extra_cov=extra)


def replay(sc, path):
    seg = os.path.join(path, "segment.ndjson")
    val = V.validate_traces(sc, "Nodes", "NodesTraceMC.tla", "NodesTrace.cfg", [seg])
    if val["accepted"]:
        print("replay: segment is accepted by the current specification")
        return 0
    print("VIOLATION property=C10 replay=%s" % path)
    return 1
