"""C05 - no script, data point or peer message can crash the daemon or kill a task (containment half; spec/Containment)."""
import json
import os
import verifylib as V
from checks import c19  # the UDF peer-fault stage is shared with C19 (same driver, same trace specification)

ASSUME = [
    "partial claim (DESIGN.md C05/§6): decided are the containment protocol of a running pipeline (fault in any node of a 3-node chain at any of 4 moments, next to a bystander task) and the define-never-crashes law over nine enumerated families (token sequences, byte strings up to the length bound alone and in lexer contexts, vars/template/task documents through the HTTP handlers, mutated pipeline/lambda JSON, seeded corpus mutations, line-protocol byte strings through the /write handler into running tasks); byte strings beyond the bound and 'all UDF byte streams' are not decided here",
    "every family of definitions runs in its own child process; a child that dies is reported as a DefineBatch line with panics = 1 naming the input it was processing (read from a shared file mapping)",
    "injected panics use the verif hooks node.run / edge.emit; point errors and node errors use natural triggers (integer division by zero, failing alert id template)",
    "a stop that does not return within 30 s or a pipeline goroutine alive 10 s after the stop is taken as a liveness violation; the scenarios need milliseconds",
    "UDF peer faults: the peer-fault stage of C19 (driver c19fault, UDFProtoFaultTrace) is run here too and a rejection is reported under C05; wrong-type / missing / extreme field values through every node kind under C04, C10, C11 and C01 (there a node killed by a value is a rejected trace)",
]


def run(sc, tier, seed):
    R = V.Result("C05", tier, seed)
    # design level: fixed code contains every fault; the original deferred handler (recover only when err != nil) does not
    R.add_model(V.model_check(sc, "Containment", "Containment.tla", "Containment_fixed.cfg", workers=8, timeout=600))
    V.model_check(sc, "Containment", "Containment.tla", "Containment_original.cfg", workers=4, timeout=600,
                  expect_violation={"ProcessSurvives"})
    # B3: every fault scenario on the real TaskMaster, one child process each
    out, meta = V.run_driver(sc, "c05", tier, seed, timeout=1500)
    R.add_meta(meta)
    val = V.validate_traces(sc, "Containment", "ContainmentTrace.tla", "ContainmentTrace.cfg", meta["trace_files"], parallel=4)
    R.states += val["states"]
    R.handle_validation(val, "fault scenario outcome not allowed by the containment model")
    # definitions: task or error, never a panic / hang / goroutine leak
    out2, meta2 = V.run_driver(sc, "c05define", tier, seed, timeout=3000)
    R.add_meta(meta2)
    val2 = V.validate_traces(sc, "Containment", "ContainmentTrace.tla", "ContainmentTrace.cfg", meta2["trace_files"], parallel=1)
    R.states += val2["states"]
    R.handle_validation(val2, "a definition panicked, hung or leaked goroutines")
    # messages from a UDF process: the misbehaving-peer alphabet of UDFProto.tla (wrong-kind / duplicate / unsolicited
    # responses, malformed frames, data faults, the peer dying under Stop, the task-snapshotter path), one child process
    # per scenario next to a bystander task; shared with C19
    meta3, val3 = c19.peer_fault_stage(sc, tier, seed)
    R.add_meta(meta3)
    R.states += val3["states"]
    R.handle_validation(val3, "UDF peer: " + c19.PEER_FAULT_WHAT)
    return R.finish("exploration", ASSUME)


def replay(sc, path):
    seg = os.path.join(path, "segment.ndjson")
    first = {}
    try:
        first = json.loads(open(seg).readline())
    except (ValueError, OSError):
        pass
    if first.get("mode") == "fault":
        # a segment of the shared UDF peer-fault stage
        val = V.validate_traces(sc, c19.MOD, "UDFProtoTraceMC.tla", "UDFProtoFaultTrace.cfg", [seg], parallel=1)
    else:
        val = V.validate_traces(sc, "Containment", "ContainmentTrace.tla", "ContainmentTrace.cfg", [seg], parallel=1)
    if val["accepted"]:
        print("replay: segment is accepted by the current specification")
        return 0
    print("VIOLATION property=C05 replay=%s" % path)
    return 1
