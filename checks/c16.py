"""C16 - batch queries cover exactly their scheduled, bounded time range (spec/BatchSchedule)."""
import os

import verifylib as V

ASSUME = [
    "conditions are judged with ordinary two-valued AND/OR semantics over opaque comparisons and time comparisons (AND binds tighter than OR, as influxql parses); influxql.ConditionExpr's own reading (all time predicates intersected regardless of AND/OR) is checked as well",
    "model time is whole seconds from an epoch that is a whole number of weeks after Go's zero time, so Truncate/Round agree with integer div/mod for every `every` used; wall-clock `now` is later than all model times",
    "live tickers are observed through timing-robust facts only (range length, alignment of the tick, tick inside the observation window, group-by offset, subset of the historical list); a ticker latency above every/2 is not modelled",
    "cron schedules are periodic second patterns (p divides 60) in the process's local time zone (UTC here)",
    "TLC fingerprint collisions are negligible; the libflux link stub is never executed",
]

NEG = [  # negative controls: the model expresses each repaired defect and the property catches it
    ("BatchSchedule_neg_wrap.cfg", "RangeIsExact"),
    ("BatchSchedule_neg_round.cfg", "HistoricalEqualsLive"),
    ("BatchSchedule_neg_gb.cfg", "HistoricalEqualsLive"),
]


def run(sc, tier, seed):
    R = V.Result("C16", tier, seed)
    V.build_harness("c16")
    # design level: splice/print/parse/clone over all condition trees, schedules over all phases, DBRPs
    cfg = "BatchSchedule_quick.cfg" if tier == "quick" else "BatchSchedule_thorough.cfg"
    R.add_model(V.model_check(sc, "BatchSchedule", "BatchScheduleMC.tla", cfg, timeout=1500))
    neg = {}
    for ncfg, inv in NEG:
        res = V.model_check(sc, "BatchSchedule", "BatchScheduleMC.tla", ncfg, workers=4, timeout=600, expect_violation=[inv])
        if res["violated"] != inv:
            raise V.Broken("negative control %s: expected a counterexample to %s, got %r" % (ncfg, inv, res["violated"]))
        neg[ncfg] = inv
    # B1: real NewQuery/Clone/SetStartTime/String, BatchQueries, StartBatching and the real tickers
    out, meta = V.run_driver(sc, "c16", tier, seed)
    R.add_meta(meta)
    val = V.validate_traces(sc, "BatchSchedule", "BatchScheduleTraceMC.tla", "BatchScheduleTrace.cfg", meta["trace_files"])
    R.states += val["states"]
    R.handle_validation(val)
    extra = {"negative_controls": neg}
    # drift level: the same traces against the code-shaped model (never a verdict)
    if val["accepted"]:
        d = V.validate_traces(sc, "BatchSchedule", "BatchScheduleTraceMC.tla", "BatchScheduleDrift.cfg", meta["trace_files"])
        R.states += d["states"]
        extra["impl_drift"] = [
            "line %s: %s" % (ln, (V.segment_of(fp, ln)[0] or ["?"])[-1][:300]) for fp, ln, _ in d["rejections"][:5]]
        if d["rejections"]:
            V.log("impl drift (not a verdict): the code-shaped model no longer predicts %d trace part(s)" % len(d["rejections"]))
    return R.finish("model_checking", ASSUME, extra)


def replay(sc, path):
    path = os.path.abspath(path)
    seg = os.path.join(path, "segment.ndjson")
    val = V.validate_traces(sc, "BatchSchedule", "BatchScheduleTraceMC.tla", "BatchScheduleTrace.cfg", [seg])
    if val["accepted"]:
        print("replay: segment is accepted by the current specification")
        return 0
    print("VIOLATION property=C16 replay=%s" % path)
    return 1
