"""C16 - batch queries cover exactly their scheduled, bounded time range (spec/BatchSchedule)."""
import concurrent.futures
import os
import re
import time

import verifylib as V

ASSUME = [
    "conditions are judged with ordinary two-valued AND/OR semantics over opaque comparisons and time comparisons (AND binds tighter than OR, as influxql parses); influxql.ConditionExpr's own reading (all time predicates intersected regardless of AND/OR) is checked as well",
    "model time is whole seconds from an epoch that is a whole number of weeks after Go's zero time, so Truncate/Round agree with integer div/mod for every `every` used; wall-clock `now` is later than all model times",
    "live tickers are observed through timing-robust facts only (range length, alignment of the tick, tick inside the observation window, group-by offset, subset of the historical list); a ticker latency above every/2 is not modelled",
    "cron schedules are periodic second patterns (p divides 60) in the process's local time zone (UTC here)",
    "TLC fingerprint collisions are negligible; the libflux link stub is never executed",
]

NEG = [  # negative controls: the model expresses each repaired defect and the property catches it
    ("BatchSchedule_neg_wrap.cfg", "RangeIsExact"),
    ("BatchSchedule_neg_round.cfg", "HistoricalEqualsLive"),
    ("BatchSchedule_neg_gb.cfg", "HistoricalEqualsLive"),
    ("BatchSchedule_neg_flux.cfg", "OnlyDeclaredDBRPs"),   # DBRP collection stopping at the first Flux child (a seeded defect, not found in the code)
    ("BatchSchedule_neg_defrp.cfg", "OnlyDeclaredDBRPs"),  # checkDBRPs filling an empty rp with default-retention-policy before the lookup (seeded defect)
]


_RE_DRIFT = re.compile(r'"IMPL-DRIFT", (\d+), "([^"]+)"')


# Memory courtesy (BUILDER_GUIDE "machine load"): one quick run stays below ~6 GB.  The JVM reads
# JAVA_TOOL_OPTIONS itself; verifylib only sets defaults, these take precedence.
HEAP_MODEL = "-Xmx4g -XX:ParallelGCThreads=4"
HEAP_TRACE = {"quick": "-Xmx1g -XX:ParallelGCThreads=2", "thorough": "-Xmx2g -XX:ParallelGCThreads=2"}
TIER = "quick"


_RE_COV = re.compile(r"^<(Tr\w+) line .*>: (\d+):(\d+)", re.M)
TRACE_ACTIONS = ["TrReset", "TrNewQuery", "TrSetTimes", "TrClone", "TrTask", "TrHist", "TrHistRet", "TrStart", "TrStopped", "TrBatch", "TrBQ", "TrSilent"]


def validate(sc, files, cfg="BatchScheduleTrace.cfg", parallel=6, timeout=1800, nparts=12, coverage=False):
    """V.validate_traces plus collection of the IMPL-DRIFT reports (Strict = "report": the code-shaped
    model disagrees with an observation that the verdict level accepts; never a verdict)."""
    parts = []
    for f in files:
        parts += V.split_trace(f, nparts, sc)
    rej, kf, drift, states = [], set(), [], 0
    cov = {a: 0 for a in TRACE_ACTIONS} if coverage else None

    def one(fp):
        return fp, V.run_tlc(sc, "BatchSchedule", "BatchScheduleTraceMC.tla", cfg, workers=1, timeout=timeout,
                             env_extra={"TRACE_FILE": fp, "JAVA_TOOL_OPTIONS": HEAP_TRACE[TIER]},
                             extra_args=["-coverage", "1"] if coverage else None)

    t = time.time()
    with concurrent.futures.ThreadPoolExecutor(max_workers=parallel) as ex:
        for fp, res in ex.map(one, parts):
            states += res["distinct"]
            kf.update(res["kf"])
            if coverage:
                last = {}
                for act, _, taken in _RE_COV.findall(res["out"]):
                    last[act] = int(taken)          # TLC prints the table periodically: keep the final one
                for act, n in last.items():
                    cov[act] = cov.get(act, 0) + n
            lines = None
            for ln, what in _RE_DRIFT.findall(res["out"]):
                if lines is None:
                    lines = open(fp).read().splitlines()
                if len(drift) < 5:
                    drift.append("%s: %s" % (what, lines[int(ln) - 1][:240]))
            if res["rejected_at"] is not None:
                rej.append((fp, res["rejected_at"], res))
            elif res["violated"]:
                rej.append((fp, None, res))
            elif "Postcondition" in res["out"] and "is false" in res["out"]:
                rej.append((fp, None, res))
    V.log("trace validation %s: %d file(s), %d spec states, %d rejection(s), %d drift report(s), %.1fs" %
          (cfg, len(parts), states, len(rej), len(drift), time.time() - t))
    return {"accepted": not rej, "rejections": rej, "kf": kf, "states": states, "drift": drift, "coverage": cov}


def _traces(lines):
    cur = []
    for ln in lines:
        if ln.startswith('{"ev":"Reset"') and cur:
            yield cur
            cur = []
        cur.append(ln)
    if cur:
        yield cur


def binding_self_test(sc, trace_file):
    """Corrupt one recorded field in an otherwise accepted trace: TLC must reject it (and accept
    the untouched copy).  Proves on every run that the validation compares results, not just shapes."""
    import json
    import re
    lines = open(trace_file).read().splitlines()
    qtr = ttr = None
    for tr in _traces(lines):
        if qtr is None and '"kind":"q"' in tr[0] and any('"which":"c"' in ln for ln in tr) and " OR " in tr[0]:
            qtr = tr
        if ttr is None and '"kind":"task"' in tr[0]:
            for i, ln in enumerate(tr):
                if '"ev":"HistRet"' in ln and json.loads(ln).get("err") == "" and len(json.loads(ln)["qs"]) >= 2:
                    ttr = tr[:i + 1]
                    break
        if qtr and ttr:
            break
    if not (qtr and ttr):
        raise V.Broken("binding self-test: no suitable trace recorded")
    d = sc.sub("selftest")
    cases = {}

    def put(name, tr):
        fp = os.path.join(d, name + ".ndjson")
        open(fp, "w").write("\n".join(tr) + "\n")
        cases[name] = fp

    put("good_q", qtr)
    put("good_task", ttr)
    # (a) the upper bound inside the statement the clone prints: 37 -> 38
    bad = list(qtr)
    k = max(i for i, ln in enumerate(bad) if '"which":"c"' in ln)
    m = json.loads(bad[k])

    def bump(t):
        if t.get("k") == "tm" and t["op"] == "lt" and t["v"] == m["e"]:
            t["v"] += 1
            return True
        return any(bump(t[c]) for c in ("r", "l", "e") if c in t)
    assert bump(m["obs"]["out"])
    bad[k] = json.dumps(m, separators=(",", ":"))
    put("bad_q_bound", bad)
    # (b) the statement's top-level AND (user condition AND time range) turned into OR
    bad = list(qtr)
    k = min(i for i, ln in enumerate(bad) if '"ev":"SetTimes"' in ln)
    m = json.loads(bad[k])
    assert m["obs"]["out"]["k"] == "and"
    m["obs"]["out"]["k"] = "or"
    bad[k] = json.dumps(m, separators=(",", ":"))
    put("bad_q_or", bad)
    # (c) the second historical query starts one unit late
    bad = list(ttr)
    m = json.loads(bad[-1])
    m["qs"][1]["gs"] += 1
    bad[-1] = json.dumps(m, separators=(",", ":"))
    put("bad_task_start", bad)
    v = validate(sc, list(cases.values()), parallel=len(cases), nparts=1)
    bad_fps = {fp for fp, _, _ in v["rejections"]}
    res = {name: ("rejected" if fp in bad_fps else "accepted") for name, fp in cases.items()}
    for name, r in res.items():
        want = "accepted" if name.startswith("good") else "rejected"
        if r != want:
            raise V.Broken("binding self-test: %s was %s, expected %s" % (name, r, want))
    return res


def run(sc, tier, seed):
    global TIER
    TIER = tier
    R = V.Result("C16", tier, seed)
    os.environ["JAVA_TOOL_OPTIONS"] = HEAP_MODEL
    V.build_harness("c16")
    # design level: splice/print/parse/clone over all condition trees, schedules over all phases, DBRPs
    cfg = "BatchSchedule_quick.cfg" if tier == "quick" else "BatchSchedule_thorough.cfg"
    R.add_model(V.model_check(sc, "BatchSchedule", "BatchScheduleMC.tla", cfg, workers=8, timeout=1500))
    if tier == "thorough":
        # query part alone with four kinds of user time predicates (14 202 condition texts, one operation)
        R.add_model(V.model_check(sc, "BatchSchedule", "BatchScheduleMC.tla", "BatchSchedule_thorough_ut.cfg", workers=8, timeout=1500))
        # query part alone, one more nesting level (all 2776 shapes of depth <= 3 over one predicate name)
        R.add_model(V.model_check(sc, "BatchSchedule", "BatchScheduleMC.tla", "BatchSchedule_thorough_d3.cfg", workers=4, timeout=900))
    neg = {}
    for ncfg, inv in NEG:
        res = V.model_check(sc, "BatchSchedule", "BatchScheduleMC.tla", ncfg, workers=4, timeout=600, expect_violation=[inv])
        if res["violated"] != inv:
            raise V.Broken("negative control %s: expected a counterexample to %s, got %r" % (ncfg, inv, res["violated"]))
        neg[ncfg] = inv
    # B1: real NewQuery/Clone/SetStartTime/String, BatchQueries, StartBatching and the real tickers
    out, meta = V.run_driver(sc, "c16", tier, seed)
    R.add_meta(meta)
    # verdict level (rejections) and drift level (IMPL-DRIFT reports, never a verdict) in one pass
    val = validate(sc, meta["trace_files"], coverage=(tier == "thorough"))
    R.states += val["states"]
    R.handle_validation(val)
    extra = {"negative_controls": neg, "impl_drift": val["drift"]}
    if val["coverage"] is not None:
        extra["trace_action_steps"] = val["coverage"]
        extra["trace_actions_not_exercised"] = sorted(a for a, n in val["coverage"].items() if n == 0)
    if val["drift"]:
        V.log("impl drift (not a verdict): the code-shaped model no longer predicts some observations, e.g. " + val["drift"][0])
    if val["accepted"]:
        extra["binding_self_test"] = binding_self_test(sc, meta["trace_files"][0])
    return R.finish("model_checking", ASSUME, extra)


def replay(sc, path):
    path = os.path.abspath(path)
    seg = os.path.join(path, "segment.ndjson")
    val = validate(sc, [seg], parallel=1, nparts=1)
    if val["accepted"]:
        print("replay: segment is accepted by the current specification")
        return 0
    print("VIOLATION property=C16 replay=%s" % path)
    return 1
