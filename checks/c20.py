"""C20 - API requests are authorised by the nearest granted resource only (spec/Auth)."""
import concurrent.futures
import json
import os
import re

import verifylib as V

ASSUME = [
    "path segments are atomic names (two names, one a string prefix of the other) plus '.', '..' and the empty segment; the decision depends on names only through equality",
    "the fake AuthService decides which credentials are valid (users u and admin, password pw, subscription token tok, HS256 tokens signed with the shared secret); bcrypt, the user store and the user cache of services/auth are not exercised",
    "HTTP requests are built with httptest.NewRequest and served by Handler.ServeHTTP in process (no listener, no TLS)",
    "TLC fingerprint collisions are negligible; the libflux link stub is never executed",
]

_RE_OK = re.compile(r'"C20-PART-OK", "(\w+)", (\d+), (\d+), (\d+), (\d+)')
_RE_DRIFT = re.compile(r'"C20-DRIFT", "([^"]+)", "line", (\d+)')
_RE_FAIL = re.compile(r'"C20-FAIL", "([^"]+)", "line", (\d+)')
_RE_CASE = re.compile(r'<<\s*"C20-CASE".*?>>\n(?=\S)', re.S)


def _minimise(fp, line_no, scratch):
    """Reset + universe line + offending line: a self-contained replayable segment."""
    lines = open(fp).read().splitlines()
    if line_no is None or line_no > len(lines):
        return fp, line_no
    keep = lines[:2] + ([lines[line_no - 1]] if line_no > 2 else [])
    keep = keep[:max(line_no, 1)] if line_no <= 2 else keep
    out = os.path.join(scratch.sub("min"), os.path.basename(fp) + ".line%d" % line_no)
    with open(out, "w") as f:
        f.write("\n".join(keep) + "\n")
    return out, len(keep)


def validate(sc, cfg, files, kind, parallel=8, timeout=3000, replay=False):
    """Validate every part file with its own TLC (workers=1: the high-water mark needs it)."""
    env = {}   # verifylib's default heap cap for -workers 1 (2 GB) is enough: measured peak < 1.5 GB on the largest part
    if replay:
        env["C20_REPLAY"] = "1"

    def one(fp):
        ee = dict(env)
        ee["TRACE_FILE"] = fp
        return fp, V.run_tlc(sc, "Auth", "AuthTraceMC.tla", cfg, workers=1, timeout=timeout, env_extra=ee)

    rej, kf, states, parts, cases, tables, drift, why = [], set(), 0, {}, 0, 0, [], []
    with concurrent.futures.ThreadPoolExecutor(max_workers=parallel) as ex:
        for fp, res in ex.map(one, files):
            states += res["distinct"]
            kf.update(res["kf"])
            for m in _RE_DRIFT.finditer(res["out"]):
                drift.append({"what": m.group(1), "file": os.path.basename(fp), "line": int(m.group(2))})
            case = _RE_CASE.search(res["out"])
            for m in _RE_FAIL.finditer(res["out"]):
                why.append((m.group(1), os.path.basename(fp), int(m.group(2)), " ".join(case.group(0).split()) if case else ""))
            if res["rejected_at"] is not None:
                mfp, mline = _minimise(fp, res["rejected_at"], sc)
                rej.append((mfp, mline, res))
                continue
            if res["violated"] or ("Postcondition" in res["out"] and "is false" in res["out"]):
                raise V.Broken("trace validation %s on %s ended without a located rejection:\n%s" % (cfg, fp, V._tail(res["out"])))
            m = _RE_OK.search(res["out"])
            if replay:
                continue
            if not m or m.group(1) != kind:
                raise V.Broken("trace validation %s on %s: no completeness line:\n%s" % (cfg, fp, V._tail(res["out"])))
            k, n = int(m.group(2)), int(m.group(3))
            parts[k] = n
            tables += int(m.group(4))
            cases += int(m.group(5))
    complete = (not rej) and (not replay) and parts and set(parts) == set(range(1, max(parts.values()) + 1)) and len(set(parts.values())) == 1
    if not rej and not replay and not complete:
        raise V.Broken("trace validation %s: parts %s do not cover the universe" % (cfg, sorted(parts)))
    V.log("trace validation Auth/%s: %d file(s), %d tables, %d cases recomputed, %d rejection(s), %d drift note(s)%s" %
          (cfg, len(files), tables, cases, len(rej), len(drift), (" " + str(why[:3])) if why else ""))
    return {"accepted": not rej, "rejections": rej, "kf": kf, "states": states, "tables": tables, "cases": cases,
            "complete": bool(complete), "drift": drift, "why": why}


def model(sc, cfg, workers, expect=None, timeout=2400, heap=None):
    """V.model_check, returning the raw result (the expected counterexample is reported in the evidence).
    heap: a smaller cap than verifylib's default for the small quick models (shared machine)."""
    ee = {"JAVA_TOOL_OPTIONS": "-Xmx%s -XX:ParallelGCThreads=4" % heap} if heap else None
    res = V.run_tlc(sc, "Auth", "AuthMC.tla", cfg, workers=workers, timeout=timeout, env_extra=ee)
    if res["violated"]:
        if expect and res["violated"] in expect:
            V.log("model Auth/%s: expected counterexample for %s (observation only)" % (cfg, res["violated"]))
        else:
            raise V.Broken("model Auth/%s violates %s - the specification itself is inconsistent:\n%s" %
                           (cfg, res["violated"], V._tail(res["out"], 60)))
    V.log("model Auth/%s: %d states, %d distinct, %.1fs" % (cfg, res["states"], res["distinct"], res["wall"]))
    return res


def report(R, val, what):
    """Known-finding hits once; every rejection with the offending case spelled out by TLC."""
    R.handle_validation({"kf": val["kf"], "rejections": []})
    for rej in val["rejections"][:3]:
        m = _RE_FAIL.search(rej[2]["out"])
        case = _RE_CASE.search(rej[2]["out"])
        w = what + ((" [%s]" % m.group(1)) if m else "") + ((" " + " ".join(case.group(0).split())) if case else "")
        R.handle_validation({"kf": set(), "rejections": [rej]}, w)


def run(sc, tier, seed):
    R = V.Result("C20", tier, seed)
    V.build_harness("c20")

    def direct():
        # B1: the universe of the model on the real auth.User / APIResource / DatabaseResource
        out, meta = V.run_driver(sc, "c20", tier, seed)
        return meta, validate(sc, "AuthTrace_%s.cfg" % tier, meta["trace_files"], "direct")

    def http():
        # B1: the real httpd.Handler
        out, meta = V.run_driver(sc, "c20http", tier, seed)
        return meta, validate(sc, "AuthHttpTrace_%s.cfg" % tier, meta["trace_files"], "http")

    # the four legs are independent: run them side by side
    with concurrent.futures.ThreadPoolExecutor(max_workers=5) as ex:
        # design level: every grant table of the universe; the HTTP filter chain for every request
        small = "2g" if tier == "quick" else None
        f_m1 = ex.submit(model, sc, "Auth_%s.cfg" % tier, 8, None, 2400, small)
        f_m2 = ex.submit(model, sc, "AuthHttp_%s.cfg" % tier, 8, None, 2400, small)
        # observation: the property as stated (strict injectivity of the database mapping) fails in the model of the code
        f_m3 = ex.submit(model, sc, "Auth_dbstrict.cfg", 1, {"DbMapInjectiveStrict"}, 600, "1g")
        f_d = ex.submit(direct)
        f_h = ex.submit(http)
        futs = [f_m1, f_m2, f_m3, f_d, f_h]
        concurrent.futures.wait(futs)
    R.add_model(f_m1.result())
    R.add_model(f_m2.result())
    strict = f_m3.result()
    meta, val = f_d.result()
    meta2, val2 = f_h.result()
    R.add_meta(meta)
    R.states += val["states"]
    report(R, val, "decision of the real code rejected by the specification")
    R.add_meta(meta2)
    R.states += val2["states"]
    report(R, val2, "HTTP outcome of the real handler rejected by the specification")
    drift = val["drift"] + val2["drift"]
    extra = {
        "evaluations": meta["events"] + meta2["events"],
        "validated_cases": val["cases"] + val2["cases"],
        "validated_tables": val["tables"] + val2["tables"],
        "universe_complete": bool(val["complete"] and val2["complete"]),
        "impl_drift": drift[:20],
        "impl_drift_count": len(drift),
        "rejected_because": [list(w) for w in (val["why"] + val2["why"])[:10]],
        "strict_db_injectivity_counterexample_in_model": strict["violated"] == "DbMapInjectiveStrict",
    }
    if drift:
        V.log("impl drift (code no longer matches the code-shaped model, property still holds): %s" % drift[:5])
    R.exhaustive = bool(R.exhaustive and extra["universe_complete"])
    return R.finish("model_checking", ASSUME, extra)


def replay(sc, path):
    seg = os.path.join(path, "segment.ndjson")
    lines = open(seg).read().splitlines()
    tier = json.loads(lines[0]).get("tier", "quick")
    kind = "http" if len(lines) > 1 and json.loads(lines[1]).get("ev") == "HttpReqs" else "direct"
    cfg = ("AuthHttpTrace_%s.cfg" if kind == "http" else "AuthTrace_%s.cfg") % tier
    val = validate(sc, cfg, [seg], kind, replay=True)
    if val["accepted"]:
        print("replay: segment is accepted by the current specification")
        return 0
    print("VIOLATION property=C20 replay=%s" % path)
    return 1
