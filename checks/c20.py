"""C20 - API requests are authorised by the nearest granted resource only (spec/Auth)."""
import concurrent.futures
import json
import os
import re

import verifylib as V

ASSUME = [
    "path segments are atomic names (two names, one a string prefix of the other) plus '.', '..' and the empty segment; the decision depends on names only through equality",
    "the fake AuthService decides which credentials are valid (users u and admin, password pw, subscription token tok, HS256 tokens signed with the shared secret); bcrypt, the user store and the user cache of services/auth are not exercised",
    "HTTP requests are built with httptest.NewRequest and served by Handler.ServeHTTP in process (no listener, no TLS)",
    "TLC fingerprint collisions are negligible; the libflux link stub is never executed",
]

_RE_OK = re.compile(r'"C20-PART-OK", "(\w+)", (\d+), (\d+), (\d+), (\d+)')
_RE_DRIFT = re.compile(r'"C20-DRIFT", "([^"]+)", "line", (\d+)')
_RE_FAIL = re.compile(r'"C20-FAIL", "([^"]+)", "line", (\d+)')


def _minimise(fp, line_no, scratch):
    """Reset + universe line + offending line: a self-contained replayable segment."""
    lines = open(fp).read().splitlines()
    if line_no is None or line_no > len(lines):
        return fp, line_no
    keep = lines[:2] + ([lines[line_no - 1]] if line_no > 2 else [])
    keep = keep[:max(line_no, 1)] if line_no <= 2 else keep
    out = os.path.join(scratch.sub("min"), os.path.basename(fp) + ".line%d" % line_no)
    with open(out, "w") as f:
        f.write("\n".join(keep) + "\n")
    return out, len(keep)


def validate(sc, cfg, files, kind, parallel=8, timeout=3000, replay=False):
    """Validate every part file with its own TLC (workers=1: the high-water mark needs it)."""
    env = {"JAVA_TOOL_OPTIONS": "-Xmx6g"}
    if replay:
        env["C20_REPLAY"] = "1"

    def one(fp):
        ee = dict(env)
        ee["TRACE_FILE"] = fp
        return fp, V.run_tlc(sc, "Auth", "AuthTraceMC.tla", cfg, workers=1, timeout=timeout, env_extra=ee)

    rej, kf, states, parts, cases, tables, drift, why = [], set(), 0, {}, 0, 0, [], []
    with concurrent.futures.ThreadPoolExecutor(max_workers=parallel) as ex:
        for fp, res in ex.map(one, files):
            states += res["distinct"]
            kf.update(res["kf"])
            for m in _RE_DRIFT.finditer(res["out"]):
                drift.append({"what": m.group(1), "file": os.path.basename(fp), "line": int(m.group(2))})
            for m in _RE_FAIL.finditer(res["out"]):
                why.append((m.group(1), os.path.basename(fp), int(m.group(2))))
            if res["rejected_at"] is not None:
                mfp, mline = _minimise(fp, res["rejected_at"], sc)
                rej.append((mfp, mline, res))
                continue
            if res["violated"] or ("Postcondition" in res["out"] and "is false" in res["out"]):
                raise V.Broken("trace validation %s on %s ended without a located rejection:\n%s" % (cfg, fp, V._tail(res["out"])))
            m = _RE_OK.search(res["out"])
            if replay:
                continue
            if not m or m.group(1) != kind:
                raise V.Broken("trace validation %s on %s: no completeness line:\n%s" % (cfg, fp, V._tail(res["out"])))
            k, n = int(m.group(2)), int(m.group(3))
            parts[k] = n
            tables += int(m.group(4))
            cases += int(m.group(5))
    complete = (not rej) and (not replay) and parts and set(parts) == set(range(1, max(parts.values()) + 1)) and len(set(parts.values())) == 1
    if not rej and not replay and not complete:
        raise V.Broken("trace validation %s: parts %s do not cover the universe" % (cfg, sorted(parts)))
    V.log("trace validation Auth/%s: %d file(s), %d tables, %d cases recomputed, %d rejection(s), %d drift note(s)%s" %
          (cfg, len(files), tables, cases, len(rej), len(drift), (" " + str(why[:3])) if why else ""))
    return {"accepted": not rej, "rejections": rej, "kf": kf, "states": states, "tables": tables, "cases": cases,
            "complete": bool(complete), "drift": drift, "why": why}


def run(sc, tier, seed):
    R = V.Result("C20", tier, seed)
    # design level: every grant table of the universe; the HTTP filter chain for every request
    R.add_model(V.model_check(sc, "Auth", "AuthMC.tla", "Auth_%s.cfg" % tier, timeout=2400))
    R.add_model(V.model_check(sc, "Auth", "AuthMC.tla", "AuthHttp_%s.cfg" % tier, timeout=2400))
    # observation: the property as stated (strict injectivity of the database mapping) fails in the model of the code
    V.model_check(sc, "Auth", "AuthMC.tla", "Auth_dbstrict.cfg", workers=2, timeout=600, expect_violation={"DbMapInjectiveStrict"})
    # B1: the same universe on the real auth.User / APIResource / DatabaseResource
    out, meta = V.run_driver(sc, "c20", tier, seed)
    R.add_meta(meta)
    val = validate(sc, "AuthTrace_%s.cfg" % tier, meta["trace_files"], "direct")
    R.states += val["states"]
    R.handle_validation(val, "decision of the real code rejected by the specification")
    # B1: the real httpd.Handler
    out2, meta2 = V.run_driver(sc, "c20http", tier, seed)
    R.add_meta(meta2)
    val2 = validate(sc, "AuthHttpTrace_%s.cfg" % tier, meta2["trace_files"], "http")
    R.states += val2["states"]
    R.handle_validation(val2, "HTTP outcome of the real handler rejected by the specification")
    drift = val["drift"] + val2["drift"]
    extra = {
        "validated_cases": val["cases"] + val2["cases"],
        "validated_tables": val["tables"] + val2["tables"],
        "universe_complete": bool(val["complete"] and val2["complete"]),
        "impl_drift": drift[:20],
        "impl_drift_count": len(drift),
    }
    if drift:
        V.log("impl drift (code no longer matches the code-shaped model, property still holds): %s" % drift[:5])
    R.exhaustive = bool(R.exhaustive and extra["universe_complete"])
    return R.finish("model_checking", ASSUME, extra)


def replay(sc, path):
    seg = os.path.join(path, "segment.ndjson")
    lines = open(seg).read().splitlines()
    tier = json.loads(lines[0]).get("tier", "quick")
    kind = "http" if len(lines) > 1 and json.loads(lines[1]).get("ev") == "HttpReqs" else "direct"
    cfg = ("AuthHttpTrace_%s.cfg" if kind == "http" else "AuthTrace_%s.cfg") % tier
    val = validate(sc, cfg, [seg], kind, replay=True)
    if val["accepted"]:
        print("replay: segment is accepted by the current specification")
        return 0
    print("VIOLATION property=C20 replay=%s" % path)
    return 1
