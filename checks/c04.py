"""C04 - lambda expressions evaluate to their typed reference semantics (spec/Lambda)."""
import os

import verifylib as V

ASSUME = [
    "values range over small exact domains (ints -2..3, dyadic floats, strings over a few bytes, durations in whole ms, two times); "
    "numeric accuracy on full int64/float64 (overflow, rounding, float formatting), the full built-in library and regex engine semantics are not decided by the model",
    "results the finite model does not decide (inexact float quotients, sigma beyond its NaN/zero cases, values beyond 2^30) are only checked for their type, for being an error or not, and for history independence",
    "NaN, +-Inf and -0 are modelled exactly (IEEE 754); int64(NaN/Inf) and Duration(NaN/Inf) are not defined by Go and only checked for their type",
    "TLC fingerprint collisions are negligible; the libflux link stub is never executed",
]

# the JVM stack must hold TLC's recursion over the steps of a stateful run
JAVA = {"JAVA_TOOL_OPTIONS": "-Xmx2g -Xss16m -XX:ParallelGCThreads=2"}


def run(sc, tier, seed):
    R = V.Result("C04", tier, seed)
    V.build_harness()
    # design level: the code-shaped evaluator (specialisation cache, type guards, copies) against the reference
    # semantics, over every history of API calls on every AST of the configured set
    cfg = "Lambda_quick.cfg" if tier == "quick" else "Lambda_thorough.cfg"
    skip_model = bool(os.environ.get("VERIF_C04_SKIP_MODEL"))   # development aid (mutant runs): the model does not depend on the tree
    if not skip_model:
        R.add_model(V.model_check(sc, "Lambda", "LambdaMC.tla", cfg, timeout=2400))
    if tier == "thorough" and not skip_model:
        # observation: the evaluator as it was before the C04 fixes has counterexamples in the same model
        res = V.model_check(sc, "Lambda", "LambdaMC.tla", "Lambda_legacy.cfg", timeout=1200,
                            expect_violation=["CacheIrrelevant", "ErrorsAreErrors", "CopiesIsolated"])
        R.notes["legacy_model_counterexample"] = res["violated"] or "none"
    # B1: the same alphabet on the real code, every outcome re-evaluated by TLC
    out, meta = V.run_driver(sc, "c04", tier, seed)
    R.add_meta(meta)
    val = V.validate_traces(sc, "Lambda", "LambdaTrace.tla", "LambdaTrace.cfg", meta["trace_files"], env_extra=JAVA, timeout=2400)
    R.states += val["states"]
    R.handle_validation(val)
    # a trace = one history of API calls on one freshly compiled expression (and its copies); an evaluation = one API call
    return R.finish("model_checking", ASSUME, extra_cov={
        "evaluations": meta["extra"]["api_calls"],
        "traces_validated_against_impl": meta["extra"]["histories"],
        "expressions": meta["traces"],
    })


def replay(sc, path):
    import os
    seg = os.path.join(path, "segment.ndjson")
    val = V.validate_traces(sc, "Lambda", "LambdaTrace.tla", "LambdaTrace.cfg", [seg], env_extra=JAVA)
    if val["accepted"]:
        print("replay: segment is accepted by the current specification")
        return 0
    print("VIOLATION property=C04 replay=%s" % path)
    return 1
