"""C12 - join and union results do not depend on how parent streams interleave (spec/JoinUnion)."""
import concurrent.futures
import os

import verifylib as V

ASSUME = [
    "each parent delivers its messages in time order (the property's premise); model times 1..3 (1..6 in random runs) map to whole seconds from an epoch that is a multiple of every tolerance",
    "arrival order is forced by feeding one parent message at a time and waiting for the node's timer Stop (the deferred last statement of JoinNode.doMessage / UnionNode.Point|BufferedBatch) before the next; messages never overlap inside the node in these runs",
    "closing a single parent has no effect on the receiver (multiConsumer calls nothing until all parents have ended); stream parents share one source and end together at StopTask, batch parents are closed individually at scheduled positions",
    "join.on() is exercised in its documented shape only: one less specific parent, one more specific parent, at most one message per (parent, group, rounded time)",
    "batch parents deliver either whole buffered batches or (query|where) unbuffered begin/point/end sequences; the latter are interleaved message by message through the edge.emit gate and, on the exported multiConsumer, through scheduled edges",
    "barrier messages only into joins, delete-group messages are not generated",
    "TLC fingerprint collisions are negligible; the libflux link stub is never executed",
]

SPEC = "JoinUnion"
PAR = 4   # JVMs per trace validation


def _concat(sc, files, name):
    p = os.path.join(sc.sub("cat"), name)
    with open(p, "w") as out:
        for f in files:
            with open(f) as src:
                for ln in src:
                    out.write(ln)
    return p


def _model(sc, mod, cfg, heap):
    """V.model_check with a per-run heap cap."""
    res = V.run_tlc(sc, SPEC, mod, cfg, workers=4, timeout=2400, env_extra=heap)
    if res["violated"]:
        raise V.Broken("model %s/%s violates %s - the specification itself is inconsistent:\n%s" %
                       (SPEC, cfg, res["violated"], "\n".join(res["out"].splitlines()[-60:])))
    V.log("model %s/%s: %d states, %d distinct, %.1fs" % (SPEC, cfg, res["states"], res["distinct"], res["wall"]))
    return res


def run(sc, tier, seed):
    R = V.Result("C12", tier, seed)
    quick = tier == "quick"
    par = PAR
    # small JVMs (docs/BUILDER_GUIDE.md "machine load"): at most 2 model runs + `par` validation JVMs are alive at once
    mheap = {"JAVA_TOOL_OPTIONS": "-Xmx%s -XX:ParallelGCThreads=2" % ("1500m" if quick else "4g")}
    vheap = {"JAVA_TOOL_OPTIONS": "-Xmx%s -XX:ParallelGCThreads=2" % ("1500m" if quick else "2g")}
    V.build_harness()
    # ---- design level: every interleaving x every input x every setting inside the bound ----
    t = "quick" if quick else "thorough"
    models = [
        ("CircularQueue.tla", "CircularQueue_%s.cfg" % t),
        ("UnionMC.tla", "Union_%s.cfg" % t),
        ("JoinMC.tla", "Join_%s.cfg" % t),
        ("JoinMC.tla", "JoinOn_%s.cfg" % t),
        ("JoinMC.tla", "JoinBarrier_%s.cfg" % t),
        ("MultiConsumerMC.tla", "MultiConsumer_%s.cfg" % t),
        ("JoinBatchMC.tla", "JoinBatch_%s.cfg" % t),
    ]
    # the model runs are independent: run them side by side with the drivers (2 at a time, 4 workers each)
    pool = concurrent.futures.ThreadPoolExecutor(max_workers=2)
    if os.environ.get("VERIF_C12_SKIP_MODELS"):
        models = models[:1]   # binding demonstrations on seeded changes: the design-level runs do not depend on the tree
    futs = [(cfg, pool.submit(_model, sc, mod, cfg, mheap)) for mod, cfg in models]
    try:
        return _rest(sc, tier, seed, R, futs, quick, par, vheap)
    finally:
        pool.shutdown(wait=False, cancel_futures=True)


def _rest(sc, tier, seed, R, futs, quick, par, vheap):

    # ---- CircularQueue: exported, driven directly ----
    out, meta = V.run_driver(sc, "c12cq", tier, seed)
    R.add_meta(meta)
    # quick: one pass over everything; thorough: one pass per trace file (bounded memory per JVM)
    cqsets = [[_concat(sc, meta["trace_files"], "cq.ndjson")]] if quick else [[f] for f in meta["trace_files"]]
    for fs in cqsets:
        val = V.validate_traces(sc, SPEC, "CircularQueueTrace.tla", "CircularQueueTrace.cfg", fs, parallel=par, env_extra=vheap)
        R.states += val["states"]
        R.handle_validation(val, "CircularQueue observation (Len/Peek) not explained by CircularQueue.tla")

    # ---- multiConsumer at message granularity: exported, scheduled parent edges, every begin/point/end interleaving ----
    outm, metam = V.run_driver(sc, "c12mc", tier, seed)
    R.add_meta(metam)
    valm = V.validate_traces(sc, SPEC, "MultiConsumerTrace.tla", "MultiConsumerTrace.cfg", metam["trace_files"], parallel=2 if quick else par, env_extra=vheap)
    R.states += valm["states"]
    R.handle_validation(valm, "multiConsumer handed the receiver something else than the parents' batches")

    # ---- B3: real join/union tasks under forced arrival orders ----
    out2, meta2 = V.run_driver(sc, "c12", tier, seed)
    R.add_meta(meta2)
    plain = [f for f in meta2["trace_files"] if "/barrier-" not in f]
    barr = [f for f in meta2["trace_files"] if "/barrier-" in f]
    allf = _concat(sc, plain, "joinunion.ndjson")
    # barrier runs (wall-clock driven barrier nodes upstream) are validated at verdict level only
    vfiles = [allf, _concat(sc, barr, "barrier.ndjson")] if barr else [allf]
    val2 = V.validate_traces(sc, SPEC, "JoinUnionTrace.tla", "JoinUnionTrace.cfg", vfiles, parallel=par, env_extra=vheap)
    R.states += val2["states"]
    R.handle_validation(val2, "join/union outputs differ from the schedule-free reference")
    # drift level: the same traces stepped through the code-shaped models (never a verdict)
    drift = []
    if val2["accepted"]:
        val3 = V.validate_traces(sc, SPEC, "JoinUnionTrace.tla", "JoinUnionImplTrace.cfg", [allf], parallel=par, env_extra=vheap)
        R.states += val3["states"]
        for fp, line_no, res in val3["rejections"]:
            seg, _ = V.segment_of(fp, line_no)
            drift.append({"reset": seg[0][:300] if seg else "?", "line": seg[-1][:300] if seg else "?"})
        if drift:
            V.log("impl drift: %d trace(s) accepted at verdict level are not behaviours of Join.tla/Union.tla (model update needed, not a violation)" % len(drift))
    per_model = {}
    for cfg, f in futs:
        res = f.result()
        R.add_model(res)
        per_model[cfg] = {"distinct": res["distinct"], "generated": res["states"], "wall_s": round(res["wall"], 1)}
    return R.finish("model_checking", ASSUME, {"model_runs": per_model, "impl_drift": drift[:5], "impl_drift_count": len(drift)})


def replay(sc, path):
    seg = os.path.join(path, "segment.ndjson")
    first = open(seg).readline()
    if '"init"' in first:
        val = V.validate_traces(sc, SPEC, "CircularQueueTrace.tla", "CircularQueueTrace.cfg", [seg])
    elif '"flow"' not in first:
        val = V.validate_traces(sc, SPEC, "MultiConsumerTrace.tla", "MultiConsumerTrace.cfg", [seg])
    else:
        val = V.validate_traces(sc, SPEC, "JoinUnionTrace.tla", "JoinUnionTrace.cfg", [seg])
    if val["accepted"]:
        print("replay: segment is accepted by the current specification")
        return 0
    print("VIOLATION property=C12 replay=%s" % path)
    return 1
