"""C11 - aggregations over a window equal their mathematical definition (spec/Aggregates)."""
import os
import re

import verifylib as V

ASSUME = [
    "ordinary phases: values are small integers and integer-valued floats (4-value domain, random phase -3..5), batches of at most 6 "
    "points; a float result is logged as round(v*60) and must be integral up to 1e-9 (1e-6 for stddev^2); mean and stddev are checked "
    "through N*mean = sum and s^2*N*(N-1) = N*sum(x^2)-(sum x)^2 in scaled integers",
    "magnitude phase: values S*B+d for B in 1e9, 1e12, 2^53 (int64 results only), -4e12; the driver splits every observed result exactly "
    "(big rationals, no function-specific reference) into m*B+r; TLC checks m and r against the definition and the logged distance in "
    "ulps against UlpTol (fixed in Aggregates.tla, measured on HEAD).  NOT covered: integer overflow, NaN/Inf inputs, float64 results "
    "around 2^53, arbitrary real-valued inputs",
    "where the property leaves a choice open (which of several equal minima/maxima/percentile points, which of several modes, "
    "order of points inside distinct/top/bottom batches) every choice is accepted; the code's order is reported as drift only",
    "streaming transforms are fed one field kind per batch / per group stream (after a failing AggregatePoint the code re-emits its "
    "previous value; the property does not speak about that error path)",
    "point tags never conflict with a group tag (same key, other value); holtWinters (numerical optimisation) is not modelled",
    "TLC fingerprint collisions are negligible; the libflux link stub is never executed",
]

_RE_DRIFT = re.compile(r'"DRIFT", "([^"]+)"')


def validate(sc, files, parallel, timeout=3000):
    """V.validate_traces plus the DRIFT notes TLC prints for accepted traces (observations, never verdicts)."""
    import concurrent.futures
    import time
    parts = []
    for f in files:
        parts += V.split_trace(f, parallel, sc)
    rej, kf, drift, states = [], set(), {}, 0

    def one(fp):
        return fp, V.run_tlc(sc, "Aggregates", "AggregatesTraceMC.tla", "AggregatesTrace.cfg", workers=1,
                             timeout=timeout, env_extra={"TRACE_FILE": fp})

    t = time.time()
    with concurrent.futures.ThreadPoolExecutor(max_workers=parallel) as ex:
        for fp, res in ex.map(one, parts):
            states += res["distinct"]
            kf.update(res["kf"])
            for d in _RE_DRIFT.findall(res["out"]):
                drift[d] = drift.get(d, 0) + 1
            if res["rejected_at"] is not None:
                rej.append((fp, res["rejected_at"], res))
            elif res["violated"] or ("Postcondition" in res["out"] and "is false" in res["out"]):
                rej.append((fp, None, res))
    V.log("trace validation Aggregates/AggregatesTrace.cfg: %d part(s), %d spec states, %d rejection(s), %.1fs" %
          (len(parts), states, len(rej), time.time() - t))
    return {"accepted": not rej, "rejections": rej, "kf": kf, "states": states, "drift": drift}


def corrupted_field_selftest(sc, merged):
    """The binding bites: take the first recorded task whose sink saw an integer value, change that one logged
    value by one and require TLC to reject the trace (a validation that accepts anything would pass unnoticed)."""
    import json
    seg, hit = [], False
    for ln in open(merged):
        if ln.startswith('{"ev":"Reset"'):
            seg = []
        seg.append(ln)
        if ln.startswith('{"ev":"Drain"'):
            ev = json.loads(ln)
            for o in ev["outs"]:
                flds = o["fields"] if o["kind"] == "p" else (o["pts"][0]["fields"] if o["pts"] else {})
                for name, f in flds.items():
                    if name != "i" and f["k"] in ("int", "float") and not hit:
                        f["v"] += 1
                        hit = True
            if hit:
                seg[-1] = json.dumps(ev, separators=(",", ":")) + "\n"
                break
    if not hit:
        raise V.Broken("self-test: no recorded output value to corrupt")
    fp = os.path.join(sc.sub("selftest"), "corrupted.ndjson")
    with open(fp, "w") as f:
        f.write("".join(seg))
    res = V.run_tlc(sc, "Aggregates", "AggregatesTraceMC.tla", "AggregatesTrace.cfg", workers=1, timeout=600,
                    env_extra={"TRACE_FILE": fp})
    if res["rejected_at"] != len(seg):
        raise V.Broken("self-test: a trace with one corrupted output value was NOT rejected at its Drain line "
                       "(rejected_at=%r, expected %d)" % (res["rejected_at"], len(seg)))
    V.log("self-test: trace with one corrupted output value rejected at line %d as required" % len(seg))


def run(sc, tier, seed):
    import concurrent.futures
    R = V.Result("C11", tier, seed)
    V.build_harness()
    # design level: lifecycle x history (NoStaleContext), definitions total on the domain, typing, empty-batch rule.
    # The exhaustive runs (4 TLC workers each) go on in the background while the driver runs the real code.
    if tier == "quick":
        cfgs = ["Aggregates_quick.cfg", "Aggregates_stream_quick.cfg", "Aggregates_dom_quick.cfg", "Aggregates_domS_quick.cfg"]
    else:
        cfgs = ["Aggregates_thorough.cfg", "Aggregates_stream_thorough.cfg", "Aggregates_stream2_thorough.cfg",
                "Aggregates_dom_thorough.cfg", "Aggregates_domS_thorough.cfg"]
    pool = concurrent.futures.ThreadPoolExecutor(max_workers=3)
    futs = [pool.submit(V.model_check, sc, "Aggregates", "AggregatesMC.tla", cfg, 4, 2400) for cfg in cfgs]
    # the invariant is not vacuous: the creator cache as it was before the fix violates it
    fbug = pool.submit(V.model_check, sc, "Aggregates", "AggregatesMC.tla", "Aggregates_buggy.cfg", 4, 600,
                       ["NoStaleContext"])
    try:
        # B1: systematic + seeded random inputs on real tasks, every output recomputed by TLC
        out, meta = V.run_driver(sc, "c11", tier, seed, timeout=3000)
        R.add_meta(meta)
        # one merged file: split at Reset lines into as many parts as validation JVMs (fewer, larger JVM runs)
        merged = os.path.join(out, "all.ndjson")
        with open(merged, "w") as f:
            for fp in sorted(meta["trace_files"]):
                f.write(open(fp).read())
        corrupted_field_selftest(sc, merged)
        val = validate(sc, [merged], 4 if tier == "quick" else 8)   # JVM start-up (~5 CPU s) dominates small parts
        for fu in futs:
            R.add_model(fu.result())
        res = fbug.result()
    finally:
        pool.shutdown(wait=True, cancel_futures=True)
    if res["violated"] != "NoStaleContext":
        raise V.Broken("Aggregates_buggy.cfg no longer violates NoStaleContext: the invariant has become vacuous")
    R.notes["seeded_model_fault_detected"] = "Aggregates_buggy.cfg (pre-fix creator cache) violates NoStaleContext"
    R.notes["model_configs"] = cfgs
    # traces whose distinct/top/bottom point ORDER differs from the code-shaped order (observation, not a verdict)
    R.notes["drift_point_order_in_batches"] = val["drift"]
    R.states += val["states"]
    R.handle_validation(val)
    return R.finish("model_checking", ASSUME)


def replay(sc, path):
    """Re-run the recorded input of the rejected trace on the real code of the tree under test and validate what it
    does now; the recorded segment itself is validated too (shows whether the specification changed its mind)."""
    seg = os.path.join(path, "segment.ndjson")
    V.build_harness()
    out, meta = V.run_driver(sc, "c11replay", "quick", 1, args=[seg])
    val = V.validate_traces(sc, "Aggregates", "AggregatesTraceMC.tla", "AggregatesTrace.cfg", meta["trace_files"], parallel=1)
    old = V.validate_traces(sc, "Aggregates", "AggregatesTraceMC.tla", "AggregatesTrace.cfg", [seg], parallel=1)
    print("replay: recorded segment %s by the current specification" % ("accepted" if old["accepted"] else "REJECTED"))
    if val["accepted"]:
        print("replay: the code under test, re-run on the recorded input, is accepted by the specification")
        return 0
    for fp, line_no, res in val["rejections"]:
        m = re.search(r'<< "MISMATCH".*?>>\n(?=<<"TRACE-REJECTED)', res["out"], re.S)
        if m:
            print(m.group(0))
    print("VIOLATION property=C11 replay=%s" % path)
    return 1
