"""C18 - replaying a recording reproduces the recorded data (partial; spec/Replay)."""
import os
import verifylib as V

ASSUME = [
    "partial claim (DESIGN.md C18/§6): 'for all points' is an encode/decode law; covered are finite value classes (every field type, ints beyond 2^53 and MinInt64, strings with quote/comma/space/newline/unicode/backslash/equals, empty and awkward tag sets, three batch group shapes, empty batches) in both clock modes and three clock zeros, plus seeded sequences",
    "payloads are compared literally (type + decimal text) by TLC; time in whole seconds relative to an aligned epoch, plus a nanosecond-resolution family (1 ns, 999 ns, 1 s +- 1 ns, negative offsets) within +-2.1 s of it",
    "the driver's clock never waits (data time only; the service runs use the fast clock, whose zero is time.Now(): live-time outputs are rebased on the first delivered item and the specification demands the one constant shift for every other timestamp)",
    "batch recordings reach the service as archive files in its directory (the on-disk form of a finished recording); recording batches from InfluxDB queries (startRecordBatch) is not exercised",
]


def run(sc, tier, seed):
    R = V.Result("C18", tier, seed)
    # design level: the code's start/diff/tmax machine refines 'one constant shift for every timestamp'
    R.add_model(V.model_check(sc, "Replay", "ReplayMC.tla", "Replay_fixed.cfg", workers=2, timeout=900))
    # observation: the original tmax rule does not (repaired in /repo, see KNOWN_FINDINGS.txt)
    V.model_check(sc, "Replay", "ReplayMC.tla", "Replay_original.cfg", workers=2, timeout=900, expect_violation={"BatchRefines", "ConstantShift"})
    # the replay of several batch sources as the code runs it (reader + replayer goroutine per source, every interleaving)
    R.add_model(V.model_check(sc, "Replay", "ReplayProcMC.tla", "ReplayProc_quick.cfg" if tier == "quick" else "ReplayProc_thorough.cfg", workers=8, timeout=2400))
    R.add_model(V.model_check(sc, "Replay", "ReplayProcMC.tla", "ReplayProc_same.cfg", workers=4, timeout=900))
    R.add_model(V.model_check(sc, "Replay", "ReplayProcMC.tla", "ReplayProc_live.cfg", workers=4, timeout=900))
    # observations = the two known findings at design level: sources are shifted independently; an empty batch keeps its tmax
    V.model_check(sc, "Replay", "ReplayProcMC.tla", "ReplayProc_cross.cfg", workers=2, timeout=900, expect_violation={"CrossSourceShift"})
    V.model_check(sc, "Replay", "ReplayProcMC.tla", "ReplayProc_chan.cfg", workers=2, timeout=900, expect_violation={"PerSourcePrefix"})
    out, meta = V.run_driver(sc, "c18", tier, seed, timeout=1500)
    R.add_meta(meta)
    # recordings of thousands of items are single trace lines: TLC needs a deeper JVM stack to read them
    big = {"JAVA_TOOL_OPTIONS": "-Xmx3g -Xss512m -XX:ParallelGCThreads=2"}
    val = V.validate_traces(sc, "Replay", "ReplayTrace.tla", "ReplayTrace.cfg", meta["trace_files"], parallel=4, env_extra=big)
    R.states += val["states"]
    R.handle_validation(val, "replayed data differs from the recording")
    # end to end through the replay service: POST /recordings/stream + WritePoints, archives adopted from the service
    # directory, POST /replays into real stream/batch tasks (isolated TaskMaster), observed at the tasks' sinks
    out2, meta2 = V.run_driver(sc, "c18svc", tier, seed, timeout=1500)
    R.add_meta(meta2)
    val2 = V.validate_traces(sc, "Replay", "ReplayTrace.tla", "ReplayTrace.cfg", meta2["trace_files"], parallel=4)
    R.states += val2["states"]
    R.handle_validation(val2, "data replayed through the replay service differs from the recording")
    return R.finish("exploration", ASSUME)


def replay(sc, path):
    seg = os.path.join(path, "segment.ndjson")
    val = V.validate_traces(sc, "Replay", "ReplayTrace.tla", "ReplayTrace.cfg", [seg], parallel=1,
                            env_extra={"JAVA_TOOL_OPTIONS": "-Xmx3g -Xss512m -XX:ParallelGCThreads=2"})
    if val["accepted"]:
        print("replay: segment is accepted by the current specification")
        return 0
    print("VIOLATION property=C18 replay=%s" % path)
    return 1
