"""C18 - replaying a recording reproduces the recorded data (partial; spec/Replay)."""
import os
import verifylib as V

ASSUME = [
    "partial claim (DESIGN.md C18/§6): 'for all points' is an encode/decode law; covered are finite value classes (every field type, ints beyond 2^53 and MinInt64, strings with quote/comma/space/newline/unicode/backslash/equals, empty and awkward tag sets, three batch group shapes, empty batches) in both clock modes and three clock zeros, plus seeded sequences",
    "payloads are compared literally (type + decimal text) by TLC; time in whole seconds relative to an aligned epoch (sub-second precision handling is not explored)",
    "the driver's clock never waits (data time only); the archive/zip layer of services/replay is not exercised, only the record format functions and the replay engines it calls",
]


def run(sc, tier, seed):
    R = V.Result("C18", tier, seed)
    # design level: the code's start/diff/tmax machine refines 'one constant shift for every timestamp'
    R.add_model(V.model_check(sc, "Replay", "ReplayMC.tla", "Replay_fixed.cfg", workers=2, timeout=900))
    # observation: the original tmax rule does not (repaired in /repo, see KNOWN_FINDINGS.txt)
    V.model_check(sc, "Replay", "ReplayMC.tla", "Replay_original.cfg", workers=2, timeout=900, expect_violation={"BatchRefines", "ConstantShift"})
    out, meta = V.run_driver(sc, "c18", tier, seed, timeout=1500)
    R.add_meta(meta)
    val = V.validate_traces(sc, "Replay", "ReplayTrace.tla", "ReplayTrace.cfg", meta["trace_files"], parallel=4)
    R.states += val["states"]
    R.handle_validation(val, "replayed data differs from the recording")
    return R.finish("exploration", ASSUME)


def replay(sc, path):
    seg = os.path.join(path, "segment.ndjson")
    val = V.validate_traces(sc, "Replay", "ReplayTrace.tla", "ReplayTrace.cfg", [seg], parallel=1)
    if val["accepted"]:
        print("replay: segment is accepted by the current specification")
        return 0
    print("VIOLATION property=C18 replay=%s" % path)
    return 1
