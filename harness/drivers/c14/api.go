package c14

import (
	"bytes"
	"encoding/json"
	"fmt"
	"net/http/httptest"
	"sort"
	"strings"

	client "github.com/influxdata/kapacitor/client/v1"
	"github.com/influxdata/kapacitor/services/httpd"
	"github.com/influxdata/kapacitor/services/storage"

	"kapverif/rt"
)

// ---- the model's alphabet and its concrete meaning ----

// The ids are prefix related on purpose (t / t2, p / p2): every key of the store is built by string
// concatenation (/tasks/data/<id>, /templates/tasks/<tpl>/<task>) and read back by prefix scans, so an
// id that is a prefix of another one is where a missing delimiter shows.
var TaskIDs = []string{"t", "t2"}
var TplIDs = []string{"p", "p2"}

// Scripts by model id.  s*: plain task scripts, q*: template scripts.
//
//	s1,s2  valid, no vars           sv  declares var v without a default (needs vars {v})
//	sx     rejected by validation   sf  writes to InfluxDB: starting it fails while the cluster is down
//	si     stream task with an implicit dbrp declaration (dbrp "db3"."rp3" = d3)
//	q1,q2  var with a default       qv  needs var v        qf  like sf, and declares d3
//	qi     declares d3              qb  batch template querying db1.rp1
//
// Every stream script has a log() node right after from() and no measurement filter: the harness
// probes which db.rp an executing task actually receives points from (see world.subscriptions).
var Scripts = map[string]string{
	"s1": "stream\n    |from()\n    |log()\n",
	"s2": "stream\n    |from()\n    |log()\n    |window()\n        .period(10s)\n        .every(10s)\n",
	"sv": "var v string\n\nstream\n    |from()\n    |log()\n        .prefix(v)\n",
	"sx": "stream\n    |nosuch()\n",
	"sf": "stream\n    |from()\n    |log()\n    |influxDBOut()\n        .cluster('c1')\n        .database('out')\n        .measurement('o')\n",
	"sb": "batch\n    |query('SELECT value FROM \"db1\".\"rp1\".\"m\"')\n        .period(10s)\n        .every(10s)\n    |count('value')\n",
	"si": "dbrp \"db3\".\"rp3\"\n\nstream\n    |from()\n    |log()\n",
	"q1": "var w = 'a'\n\nstream\n    |from()\n        .groupBy(w)\n    |log()\n",
	"q2": "var w = 'b'\n\nstream\n    |from()\n        .groupBy(w)\n    |log()\n    |window()\n        .period(10s)\n        .every(10s)\n",
	"qv": "var v string\n\nvar w = 'c'\n\nstream\n    |from()\n        .groupBy(w)\n    |log()\n        .prefix(v)\n",
	"qf": "dbrp \"db3\".\"rp3\"\n\nvar w = 'f'\n\nstream\n    |from()\n        .groupBy(w)\n    |log()\n    |influxDBOut()\n        .cluster('c1')\n        .database('out')\n        .measurement('o')\n",
	"qi": "dbrp \"db3\".\"rp3\"\n\nvar w = 'i'\n\nstream\n    |from()\n        .groupBy(w)\n    |log()\n",
	"qb": "var w = 'value'\n\nbatch\n    |query('SELECT value FROM \"db1\".\"rp1\".\"m\"')\n        .period(10s)\n        .every(10s)\n    |count(w)\n",
}

var scriptID = func() map[string]string {
	m := map[string]string{}
	for k, v := range Scripts {
		m[v] = k
	}
	return m
}()

// d3 (db3.rp3) is never sent in a request: it is what scripts si, qi, qf declare.
var DBRPs = map[string][]client.DBRP{
	"d1": {{Database: "db1", RetentionPolicy: "rp1"}},
	"d2": {{Database: "db2", RetentionPolicy: "rp2"}},
}

func varsOf(id string) client.Vars {
	switch id {
	case "vx":
		return client.Vars{"v": {Type: client.VarString, Value: "x"}}
	case "vy":
		return client.Vars{"v": {Type: client.VarString, Value: "y"}}
	}
	return nil
}

// Req is one API request in model terms.  Empty string = the option is not given.
type Req struct {
	Op     string // CreateTask UpdateTask DeleteTask CreateTpl UpdateTpl DeleteTpl
	ID     string // task id (task ops) or template id (template ops)
	NewID  string // Update*: new id
	Tpl    string // CreateTask/UpdateTask: template-id
	Script string // model script id
	DBRPs  string // d1 | d2
	Vars   string // vx | vy
	Status string // enabled | disabled
}

func (q Req) fields() rt.M {
	return rt.M{"op": q.Op, "id": q.ID, "newid": q.NewID, "tpl": q.Tpl, "script": q.Script, "dbrps": q.DBRPs, "vars": q.Vars, "status": q.Status}
}

func (q Req) key() string {
	return fmt.Sprintf("%s(%s,%s,%s,%s,%s,%s,%s)", q.Op, q.ID, q.NewID, q.Tpl, q.Script, q.DBRPs, q.Vars, q.Status)
}

func reqFromFields(m map[string]any) Req {
	s := func(k string) string { v, _ := m[k].(string); return v }
	return Req{Op: s("op"), ID: s("id"), NewID: s("newid"), Tpl: s("tpl"), Script: s("script"), DBRPs: s("dbrps"), Vars: s("vars"), Status: s("status")}
}

// http builds the real request for q.
func (q Req) http() (method, pattern, path string, body []byte) {
	switch q.Op {
	case "CreateTask":
		o := client.CreateTaskOptions{ID: q.ID, TemplateID: q.Tpl, TICKscript: Scripts[q.Script], DBRPs: DBRPs[q.DBRPs], Vars: varsOf(q.Vars)}
		if q.Script != "" && q.Tpl == "" {
			o.Type = client.StreamTask
			if q.Script == "sb" {
				o.Type = client.BatchTask
			}
		}
		o.Status = statusOf(q.Status)
		body, _ = json.Marshal(o)
		return "POST", "/tasks", httpd.BasePath + "/tasks", body
	case "UpdateTask":
		o := client.UpdateTaskOptions{ID: q.NewID, TemplateID: q.Tpl, TICKscript: Scripts[q.Script], DBRPs: DBRPs[q.DBRPs], Vars: varsOf(q.Vars)}
		o.Status = statusOf(q.Status)
		body, _ = json.Marshal(o)
		return "PATCH", "/tasks/", httpd.BasePath + "/tasks/" + q.ID, body
	case "DeleteTask":
		return "DELETE", "/tasks/", httpd.BasePath + "/tasks/" + q.ID, nil
	case "CreateTpl":
		o := client.CreateTemplateOptions{ID: q.ID, TICKscript: Scripts[q.Script], Type: client.StreamTask}
		if q.Script == "qb" {
			o.Type = client.BatchTask
		}
		body, _ = json.Marshal(o)
		return "POST", "/templates", httpd.BasePath + "/templates", body
	case "UpdateTpl":
		o := client.UpdateTemplateOptions{ID: q.NewID, TICKscript: Scripts[q.Script]}
		body, _ = json.Marshal(o)
		return "PATCH", "/templates/", httpd.BasePath + "/templates/" + q.ID, body
	case "DeleteTpl":
		return "DELETE", "/templates/", httpd.BasePath + "/templates/" + q.ID, nil
	}
	panic("unknown op " + q.Op)
}

func statusOf(s string) client.TaskStatus {
	switch s {
	case "enabled":
		return client.Enabled
	case "disabled":
		return client.Disabled
	}
	return 0
}

// call invokes the handler the service registered for method+pattern.
func (w *world) call(method, pattern, url string, body []byte) (int, []byte) {
	h, ok := w.routes[method+" "+pattern]
	if !ok {
		rt.Fatalf("no route %s %s registered by the task store", method, pattern)
	}
	var rd *bytes.Reader
	if body == nil {
		rd = bytes.NewReader(nil)
	} else {
		rd = bytes.NewReader(body)
	}
	r := httptest.NewRequest(method, url, rd)
	rec := httptest.NewRecorder()
	h(rec, r)
	return rec.Code, rec.Body.Bytes()
}

// do issues q and returns the HTTP status code.
func (w *world) do(q Req) int {
	m, pat, path, body := q.http()
	code, _ := w.call(m, pat, path, body)
	return code
}

// ---- the visible catalogue ----

// TaskView is what the API shows of one task id (X=false: not listed).
type TaskView struct {
	X      bool
	Type   string // stream | batch, as the API reports it
	Sub    string // executing stream task: the dbrp(s) it actually receives points from ("batch" for a batch task)
	Script string
	DBRPs  string
	Vars   string
	Status string
	Tpl    string
	Exec   bool // listed "executing" for listed tasks; TaskMaster.IsExecuting for unlisted ids
	Err    bool // stored error text is non-empty
}

func (v TaskView) m() rt.M {
	return rt.M{"x": v.X, "type": v.Type, "sub": v.Sub, "script": v.Script, "dbrps": v.DBRPs, "vars": v.Vars, "status": v.Status, "tpl": v.Tpl, "exec": v.Exec, "err": v.Err}
}

type Catalogue struct {
	Tasks map[string]TaskView
	// Pages: ids returned, in order, by paged / filtered list requests:
	//   o1   GET /tasks?offset=1                 l1   GET /tasks?limit=1
	//   po1  GET /tasks?pattern=t*&offset=1      pt2  GET /tasks?pattern=t2
	//   to1  GET /templates?offset=1
	Pages map[string][]string
	Tpls  map[string]string // template id -> script id ("" = not listed)
	Extra []string          // listed ids outside the model's universe, list/get disagreements
	Assoc [][]string        // raw association keys of the store (internal layout, drift level only)
}

func (c Catalogue) fields() rt.M {
	ts := rt.M{}
	for _, id := range TaskIDs {
		ts[id] = c.Tasks[id].m()
	}
	ps := rt.M{}
	for _, id := range TplIDs {
		ps[id] = c.Tpls[id]
	}
	as := []any{}
	for _, a := range c.Assoc {
		as = append(as, []any{a[0], a[1]})
	}
	ex := []any{}
	for _, e := range c.Extra {
		ex = append(ex, e)
	}
	pg := rt.M{}
	for _, k := range []string{"o1", "l1", "po1", "pt2", "to1"} {
		l := []any{}
		for _, id := range c.Pages[k] {
			l = append(l, id)
		}
		pg[k] = l
	}
	return rt.M{"tasks": ts, "tpls": ps, "assoc": as, "extra": ex, "pages": pg}
}

func dbrpsID(v any) string {
	l, _ := v.([]any)
	var parts []string
	for _, e := range l {
		m, _ := e.(map[string]any)
		parts = append(parts, fmt.Sprintf("%v.%v", m["db"], m["rp"]))
	}
	switch strings.Join(parts, ",") {
	case "":
		return "none"
	case "db1.rp1":
		return "d1"
	case "db2.rp2":
		return "d2"
	case "db3.rp3":
		return "d3"
	}
	return "?" + strings.Join(parts, ",")
}

func varsID(v any) string {
	m, _ := v.(map[string]any)
	if len(m) == 0 {
		return "none"
	}
	if len(m) == 1 {
		if e, ok := m["v"].(map[string]any); ok && e["type"] == "string" {
			switch e["value"] {
			case "x":
				return "vx"
			case "y":
				return "vy"
			}
		}
	}
	b, _ := json.Marshal(m)
	return "?" + string(b)
}

func scriptName(text any) string {
	s, _ := text.(string)
	if id, ok := scriptID[s]; ok {
		return id
	}
	return "?" + s
}

func inUniverse(id string, u []string) bool {
	for _, x := range u {
		if x == id {
			return true
		}
	}
	return false
}

func taskViewOf(t map[string]any) TaskView {
	v := TaskView{X: true}
	v.Type, _ = t["type"].(string)
	v.Script = scriptName(t["script"])
	v.DBRPs = dbrpsID(t["dbrps"])
	v.Vars = varsID(t["vars"])
	v.Status, _ = t["status"].(string)
	if tp, ok := t["template-id"].(string); ok && tp != "" {
		v.Tpl = tp
	} else {
		v.Tpl = "none"
	}
	v.Exec, _ = t["executing"].(bool)
	return v
}

// catalogue reads the visible state back through the API: the task list, every task of the
// universe individually, the template list, plus TaskMaster.IsExecuting for every id.
func (w *world) catalogue() Catalogue {
	c := Catalogue{Tasks: map[string]TaskView{}, Tpls: map[string]string{}}
	code, body := w.call("GET", "/tasks", httpd.BasePath+"/tasks?script-format=raw&fields=type&fields=dbrps&fields=script&fields=status&fields=executing&fields=error&fields=vars&fields=template-id", nil)
	if code != 200 {
		c.Extra = append(c.Extra, fmt.Sprintf("list tasks: %d %s", code, body))
		return c
	}
	var lr struct {
		Tasks []map[string]any `json:"tasks"`
	}
	if err := json.Unmarshal(body, &lr); err != nil {
		c.Extra = append(c.Extra, "list tasks: "+err.Error())
		return c
	}
	for _, t := range lr.Tasks {
		id, _ := t["id"].(string)
		if !inUniverse(id, TaskIDs) {
			c.Extra = append(c.Extra, "task "+id)
			continue
		}
		if _, dup := c.Tasks[id]; dup {
			c.Extra = append(c.Extra, "task listed twice "+id)
		}
		v := taskViewOf(t)
		e, _ := t["error"].(string)
		v.Err = e != ""
		if v.Exec != w.tm.IsExecuting(id) {
			c.Extra = append(c.Extra, "listed executing differs from TaskMaster.IsExecuting for "+id)
		}
		c.Tasks[id] = v
	}
	for _, id := range TaskIDs {
		code, body := w.call("GET", "/tasks/", httpd.BasePath+"/tasks/"+id+"?script-format=raw", nil)
		lv, listed := c.Tasks[id]
		switch {
		case code == 404 && !listed:
			// the id is not defined; is something executing under it nevertheless?
			c.Tasks[id] = TaskView{Exec: w.tm.IsExecuting(id)}
		case code == 200 && listed:
			var t map[string]any
			if err := json.Unmarshal(body, &t); err != nil {
				c.Extra = append(c.Extra, "get task "+id+": "+err.Error())
				continue
			}
			gv := taskViewOf(t)
			gv.Err = lv.Err // GET reports a computed error (validation of the stored definition); the list reports the stored one
			if gv != lv {
				c.Extra = append(c.Extra, fmt.Sprintf("get and list disagree on %s: %+v vs %+v", id, gv, lv))
			}
		default:
			c.Extra = append(c.Extra, fmt.Sprintf("get task %s: code %d, listed %v", id, code, listed))
		}
	}
	// what the executing tasks are really subscribed to
	var streams []string
	for _, id := range TaskIDs {
		if v := c.Tasks[id]; v.X && v.Exec {
			// the type of what EXECUTES (a PATCH may have changed the stored type since it was started):
			// only an executing batch task has batch collectors
			if len(w.tm.BatchCollectors(id)) == 0 {
				streams = append(streams, id)
			} else {
				v.Sub = "batch"
				c.Tasks[id] = v
			}
		}
	}
	for id, sub := range w.subscriptions(streams) {
		v := c.Tasks[id]
		v.Sub = sub
		c.Tasks[id] = v
	}
	code, body = w.call("GET", "/templates", httpd.BasePath+"/templates?script-format=raw&fields=script", nil)
	if code != 200 {
		c.Extra = append(c.Extra, fmt.Sprintf("list templates: %d", code))
		return c
	}
	var tr struct {
		Templates []map[string]any `json:"templates"`
	}
	if err := json.Unmarshal(body, &tr); err != nil {
		c.Extra = append(c.Extra, "list templates: "+err.Error())
		return c
	}
	for _, t := range tr.Templates {
		id, _ := t["id"].(string)
		if !inUniverse(id, TplIDs) {
			c.Extra = append(c.Extra, "template "+id)
			continue
		}
		c.Tpls[id] = scriptName(t["script"])
	}
	for _, id := range TplIDs {
		code, _ := w.call("GET", "/templates/", httpd.BasePath+"/templates/"+id, nil)
		_, listed := c.Tpls[id]
		if (code == 200) != listed || (code != 200 && code != 404) {
			c.Extra = append(c.Extra, fmt.Sprintf("get template %s: code %d, listed %v", id, code, listed))
		}
		if !listed {
			c.Tpls[id] = "none"
		}
	}
	c.Pages = map[string][]string{}
	for k, q := range map[string]string{
		"o1":  "/tasks?offset=1",
		"l1":  "/tasks?limit=1",
		"po1": "/tasks?pattern=" + TaskIDs[0] + "*&offset=1",
		"pt2": "/tasks?pattern=" + TaskIDs[1],
		"to1": "/templates?offset=1",
	} {
		ids, err := w.listIDs(q)
		if err != nil {
			c.Extra = append(c.Extra, "list "+q+": "+err.Error())
		}
		c.Pages[k] = ids
	}
	c.Assoc = w.assoc()
	sort.Strings(c.Extra)
	return c
}

// listIDs issues a list request (path with query, below the base path) asking for ids only and returns
// the ids in the order of the answer.
func (w *world) listIDs(pathQuery string) ([]string, error) {
	pat, key := "/tasks", "tasks"
	if strings.HasPrefix(pathQuery, "/templates") {
		pat, key = "/templates", "templates"
	}
	code, body := w.call("GET", pat, httpd.BasePath+pathQuery+"&fields=id", nil)
	if code != 200 {
		return nil, fmt.Errorf("code %d", code)
	}
	var m map[string][]map[string]any
	if err := json.Unmarshal(body, &m); err != nil {
		return nil, err
	}
	var ids []string
	for _, e := range m[key] {
		id, _ := e["id"].(string)
		ids = append(ids, id)
	}
	return ids, nil
}

// assoc dumps the template/task association keys straight from the store.
func (w *world) assoc() [][]string {
	const prefix = "/templates/tasks/"
	var out [][]string
	err := w.store.Store(taskNS).View(func(tx storage.ReadOnlyTx) error {
		kvs, err := tx.List(prefix)
		if err != nil {
			return err
		}
		for _, kv := range kvs {
			rest := strings.TrimPrefix(kv.Key, prefix)
			i := strings.Index(rest, "/")
			if i < 0 {
				out = append(out, []string{rest, "?"})
				continue
			}
			out = append(out, []string{rest[:i], rest[i+1:]})
		}
		return nil
	})
	if err != nil {
		rt.Fatalf("reading associations: %v", err)
	}
	sort.Slice(out, func(i, j int) bool {
		if out[i][0] != out[j][0] {
			return out[i][0] < out[j][0]
		}
		return out[i][1] < out[j][1]
	})
	return out
}
