package c14

import (
	"bufio"
	"encoding/json"
	"fmt"
	"os"
	"path/filepath"
	"runtime"
	"strings"
	"sync"

	"kapverif/rt"
)

func init() { rt.Register("c14", Run) }

// Step is one element of a history: an API request, a clean restart, or an environment change.
type Step struct {
	Kind string // req | restart | env | crashgo
	Q    Req
	Up   bool
	K    int // crashgo: continue on the copy taken after the K-th (1-based) transaction of the preceding request
}

func (s Step) key() string {
	switch s.Kind {
	case "restart":
		return "Restart"
	case "env":
		return fmt.Sprintf("Env(%v)", s.Up)
	case "crashgo":
		return fmt.Sprintf("CrashGo(%d)", s.K)
	}
	return s.Q.key()
}

func R(q Req) Step { return Step{Kind: "req", Q: q} }

var restartStep = Step{Kind: "restart"}

// ev is one trace line, buffered until the histories of a level are written in order.
type ev struct {
	name   string
	fields rt.M
}

// outcome of executing one history.
type outcome struct {
	evs []ev
	// inert: the last step committed no transaction and left the visible catalogue unchanged;
	// extending the history is then the same as extending the history without that step.
	inert   bool
	ntx     int  // committed transactions of the last request
	nsnaps  int  // crash points restarted
	skipped bool // not executed: the run was cut short after repeated stop hangs
}

type runner struct {
	dir     string
	scratch string
	seq     int64
	mu      sync.Mutex
}

func (rn *runner) tmp(prefix string) string {
	rn.mu.Lock()
	rn.seq++
	n := rn.seq
	rn.mu.Unlock()
	return filepath.Join(rn.dir, fmt.Sprintf("%s%d.db", prefix, n))
}

func merge(a, b rt.M) rt.M {
	m := rt.M{}
	for k, v := range a {
		m[k] = v
	}
	for k, v := range b {
		m[k] = v
	}
	return m
}

func sameView(a, b Catalogue) bool {
	for _, id := range TaskIDs {
		if a.Tasks[id] != b.Tasks[id] {
			return false
		}
	}
	for _, id := range TplIDs {
		if a.Tpls[id] != b.Tpls[id] {
			return false
		}
	}
	return len(a.Extra) == 0 && len(b.Extra) == 0 && fmt.Sprint(a.Assoc) == fmt.Sprint(b.Assoc)
}

// session executes steps on one lineage of worlds (the current world is replaced at restarts
// and at crash-and-continue points).
type session struct {
	rn   *runner
	w    *world
	up   bool
	path string
	evs  []ev
	cat  Catalogue
}

func (rn *runner) begin(up bool) (*session, error) {
	s := &session{rn: rn, up: up, path: rn.tmp("h")}
	w, err := openWorld(s.path, up)
	if err != nil {
		return nil, err
	}
	s.w = w
	s.evs = append(s.evs, ev{"Reset", rt.M{"up": up}})
	s.cat = w.catalogue()
	return s, nil
}

func (s *session) end() {
	s.w.shutdown()
	os.Remove(s.path)
}

// request issues q, snapshotting the store after every committed transaction of the task
// store namespace.  Returns the snapshot files (one per commit) and whether the step was inert.
func (s *session) request(q Req, wantSnaps bool) (snaps []string, inert bool) {
	ntx := 0
	w := s.w
	w.onTx = func(phase string, ops []rt.TxOp, err error) {
		if phase != "end" || err != nil {
			return // a transaction that returned an error was rolled back: not a commit
		}
		ntx++
		if wantSnaps {
			sp := s.rn.tmp("s")
			if e := w.snap.Snapshot(sp); e != nil {
				rt.Fatalf("snapshot: %v", e)
			}
			snaps = append(snaps, sp)
		}
	}
	code := w.do(q)
	w.onTx = nil
	cat := w.catalogue()
	s.evs = append(s.evs, ev{"Req", merge(merge(q.fields(), cat.fields()), rt.M{"ok": code < 300, "code": code, "ntx": ntx})})
	inert = ntx == 0 && sameView(cat, s.cat)
	s.cat = cat
	return snaps, inert
}

func (s *session) restart() {
	if !s.w.shutdown() {
		// the old stack never stopped: it still holds the file; continue on a consistent copy
		np := s.rn.tmp("h")
		if err := s.w.snap.Snapshot(np); err != nil {
			rt.Fatalf("snapshot of a hung world: %v", err)
		}
		s.path = np
	}
	w, err := openWorld(s.path, s.up)
	if err != nil {
		rt.Fatalf("restart: %v", err)
	}
	s.w = w
	s.cat = w.catalogue()
	s.evs = append(s.evs, ev{"Restart", s.cat.fields()})
}

func (s *session) env(up bool) {
	s.up = up
	s.w.clu.up.Store(up)
	s.evs = append(s.evs, ev{"Env", rt.M{"up": up}})
}

// crashViews opens a fresh stack on every snapshot, logs what it shows, and removes the copy.
func (s *session) crashViews(snaps []string) {
	for k, sp := range snaps {
		cw, err := openWorld(sp, s.up)
		if err != nil {
			rt.Fatalf("restart on snapshot: %v", err)
		}
		c := cw.catalogue()
		cw.shutdown()
		os.Remove(sp)
		s.evs = append(s.evs, ev{"Crash", merge(c.fields(), rt.M{"k": k + 1, "ntx": len(snaps)})})
	}
}

// crashGo abandons the current world and continues on snapshot k (0-based) of the last request.
func (s *session) crashGo(snaps []string, k int) {
	s.w.shutdown()
	os.Remove(s.path)
	for i, sp := range snaps {
		if i != k {
			os.Remove(sp)
		}
	}
	s.path = snaps[k]
	w, err := openWorld(s.path, s.up)
	if err != nil {
		rt.Fatalf("restart on snapshot: %v", err)
	}
	s.w = w
	s.cat = w.catalogue()
	s.evs = append(s.evs, ev{"CrashGo", merge(s.cat.fields(), rt.M{"k": k + 1, "ntx": len(snaps)})})
}

func (s *session) step(st Step, wantSnaps bool) (snaps []string, inert bool) {
	switch st.Kind {
	case "restart":
		before := s.cat
		s.restart()
		return nil, sameView(before, s.cat) && false // a restart is never pruned
	case "env":
		s.env(st.Up)
		return nil, false
	}
	return s.request(st.Q, wantSnaps)
}

// runHistory: the whole history on a fresh store; every transaction boundary of the LAST request
// is a crash point (the crash points of earlier requests belong to the shorter histories).
func (rn *runner) runHistory(h []Step, up bool) outcome {
	s, err := rn.begin(up)
	if err != nil {
		rt.Fatalf("open world: %v", err)
	}
	defer s.end()
	var o outcome
	for i, st := range h {
		lastOne := i == len(h)-1
		snaps, inert := s.step(st, lastOne)
		if lastOne {
			o.inert = inert
			o.ntx = len(snaps)
			o.nsnaps = len(snaps)
			s.crashViews(snaps)
		}
	}
	s.templateProbes()
	o.evs = s.evs
	return o
}

// templateProbes ends a history with one update of every template that exists, towards a script it does
// not have (q2, or q1 if it has q2): whatever the history did to the template/task associations - which
// no API request shows - decides which tasks follow, and the model says which must.
func (s *session) templateProbes() {
	for _, id := range TplIDs {
		cur := s.cat.Tpls[id]
		if cur == "" || cur == "none" {
			continue
		}
		other := "q2"
		if cur == "q2" {
			other = "q1"
		}
		s.request(Req{Op: "UpdateTpl", ID: id, Script: other}, false)
	}
}

// runCrashThen: history h, crash after transaction k of its last request, then one more step.
func (rn *runner) runCrashThen(h []Step, up bool, k int, then Step) outcome {
	s, err := rn.begin(up)
	if err != nil {
		rt.Fatalf("open world: %v", err)
	}
	defer s.end()
	var o outcome
	for i, st := range h {
		lastOne := i == len(h)-1
		snaps, _ := s.step(st, lastOne)
		if lastOne {
			if k >= len(snaps) {
				rt.Fatalf("crash point %d of %d vanished on re-execution of %v", k+1, len(snaps), keys(h))
			}
			s.crashGo(snaps, k)
		}
	}
	s.step(then, false)
	o.evs = s.evs
	return o
}

func keys(h []Step) string {
	var ks []string
	for _, s := range h {
		ks = append(ks, s.key())
	}
	return strings.Join(ks, ";")
}

// ---------- alphabets ----------

func alphabet(tier string) []Step {
	c := func(id, script, tpl, dbrps, vars, status string) Step {
		return R(Req{Op: "CreateTask", ID: id, Script: script, Tpl: tpl, DBRPs: dbrps, Vars: vars, Status: status})
	}
	u := func(id string, f func(*Req)) Step {
		q := Req{Op: "UpdateTask", ID: id}
		f(&q)
		return R(q)
	}
	a := []Step{
		c("t", "s1", "", "d1", "", "enabled"),
		c("t", "", "p", "d1", "", "enabled"),
		c("t2", "", "p", "d1", "vx", ""),
		c("t", "", "p", "", "", ""), // rejected: no dbrps
		c("t2", "s1", "", "d1", "", ""),
		u("t", func(q *Req) { q.Script = "s2" }),
		u("t", func(q *Req) { q.Script = "sv" }),
		u("t", func(q *Req) { q.DBRPs = "d2" }),
		u("t", func(q *Req) { q.Vars = "vx" }),
		u("t", func(q *Req) { q.Status = "enabled" }),
		u("t", func(q *Req) { q.Status = "disabled" }),
		u("t", func(q *Req) { q.NewID = "t2" }),
		u("t2", func(q *Req) { q.NewID = "t" }),
		u("t", func(q *Req) { q.Tpl = "p" }),
		u("t", func(q *Req) { q.Tpl = "p"; q.Vars = "vx" }), // what `kapacitor define t -template p -vars ...` sends
		u("t", func(q *Req) { q.Tpl = "p2" }),
		R(Req{Op: "DeleteTask", ID: "t"}),
		R(Req{Op: "CreateTpl", ID: "p", Script: "q1"}),
		R(Req{Op: "CreateTpl", ID: "p2", Script: "qv"}),
		R(Req{Op: "CreateTpl", ID: "p2", Script: "qi"}), // declares its dbrp
		u("t", func(q *Req) { q.Tpl = "p2"; q.DBRPs = "d2" }),
		R(Req{Op: "UpdateTpl", ID: "p", Script: "q2"}),
		R(Req{Op: "UpdateTpl", ID: "p", Script: "qv"}),
		R(Req{Op: "UpdateTpl", ID: "p", NewID: "p2"}),
		R(Req{Op: "DeleteTpl", ID: "p"}),
		restartStep,
	}
	if tier == "thorough" {
		a = append(a,
			c("t2", "sf", "", "d1", "", "enabled"),
			c("t2", "sb", "", "d1", "", "enabled"),
			c("t", "si", "", "", "", "enabled"),
			u("t", func(q *Req) { q.Script = "s1" }),
			R(Req{Op: "CreateTpl", ID: "p2", Script: "qb"}),
			R(Req{Op: "UpdateTpl", ID: "p", Script: "qi"}),
			u("t2", func(q *Req) { q.DBRPs = "d2" }),
			c("t", "sx", "", "d1", "", ""),
			u("t2", func(q *Req) { q.Status = "enabled" }),
			u("t2", func(q *Req) { q.Status = "disabled"; q.NewID = "t" }),
			R(Req{Op: "DeleteTask", ID: "t2"}),
			R(Req{Op: "UpdateTpl", ID: "p", Script: "qf"}),
			R(Req{Op: "UpdateTpl", ID: "p2", Script: "q1", NewID: "p"}),
			Step{Kind: "env", Up: false},
			Step{Kind: "env", Up: true},
		)
	}
	return a
}

// setups are the catalogues the second exhaustive sweep starts from.
func setups() [][]Step {
	c := func(id, script, tpl, dbrps, vars, status string) Step {
		return R(Req{Op: "CreateTask", ID: id, Script: script, Tpl: tpl, DBRPs: dbrps, Vars: vars, Status: status})
	}
	ct := func(id, s string) Step { return R(Req{Op: "CreateTpl", ID: id, Script: s}) }
	return [][]Step{
		// both tasks on p (one enabled, one disabled with vars), nothing on p2
		{ct("p", "q1"), ct("p2", "q2"), c("t", "", "p", "d1", "", "enabled"), c("t2", "", "p", "d1", "vx", "")},
		// one task on each template, p2 declares its dbrp
		{ct("p", "q1"), ct("p2", "qi"), c("t", "", "p", "d1", "", "enabled"), c("t2", "", "p2", "", "", "enabled")},
	}
}

// scenarios are hand-written histories longer than the exhaustive bound: one per defect found,
// plus the situations DESIGN.md C14 names (rename while enabled, failed update followed by a
// restart, template update failing on the n-th task).
func scenarios() [][]Step {
	c := func(id, script, tpl, dbrps, vars, status string) Step {
		return R(Req{Op: "CreateTask", ID: id, Script: script, Tpl: tpl, DBRPs: dbrps, Vars: vars, Status: status})
	}
	ct := func(id, s string) Step { return R(Req{Op: "CreateTpl", ID: id, Script: s}) }
	ut := func(id, s, nid string) Step { return R(Req{Op: "UpdateTpl", ID: id, Script: s, NewID: nid}) }
	up := func(q Req) Step { q.Op = "UpdateTask"; return R(q) }
	cg := func(k int) Step { return Step{Kind: "crashgo", K: k} }
	return [][]Step{
		// orphan association of a rejected create, then a foreign task under the same id
		{ct("p", "q1"), c("t", "", "p", "", "", ""), c("t", "s1", "", "d1", "", ""), ut("p", "q2", "")},
		// template switch, then both templates updated
		{ct("p", "q1"), ct("p2", "q2"), c("t", "", "p", "d1", "", ""), up(Req{ID: "t", Tpl: "p2"}), ut("p2", "qf", ""), ut("p", "q2", "")},
		// template update failing on the second task
		{ct("p", "q1"), c("t", "", "p", "d1", "vx", "enabled"), c("t2", "", "p", "d1", "", "enabled"), ut("p", "qv", ""), up(Req{ID: "t2", Status: "disabled"}), restartStep},
		// ... on the first task, with a disabled second one
		{ct("p", "q1"), c("t", "", "p", "d1", "", "enabled"), c("t2", "", "p", "d1", "", ""), ut("p", "qv", ""), restartStep},
		// template rename with a failing task
		{ct("p", "q1"), c("t", "", "p", "d1", "vx", "enabled"), c("t2", "", "p", "d1", "", "enabled"), ut("p", "qv", "p2"), up(Req{ID: "t", Status: "disabled"}), ut("p", "q2", "")},
		// template rename, accepted
		{ct("p", "q1"), c("t", "", "p", "d1", "vx", "enabled"), c("t2", "", "p", "d1", "", ""), ut("p", "q2", "p2"), ut("p2", "qv", ""), restartStep},
		// rename while enabled, from a template, then template update
		{ct("p", "q1"), c("t", "", "p", "d1", "", "enabled"), up(Req{ID: "t", NewID: "t2"}), ut("p", "q2", ""), restartStep},
		// rename onto an existing task of the same template
		{ct("p", "q1"), c("t", "", "p", "d1", "", "enabled"), c("t2", "", "p", "d1", "", ""), up(Req{ID: "t", NewID: "t2"}), ut("p", "q2", "")},
		// failed update followed by restart
		{c("t", "s1", "", "d1", "", "enabled"), up(Req{ID: "t", Script: "sx"}), restartStep, up(Req{ID: "t", Script: "sv"}), up(Req{ID: "t", Script: "sv", Vars: "vy"}), restartStep},
		// start failures: created while the cluster is down, restart while up / down
		{Step{Kind: "env", Up: false}, c("t", "sf", "", "d1", "", "enabled"), restartStep, Step{Kind: "env", Up: true}, up(Req{ID: "t", Status: "enabled"}), restartStep, Step{Kind: "env", Up: false}, restartStep},
		{ct("p", "q1"), c("t", "", "p", "d1", "", "enabled"), c("t2", "", "p", "d1", "", "enabled"), Step{Kind: "env", Up: false}, ut("p", "qf", ""), Step{Kind: "env", Up: true}, ut("p", "qf", ""), Step{Kind: "env", Up: false}, restartStep},
		// batch task whose query is outside its dbrps: the definition is accepted, the start fails
		{c("t", "sb", "", "d2", "", "enabled"), up(Req{ID: "t", DBRPs: "d1"}), restartStep, up(Req{ID: "t", DBRPs: "d2"}), up(Req{ID: "t", Status: "disabled"}), up(Req{ID: "t", Status: "enabled"}), restartStep, R(Req{Op: "DeleteTask", ID: "t"})},
		{c("t", "sb", "", "d1", "", "enabled"), up(Req{ID: "t", DBRPs: "d2"}), up(Req{ID: "t", NewID: "t2"}), restartStep},
		// PATCH naming the template the task already has (with vars): the template must still know the task
		{ct("p", "q1"), c("t", "", "p", "d1", "", "enabled"), c("t2", "", "p", "d1", "", ""), up(Req{ID: "t", Tpl: "p", Vars: "vx"}), ut("p", "qv", ""), up(Req{ID: "t2", Tpl: "p", Vars: "vy"}), ut("p", "qv", ""), restartStep, ut("p", "q2", "")},
		// template renamed onto an EXISTING template id: rejected, and nothing may have changed -
		// tasks on the renamed one only / on both / on the target only / on neither
		{ct("p", "q1"), ct("p2", "q2"), c("t", "", "p", "d1", "", "enabled"), c("t2", "", "p", "d1", "", ""), ut("p", "", "p2"), ut("p", "qv", "p2"), restartStep, ut("p2", "q1", ""), ut("p", "q2", "")},
		{ct("p", "q1"), ct("p2", "q2"), c("t", "", "p", "d1", "", "enabled"), c("t2", "", "p2", "d1", "", "enabled"), ut("p", "", "p2"), ut("p2", "", "p"), restartStep, ut("p2", "q1", ""), ut("p", "q2", "")},
		{ct("p", "q1"), ct("p2", "q2"), c("t", "", "p2", "d1", "", "enabled"), ut("p", "", "p2"), ut("p2", "q1", ""), ut("p", "q2", "")},
		{ct("p", "q1"), ct("p2", "q2"), ut("p", "", "p2"), ut("p2", "", "p"), restartStep},
		// --- type and dbrps are derived from the script in force ---
		// plain task moved to a template that declares its dbrp; reload; back to a template without, with and without dbrps
		{ct("p", "q1"), ct("p2", "qi"), c("t", "s1", "", "d1", "", "enabled"), up(Req{ID: "t", Tpl: "p2"}), restartStep, up(Req{ID: "t", Tpl: "p"}), up(Req{ID: "t", Tpl: "p2"}), up(Req{ID: "t", Tpl: "p", DBRPs: "d2"}), restartStep},
		// task of a declaring template moved to a plain template together with dbrps; declaring template + dbrps is rejected
		{ct("p", "qi"), ct("p2", "q2"), c("t", "", "p", "", "", "enabled"), c("t2", "", "p", "d1", "", ""), up(Req{ID: "t", Tpl: "p2", DBRPs: "d1"}), up(Req{ID: "t", Tpl: "p", DBRPs: "d2"}), up(Req{ID: "t", Status: "disabled"}), up(Req{ID: "t", Status: "enabled"})},
		// stream task moved to a batch template and back: the type follows, the executing task is reloaded only by a restart
		{ct("p", "q1"), ct("p2", "qb"), c("t", "s1", "", "d1", "", "enabled"), up(Req{ID: "t", Tpl: "p2"}), restartStep, up(Req{ID: "t", Tpl: "p"}), restartStep, ut("p", "qb", ""), ut("p2", "q1", "")},
		// plain tasks: script with a declaration <-> script without
		{c("t", "si", "", "d1", "", ""), c("t", "si", "", "", "", "enabled"), up(Req{ID: "t", Script: "s1"}), up(Req{ID: "t", Script: "s1", DBRPs: "d2"}), up(Req{ID: "t", Script: "si", DBRPs: "d1"}), up(Req{ID: "t", Script: "si"}), up(Req{ID: "t", Script: "sb"}), restartStep},
		// template update between declaring and not declaring scripts: enabled tasks lose their dbrps and the update is rejected
		{ct("p", "qi"), c("t", "", "p", "", "", ""), ut("p", "q1", ""), up(Req{ID: "t", Status: "enabled"}), up(Req{ID: "t", DBRPs: "d1"}), restartStep, ut("p", "qi", ""), ut("p", "q2", ""), restartStep},
		// rejected template update towards a declaring script: the rolled back tasks keep their own dbrps
		{ct("p", "q1"), c("t", "", "p", "d1", "", "enabled"), c("t2", "", "p", "d2", "", "enabled"), Step{Kind: "env", Up: false}, ut("p", "qf", ""), Step{Kind: "env", Up: true}, restartStep, ut("p", "qf", ""), restartStep},
		// template ids where one is a prefix of the other: deleting / renaming one must not touch the other's tasks
		{ct("p", "q1"), ct("p2", "q2"), c("t", "", "p2", "d1", "", "enabled"), c("t2", "", "p", "d1", "", ""), R(Req{Op: "DeleteTpl", ID: "p"}), ut("p2", "q1", ""), restartStep},
		{ct("p", "q1"), ct("p2", "q2"), c("t", "", "p2", "d1", "", "enabled"), c("t2", "", "p", "d1", "", ""), R(Req{Op: "DeleteTpl", ID: "p2"}), ut("p", "q2", ""), restartStep},
		{ct("p", "q1"), c("t", "", "p", "d1", "", "enabled"), c("t2", "", "p", "d1", "", ""), ut("p", "", "p2"), ut("p2", "q2", ""), ut("p2", "", "p"), ut("p", "q1", "")},
		// delete and re-create template: documented orphans
		{ct("p", "q1"), c("t", "", "p", "d1", "", "enabled"), R(Req{Op: "DeleteTpl", ID: "p"}), up(Req{ID: "t", Status: "disabled"}), ct("p", "q2"), up(Req{ID: "t", Status: "disabled"}), ut("p", "q1", "")},
		// --- crash inside a request, restart on that copy, and go on ---
		// association written, task not yet: a foreign task under that id must not follow the template
		{ct("p", "q1"), c("t", "", "p", "d1", "", ""), cg(1), c("t", "s1", "", "d1", "", "enabled"), ut("p", "q2", ""), restartStep},
		// templated task deleted, association not yet; then a plain task under the same id
		{ct("p", "q1"), c("t", "", "p", "d1", "", "enabled"), R(Req{Op: "DeleteTask", ID: "t"}), cg(2), c("t", "s1", "", "d1", "", ""), ut("p", "q2", "")},
		// rename cut between create and delete: both ids; clean up by hand
		{c("t", "s1", "", "d1", "", "enabled"), up(Req{ID: "t", NewID: "t2"}), cg(1), R(Req{Op: "DeleteTask", ID: "t"}), restartStep, up(Req{ID: "t2", Status: "disabled"})},
		// templated rename cut after the new association
		{ct("p", "q1"), c("t", "", "p", "d1", "", "enabled"), up(Req{ID: "t", NewID: "t2"}), cg(1), ut("p", "q2", ""), up(Req{ID: "t", NewID: "t2"}), ut("p", "q1", "")},
		// template switch cut after the task was written: old association still there
		{ct("p", "q1"), ct("p2", "q2"), c("t", "", "p", "d1", "", ""), up(Req{ID: "t", Tpl: "p2"}), cg(2), ut("p", "qf", ""), ut("p2", "q1", "")},
		// template update cut after the first task; issued again afterwards
		{ct("p", "q1"), c("t", "", "p", "d1", "", "enabled"), c("t2", "", "p", "d1", "", "enabled"), ut("p", "q2", ""), cg(2), ut("p", "q2", ""), restartStep},
		// template rename cut before the template itself was saved
		{ct("p", "q1"), c("t", "", "p", "d1", "", "enabled"), ut("p", "q2", "p2"), cg(3), up(Req{ID: "t", Status: "disabled"}), ut("p", "q2", "p2"), up(Req{ID: "t", Status: "disabled"})},
		// delete of templated enabled task, re-create plain under the same id
		{ct("p", "q1"), c("t", "", "p", "d1", "", "enabled"), R(Req{Op: "DeleteTask", ID: "t"}), c("t", "s1", "", "d1", "", "enabled"), ut("p", "q2", "")},
	}
}

// ---------- the driver ----------

type job struct {
	h     []Step
	up    bool
	crash int  // >= 0: crash after that transaction of the last step, then `then`
	then  Step // only with crash >= 0
}

func (rn *runner) runAll(jobs []job, workers int) []outcome {
	res := make([]outcome, len(jobs))
	var wg sync.WaitGroup
	ch := make(chan int)
	for i := 0; i < workers; i++ {
		wg.Add(1)
		go func() {
			defer wg.Done()
			for k := range ch {
				j := jobs[k]
				if hangs.Load() >= maxHangs {
					res[k] = outcome{skipped: true, inert: true}
					continue
				}
				if j.crash >= 0 {
					res[k] = rn.runCrashThen(j.h, j.up, j.crash, j.then)
				} else {
					res[k] = rn.runHistory(j.h, j.up)
				}
			}
		}()
	}
	for k := range jobs {
		ch <- k
	}
	close(ch)
	wg.Wait()
	return res
}

// maxHangs: after that many stop sequences that never returned the rest of the run is skipped.
const maxHangs = 3

// runChunked runs the jobs on the worker pool a chunk at a time and hands every outcome to use, in job
// order; the recorded events of a chunk are dropped once written (a level of the thorough tier has 10^5
// histories: keeping all their events until the level is complete costs tens of GB).
func (rn *runner) runChunked(jobs []job, workers int, use func(k int, o outcome)) {
	const chunk = 512
	for a := 0; a < len(jobs); a += chunk {
		b := a + chunk
		if b > len(jobs) {
			b = len(jobs)
		}
		for i, o := range rn.runAll(jobs[a:b], workers) {
			use(a+i, o)
		}
	}
}

func emit(t *rt.Trace, o outcome) {
	for i, e := range o.evs {
		if i == 0 {
			t.Reset(e.fields)
		} else {
			t.Event(e.name, e.fields)
		}
	}
}

func Run(r *rt.Run) error {
	base := "/dev/shm"
	if st, err := os.Stat(base); err != nil || !st.IsDir() {
		base = os.TempDir()
	}
	dir, err := os.MkdirTemp(base, "kvh-c14-")
	if err != nil {
		return err
	}
	defer os.RemoveAll(dir)
	rn := &runner{dir: dir}
	workers := runtime.NumCPU() / 2
	if workers > 8 {
		workers = 8
	}
	if workers < 1 {
		workers = 1
	}
	t := r.NewTrace("trace")

	maxLen, crashThenLen, nRandom, randLen, setupLen := 3, 2, 150, 12, 2
	if r.Thorough() {
		maxLen, crashThenLen, nRandom, randLen, setupLen = 4, 2, 2000, 16, 2
	}
	alpha := alphabet(r.Tier)
	stats := map[string]int{}

	// B1: every history up to maxLen over the alphabet (histories extending an inert step pruned),
	// with every transaction boundary of the last request as a crash point.
	level := [][]Step{{}}
	var crashBase []struct {
		h   []Step
		ntx int
	}
	// Beyond length 3 (thorough) only the quick alphabet is used, on histories made of quick steps: the full
	// alphabet at length 4 is 4x the work and did not fit the budget; its extra steps get length 3 here,
	// length 6 in the set-up sweep and the random histories.
	quickAlpha := alphabet("quick")
	quickKeys := map[string]bool{}
	for _, st := range quickAlpha {
		quickKeys[st.key()] = true
	}
	allQuick := func(h []Step) bool {
		for _, st := range h {
			if !quickKeys[st.key()] {
				return false
			}
		}
		return true
	}
	for L := 1; L <= maxLen; L++ {
		var jobs []job
		for _, p := range level {
			ext := alpha
			if L > 3 {
				if !allQuick(p) {
					continue
				}
				ext = quickAlpha
			}
			for _, st := range ext {
				h := append(append([]Step(nil), p...), st)
				jobs = append(jobs, job{h: h, up: true, crash: -1})
			}
		}
		var next [][]Step
		rn.runChunked(jobs, workers, func(k int, o outcome) {
			if o.skipped {
				stats["skipped_after_hangs"]++
				return
			}
			emit(t, o)
			stats["histories"]++
			stats["crash_points"] += o.nsnaps
			if o.inert {
				stats["inert_last_step"]++
			} else {
				next = append(next, jobs[k].h)
				t.Distinct(keys(jobs[k].h))
			}
			if L <= crashThenLen && o.ntx > 0 {
				crashBase = append(crashBase, struct {
					h   []Step
					ntx int
				}{jobs[k].h, o.ntx})
			}
		})
		level = next
	}
	// B1 again from catalogues that take four requests to build: two templates and two tasks, then every
	// history of length <= setupLen (quick 2) on top, crash points and template probes as above.
	for si, setup := range setups() {
		level := [][]Step{setup}
		for L := 1; L <= setupLen; L++ {
			var jobs []job
			for _, p := range level {
				for _, st := range alpha {
					jobs = append(jobs, job{h: append(append([]Step(nil), p...), st), up: true, crash: -1})
				}
			}
			var next [][]Step
			rn.runChunked(jobs, workers, func(k int, o outcome) {
				if o.skipped {
					stats["skipped_after_hangs"]++
					return
				}
				emit(t, o)
				stats[fmt.Sprintf("setup%d_histories", si+1)]++
				stats["crash_points"] += o.nsnaps
				if !o.inert {
					next = append(next, jobs[k].h)
					t.Distinct(keys(jobs[k].h))
				}
			})
			level = next
		}
	}
	// B3: crash at every transaction boundary of the last request of every short history, restart on
	// the copy and continue with every request of the alphabet (what a hidden half-done state does later).
	{
		var jobs []job
		for _, cb := range crashBase {
			for k := 0; k < cb.ntx; k++ {
				for _, st := range alpha {
					if st.Kind != "req" {
						continue
					}
					jobs = append(jobs, job{h: cb.h, up: true, crash: k, then: st})
				}
			}
		}
		rn.runChunked(jobs, workers, func(_ int, o outcome) {
			if o.skipped {
				stats["skipped_after_hangs"]++
				return
			}
			emit(t, o)
			stats["crash_then_continue"]++
		})
	}
	// the named scenarios, every transaction boundary of every request a crash point
	for _, sc := range scenarios() {
		if hasCrashGo(sc) {
			if hangs.Load() >= maxHangs {
				stats["skipped_after_hangs"]++
				continue
			}
			emit(t, rn.runScript(sc))
			t.Distinct(keys(sc))
			stats["crash_scenarios"]++
			continue
		}
		for L := 1; L <= len(sc); L++ {
			if hangs.Load() >= maxHangs {
				stats["skipped_after_hangs"]++
				continue
			}
			o := rn.runHistory(sc[:L], true)
			if L == len(sc) {
				t.Distinct(keys(sc))
			}
			emit(t, o)
			stats["scenario_prefixes"]++
			stats["crash_points"] += o.nsnaps
		}
	}
	// more tasks than one page of Open() (which lists "*" in pages of 100) and of the default list limit
	for i, nb := range []int{101 + r.Rand.Intn(30), 201 + r.Rand.Intn(20)} {
		if i == 1 && !r.Thorough() {
			break
		}
		if hangs.Load() >= maxHangs {
			stats["skipped_after_hangs"]++
			continue
		}
		emit(t, rn.runBulk(nb))
		stats["bulk_histories"]++
	}
	// seeded random longer histories over the full alphabet, with crash-and-continue
	full := alphabet("thorough")
	var jobsR [][]Step
	for i := 0; i < nRandom; i++ {
		n := randLen/2 + r.Rand.Intn(randLen/2+1)
		var h []Step
		for k := 0; k < n; k++ {
			h = append(h, full[r.Rand.Intn(len(full))])
		}
		jobsR = append(jobsR, h)
	}
	crashAt := make([][]int, len(jobsR)) // per step: -1 none, else a random number the session reduces mod ntx
	for i, h := range jobsR {
		crashAt[i] = make([]int, len(h))
		for k := range h {
			crashAt[i][k] = -1
			if r.Rand.Intn(5) == 0 {
				crashAt[i][k] = r.Rand.Intn(1 << 20)
			}
		}
	}
	for a := 0; a < len(jobsR); a += 256 {
		b := a + 256
		if b > len(jobsR) {
			b = len(jobsR)
		}
		resR := make([]outcome, b-a)
		var wg sync.WaitGroup
		ch := make(chan int)
		for i := 0; i < workers; i++ {
			wg.Add(1)
			go func() {
				defer wg.Done()
				for k := range ch {
					if hangs.Load() >= maxHangs {
						resR[k-a] = outcome{skipped: true}
						continue
					}
					resR[k-a] = rn.runRandom(jobsR[k], crashAt[k])
				}
			}()
		}
		for k := a; k < b; k++ {
			ch <- k
		}
		close(ch)
		wg.Wait()
		for i, o := range resR {
			if o.skipped {
				stats["skipped_after_hangs"]++
				continue
			}
			emit(t, o)
			t.Distinct(keys(jobsR[a+i]))
			stats["random_histories"]++
			stats["crash_points"] += o.nsnaps
		}
	}
	for k, v := range stats {
		r.Extra[k] = v
	}
	r.Extra["shutdown_hangs"] = int(hangs.Load())
	r.Extra["alphabet"] = len(alpha)
	r.Extra["max_history_len"] = maxLen
	r.Finish(fmt.Sprintf("every history of length <= %d (beyond 3: the 27 quick steps only) over an alphabet of %d steps (task create/update/rename/enable/disable/delete, template create/update/rename/delete, clean restart) on a real task_store.Service + TaskMaster + Bolt file, except extensions of a step that committed no transaction and left the catalogue unchanged; the store is copied after every committed transaction of the last request and a fresh stack restarted on every copy; for histories of length <= %d every such crash is followed by every request of the alphabet; %d named scenarios with all their prefixes; %d seeded random histories of length %d..%d with crash-and-continue; non-trivial = history whose last step is not inert, distinct by step sequence",
		maxLen, len(alpha), crashThenLen, len(scenarios()), nRandom, randLen/2, randLen), false)
	return nil
}

// runRandom: a long history; where crashAt[k] >= 0 and request k commits transactions, the world is
// abandoned after one of them and the history continues on that copy.
func (rn *runner) runRandom(h []Step, crashAt []int) outcome {
	s, err := rn.begin(true)
	if err != nil {
		rt.Fatalf("open world: %v", err)
	}
	defer s.end()
	var o outcome
	for i, st := range h {
		want := crashAt[i] >= 0 && st.Kind == "req"
		snaps, _ := s.step(st, want)
		if want && len(snaps) > 0 {
			s.crashGo(snaps, crashAt[i]%len(snaps))
			o.nsnaps++
		}
	}
	o.evs = s.evs
	return o
}

// ---------- replay of a saved segment ----------

func init() { rt.Register("c14replay", Replay) }

// Replay re-executes the steps of a recorded trace segment (arg replay=<segment.ndjson>) on the tree
// under test - requests, restarts, environment changes, crash-and-continue points, and again every
// transaction boundary of every request as a crash point - and writes a fresh trace.
func Replay(r *rt.Run) error {
	var file string
	for _, a := range r.Args {
		if strings.HasPrefix(a, "replay=") {
			file = strings.TrimPrefix(a, "replay=")
		}
	}
	if file == "" {
		return fmt.Errorf("usage: c14replay replay=<segment.ndjson>")
	}
	lines, err := readNDJSON(file)
	if err != nil {
		return err
	}
	base := "/dev/shm"
	if st, err := os.Stat(base); err != nil || !st.IsDir() {
		base = os.TempDir()
	}
	dir, err := os.MkdirTemp(base, "kvh-c14r-")
	if err != nil {
		return err
	}
	defer os.RemoveAll(dir)
	rn := &runner{dir: dir}
	t := r.NewTrace("trace")
	var s *session
	var snaps []string
	flush := func() {
		if s != nil && snaps != nil {
			s.crashViews(snaps)
			snaps = nil
		}
	}
	for _, m := range lines {
		switch m["ev"] {
		case "Reset":
			flush()
			if s != nil {
				s.end()
				emit(t, outcome{evs: s.evs})
			}
			up, _ := m["up"].(bool)
			if s, err = rn.begin(up); err != nil {
				return err
			}
		case "Req":
			flush()
			snaps, _ = s.request(reqFromFields(m), true)
		case "Restart":
			flush()
			s.restart()
		case "Env":
			flush()
			up, _ := m["up"].(bool)
			s.env(up)
		case "CrashGo":
			k := int(m["k"].(float64)) - 1
			if k < len(snaps) {
				s.crashGo(snaps, k)
			} else {
				s.crashViews(snaps)
			}
			snaps = nil
		case "Crash":
			// regenerated by flush
		}
	}
	flush()
	if s != nil {
		s.end()
		emit(t, outcome{evs: s.evs})
	}
	r.Finish("re-execution of a recorded segment", false)
	return nil
}

func readNDJSON(path string) ([]map[string]any, error) {
	f, err := os.Open(path)
	if err != nil {
		return nil, err
	}
	defer f.Close()
	var out []map[string]any
	sc := bufio.NewScanner(f)
	sc.Buffer(make([]byte, 1<<20), 1<<26)
	for sc.Scan() {
		if len(strings.TrimSpace(sc.Text())) == 0 {
			continue
		}
		var m map[string]any
		if err := json.Unmarshal(sc.Bytes(), &m); err != nil {
			return nil, err
		}
		out = append(out, m)
	}
	return out, sc.Err()
}

func hasCrashGo(h []Step) bool {
	for _, s := range h {
		if s.Kind == "crashgo" {
			return true
		}
	}
	return false
}

// runScript executes a scenario that contains crashgo steps: the request before such a step is
// snapshotted, and the history continues on the copy taken after its K-th transaction (the last one
// if the request committed fewer).
func (rn *runner) runScript(h []Step) outcome {
	s, err := rn.begin(true)
	if err != nil {
		rt.Fatalf("open world: %v", err)
	}
	defer s.end()
	var o outcome
	for i := 0; i < len(h); i++ {
		st := h[i]
		if st.Kind == "crashgo" {
			continue // consumed with the preceding request
		}
		cut := i+1 < len(h) && h[i+1].Kind == "crashgo" && st.Kind == "req"
		snaps, _ := s.step(st, cut)
		if cut && len(snaps) > 0 {
			k := h[i+1].K - 1
			if k >= len(snaps) {
				k = len(snaps) - 1
			}
			s.crashGo(snaps, k)
			o.nsnaps++
		}
	}
	o.evs = s.evs
	return o
}

// runBulk: n minimal tasks b000.. created through the API (every seventh one disabled), then a clean
// restart.  Logged: the created ids, and after the restart the ids listed page by page (offset/limit
// 100, as a client pages), the ids of one unpaged request with a large limit, and the ids executing.
func (rn *runner) runBulk(n int) outcome {
	s, err := rn.begin(true)
	if err != nil {
		rt.Fatalf("open world: %v", err)
	}
	defer s.end()
	var created, enabled []any
	rejected := 0
	for i := 0; i < n; i++ {
		id := fmt.Sprintf("b%03d", i)
		st := "enabled"
		if i%7 == 3 {
			st = "disabled"
		}
		if code := s.w.do(Req{Op: "CreateTask", ID: id, Script: "s1", DBRPs: "d1", Status: st}); code != 200 {
			rejected++
			continue
		}
		created = append(created, id)
		if st == "enabled" {
			enabled = append(enabled, id)
		}
	}
	obs := func() rt.M {
		var paged []any
		pageErr := ""
		for off := 0; ; off += 100 {
			ids, err := s.w.listIDs(fmt.Sprintf("/tasks?offset=%d&limit=100", off))
			if err != nil {
				pageErr = err.Error()
				break
			}
			for _, id := range ids {
				paged = append(paged, id)
			}
			if len(ids) < 100 {
				break
			}
		}
		var all, exec []any
		ids, err := s.w.listIDs("/tasks?limit=100000")
		if err != nil {
			pageErr = err.Error()
		}
		for _, id := range ids {
			all = append(all, id)
		}
		for _, id := range created {
			if s.w.tm.IsExecuting(id.(string)) {
				exec = append(exec, id)
			}
		}
		return rt.M{"paged": paged, "all": all, "exec": exec, "err": pageErr}
	}
	before := obs()
	if !s.w.shutdown() {
		np := rn.tmp("h")
		if err := s.w.snap.Snapshot(np); err != nil {
			rt.Fatalf("snapshot of a hung world: %v", err)
		}
		s.path = np
	}
	w, err := openWorld(s.path, true)
	if err != nil {
		rt.Fatalf("restart: %v", err)
	}
	s.w = w
	after := obs()
	s.evs = append(s.evs, ev{"Bulk", rt.M{"n": n, "rejected": rejected, "created": created, "enabled": enabled, "before": before, "after": after}})
	return outcome{evs: s.evs}
}
