package c14

import (
	"encoding/json"
	"fmt"
	"os"
	"path/filepath"
	"strings"

	"kapverif/rt"
)

func init() { rt.Register("c14probe", Probe) }

// Probe runs one history given on the command line (args: JSON request objects, or the words
// restart / up / down) and prints status codes, transactions and catalogues.  A debugging aid.
func Probe(r *rt.Run) error {
	dir, err := os.MkdirTemp("/dev/shm", "c14probe-")
	if err != nil {
		return err
	}
	defer os.RemoveAll(dir)
	path := filepath.Join(dir, "k.db")
	up := true
	w, err := openWorld(path, up)
	if err != nil {
		return err
	}
	show := func(w *world) {
		c := w.catalogue()
		b, _ := json.Marshal(c.fields())
		fmt.Println("   ", string(b))
	}
	for _, a := range r.Args {
		switch a {
		case "restart":
			w.shutdown()
			w, err = openWorld(path, up)
			if err != nil {
				return err
			}
			fmt.Println("restart")
			show(w)
			continue
		case "up", "down":
			up = a == "up"
			w.clu.up.Store(up)
			fmt.Println(a)
			continue
		}
		var m map[string]any
		if err := json.Unmarshal([]byte(a), &m); err != nil {
			return fmt.Errorf("arg %q: %v", a, err)
		}
		q := reqFromFields(m)
		n := 0
		var snaps []string
		w.onTx = func(phase string, ops []rt.TxOp, err error) {
			if phase != "end" {
				return
			}
			n++
			var os_ []string
			for _, o := range ops {
				os_ = append(os_, o.Op+" "+strings.Join(o.Bucket, "/")+" "+o.Key)
			}
			fmt.Printf("    tx %d err=%v %v\n", n, err, os_)
			sp := filepath.Join(dir, fmt.Sprintf("snap%d.db", n))
			if e := w.snap.Snapshot(sp); e != nil {
				rt.Fatalf("snapshot: %v", e)
			}
			snaps = append(snaps, sp)
		}
		mth, pat, url, body := q.http()
		code, resp := w.call(mth, pat, url, body)
		w.onTx = nil
		msg := ""
		if code >= 300 {
			var e map[string]any
			json.Unmarshal(resp, &e)
			msg = fmt.Sprint(e["error"])
		}
		fmt.Printf("%s -> %d %s\n", q.key(), code, msg)
		show(w)
		for k, sp := range snaps {
			cw, err := openWorld(sp, up)
			if err != nil {
				return err
			}
			fmt.Printf("    crash after tx %d:\n    ", k+1)
			show(cw)
			cw.shutdown()
		}
	}
	w.shutdown()
	for _, e := range w.tsd.errs {
		fmt.Println("diag error:", e)
	}
	return nil
}
