// Package c14 binds spec/TaskStore to the real code (DESIGN.md C14): a real
// task_store.Service on a real Bolt file with a real TaskMaster; the HTTP
// handlers the service registers are invoked through httptest with JSON
// bodies, and after every request the visible catalogue is read back through
// the list/get handlers.  The store is copied at every transaction boundary of
// namespace task_store and a fresh service stack is opened on every copy.
package c14

import (
	"context"
	"errors"
	"expvar"
	"fmt"
	"net/http"
	"sort"
	"strings"
	"sync"
	"sync/atomic"
	"time"

	"github.com/influxdata/flux"
	imodels "github.com/influxdata/influxdb/models"
	"github.com/influxdata/kapacitor"
	"github.com/influxdata/kapacitor/edge"
	kexpvar "github.com/influxdata/kapacitor/expvar"
	"github.com/influxdata/kapacitor/influxdb"
	"github.com/influxdata/kapacitor/keyvalue"
	"github.com/influxdata/kapacitor/server/vars"
	"github.com/influxdata/kapacitor/services/httpd"
	"github.com/influxdata/kapacitor/services/task_store"

	"kapverif/rt"
)

const taskNS = "task_store"

// ---- environment the tasks run in: an InfluxDB cluster that may be unreachable ----

// cluster is the InfluxDBService of the TaskMaster.  A task that writes to InfluxDB
// (script sf) can only be started while the cluster is up: NewNamedClient fails otherwise,
// which is how "the start of an enabled task fails" is produced without touching the code.
type cluster struct {
	up atomic.Bool
}

// Only the named cluster "c1" (used by the influxDBOut node of scripts sf/qf) can be down; the default
// cluster, which the batch task sb queries from a goroutine after its start, is always there - a task
// dying in the background after a successful start is not what C14 is about.
func (c *cluster) NewNamedClient(name string) (influxdb.Client, error) {
	if name == "c1" && !c.up.Load() {
		return nil, errors.New("cluster c1 unreachable")
	}
	return nopClient{}, nil
}

type nopClient struct{}

func (nopClient) Ping(ctx context.Context) (time.Duration, string, error) { return 0, "fake", nil }
func (nopClient) Write(bp influxdb.BatchPoints) error                     { return nil }
func (nopClient) WriteV2(w influxdb.FluxWrite) error                      { return nil }
func (nopClient) Query(q influxdb.Query) (*influxdb.Response, error) {
	return &influxdb.Response{}, nil
}
func (nopClient) QueryFlux(q influxdb.FluxQuery) (flux.ResultIterator, error) {
	return nil, errors.New("not supported")
}
func (nopClient) QueryFluxResponse(q influxdb.FluxQuery) (*influxdb.Response, error) {
	return nil, errors.New("not supported")
}
func (nopClient) CreateBucketV2(bucket, org, orgID string) error { return nil }

// ---- small fakes ----

type nopDeadman struct{}

func (nopDeadman) Interval() time.Duration { return 0 }
func (nopDeadman) Threshold() float64      { return 0 }
func (nopDeadman) Id() string              { return "" }
func (nopDeadman) Message() string         { return "" }
func (nopDeadman) Global() bool            { return false }

// lookup is the TaskMasterLookup of one world: whatever id is asked for, the world's TaskMaster.
type lookup struct{ tm *kapacitor.TaskMaster }

func (l *lookup) Main() *kapacitor.TaskMaster      { return l.tm }
func (l *lookup) Get(string) *kapacitor.TaskMaster { return l.tm }
func (l *lookup) Set(*kapacitor.TaskMaster)        {}
func (l *lookup) Delete(*kapacitor.TaskMaster)     {}

// tsDiag is the Diagnostic of the task store service.
type tsDiag struct {
	mu   sync.Mutex
	errs []string
	fin  atomic.Int64
}

func (d *tsDiag) StartingTask(string) {}
func (d *tsDiag) StartedTask(string)  {}
func (d *tsDiag) FinishedTask(string) { d.fin.Add(1) }
func (d *tsDiag) Error(msg string, err error, ctx ...keyvalue.T) {
	d.mu.Lock()
	d.errs = append(d.errs, fmt.Sprintf("%s: %v", msg, err))
	d.mu.Unlock()
}
func (d *tsDiag) Debug(string)                   {}
func (d *tsDiag) AlreadyMigrated(string, string) {}
func (d *tsDiag) Migrated(string, string)        {}

// ---- which db.rp does an executing task really receive points from ----

// subDiag is the TaskMaster's Diagnostic: rt.Diag, except that the log() node every stream script has
// right after from() reports to the world's probe, tagged with the task it belongs to.
type subDiag struct {
	*rt.Diag
	w *world
}

func (d *subDiag) WithTaskMasterContext(string) kapacitor.Diagnostic { return d }
func (d *subDiag) WithTaskContext(task string) kapacitor.TaskDiagnostic {
	return &subTask{TaskDiagnostic: d.Diag.WithTaskContext(task), task: task, w: d.w}
}

type subTask struct {
	kapacitor.TaskDiagnostic
	task string
	w    *world
}

func (t *subTask) WithNodeContext(node string) kapacitor.NodeDiagnostic {
	return &subNode{NodeDiagnostic: t.TaskDiagnostic.WithNodeContext(node), task: t.task, w: t.w}
}

type subNode struct {
	kapacitor.NodeDiagnostic
	task string
	w    *world
}

func (n *subNode) LogPointData(key, prefix string, p edge.PointMessage) {
	wave, _ := p.Fields()["wave"].(int64)
	round, _ := p.Fields()["round"].(int64)
	n.w.pmu.Lock()
	if round != n.w.round {
		// a point of an earlier probe: that probe returned as soon as every task had seen its first second-wave
		// point, the rest of its points may be forked later - even to a task that was started in between
		n.w.pmu.Unlock()
		return
	}
	n.w.seen[n.task] = append(n.w.seen[n.task], arrival{db: p.Database(), rp: p.RetentionPolicy(), wave: int(wave)})
	n.w.pcond.Broadcast()
	n.w.pmu.Unlock()
}
func (n *subNode) LogBatchData(key, prefix string, b edge.BufferedBatchMessage) {}

type arrival struct {
	db, rp string
	wave   int
}

var probeDBRPs = []struct{ id, db, rp string }{{"d1", "db1", "rp1"}, {"d2", "db2", "rp2"}, {"d3", "db3", "rp3"}}

// subscriptions writes two waves of one point to each of db1.rp1, db2.rp2, db3.rp3 through the real
// ingest path and reports, for each of the given executing stream tasks, the set of db.rp whose
// first-wave point reached its log() node before a second-wave point did.  The fork table delivers in
// write order and a pipeline is FIFO, so when the first second-wave point has arrived every first-wave
// point the task is subscribed to has arrived before it: exact, no guessing how long to wait.  A task
// that executes is subscribed to at least one db.rp; should it be none of the three the probe cannot
// finish, which is reported as a harness failure, not as a verdict.
func (w *world) subscriptions(tasks []string) map[string]string {
	out := map[string]string{}
	if len(tasks) == 0 {
		return out
	}
	w.pmu.Lock()
	w.seen = map[string][]arrival{}
	w.round++
	round := w.round
	w.pmu.Unlock()
	now := time.Now()
	for wave := 1; wave <= 2; wave++ {
		for _, d := range probeDBRPs {
			pt, err := imodels.NewPoint("probe", nil, map[string]any{"wave": int64(wave), "round": round}, now)
			if err != nil {
				rt.Fatalf("probe point: %v", err)
			}
			if err := w.tm.WritePoints(d.db, d.rp, imodels.ConsistencyLevelAll, []imodels.Point{pt}); err != nil {
				rt.Fatalf("probe write: %v", err)
			}
		}
	}
	deadline := time.Now().Add(180 * time.Second)
	wake := time.AfterFunc(181*time.Second, func() { w.pmu.Lock(); w.pcond.Broadcast(); w.pmu.Unlock() })
	defer wake.Stop()
	w.pmu.Lock()
	defer w.pmu.Unlock()
	for _, t := range tasks {
		for {
			got, done := map[string]bool{}, false
			for _, a := range w.seen[t] {
				if a.wave == 2 {
					done = true
					break
				}
				id := "?" + a.db + "." + a.rp
				for _, d := range probeDBRPs {
					if d.db == a.db && d.rp == a.rp {
						id = d.id
					}
				}
				got[id] = true
			}
			if done {
				var ids []string
				for id := range got {
					ids = append(ids, id)
				}
				sort.Strings(ids)
				out[t] = strings.Join(ids, "+")
				break
			}
			if time.Now().After(deadline) {
				rt.Fatalf("subscription probe: executing task %s received no second-wave point from db1.rp1, db2.rp2, db3.rp3 within 180 s", t)
			}
			w.pcond.Wait()
		}
	}
	return out
}

// ---- one process lifetime ----

var worldNo atomic.Int64

// world is one process lifetime of the daemon as far as C14 is concerned: storage on a
// Bolt file, TaskMaster, task store service with its HTTP routes.
type world struct {
	path   string
	store  *rt.BoltStore
	snap   *rt.SnapStore
	httpd  *rt.FakeHTTPD
	tm     *kapacitor.TaskMaster
	ts     *task_store.Service
	diag   *rt.Diag
	tsd    *tsDiag
	clu    *cluster
	routes map[string]http.HandlerFunc // "METHOD pattern"
	// subscription probe
	pmu   sync.Mutex
	pcond *sync.Cond
	seen  map[string][]arrival
	round int64 // number of the current probe; points of earlier probes are ignored
	// onTx, if set, is called around every Update transaction of the task_store namespace.
	onTx func(phase string, ops []rt.TxOp, err error)
}

// openWorld opens (creating if needed) the Bolt file at path and starts the whole stack on
// it, exactly in the order server.New/Open does: TaskMaster.Open, storage, task store Open
// (which starts every enabled task).
func openWorld(path string, up bool) (*world, error) {
	w := &world{path: path, diag: rt.NewDiag(), tsd: &tsDiag{}, clu: &cluster{}}
	w.clu.up.Store(up)
	w.pcond = sync.NewCond(&w.pmu)
	w.seen = map[string][]arrival{}
	st, err := rt.NewBoltStore(path, true, w.diag)
	if err != nil {
		return nil, err
	}
	w.store = st
	w.snap = rt.NewSnapStore(st)
	w.snap.OnUpdate = func(ns, phase string, ops []rt.TxOp, err error) {
		if ns == taskNS && w.onTx != nil {
			w.onTx(phase, ops, err)
		}
	}
	w.httpd = &rt.FakeHTTPD{}
	tm := kapacitor.NewTaskMaster(fmt.Sprintf("c14w%d", worldNo.Add(1)), vars.Info, &subDiag{Diag: w.diag, w: w})
	tm.HTTPDService = w.httpd
	tm.DeadmanService = nopDeadman{}
	tm.InfluxDBService = w.clu
	if err := tm.Open(); err != nil {
		st.Close()
		return nil, fmt.Errorf("tm open: %w", err)
	}
	w.tm = tm
	// no migration directory, no periodic snapshots (a snapshot commit in the middle of a request would be a
	// timing dependent extra transaction of the same namespace)
	ts := task_store.NewService(task_store.Config{}, w.tsd)
	ts.StorageService = w.snap
	ts.HTTPDService = w.httpd
	ts.TaskMasterLookup = &lookup{tm: tm}
	tm.TaskStore = ts
	if err := ts.Open(); err != nil {
		tm.Close()
		st.Close()
		return nil, fmt.Errorf("task store open: %w", err)
	}
	w.ts = ts
	w.routes = map[string]http.HandlerFunc{}
	for _, r := range w.httpd.Routes {
		if hf, ok := r.HandlerFunc.(func(http.ResponseWriter, *http.Request)); ok {
			w.routes[r.Method+" "+r.Pattern] = hf
		}
	}
	return w, nil
}

// hangs counts stop sequences that did not return (see shutdown).
var hangs atomic.Int64

// shutdown is the clean stop of server.Close: drain, stop all tasks, close the services,
// close the TaskMaster, close the storage.  The Bolt file stays.
//
// A stop sequence that does not return is a liveness failure of the code under test (C07 territory),
// not a C14 verdict; but it must not take the evidence recorded so far with it.  After 30 s the world
// is abandoned (its goroutines and file handle leak), the hang is counted, and the check decides:
// a violation found in the recorded traces stands, otherwise the run is reported as broken.
func (w *world) shutdown() bool {
	w.onTx = nil
	done := make(chan struct{})
	go func() {
		w.tm.Drain()
		w.tm.StopTasks()
		w.ts.Close()
		w.tm.Close()
		w.store.CloseBolt()
		close(done)
	}()
	select {
	case <-done:
		w.purgeStats()
		return true
	case <-time.After(30 * time.Second):
		hangs.Add(1)
		return false
	}
}

var _ = httpd.BasePath

// purgeStats removes the "ingress" statistics of this world's TaskMaster from the process-wide
// expvar registry.  kapacitor never deletes them (one per TaskMaster x db x rp x measurement: harmless
// in a daemon with one TaskMaster, but the subscription probe makes every world create three, and a
// thorough run opens several hundred thousand worlds in one process).
func (w *world) purgeStats() {
	m, ok := expvar.Get(vars.Product).(*kexpvar.Map)
	if !ok {
		return
	}
	id := w.tm.ID()
	var keys []string
	m.Do(func(kv expvar.KeyValue) {
		sm, ok := kv.Value.(*kexpvar.Map)
		if !ok {
			return
		}
		if n, ok := sm.Get("name").(*kexpvar.String); !ok || n.StringValue() != "ingress" {
			return
		}
		if tags, ok := sm.Get("tags").(*kexpvar.Map); ok {
			if tv, ok := tags.Get("task_master").(kexpvar.StringVar); ok && tv.StringValue() == id {
				keys = append(keys, kv.Key)
			}
		}
	})
	for _, k := range keys {
		vars.DeleteStatistic(k)
	}
}
