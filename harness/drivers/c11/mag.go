package c11

import (
	"math"
	"math/big"

	"github.com/influxdata/kapacitor/models"

	"kapverif/rt"
)

// Extreme magnitudes.  An input value is S*B + V for a large base B; every
// definition in the magnitude phase is linear / translation covariant, so an
// observed result is split EXACTLY (big rationals, no function-specific
// reference on this side) into m*B + r with m the nearest integer to result/B.
// Logged: the value record as in the ordinary phases but for the residual r
// (round(60 r) for floats, r itself for ints), and next to it {m, dev} where dev
// is the distance of 60 r from that integer in ulps of the observed result,
// rounded up (for stddev: of 60 r^2 from the integer sq, in units of one ulp of r
// plus the squared input resolution ulp(B)^2).  The
// specification checks the residual by the ordinary definitions, m against the
// multiplier the definition gives, and dev against its fixed tolerance UlpTol.

const devCap = 1000000

func ratRoundInt(x *big.Rat) *big.Int { // nearest integer, halves away from zero
	half := big.NewRat(1, 2)
	y := new(big.Rat).Set(x)
	neg := y.Sign() < 0
	if neg {
		y.Neg(y)
	}
	y.Add(y, half)
	q := new(big.Int).Quo(y.Num(), y.Denom())
	if neg {
		q.Neg(q)
	}
	return q
}

func ulpOf(x float64) *big.Rat {
	a := math.Abs(x)
	u := math.Nextafter(a, math.Inf(1)) - a
	return new(big.Rat).SetFloat64(u)
}

func ceilDiv(num, den *big.Rat) int {
	if den.Sign() == 0 {
		if num.Sign() == 0 {
			return 0
		}
		return devCap
	}
	q := new(big.Rat).Quo(num, den)
	c := new(big.Int).Quo(q.Num(), q.Denom())
	if new(big.Rat).SetInt(c).Cmp(q) < 0 {
		c.Add(c, big.NewInt(1))
	}
	if !c.IsInt64() || c.Int64() > devCap {
		return devCap
	}
	return int(c.Int64())
}

func fitsModel(n *big.Int) bool {
	return n.IsInt64() && n.Int64() < 2000000000 && n.Int64() > -2000000000
}

// encMagVal: (value record, magnitude record) of one observed field value.
func encMagVal(v any, base int64, sq bool) (rt.M, rt.M) {
	B := big.NewInt(base)
	switch x := v.(type) {
	case int64:
		X := big.NewInt(x)
		m := ratRoundInt(new(big.Rat).SetFrac(X, B))
		r := new(big.Int).Sub(X, new(big.Int).Mul(m, B))
		if !fitsModel(r) || !fitsModel(m) {
			return rt.M{"k": "fx", "v": X.String()}, rt.M{"m": 0, "dev": devCap}
		}
		return rt.M{"k": "int", "v": r.Int64()}, rt.M{"m": m.Int64(), "dev": 0}
	case float64:
		if math.IsNaN(x) {
			return rt.M{"k": "nan", "v": 0}, rt.M{"m": 0, "dev": 0}
		}
		if math.IsInf(x, 0) {
			return rt.M{"k": "fx", "v": "Inf"}, rt.M{"m": 0, "dev": devCap}
		}
		X := new(big.Rat).SetFloat64(x)
		m := ratRoundInt(new(big.Rat).Quo(X, new(big.Rat).SetInt(B)))
		R := new(big.Rat).Sub(X, new(big.Rat).SetInt(new(big.Int).Mul(m, B)))
		sixty := big.NewRat(Scale, 1)
		R60 := new(big.Rat).Mul(R, sixty)
		n := ratRoundInt(R60)
		if !fitsModel(n) || !fitsModel(m) {
			return rt.M{"k": "fx", "v": X.FloatString(6)}, rt.M{"m": 0, "dev": devCap}
		}
		if !sq {
			d := new(big.Rat).Sub(R60, new(big.Rat).SetInt(n))
			d.Abs(d)
			dev := ceilDiv(d, new(big.Rat).Mul(sixty, ulpOf(x)))
			return rt.M{"k": "float", "v": n.Int64()}, rt.M{"m": m.Int64(), "dev": dev}
		}
		// stddev: the defining equation is about r^2; an error of t ulps in r is an error of 2 r t ulp(r) in r^2
		R2 := new(big.Rat).Mul(R, R)
		R2.Mul(R2, sixty)
		nsq := ratRoundInt(R2)
		if !fitsModel(nsq) {
			return rt.M{"k": "fx", "v": X.FloatString(6), "sq": -1}, rt.M{"m": m.Int64(), "dev": devCap}
		}
		d := new(big.Rat).Sub(R2, new(big.Rat).SetInt(nsq))
		d.Abs(d)
		// unit of the error of r^2: 2 |r| ulp(r) (an error of one ulp in r) + ulp(B)^2 (the squared resolution of the
		// inputs: no algorithm working in float64 knows the mean of values around B better than ulp(B), and an error d of
		// the mean adds d^2 to the variance)
		den := new(big.Rat).Mul(ulpOf(x), new(big.Rat).Abs(R))
		den.Mul(den, big.NewRat(2, 1))
		ub := ulpOf(float64(base))
		den.Add(den, new(big.Rat).Mul(ub, ub))
		den.Mul(den, sixty)
		return rt.M{"k": "float", "v": n.Int64(), "sq": nsq.Int64()}, rt.M{"m": m.Int64(), "dev": ceilDiv(d, den)}
	}
	return encVal(v), rt.M{"m": 0, "dev": 0}
}

// encMagFields: like encFields; the magnitude record is that of field `as` (the result field).
func encMagFields(f models.Fields, as string, base int64, sq bool) (rt.M, rt.M) {
	out := rt.M{}
	mag := rt.M{"m": 0, "dev": devCap}
	for k, v := range f {
		if k == as {
			out[k], mag = encMagVal(v, base, sq)
		} else {
			out[k] = encVal(v)
		}
	}
	return out, mag
}

// EncOutMag encodes one arrival at the out sink of a magnitude task: (message, magnitude part).
func EncOutMag(it rt.SinkItem, as string, base int64, sq bool) (rt.M, rt.M) {
	if it.Point != nil {
		p := it.Point
		f, mag := encMagFields(p.Fields(), as, base, sq)
		return rt.M{"kind": "p", "name": p.Name(), "t": tk(p.Time()), "group": string(p.GroupID()), "dims": dimsStr(p.Dimensions()),
			"tags": encTags(p.Tags()), "fields": f}, mag
	}
	b := it.Batch
	pts := make([]any, 0, len(b.Points()))
	mags := make([]any, 0, len(b.Points()))
	for _, bp := range b.Points() {
		f, mag := encMagFields(bp.Fields(), as, base, sq)
		pts = append(pts, rt.M{"t": tk(bp.Time()), "tags": encTags(bp.Tags()), "fields": f})
		mags = append(mags, mag)
	}
	return rt.M{"kind": "b", "name": b.Name(), "t": tk(b.Time()), "group": string(b.GroupID()), "dims": dimsStr(b.Dimensions()),
		"tags": encTags(b.Tags()), "pts": pts}, rt.M{"pts": mags}
}
