// Package c11: driver for property C11 (aggregations over a window equal their
// mathematical definition).  It runs REAL tasks
//
//	batch|query(..).groupBy('g')|<fn>('x')[.as(..)][.usePointTimes()]|log().prefix('out')
//	stream|from().groupBy('g')|window().period(4s).every(4s)|log().prefix('win')|<fn>('x')|log().prefix('out')
//	stream|from().groupBy('g')|<fn>('x')|log().prefix('out')
//
// over a systematic enumeration of inputs and logs, per task, the input batches /
// points and everything that arrived at the sink below the node.  There is no
// oracle on this side: spec/Aggregates/AggregatesTrace.tla recomputes every
// output from the logged input.
package c11

import (
	"fmt"
	"math/rand"
	"sort"
	"sync"

	imodels "github.com/influxdata/influxdb/models"
	"github.com/influxdata/kapacitor/edge"

	"kapverif/rt"
)

func init() { rt.Register("c11", Run) }

const nWorkers = 8

var domain = []int{-1, 0, 2, 3}

// SPt is a stream point of group G.
type SPt struct {
	G string
	Pt
}

// Job is one real task run = one trace.
type Job struct {
	Mode    string // batch | window | stream
	Phase   string
	Cfg     Cfg
	Batches []Batch
	Points  []SPt
	Base    string // magnitude class of every batch of the job ("" = ordinary values)
}

// ---------- configurations (mirror of AggregatesMC.MCDomCfgs, plus the tags argument of top/bottom)

var allFns = []string{"count", "sum", "mean", "median", "mode", "spread", "stddev", "first", "last", "min", "max",
	"percentile", "distinct", "top", "bottom", "elapsed", "difference", "cumulativeSum", "movingAverage"}

func isTrans(fn string) bool {
	return fn == "elapsed" || fn == "difference" || fn == "cumulativeSum" || fn == "movingAverage"
}

func defArg(fn string) int {
	switch fn {
	case "percentile":
		return 50
	case "top", "bottom", "movingAverage":
		return 2
	case "elapsed":
		return 1
	}
	return 0
}

func defaultCfgs() []Cfg {
	var out []Cfg
	for _, fn := range allFns {
		out = append(out, Cfg{Fn: fn, Arg: defArg(fn)})
	}
	return out
}

func optionCfgs() []Cfg {
	var out []Cfg
	for _, fn := range allFns {
		if !isTrans(fn) {
			out = append(out, Cfg{Fn: fn, Arg: defArg(fn), UPT: true})
		}
	}
	for _, fn := range []string{"sum", "mean", "min", "last", "top", "distinct", "difference", "stddev"} {
		out = append(out, Cfg{Fn: fn, Arg: defArg(fn), As: "y"})
	}
	for _, fn := range []string{"max", "count", "cumulativeSum"} {
		out = append(out, Cfg{Fn: fn, Arg: defArg(fn), As: "x"})
	}
	for _, p := range []int{0, 25, 75, 100} {
		out = append(out, Cfg{Fn: "percentile", Arg: p})
	}
	out = append(out, Cfg{Fn: "percentile", Arg: 100, As: "y", UPT: true})
	for _, fn := range []string{"top", "bottom"} {
		for _, n := range []int{1, 3} {
			for _, u := range []bool{false, true} {
				out = append(out, Cfg{Fn: fn, Arg: n, UPT: u})
			}
		}
		out = append(out, Cfg{Fn: fn, Arg: 2, Tags: true})
	}
	out = append(out, Cfg{Fn: "elapsed", Arg: 2}, Cfg{Fn: "movingAverage", Arg: 1}, Cfg{Fn: "movingAverage", Arg: 3, As: "y"})
	return out
}

// ---------- input enumeration

// valueSeqs: every sequence over dom of length 0..maxLen.
func valueSeqs(dom []int, maxLen int) [][]int {
	out := [][]int{{}}
	prev := [][]int{{}}
	for l := 1; l <= maxLen; l++ {
		var cur [][]int
		for _, s := range prev {
			for _, v := range dom {
				cur = append(cur, append(append([]int(nil), s...), v))
			}
		}
		out = append(out, cur...)
		prev = cur
	}
	return out
}

func hOf(i int) string {
	if i%2 == 1 {
		return "p"
	}
	return "q"
}

// mkPts: points at strictly increasing times 1..n.
func mkPts(kind string, vs []int) []Pt {
	ps := make([]Pt, len(vs))
	for i, v := range vs {
		ps[i] = Pt{T: i + 1, K: kind, V: v, H: hOf(i + 1), I: i + 1}
	}
	return ps
}

// deBruijn returns a cyclic de Bruijn sequence B(k, n) over 0..k-1, unrolled so
// that every word of length n occurs as a window (length k^n + n - 1).
func deBruijn(k, n int) []int {
	a := make([]int, k*n)
	var seq []int
	var db func(t, p int)
	db = func(t, p int) {
		if t > n {
			if n%p == 0 {
				seq = append(seq, a[1:p+1]...)
			}
			return
		}
		a[t] = a[t-p]
		db(t+1, p)
		for j := a[t-p] + 1; j < k; j++ {
			a[t] = j
			db(t+1, t)
		}
	}
	db(1, 1)
	return append(seq, seq[:n-1]...)
}

// typeAlphabet: uniform batches (all points of one kind) used for the
// field-type-change histories: the empty batch plus kinds x sizes x values.
func typeAlphabet(kinds []string, sizes []int, vals []int) [][]Pt {
	out := [][]Pt{nil}
	for _, k := range kinds {
		for _, n := range sizes {
			for _, vs := range valueSeqs(vals, n) {
				if len(vs) == n {
					out = append(out, mkPts(k, vs))
				}
			}
		}
	}
	return out
}

func chunks(n, size, overlap int) [][2]int {
	var out [][2]int
	for a := 0; a < n; a += size - overlap {
		b := a + size
		if b > n {
			b = n
		}
		out = append(out, [2]int{a, b})
		if b == n {
			break
		}
	}
	return out
}

// ---------- running one job on the real code

type worker struct {
	env   *rt.Env
	t     *rt.Trace
	tasks int
	msgs  int
	cases map[string]int
}

func newWorker(r *rt.Run, name string) (*worker, error) {
	env, err := rt.NewEnv(rt.EnvOpts{})
	if err != nil {
		return nil, err
	}
	return &worker{env: env, t: r.NewTrace("trace-" + name), cases: map[string]int{}}, nil
}

const streamHead = "stream|from().measurement('m').groupBy('g')"

func short(s string) string {
	if len(s) > 160 {
		return s[:160]
	}
	return s
}

func (w *worker) run(j *Job) {
	sq := ""
	if j.Cfg.Fn == "stddev" {
		sq = j.Cfg.AsName()
	}
	reset := j.Cfg.Enc()
	reset["mode"] = j.Mode
	reset["phase"] = j.Phase
	reset["base"] = j.Base
	var res *rt.PipeResult
	var err error
	var evs []rt.M
	switch j.Mode {
	case "batch":
		// sink 'in' holds references to the very messages the node under test receives: decoded AFTER the run they
		// show whether the node modified its input (data shared with sibling branches and overlapping windows)
		script := batchHead + "|log().prefix('in')" + j.Cfg.Call() + "|log().prefix('out')"
		reset["script"] = script
		ms := make([]edge.BufferedBatchMessage, len(j.Batches))
		for i, b := range j.Batches {
			ms[i] = MkBatch(b)
			e := EncInBatch(b)
			e["ev"] = "Batch"
			evs = append(evs, e)
		}
		res, err = rt.RunBatchTask(w.env, script, [][]edge.BufferedBatchMessage{ms})
		if err == nil {
			for i, it := range res.BySink("in") {
				if i < len(evs) && it.Batch != nil {
					if b, derr := DecodeInBatch(it.Batch, j.Base); derr == nil {
						evs[i]["seen"] = EncInBatch(b)["pts"]
					}
				}
			}
		}
	case "window":
		every := 4
		if w.tasks%2 == 1 {
			every = 2 // overlapping windows: a point is handed to the node twice
		}
		script := streamHead + fmt.Sprintf("|window().period(4s).every(%ds)|log().prefix('win')", every) + j.Cfg.Call() + "|log().prefix('out')"
		reset["script"] = script
		wr := make([]any, len(j.Points))
		for i, p := range j.Points {
			e := encPt(p.Pt)
			e["g"] = p.G
			wr[i] = e
		}
		evs = append(evs, rt.M{"ev": "Written", "pts": wr})
		res, err = rt.RunStreamTask(w.env, script, mkStream(j.Points))
		if err == nil {
			// the batches the node under test was really given: the output of the real window node
			for _, it := range res.BySink("win") {
				b, derr := DecodeInBatch(it.Batch, "")
				if derr != nil {
					rt.Fatalf("c11: %v", derr)
				}
				e := EncInBatch(b)
				e["ev"] = "Batch"
				evs = append(evs, e)
			}
		}
	case "stream":
		script := streamHead + "|log().prefix('in')" + j.Cfg.Call() + "|log().prefix('out')"
		reset["script"] = script
		for _, p := range j.Points {
			e := encPt(p.Pt)
			e["g"] = p.G
			e["ev"] = "Point"
			evs = append(evs, e)
		}
		res, err = rt.RunStreamTask(w.env, script, mkStream(j.Points))
		if err == nil {
			for i, it := range res.BySink("in") {
				if i < len(evs) && it.Point != nil {
					g, p := DecodeInPoint(it.Point)
					e := encPt(p)
					e["g"] = g
					evs[i]["seen"] = e
				}
			}
		}
	}
	if err != nil {
		rt.Fatalf("c11: task for %s could not run: %v", j.Cfg.Call(), err)
	}
	w.tasks++
	w.t.Reset(reset)
	for _, e := range evs {
		ev := e["ev"].(string)
		delete(e, "ev")
		w.t.Event(ev, e)
	}
	outs := []any{}
	drain := rt.M{"stop": short(res.StopErr), "nerr": len(res.Errors)}
	if j.Base == "" {
		for _, it := range res.BySink("out") {
			outs = append(outs, EncOut(it, sq))
		}
	} else {
		mags := []any{}
		for _, it := range res.BySink("out") {
			o, m := EncOutMag(it, j.Cfg.AsName(), Bases[j.Base], j.Cfg.Fn == "stddev")
			outs = append(outs, o)
			mags = append(mags, m)
		}
		drain["mag"] = mags
	}
	w.msgs += len(outs)
	drain["outs"] = outs
	w.t.Event("Drain", drain)
	// distinct non-trivial cases: (configuration, input batch/run contents) with at least 2 points
	switch j.Mode {
	case "batch":
		for _, b := range j.Batches {
			if len(b.Pts) >= 2 {
				w.t.Distinct(j.Cfg.Key() + "|" + fmt.Sprint(b.Pts))
			}
		}
	default:
		if len(j.Points) >= 2 {
			w.t.Distinct(j.Mode + "|" + j.Cfg.Key() + "|" + fmt.Sprint(j.Points))
		}
	}
	w.cases[j.Phase]++
}

func mkStream(ps []SPt) []imodels.Point {
	out := make([]imodels.Point, len(ps))
	for i, p := range ps {
		out[i] = MkPoint(p.G, p.Pt)
	}
	return out
}

// ---------- job generation

func genJobs(r *rt.Run) []*Job {
	var jobs []*Job
	maxLen := 3
	if r.Thorough() {
		maxLen = 4
	}
	cfgs := append(defaultCfgs(), optionCfgs()...)
	seqs := valueSeqs(domain, maxLen)

	// A. every batch of size 0..maxLen over the 4-value domain x int/float x every function/option.
	// int and float batches alternate inside a task (a field type change between any two batches);
	// every second task puts them into two groups.
	const per = 12
	seqs5 := valueSeqs(domain, 5)
	for ci, c := range cfgs {
		var bs []Batch
		use := seqs
		if r.Thorough() && ci < len(defaultCfgs()) {
			use = seqs5 // thorough: sizes 0..5 for every function with its default options
		}
		for _, vs := range use {
			bs = append(bs, Batch{Pts: mkPts("int", vs)}, Batch{Pts: mkPts("float", vs)})
		}
		for ci, ch := range chunks(len(bs), per, 0) {
			j := &Job{Mode: "batch", Phase: "domain", Cfg: c}
			for k, b := range bs[ch[0]:ch[1]] {
				b.G = "a"
				if ci%2 == 1 && k%2 == 1 {
					b.G = "b"
				}
				b.Tmax = 10 * (k + 1)
				j.Batches = append(j.Batches, b)
			}
			jobs = append(jobs, j)
		}
	}

	// B. field type changes: every ordered pair (thorough: also every triple over a smaller alphabet) of
	// uniform batches of kinds int/float/string/missing-field and the empty batch, as windows of a de Bruijn sequence.
	kinds := []string{"int", "float", "str", "bool", "none"}
	type alpha struct {
		syms  [][]Pt
		n     int
		split bool // alternate the batches between two groups (the creator cache is per node, not per group)
	}
	small := typeAlphabet(kinds, []int{1, 2}, []int{2}) // 9 symbols
	alphas := []alpha{{small, 2, false}, {small, 2, true}}
	if r.Thorough() {
		alphas = append(alphas, alpha{typeAlphabet(kinds, []int{1, 2}, []int{-1, 2}), 2, false}, // 25 symbols, all pairs
			alpha{small, 3, false}, alpha{typeAlphabet(kinds, []int{1}, []int{3}), 4, true})
	}
	for _, c := range defaultCfgs() {
		for _, al := range alphas {
			seq := deBruijn(len(al.syms), al.n)
			for _, ch := range chunks(len(seq), per, al.n-1) {
				j := &Job{Mode: "batch", Phase: "typechange", Cfg: c}
				for k, s := range seq[ch[0]:ch[1]] {
					pts := al.syms[s] // uniform kind: a streaming transform never sees a second kind inside one batch
					g := "a"
					if al.split && k%2 == 1 {
						g = "b"
					}
					j.Batches = append(j.Batches, Batch{G: g, Tmax: 10 * (k + 1), Pts: pts})
				}
				jobs = append(jobs, j)
			}
		}
	}

	// C. the documented stream form: real window node in front, its output observed at sink 'win'.
	nWin := 2
	if r.Thorough() {
		nWin = 12
	}
	for _, c := range cfgs {
		for k := 0; k < nWin; k++ {
			jobs = append(jobs, &Job{Mode: "window", Phase: "window", Cfg: c, Points: windowPoints(r.Rand)})
		}
	}

	// D. direct stream mode: runs of equal-time points; every run of size 1..maxLen over the domain, int runs in
	// group a and float runs in group b, interleaved point by point; a final point per group makes time advance.
	streamCfgs := cfgs
	if !r.Thorough() {
		streamCfgs = defaultCfgs()
		for _, c := range optionCfgs() {
			if c.UPT && c.Arg == defArg(c.Fn) && c.As == "" {
				streamCfgs = append(streamCfgs, c)
			}
		}
	}
	var runs [][]int
	for _, vs := range seqs {
		// quick: every run of size 1..2, and a seeded sample of the runs of size 3
		if len(vs) > 0 && (r.Thorough() || len(vs) <= 2 || r.Rand.Intn(6) == 0) {
			runs = append(runs, vs)
		}
	}
	for _, c := range streamCfgs {
		for _, ch := range chunks(len(runs), per, 0) {
			var a, b []SPt
			t := 0
			for ri, vs := range runs[ch[0]:ch[1]] {
				// run times 2,1,4,3,6,5,...: every second run is OLDER than the one before it (out-of-order
				// delivery inside a group); a run ends whenever the time changes, not only when it advances
				t = runTime(ri)
				for i, v := range vs {
					a = append(a, SPt{"a", Pt{T: t, K: "int", V: v, H: hOf(i + 1), I: i + 1}})
					b = append(b, SPt{"b", Pt{T: t, K: "float", V: v, H: hOf(i + 1), I: i + 1}})
				}
			}
			t += 3
			a = append(a, SPt{"a", Pt{T: t, K: "int", V: 0, H: "p", I: 1}})
			b = append(b, SPt{"b", Pt{T: t, K: "float", V: 0, H: "p", I: 1}})
			j := &Job{Mode: "stream", Phase: "stream", Cfg: c}
			for i := range a {
				j.Points = append(j.Points, a[i], b[i])
			}
			jobs = append(jobs, j)
		}
	}
	// D2. stream mode with a field type change between runs (reducing functions only: a streaming transform keeps
	// its context for the life of the group, see notes)
	for _, c := range defaultCfgs() {
		if isTrans(c.Fn) {
			continue
		}
		syms := typeAlphabet(kinds, []int{1, 2}, []int{2})
		n := 2
		if r.Thorough() {
			n = 3
		}
		seq := deBruijn(len(syms), n)
		for _, ch := range chunks(len(seq), per, n-1) {
			j := &Job{Mode: "stream", Phase: "stream-typechange", Cfg: c}
			t, ri := 0, 0
			for _, s := range seq[ch[0]:ch[1]] {
				if len(syms[s]) == 0 {
					continue
				}
				t = runTime(ri) // non-monotonic run times, see phase D
				ri++
				for i, p := range syms[s] {
					j.Points = append(j.Points, SPt{"a", Pt{T: t, K: p.K, V: p.V, H: hOf(i + 1), I: i + 1}})
				}
			}
			j.Points = append(j.Points, SPt{"a", Pt{T: t + 3, K: "int", V: 0, H: "p", I: 1}})
			jobs = append(jobs, j)
		}
	}

	// F. tags: batches handed to the node directly (batch collectors = recorded / hand-written batches, UDF output)
	// whose points do NOT simply repeat the group tags: every combination of tag shapes
	//   f group tags + own h | h own tag only | e no tags | m two own tags, no group tag | g group tags only | F group + h + r
	// over batches of size 1..2 (quick: + a sample of size 3; thorough: all of size 3), in a one-tag group and in the
	// two-tag group dd (d=x,g=dd), for every function that emits selected points (and three controls).
	shapes := "fhemgF"
	var shapeSeqs []string
	var rec func(cur string)
	rec = func(cur string) {
		if len(cur) > 0 && (len(cur) < 3 || r.Thorough() || r.Rand.Intn(6) == 0) {
			shapeSeqs = append(shapeSeqs, cur)
		}
		if len(cur) == 3 {
			return
		}
		for _, c := range shapes {
			rec(cur + string(c))
		}
	}
	rec("")
	tagCfgs := []Cfg{{Fn: "top", Arg: 2}, {Fn: "top", Arg: 5, UPT: true}, {Fn: "top", Arg: 2, Tags: true}, {Fn: "bottom", Arg: 2},
		{Fn: "bottom", Arg: 5, Tags: true, UPT: true}, {Fn: "first"}, {Fn: "first", UPT: true}, {Fn: "last", UPT: true}, {Fn: "min"},
		{Fn: "min", UPT: true}, {Fn: "max", UPT: true, As: "y"}, {Fn: "percentile", Arg: 50}, {Fn: "percentile", Arg: 100, UPT: true},
		{Fn: "sum"}, {Fn: "distinct"}, {Fn: "cumulativeSum"}}
	for _, c := range tagCfgs {
		for gi, g := range []string{"a", "dd"} {
			var bs []Batch
			for si, sh := range shapeSeqs {
				b := Batch{G: g}
				for i := range sh {
					// values 3,1,2 / 1,3,2 ...: the selected point moves through the positions
					b.Pts = append(b.Pts, shapedPt(sh[i], i, []int{3, 1, 2, 1, 3, 2, 2, 3, 1}[(si%3)*3+i]))
				}
				bs = append(bs, b)
			}
			for _, ch := range chunks(len(bs), per, 0) {
				j := &Job{Mode: "batch", Phase: "tags", Cfg: c}
				for k, b := range bs[ch[0]:ch[1]] {
					b.Tmax = 10 * (k + 1)
					j.Batches = append(j.Batches, b)
				}
				jobs = append(jobs, j)
			}
			_ = gi
		}
	}

	// G. extreme magnitudes: value = S*B + d, large base B, small d: every sequence d of size 1..3 over {0,1,2}
	// (thorough: 1..4 over {0,1,2,3}) for every numerically sensitive function, as float and as int, B = 1e9, 1e12,
	// 2^53 (int only, functions with int64 results only: float64 cannot hold such inputs/results), -4e12; and mixed signs (+B, -B, 0) that cancel for
	// the summing functions.
	magFns := []Cfg{{Fn: "stddev"}, {Fn: "mean"}, {Fn: "sum"}, {Fn: "spread"}, {Fn: "movingAverage", Arg: 2}, {Fn: "cumulativeSum"},
		{Fn: "difference"}, {Fn: "count"}}
	dl, dv := 3, []int{0, 1, 2}
	if r.Thorough() {
		dl, dv = 4, []int{0, 1, 2, 3}
	}
	type mclass struct {
		base, kind string
		s          int
	}
	classes := []mclass{{"1e9", "float", 1}, {"1e9", "int", 1}, {"1e12", "float", 1}, {"1e12", "int", 1}, {"2^53", "int", 1},
		{"4e12", "float", -1}, {"4e12", "int", -1}}
	for _, c := range magFns {
		for _, cl := range classes {
			if cl.base == "2^53" && (c.Fn == "stddev" || c.Fn == "mean" || c.Fn == "movingAverage") {
				continue // float64 results around 2^53 have ulp 2: coarser than the residuals; the int64 results must be exact
			}
			var bs []Batch
			for _, ds := range valueSeqs(dv, dl) {
				if len(ds) == 0 {
					continue
				}
				b := Batch{G: "a", Base: cl.base}
				for i, d := range ds {
					b.Pts = append(b.Pts, Pt{T: i + 1, K: cl.kind, V: d, S: cl.s, H: hOf(i + 1), R: "-", I: i + 1})
				}
				bs = append(bs, b)
			}
			// mixed signs for the summing functions: every sign pattern of size 2..3 over {+1,-1,0}
			if c.Fn == "sum" || c.Fn == "cumulativeSum" || c.Fn == "difference" {
				for _, ss := range valueSeqs([]int{1, -1, 0}, 3) {
					if len(ss) < 2 {
						continue
					}
					b := Batch{G: "a", Base: cl.base}
					for i, sg := range ss {
						b.Pts = append(b.Pts, Pt{T: i + 1, K: cl.kind, V: []int{2, 0, 1}[i], S: sg, H: hOf(i + 1), R: "-", I: i + 1})
					}
					bs = append(bs, b)
				}
			}
			for _, ch := range chunks(len(bs), per, 0) {
				j := &Job{Mode: "batch", Phase: "magnitude", Cfg: c, Base: cl.base}
				for k, b := range bs[ch[0]:ch[1]] {
					b.Tmax = 10 * (k + 1)
					j.Batches = append(j.Batches, b)
				}
				jobs = append(jobs, j)
			}
		}
	}

	// H. the Unix epoch: point times at and around 1970-01-01T00:00:00Z (k = UnixK: -1 s, 0, +1 s), as first, selected and
	// last point of a batch and as the batch end time itself, for every function that emits a point time: selectors, top,
	// bottom and distinct with usePointTimes, the streaming transforms (always point times); first without it as control.
	// (0 is a legitimate time, not "no time".)
	U := UnixK
	epochCfgs := []Cfg{{Fn: "first", UPT: true}, {Fn: "last", UPT: true}, {Fn: "min", UPT: true}, {Fn: "max", UPT: true, As: "y"},
		{Fn: "percentile", Arg: 50, UPT: true}, {Fn: "percentile", Arg: 100, UPT: true}, {Fn: "top", Arg: 2, UPT: true},
		{Fn: "top", Arg: 5, UPT: true}, {Fn: "bottom", Arg: 2, UPT: true}, {Fn: "distinct", UPT: true}, {Fn: "first"},
		{Fn: "cumulativeSum"}, {Fn: "difference"}, {Fn: "elapsed", Arg: 1}, {Fn: "movingAverage", Arg: 1}, {Fn: "movingAverage", Arg: 2}}
	type ebatch struct {
		ts   []int
		tmax int
	}
	ebs := []ebatch{{[]int{U}, U + 1}, {[]int{U}, U}, {[]int{U}, 10}, {[]int{U - 1, U}, U}, {[]int{U - 1, U}, U + 1}, {[]int{U, U + 1}, U + 1},
		{[]int{U, U + 1}, 10}, {[]int{U - 1, U, U + 1}, U + 1}, {[]int{U - 1, U, U + 1}, U + 5}, {[]int{U - 1, U, U + 1}, 10}, {[]int{U - 2, U - 1}, U}}
	perms := [][]int{{1, 2, 3}, {1, 3, 2}, {2, 1, 3}, {2, 3, 1}, {3, 1, 2}, {3, 2, 1}}
	for _, c := range epochCfgs {
		var bs []Batch
		for _, eb := range ebs {
			for pi, pm := range perms {
				if len(eb.ts) < 3 && pi >= len(eb.ts) { // fewer value orders for shorter batches
					continue
				}
				for _, k := range []string{"int", "float"} {
					b := Batch{G: "a", Tmax: eb.tmax}
					for i, t := range eb.ts {
						b.Pts = append(b.Pts, Pt{T: t, K: k, V: pm[i], H: hOf(i + 1), R: "-", I: i + 1})
					}
					bs = append(bs, b)
				}
			}
		}
		for _, ch := range chunks(len(bs), per, 0) {
			j := &Job{Mode: "batch", Phase: "epoch", Cfg: c}
			j.Batches = append(j.Batches, bs[ch[0]:ch[1]]...)
			jobs = append(jobs, j)
		}
		// the same times on a stream edge: runs at U-1, U, U+1 (two points each), then a modern time
		j := &Job{Mode: "stream", Phase: "epoch", Cfg: c}
		for ri, t := range []int{U - 1, U, U + 1, 5} {
			for i := 0; i < 2; i++ {
				j.Points = append(j.Points, SPt{"a", Pt{T: t, K: "int", V: perms[ri%6][i], H: hOf(i + 1), R: "-", I: i + 1}})
			}
		}
		jobs = append(jobs, j)
	}

	// E. seeded random: wider values, sizes up to 6, unordered and repeated times, mixed kinds, three groups, all options.
	nRand := 150
	if r.Thorough() {
		nRand = 2500
	}
	for k := 0; k < nRand; k++ {
		jobs = append(jobs, randomJob(r.Rand))
	}
	return jobs
}

// shapedPt: the i-th point of a batch with the given tag shape (see phase F).
func shapedPt(shape byte, i, v int) Pt {
	p := Pt{T: i + 1, K: "int", V: v, H: "-", R: "-", I: i + 1}
	switch shape {
	case 'f':
		p.H = hOf(i + 1)
	case 'h':
		p.H, p.NoG = hOf(i+1), true
	case 'e':
		p.NoG = true
	case 'm':
		p.H, p.R, p.NoG = hOf(i+1), "z", true
	case 'g':
	case 'F':
		p.H, p.R = hOf(i+1), "z"
	}
	return p
}

// runTime: time of the ri-th run of a stream job: 2,1,4,3,6,5,... (consecutive runs always differ).
func runTime(ri int) int {
	if ri%2 == 0 {
		return ri + 2
	}
	return ri
}

func windowPoints(rnd *rand.Rand) []SPt {
	var ps []SPt
	// the window node is not aligned: any 4 consecutive seconds may form a window.  0..1 points per second and
	// group, 2 (a repeated timestamp) only when t%4 == 0: at most 5 points per window (results stay integral at scale 60)
	for t := 0; t < 16; t++ {
		for gi, g := range []string{"a", "b"} {
			n := rnd.Intn(2)
			if t%4 == 0 {
				n = rnd.Intn(3)
			}
			for i := 0; i < n; i++ {
				k := "int"
				if gi == 1 {
					k = "float"
				}
				ps = append(ps, SPt{g, Pt{T: t, K: k, V: domain[rnd.Intn(len(domain))], H: hOf(rnd.Intn(2) + 1), I: len(ps) + 1}})
			}
		}
	}
	// time far beyond the last window so that the window node emits everything it holds
	ps = append(ps, SPt{"a", Pt{T: 24, K: "int", V: 0, H: "p", I: 900}}, SPt{"b", Pt{T: 24, K: "float", V: 0, H: "p", I: 901}})
	return ps
}

func randomCfg(rnd *rand.Rand) Cfg {
	c := Cfg{Fn: allFns[rnd.Intn(len(allFns))]}
	c.Arg = defArg(c.Fn)
	switch c.Fn {
	case "percentile":
		c.Arg = []int{0, 10, 25, 30, 33, 50, 66, 75, 90, 99, 100}[rnd.Intn(11)]
	case "top", "bottom":
		c.Arg = 1 + rnd.Intn(4)
		c.Tags = rnd.Intn(3) == 0
	case "movingAverage":
		c.Arg = 1 + rnd.Intn(4)
	case "elapsed":
		c.Arg = 1 + rnd.Intn(3)
	}
	c.As = []string{"", "", "y", "x"}[rnd.Intn(4)]
	c.UPT = rnd.Intn(2) == 0
	return c
}

func randomJob(rnd *rand.Rand) *Job {
	c := randomCfg(rnd)
	j := &Job{Cfg: c, Phase: "random"}
	groups := []string{"a", "b", "c"}[:1+rnd.Intn(3)]
	kinds := []string{"int", "float", "int", "float", "int", "float", "str", "bool", "none"}
	val := func() int { return rnd.Intn(9) - 3 }
	if rnd.Intn(3) < 2 {
		j.Mode = "batch"
		nb := 2 + rnd.Intn(10)
		for b := 0; b < nb; b++ {
			n := rnd.Intn(7)
			base := kinds[rnd.Intn(len(kinds))]
			mixed := !isTrans(c.Fn) && rnd.Intn(4) == 0
			ordered := rnd.Intn(3) > 0
			bt := Batch{G: groups[rnd.Intn(len(groups))], Tmax: 10 * (b + 1)}
			for i := 0; i < n; i++ {
				k := base
				if mixed && rnd.Intn(3) == 0 {
					k = kinds[rnd.Intn(len(kinds))]
				}
				t := i + 1
				if !ordered {
					t = 1 + rnd.Intn(9)
				}
				bt.Pts = append(bt.Pts, Pt{T: t, K: k, V: val(), H: hOf(rnd.Intn(2) + 1), I: i + 1})
			}
			j.Batches = append(j.Batches, bt)
		}
		return j
	}
	j.Mode = "stream"
	np := 4 + rnd.Intn(30)
	tg := map[string]int{}
	tmaxg := map[string]int{}
	kg := map[string]string{}
	ig := map[string]int{}
	for i := 0; i < np; i++ {
		g := groups[rnd.Intn(len(groups))]
		if _, ok := kg[g]; !ok {
			kg[g] = []string{"int", "float"}[rnd.Intn(2)]
			tg[g] = 1
			tmaxg[g] = 1
		}
		if rnd.Intn(3) == 0 || ig[g] >= 6 { // runs of at most 6 points
			d := 1 + rnd.Intn(2)
			if rnd.Intn(3) == 0 && tg[g]-d >= 0 {
				d = -d // an older run delivered late
			}
			tg[g] += d
			if tg[g] > tmaxg[g] {
				tmaxg[g] = tg[g]
			}
			ig[g] = 0
		}
		k := kg[g]
		if !isTrans(c.Fn) && rnd.Intn(6) == 0 {
			k = kinds[rnd.Intn(len(kinds))]
		}
		ig[g]++
		j.Points = append(j.Points, SPt{g, Pt{T: tg[g], K: k, V: val(), H: hOf(rnd.Intn(2) + 1), I: ig[g]}})
	}
	gs := make([]string, 0, len(tg))
	for g := range tg {
		gs = append(gs, g)
	}
	sort.Strings(gs)
	for _, g := range gs {
		j.Points = append(j.Points, SPt{g, Pt{T: tmaxg[g] + 3, K: kg[g], V: 0, H: "p", I: 1}})
	}
	return j
}

// Run: enumerate, execute on real tasks (8 workers, job k on worker k mod 8: deterministic trace files), log.
func Run(r *rt.Run) error {
	jobs := genJobs(r)
	ws := make([]*worker, nWorkers)
	var err error
	for k := range ws {
		if ws[k], err = newWorker(r, fmt.Sprintf("%02d", k)); err != nil {
			return err
		}
	}
	var wg sync.WaitGroup
	for k := range ws {
		wg.Add(1)
		go func(k int) {
			defer wg.Done()
			for i := k; i < len(jobs); i += nWorkers {
				ws[k].run(jobs[i])
			}
		}(k)
	}
	wg.Wait()
	tasks, msgs := 0, 0
	phases := map[string]int{}
	for _, w := range ws {
		tasks += w.tasks
		msgs += w.msgs
		for p, n := range w.cases {
			phases[p] += n
		}
		w.env.Close()
	}
	if r.Extra == nil {
		r.Extra = map[string]any{}
	}
	r.Extra["real_tasks_run"] = tasks
	r.Extra["output_messages_checked"] = msgs
	r.Extra["tasks_per_phase"] = phases
	r.Extra["functions"] = allFns
	r.Extra["configurations"] = len(defaultCfgs()) + len(optionCfgs())
	r.Finish("real tasks batch|query().groupBy('g')|fn('x')|log(), stream|from()|window()|log()|fn('x')|log() and stream|from()|fn('x')|log(); "+
		"one trace = one task. domain: for each of the function/option configurations ALL batches of size 0..L (L=3 quick, 4 thorough, 5 for the default options) over "+
		"{-1,0,2,3} as int and as float, alternating (type change between consecutive batches), one or two groups; typechange: every ordered "+
		"pair (thorough: triple/quadruple) of uniform batches of kind int/float/string/missing field and the empty batch as windows of a de "+
		"Bruijn sequence, per function; window: seeded random points through the real window node, its output observed; stream: ALL runs of "+
		"equal-time points of size 1..L with NON-MONOTONIC run times (2,1,4,3,..: every second run older than the one before), int and float "+
		"groups interleaved, and type changes between runs; tags: batches fed directly whose points carry every combination of tag shapes "+
		"(group tags repeated or not, 0-2 own tags) in a one-tag and a two-tag group, for top/bottom/first/last/min/max/percentile; magnitude: "+
		"values S*B+d with B in 1e9,1e12,2^53,-4e12 and all small d sequences, float and int, mixed signs that cancel, results split exactly "+
		"into m*B+r (big rationals) and checked to a fixed ulp tolerance; epoch: point times at Unix 0 and +-1 s as first/selected/last point "+
		"and as batch end time for every function that emits a point time; random: seeded configurations "+
		"(percentile argument, top/bottom n and tag argument, movingAverage k, elapsed unit, as, usePointTimes) with sizes up to 6, repeated "+
		"and unordered times, mixed kinds, three groups. Non-trivial = batch/run with at least 2 points; distinct by (configuration, input)", true)
	return nil
}
