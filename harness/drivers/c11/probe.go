package c11

import (
	"encoding/json"
	"fmt"

	"github.com/influxdata/kapacitor/edge"

	"kapverif/rt"
)

func init() { rt.Register("c11probe", Probe) }

const batchHead = "batch|query('SELECT x FROM db.rp.m').period(10s).every(10s).groupBy('g')"

// Probe prints what the real node does on a few hand-picked inputs (debug aid, not part of the check).
func Probe(r *rt.Run) error {
	env, err := rt.NewEnv(rt.EnvOpts{})
	if err != nil {
		return err
	}
	defer env.Close()
	show := func(c Cfg, bs ...Batch) {
		script := batchHead + c.Call() + "|log().prefix('out')"
		var ms []edge.BufferedBatchMessage
		for _, b := range bs {
			ms = append(ms, MkBatch(b))
		}
		res, err := rt.RunBatchTask(env, script, [][]edge.BufferedBatchMessage{ms})
		fmt.Println("==", c.Call())
		if err != nil {
			fmt.Println("  ERR", err)
			return
		}
		for _, b := range bs {
			j, _ := json.Marshal(EncInBatch(b))
			fmt.Println("  in ", string(j))
		}
		for _, it := range res.BySink("out") {
			j, _ := json.Marshal(EncOut(it, ""))
			fmt.Println("  out", string(j))
		}
		fmt.Println("  errs", errStrings(res.Errors), "stop:", res.StopErr)
	}
	pts := func(k string, vs ...int) []Pt {
		var ps []Pt
		for i, v := range vs {
			ps = append(ps, Pt{T: 1 + i, K: k, V: v, H: []string{"p", "q"}[i%2], I: i + 1})
		}
		return ps
	}
	for _, fn := range []string{"count", "sum", "mean", "median", "mode", "spread", "stddev", "first", "last", "min", "max"} {
		for _, upt := range []bool{false, true} {
			show(Cfg{Fn: fn, UPT: upt}, Batch{"a", 10, pts("int", 3, -1, 3)}, Batch{"a", 20, nil}, Batch{"a", 30, pts("float", 2)})
		}
	}
	show(Cfg{Fn: "percentile", Arg: 50, As: "y"}, Batch{"a", 10, pts("int", 3, -1, 2, 0)}, Batch{"a", 20, pts("int", 3)})
	show(Cfg{Fn: "percentile", Arg: 0}, Batch{"a", 10, pts("int", 3, -1, 2, 0)})
	show(Cfg{Fn: "distinct", UPT: true}, Batch{"a", 10, pts("int", 3, -1, 3, 0)})
	show(Cfg{Fn: "top", Arg: 2, UPT: true}, Batch{"a", 10, pts("int", 3, -1, 3, 0)})
	show(Cfg{Fn: "top", Arg: 2, Tags: true}, Batch{"a", 10, pts("int", 3, -1, 3, 0)})
	show(Cfg{Fn: "bottom", Arg: 2}, Batch{"a", 10, pts("float", 3, -1, 3, -1)}, Batch{"a", 20, nil})
	show(Cfg{Fn: "elapsed", Arg: 2}, Batch{"a", 10, pts("float", 3, -1, 3, -1)}, Batch{"a", 20, nil})
	show(Cfg{Fn: "difference"}, Batch{"a", 10, pts("float", 3, -1, 3, -1)}, Batch{"a", 20, pts("int", 3, -1)})
	show(Cfg{Fn: "cumulativeSum", As: "y"}, Batch{"a", 10, pts("float", 3, -1, 3, -1)}, Batch{"a", 20, pts("int", 3, -1)})
	show(Cfg{Fn: "movingAverage", Arg: 2}, Batch{"a", 10, pts("int", 3, -1, 2, -1)}, Batch{"a", 20, pts("int", 3, -1)})
	// stale creator cache
	show(Cfg{Fn: "mean"}, Batch{"a", 10, pts("float", 3)}, Batch{"a", 20, pts("str", 1, 2)}, Batch{"a", 30, pts("float", 2)})
	show(Cfg{Fn: "mean"}, Batch{"a", 20, pts("str", 1, 2)}, Batch{"a", 30, pts("float", 2)})
	show(Cfg{Fn: "min"}, Batch{"a", 10, pts("float", 3)}, Batch{"a", 20, pts("str", 1, 2)}, Batch{"a", 30, pts("float", 2)})
	show(Cfg{Fn: "min"}, Batch{"a", 20, pts("str", 1, 2)}, Batch{"a", 30, pts("float", 2)})
	return nil
}
