package c11

import (
	"encoding/json"
	"fmt"

	"github.com/influxdata/kapacitor/edge"

	"kapverif/rt"
)

func init() { rt.Register("c11probe", Probe) }

const batchHead = "batch|query('SELECT x FROM db.rp.m').period(10s).every(10s).groupBy('g')"

// Probe prints what the real node does on a few hand-picked inputs (debug aid, not part of the check).
func Probe(r *rt.Run) error {
	env, err := rt.NewEnv(rt.EnvOpts{})
	if err != nil {
		return err
	}
	defer env.Close()
	show := func(c Cfg, bs ...Batch) {
		script := batchHead + c.Call() + "|log().prefix('out')"
		var ms []edge.BufferedBatchMessage
		for _, b := range bs {
			ms = append(ms, MkBatch(b))
		}
		res, err := rt.RunBatchTask(env, script, [][]edge.BufferedBatchMessage{ms})
		fmt.Println("==", c.Call())
		if err != nil {
			fmt.Println("  ERR", err)
			return
		}
		for _, b := range bs {
			j, _ := json.Marshal(EncInBatch(b))
			fmt.Println("  in ", string(j))
		}
		for _, it := range res.BySink("out") {
			j, _ := json.Marshal(EncOut(it, ""))
			fmt.Println("  out", string(j))
		}
		fmt.Println("  errs", errStrings(res.Errors), "stop:", res.StopErr)
	}
	pts := func(k string, vs ...int) []Pt {
		var ps []Pt
		for i, v := range vs {
			ps = append(ps, Pt{T: 1 + i, K: k, V: v, H: []string{"p", "q"}[i%2], I: i + 1})
		}
		return ps
	}
	_ = pts
	tp := func(k string, shapes string, vs ...int) []Pt {
		var ps []Pt
		for i, v := range vs {
			p := Pt{T: 1 + i, K: k, V: v, H: "-", R: "-", I: i + 1}
			switch shapes[i] {
			case 'f': // group + h
				p.H = "p"
			case 'h': // own tag only
				p.H, p.NoG = "q", true
			case 'e': // no tags at all
				p.NoG = true
			case 'm': // two own tags, no group tag
				p.H, p.R, p.NoG = "p", "z", true
			case 'g': // group tags only
			}
			ps = append(ps, p)
		}
		return ps
	}
	for _, g := range []string{"a", "dd"} {
		for _, c := range []Cfg{{Fn: "top", Arg: 5}, {Fn: "bottom", Arg: 5, Tags: true}, {Fn: "min"}, {Fn: "first", UPT: true}, {Fn: "percentile", Arg: 50}, {Fn: "sum"}, {Fn: "distinct"}, {Fn: "cumulativeSum"}} {
			show(c, Batch{G: g, Tmax: 10, Pts: tp("int", "fhemg", 3, 1, 4, 2, 5)}, Batch{G: g, Tmax: 20, Pts: tp("int", "h", 1)}, Batch{G: g, Tmax: 30, Pts: tp("int", "e", 1)})
		}
	}
	return nil
}
