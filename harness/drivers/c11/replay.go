package c11

import (
	"bufio"
	"encoding/json"
	"fmt"
	"os"

	"kapverif/rt"
)

func init() { rt.Register("c11replay", Replay) }

// Replay re-executes a recorded trace segment (Reset, Batch/Point lines) on the
// real code of the tree under test and records a fresh trace: `bin/check C11
// --replay <dir>` then validates what the code does NOW on that input.  A
// window-mode trace is re-fed as batches (the recorded Batch lines are what the
// node under test received from the window node).
func Replay(r *rt.Run) error {
	if len(r.Args) < 1 {
		return fmt.Errorf("usage: c11replay <segment.ndjson>")
	}
	f, err := os.Open(r.Args[0])
	if err != nil {
		return err
	}
	defer f.Close()
	var j *Job
	num := func(m map[string]any, k string) int { v, _ := m[k].(float64); return int(v) }
	str := func(m map[string]any, k string) string { v, _ := m[k].(string); return v }
	pt := func(m map[string]any) Pt {
		p := Pt{T: num(m, "t"), K: str(m, "k"), V: num(m, "v"), H: str(m, "h"), I: num(m, "i"), R: str(m, "r"), S: num(m, "s")}
		if pg, ok := m["pg"].(bool); ok && !pg {
			p.NoG = true
		}
		if p.K == "float" {
			p.V /= Scale
		}
		return p
	}
	sc := bufio.NewScanner(f)
	sc.Buffer(make([]byte, 1<<20), 1<<26)
	for sc.Scan() {
		var m map[string]any
		if err := json.Unmarshal(sc.Bytes(), &m); err != nil {
			return fmt.Errorf("bad line: %w", err)
		}
		switch m["ev"] {
		case "Reset":
			if j != nil {
				return fmt.Errorf("segment holds more than one trace")
			}
			c := Cfg{Fn: str(m, "fn"), Arg: num(m, "narg"), UPT: m["upt"] == true, Tags: m["tagsArg"] == true}
			if as := str(m, "out"); as != c.Fn {
				c.As = as
			}
			j = &Job{Cfg: c, Mode: str(m, "mode"), Phase: "replay", Base: str(m, "base")}
			if j.Mode == "window" {
				j.Mode = "batch"
			}
		case "Batch":
			b := Batch{G: str(m, "g"), Tmax: num(m, "tmax"), Base: j.Base}
			ps, _ := m["pts"].([]any)
			for _, x := range ps {
				b.Pts = append(b.Pts, pt(x.(map[string]any)))
			}
			j.Batches = append(j.Batches, b)
		case "Point":
			j.Points = append(j.Points, SPt{str(m, "g"), pt(m)})
		}
	}
	if j == nil {
		return fmt.Errorf("no Reset line in %s", r.Args[0])
	}
	w, err := newWorker(r, "replay")
	if err != nil {
		return err
	}
	w.run(j)
	w.env.Close()
	if r.Extra == nil {
		r.Extra = map[string]any{}
	}
	r.Finish("re-execution of one recorded trace", false)
	return nil
}
