package c11

import (
	"fmt"
	"math"
	"sort"
	"strings"

	imodels "github.com/influxdata/influxdb/models"
	"github.com/influxdata/kapacitor/edge"
	"github.com/influxdata/kapacitor/models"

	"kapverif/rt"
)

// Scale: every float value is logged as round(v*Scale).  60 = lcm(1..6): means,
// medians and moving averages of up to 6 integer-valued inputs are integral.
const Scale = 60

// Pt is one input point of the model alphabet: time T (model seconds), field
// x of kind K ("int", "float", "str", "bool", "none" = field missing) with value
// S*Base + V (Base = the batch's magnitude class, S = 0 in the ordinary phases), tags: the group tags unless NoG, h=H unless
// H == "-", r=R unless R is "" or "-", and a second field i (position, int) that
// identifies the point.
type Pt struct {
	T   int
	K   string
	V   int
	H   string
	I   int
	R   string
	NoG bool
	S   int
}

// Batch is one input batch of group g=G with end time Tmax.  Group "dd" has the
// two group tags d=x,g=dd (TwoTag in the specification).  Base names the
// magnitude class of the values ("" = none).
type Batch struct {
	G    string
	Tmax int
	Pts  []Pt
	Base string
}

// Bases: magnitude classes, value = S*base + V.
var Bases = map[string]int64{"1e9": 1000000000, "1e12": 1000000000000, "2^53": 1 << 53, "4e12": 4000000000000}

func groupTags(g string) models.Tags {
	if g == "dd" {
		return models.Tags{"d": "x", "g": g}
	}
	return models.Tags{"g": g}
}

func tagsOf(g string, p Pt) models.Tags {
	t := models.Tags{}
	if !p.NoG {
		for k, v := range groupTags(g) {
			t[k] = v
		}
	}
	if p.H != "-" && p.H != "" {
		t["h"] = p.H
	}
	if p.R != "-" && p.R != "" {
		t["r"] = p.R
	}
	return t
}

// Cfg is one InfluxQL node configuration.
type Cfg struct {
	Fn   string // count sum mean median mode spread stddev first last min max percentile distinct top bottom elapsed difference cumulativeSum movingAverage
	Arg  int    // percentile p | top/bottom n | movingAverage k | elapsed unit (seconds)
	Tags bool   // top/bottom: pass 'h' as extra tag argument
	As   string // "" = default (method name)
	UPT  bool   // .usePointTimes()
}

func (c Cfg) AsName() string {
	if c.As == "" {
		return c.Fn
	}
	return c.As
}

// Call renders the chain call `|fn(...)` with its properties.
func (c Cfg) Call() string {
	var s string
	switch c.Fn {
	case "percentile":
		s = fmt.Sprintf("|percentile('x', %d.0)", c.Arg)
	case "top", "bottom":
		if c.Tags {
			s = fmt.Sprintf("|%s(%d, 'x', 'h')", c.Fn, c.Arg)
		} else {
			s = fmt.Sprintf("|%s(%d, 'x')", c.Fn, c.Arg)
		}
	case "elapsed":
		s = fmt.Sprintf("|elapsed('x', %ds)", c.Arg)
	case "movingAverage":
		s = fmt.Sprintf("|movingAverage('x', %d)", c.Arg)
	default:
		s = fmt.Sprintf("|%s('x')", c.Fn)
	}
	if c.As != "" {
		s += fmt.Sprintf(".as('%s')", c.As)
	}
	if c.UPT {
		s += ".usePointTimes()"
	}
	return s
}

func (c Cfg) Enc() rt.M {
	// keys sort after "ev" so that a Reset line starts with {"ev":"Reset" (verifylib splits traces on that prefix)
	return rt.M{"fn": c.Fn, "narg": c.Arg, "tagsArg": c.Tags, "out": c.AsName(), "upt": c.UPT}
}

func (c Cfg) Key() string {
	return fmt.Sprintf("%s/%d/%v/%s/%v", c.Fn, c.Arg, c.Tags, c.As, c.UPT)
}

func fieldsOf(p Pt, base int64) models.Fields {
	f := models.Fields{"i": int64(p.I)}
	switch p.K {
	case "int":
		f["x"] = int64(p.S)*base + int64(p.V)
	case "float":
		f["x"] = float64(int64(p.S)*base + int64(p.V)) // exact: |value| < 2^53 in every float class
	case "str":
		f["x"] = fmt.Sprintf("s%d", p.V)
	case "bool":
		f["x"] = p.V > 0
	}
	return f
}

// MkBatch builds the edge message of a model batch (measurement m, group tag g,
// every point carries the group tag and its own non-group tag h).
func MkBatch(b Batch) edge.BufferedBatchMessage {
	begin := edge.NewBeginBatchMessage("m", groupTags(b.G), false, rt.DefaultTime.T(b.Tmax), len(b.Pts))
	pts := make([]edge.BatchPointMessage, len(b.Pts))
	for k, p := range b.Pts {
		pts[k] = edge.NewBatchPointMessage(fieldsOf(p, Bases[b.Base]), tagsOf(b.G, p), rt.DefaultTime.T(p.T))
	}
	return edge.NewBufferedBatchMessage(begin, pts, edge.NewEndBatchMessage())
}

// MkPoint builds the line-protocol point of a model point for stream ingest.
func MkPoint(g string, p Pt) imodels.Point {
	pt, err := imodels.NewPoint("m", imodels.NewTags(map[string]string(tagsOf(g, p))), map[string]any(fieldsOf(p, 0)), rt.DefaultTime.T(p.T))
	if err != nil {
		rt.Fatalf("c11: cannot build point: %v", err)
	}
	return pt
}

func encPt(p Pt) rt.M {
	v := p.V
	switch p.K {
	case "float":
		v *= Scale
	case "bool":
		v = 0
		if p.V > 0 {
			v = 1
		}
	case "none":
		v = 0 // the field is missing: there is no value
	}
	h, r := p.H, p.R
	if h == "" {
		h = "-"
	}
	if r == "" {
		r = "-"
	}
	return rt.M{"t": p.T, "k": p.K, "v": v, "h": h, "i": p.I, "r": r, "pg": !p.NoG, "s": p.S}
}

func EncInBatch(b Batch) rt.M {
	ps := make([]any, len(b.Pts))
	for k, p := range b.Pts {
		ps[k] = encPt(p)
	}
	return rt.M{"g": b.G, "tmax": b.Tmax, "pts": ps}
}

// ---- observed data -> trace records (no oracle here: only re-encoding)

// encVal: {"k": int|float|str|bool|nan|fx, "v": int|string}.  A float is logged
// as round(v*Scale) if that is integral up to 1e-9 (kind "float"), NaN as kind
// "nan", anything else as kind "fx" with the decimal text (never equal to a model value).
func encVal(v any) rt.M {
	switch x := v.(type) {
	case int64:
		return rt.M{"k": "int", "v": x}
	case float64:
		if math.IsNaN(x) {
			return rt.M{"k": "nan", "v": 0}
		}
		s := x * Scale
		r := math.Round(s)
		if math.IsInf(s, 0) || math.Abs(s-r) > 1e-9 || math.Abs(r) > 1e12 {
			return rt.M{"k": "fx", "v": fmt.Sprintf("%v", x)}
		}
		return rt.M{"k": "float", "v": int64(r)}
	case string:
		return rt.M{"k": "str", "v": x}
	case bool:
		b := 0
		if x {
			b = 1
		}
		return rt.M{"k": "bool", "v": b}
	default:
		return rt.M{"k": fmt.Sprintf("%T", v), "v": fmt.Sprintf("%v", v)}
	}
}

// encSq: for stddev the defining equation is checked on s^2: logs round(s^2*Scale).
func encSq(v any) (int64, bool) {
	x, ok := v.(float64)
	if !ok || math.IsNaN(x) || math.IsInf(x, 0) {
		return 0, false
	}
	s := x * x * Scale
	r := math.Round(s)
	if math.Abs(s-r) > 1e-6 || math.Abs(r) > 1e12 {
		return 0, false
	}
	return int64(r), true
}

func encFields(f models.Fields, sqField string) rt.M {
	out := rt.M{}
	for k, v := range f {
		m := encVal(v)
		if k == sqField {
			if sq, ok := encSq(v); ok {
				m["sq"] = sq
			} else {
				m["sq"] = -1
			}
		}
		out[k] = m
	}
	return out
}

// encTime: model time k = whole seconds since the model epoch (2020-01-06).  Every whole second whose k fits TLC's
// 32-bit integers is representable: Unix 0 is k = -1578268800 (UnixK).
func encTime(t interface{ UnixNano() int64 }) rt.M {
	ns := t.UnixNano()
	e := rt.DefaultTime.Epoch.UnixNano()
	u := int64(rt.DefaultTime.Unit)
	if (ns-e)%u == 0 && (ns-e)/u > -2000000000 && (ns-e)/u < 2000000000 {
		return rt.M{"k": int((ns - e) / u)}
	}
	return rt.M{"k": -2000000001, "ns": fmt.Sprint(ns)}
}

// UnixK is the model time of 1970-01-01T00:00:00Z.
var UnixK = -int(rt.DefaultTime.Epoch.Unix())

func tk(t interface{ UnixNano() int64 }) int {
	return encTime(t)["k"].(int)
}

func encTags(t models.Tags) rt.M {
	if len(t) == 0 {
		return rt.M{"none": "-"} // an empty JSON object has no TLA+ counterpart
	}
	out := rt.M{}
	for k, v := range t {
		out[k] = v
	}
	return out
}

func dimsStr(d models.Dimensions) string {
	s := strings.Join(d.TagNames, ",")
	if d.ByName {
		s = "byName:" + s
	}
	return s
}

// EncOut encodes one arrival at the out sink completely.
func EncOut(it rt.SinkItem, sqField string) rt.M {
	if it.Point != nil {
		p := it.Point
		return rt.M{"kind": "p", "name": p.Name(), "t": tk(p.Time()), "group": string(p.GroupID()), "dims": dimsStr(p.Dimensions()),
			"tags": encTags(p.Tags()), "fields": encFields(p.Fields(), sqField)}
	}
	b := it.Batch
	pts := make([]any, 0, len(b.Points()))
	for _, bp := range b.Points() {
		pts = append(pts, rt.M{"t": tk(bp.Time()), "tags": encTags(bp.Tags()), "fields": encFields(bp.Fields(), sqField)})
	}
	return rt.M{"kind": "b", "name": b.Name(), "t": tk(b.Time()), "group": string(b.GroupID()), "dims": dimsStr(b.Dimensions()),
		"tags": encTags(b.Tags()), "pts": pts}
}

// DecodeInBatch turns a batch observed at the 'win' sink (output of the real
// window node) back into a model batch: the aggregation is then checked against
// what the node under test was actually given, not against what we think the
// window should contain.
func DecodeInBatch(b edge.BufferedBatchMessage, base string) (Batch, error) {
	out := Batch{G: b.Tags()["g"], Tmax: tk(b.Time()), Base: base}
	for _, bp := range b.Points() {
		p := decodePt(bp.Fields(), bp.Tags(), tk(bp.Time()), Bases[base])
		if p.K == "fx" {
			return out, fmt.Errorf("value %v of field x is outside the model alphabet", bp.Fields()["x"])
		}
		out.Pts = append(out.Pts, p)
	}
	return out, nil
}

// decodePt reads a point back into the model alphabet (kind "fx" = not representable).
func decodePt(f models.Fields, tags models.Tags, t int, base int64) Pt {
	p := Pt{T: t, H: "-", R: "-", K: "none"}
	if h, ok := tags["h"]; ok {
		p.H = h
	}
	if r, ok := tags["r"]; ok {
		p.R = r
	}
	_, hasG := tags["g"]
	p.NoG = !hasG
	if iv, ok := f["i"].(int64); ok {
		p.I = int(iv)
	}
	split := func(x int64) {
		if base != 0 {
			s := x / base
			if r := x - s*base; 2*r > base {
				s++
			} else if 2*r < -base {
				s--
			}
			p.S = int(s)
			x -= s * base
		}
		if x > 1000000 || x < -1000000 {
			p.K = "fx"
		}
		p.V = int(x)
	}
	switch x := f["x"].(type) {
	case int64:
		p.K = "int"
		split(x)
	case float64:
		p.K = "float"
		if x != math.Trunc(x) || math.Abs(x) > 1e15 {
			p.K = "fx"
		} else {
			split(int64(x))
		}
	case string:
		p.K = "str"
		fmt.Sscanf(x, "s%d", &p.V)
	case bool:
		p.K = "bool"
		if x {
			p.V = 1
		}
	}
	return p
}

// DecodeInPoint: the same for a stream point observed at sink 'in'.
func DecodeInPoint(pm edge.PointMessage) (string, Pt) {
	return pm.Tags()["g"], decodePt(pm.Fields(), pm.Tags(), tk(pm.Time()), 0)
}

func errStrings(es []rt.ErrItem) []any {
	var out []string
	for _, e := range es {
		out = append(out, e.Msg+": "+e.Err)
	}
	sort.Strings(out)
	r := make([]any, len(out))
	for i, s := range out {
		r[i] = s
	}
	return r
}
