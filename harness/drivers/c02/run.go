package c02

import (
	"fmt"
	"strings"

	"github.com/influxdata/kapacitor"

	"kapverif/rt"
)

func init() {
	rt.Register("c02", Run)
}

// tagless points come after points of the same measurement that carry the tag
// (a where() must decide on the point alone), and before ones that carry it again
var burstPts = []Pt{{"m1", "a"}, {"m1", ""}, {"m2", "b"}, {"m2", ""}, {"m1", "b"}, {"m2", "a"}}

// burst is the write step of the systematic enumeration: one WritePoints call
// of four points (2 measurements x 2 tag values) for each of the four dbrps,
// alternately through the Go API and the HTTP /write handler (once as a gzip
// body with Content-Length, once as a body of unknown length); the first call
// leaves the retention policy to the TaskMaster default.
func burst(sync bool) []Op {
	return []Op{
		{Kind: "write", DB: "d1", RP: "", Pts: burstPts},
		{Kind: "write", DB: "d1", RP: "rp2", Pts: burstPts, HTTP: true, Enc: "gzip"},
		{Kind: "write", DB: "d2", RP: "rp2", Pts: burstPts},
		{Kind: "write", DB: "d2", RP: "rp1", Pts: burstPts, HTTP: true, Enc: "chunked", Sync: sync},
	}
}

// step of the systematic alphabet
type step struct {
	kind string // start|stop|delete|startfail|await|Ws|Wn|Wbig|Wk
	t    string
	key  int  // Wk: index into seriesKeys
	n    int  // Wk: number of points
	http bool // Wk: through the HTTP handler
}

func (s step) String() string {
	if s.kind == "Wk" {
		return fmt.Sprintf("Wk%d*%d", s.key, s.n)
	}
	if s.t != "" {
		return s.kind + ":" + s.t
	}
	return s.kind
}

// seriesKeys: the eight (db, rp, measurement) series of the systematic part.
type seriesKey struct {
	d kapacitor.DBRP
	m string
}

var seriesKeys = func() []seriesKey {
	var ks []seriesKey
	for _, d := range []kapacitor.DBRP{dA, dC, dB, dD} {
		for _, m := range []string{"m1", "m2"} {
			ks = append(ks, seriesKey{d, m})
		}
	}
	return ks
}()

// keyWrite: n points of exactly one series in one call, and the forking goroutine is
// waited for through the ingress statistics, so that NOTHING else (no fence point)
// travels on the write stream between this write and the next one.
func keyWrite(s step) Op {
	k := seriesKeys[s.key]
	tags := []string{"a", "", "b"}
	op := Op{Kind: "write", DB: k.d.Database, RP: k.d.RetentionPolicy, HTTP: s.http, ISync: true}
	for i := 0; i < s.n; i++ {
		op.Pts = append(op.Pts, Pt{k.m, tags[i%len(tags)]})
	}
	return op
}

// routedKeys: the series under which a task of shape s is registered in the fork table.
func routedKeys(s Shape) []int {
	var out []int
	for i, k := range seriesKeys {
		for _, d := range s.DBRPs {
			if d != k.d {
				continue
			}
			for _, f := range s.Froms {
				if f.Meas == "" || f.Meas == k.m {
					out = append(out, i)
					break
				}
			}
			break
		}
	}
	return out
}

// firstSubscriber: points of one series are forked BEFORE the task that will be the
// first subscriber of that series (or of its db.rp) exists, then the task starts, then
// more points of exactly that series follow with nothing else in between.  Delivery is
// decided per point from the fork table as it is at that moment.
func firstSubscriber(key int, neighbour bool) []step {
	var h []step
	if neighbour {
		h = append(h, step{kind: "start", t: "t1"})
	}
	return append(h,
		step{kind: "Wk", key: key, n: 2},
		step{kind: "start", t: "t2"},
		step{kind: "Wk", key: key, n: 3},
		step{kind: "Wk", key: key, n: 2, http: true},
		step{kind: "stop", t: "t2"},
		step{kind: "Wk", key: key, n: 1},
		step{kind: "start", t: "t2"},
		step{kind: "Wk", key: key, n: 2})
}

// histories enumerates every operation sequence of exactly length n over
// {start,stop,delete} x tasks (start only when stopped, stop/delete only when
// executing) and the two write steps Ws (burst, then wait for the fork) and Wn
// (burst, no wait: the next lifecycle call races with the forking goroutine),
// keeping those with at least one write in which every task appears.
func histories(ids []string, n int, f func([]step)) {
	exec := map[string]bool{}
	var rec func(h []step, writes int)
	rec = func(h []step, writes int) {
		if len(h) == n {
			if writes > 0 && allAppear(ids, h) {
				f(h)
			}
			return
		}
		for _, id := range ids {
			if !exec[id] {
				exec[id] = true
				rec(append(h, step{kind: "start", t: id}), writes)
				exec[id] = false
			} else {
				exec[id] = false
				rec(append(h, step{kind: "stop", t: id}), writes)
				rec(append(h, step{kind: "delete", t: id}), writes)
				exec[id] = true
			}
		}
		rec(append(h, step{kind: "Ws", t: ""}), writes+1)
		if len(h) < n-1 { // an unsynchronised burst as last step equals Ws (End waits)
			rec(append(h, step{kind: "Wn", t: ""}), writes+1)
		}
	}
	rec(nil, 0)
}

// interference: targeted two-task histories (beyond the exhaustive length in the quick tier)
var interference = [][]step{
	// the first four also run in the quick tier
	{{kind: "start", t: "t1"}, {kind: "start", t: "t2"}, {kind: "stop", t: "t1"}, {kind: "Ws", t: ""}},
	{{kind: "start", t: "t1"}, {kind: "start", t: "t2"}, {kind: "Wn", t: ""}, {kind: "delete", t: "t2"}, {kind: "Ws", t: ""}},
	{{kind: "start", t: "t1"}, {kind: "start", t: "t2"}, {kind: "stop", t: "t2"}, {kind: "start", t: "t2"}, {kind: "Ws", t: ""}},
	{{kind: "start", t: "t1"}, {kind: "startfail", t: "t2"}, {kind: "Ws", t: ""}, {kind: "start", t: "t2"}, {kind: "Ws", t: ""}},
	{{kind: "start", t: "t1"}, {kind: "start", t: "t2"}, {kind: "delete", t: "t2"}, {kind: "Ws", t: ""}},
	{{kind: "start", t: "t1"}, {kind: "start", t: "t2"}, {kind: "Wn", t: ""}, {kind: "stop", t: "t1"}, {kind: "Ws", t: ""}},
	{{kind: "start", t: "t2"}, {kind: "start", t: "t1"}, {kind: "delete", t: "t1"}, {kind: "Wn", t: ""}, {kind: "start", t: "t1"}, {kind: "Ws", t: ""}},
	{{kind: "startfail", t: "t1"}, {kind: "start", t: "t2"}, {kind: "Wn", t: ""}, {kind: "startfail", t: "t1"}, {kind: "Ws", t: ""}},
}

// allAppear: a history that never touches one of the tasks is a history of the
// smaller task set, which is enumerated (to a greater length) on its own.
func allAppear(ids []string, h []step) bool {
	for _, id := range ids {
		found := false
		for _, s := range h {
			if s.t == id {
				found = true
				break
			}
		}
		if !found {
			return false
		}
	}
	return true
}

// bigWrites: one HTTP write of 60 points per dbrp (a body that really compresses),
// in the four encodings; every acknowledged point must be delivered.
func bigWrites() []Op {
	pts := make([]Pt, 0, 60)
	for i := 0; i < 60; i++ {
		pts = append(pts, burstPts[i%len(burstPts)])
	}
	return []Op{
		{Kind: "write", DB: "d1", RP: "rp1", Pts: pts, HTTP: true, Enc: "gzip"},
		{Kind: "write", DB: "d1", RP: "rp2", Pts: pts, HTTP: true, Enc: "gzip-chunked"},
		{Kind: "write", DB: "d2", RP: "rp2", Pts: pts, HTTP: true, Enc: "chunked"},
		{Kind: "write", DB: "d2", RP: "rp1", Pts: pts, HTTP: true, Enc: "", Sync: true},
	}
}

// dyingNeighbour: targeted histories with a task (t1) that dies at run time and is
// not stopped, next to healthy tasks sharing its fork keys: the survivors must
// still receive every point.  "await" gives the failure time to reach the fork edge.
var dyingNeighbour = [][]step{
	{{kind: "start", t: "t1"}, {kind: "start", t: "t2"}, {kind: "Ws", t: ""}, {kind: "await", t: "t1"}, {kind: "Ws", t: ""}, {kind: "Ws", t: ""}},
	{{kind: "start", t: "t2"}, {kind: "start", t: "t1"}, {kind: "start", t: "t3"}, {kind: "Ws", t: ""}, {kind: "await", t: "t1"}, {kind: "Wn", t: ""}, {kind: "stop", t: "t1"}, {kind: "Ws", t: ""}},
}

func runHistory(w *World, t *rt.Trace, tasks map[string]Shape, h []step, mode string) {
	tr := w.Begin(t, tasks, mode)
	for _, s := range h {
		switch s.kind {
		case "Ws", "Wn":
			for _, op := range burst(s.kind == "Ws") {
				tr.Do(op)
			}
		case "Wk":
			tr.Do(keyWrite(s))
		case "Wbig":
			for _, op := range bigWrites() {
				tr.Do(op)
			}
		default:
			tr.Do(Op{Kind: s.kind, T: s.t})
		}
	}
	tr.End()
}

func histKey(tasks map[string]Shape, h []step) string {
	var b strings.Builder
	for _, id := range rt.SortedKeys(tasks) {
		b.WriteString(id + "=" + tasks[id].Name + ";")
	}
	for _, s := range h {
		b.WriteString(s.String() + ",")
	}
	return b.String()
}

// Lab owns the current World and replaces it when a lifecycle call got stuck.
type Lab struct {
	w          *World
	hangs      []string
	pastDeaths int
}

func (l *Lab) deaths() int {
	n := l.pastDeaths
	if l.w != nil {
		n += l.w.deaths
	}
	return n
}

func (l *Lab) world() *World {
	if l.w == nil || l.w.dead.Load() {
		if l.w != nil {
			l.pastDeaths += l.w.deaths
		}
		w, err := NewWorld()
		if err != nil {
			rt.Fatalf("new world: %v", err)
		}
		l.w = w
	}
	return l.w
}

// run executes one trace; it reports false when the trace was cut short by a
// stuck lifecycle call (the stuck TaskMaster is abandoned, never a verdict).
// After maxHangs stuck calls nothing more is run; the check then reports the
// violations recorded so far, or "broken" if there are none.
func (l *Lab) run(what string, f func(w *World)) (ok bool) {
	defer func() {
		if x := recover(); x != nil {
			h, isHang := x.(hang)
			if !isHang {
				panic(x)
			}
			l.hangs = append(l.hangs, h.what+" did not return within "+callDeadline.String()+" in "+what)
			ok = false
		}
	}()
	if len(l.hangs) >= maxHangs {
		return false // too many stuck calls: stop exploring, report what was recorded so far
	}
	f(l.world())
	return true
}

// Run: B1 systematic enumeration + seeded random histories (+ concurrent
// writer/lifecycle histories) on the real TaskMaster.
func Run(r *rt.Run) error {
	lab := &Lab{}
	defer func() {
		if lab.w != nil && !lab.w.dead.Load() {
			lab.w.Close()
		}
	}()
	t := r.NewTrace("seq")  // exhaustive singles, pairs, sampled deeper pairs and triples
	tx := r.NewTrace("mix") // targeted two-task histories and random histories
	tc := r.NewTrace("conc")

	singleLen, pairLen, pairDeepLen, nPairsDeep, tripleLen, nTriples, tripleDeepLen, nTriplesDeep, nInterf := 4, 3, 4, 8, 4, 6, 0, 0, 4
	nDyingReps, nFirstSubKeys, nRaceReps := 1, 2, 1
	nRandom, nConc := 250, 150
	if r.Thorough() {
		singleLen, pairLen, pairDeepLen, nPairsDeep, tripleLen, nTriples, tripleDeepLen, nTriplesDeep, nInterf = 6, 4, 5, 10, 4, 30, 5, 3, len(interference)
		nRandom, nConc = 2000, 1000
		nDyingReps, nFirstSubKeys, nRaceReps = 4, 4, 3
	}
	count := 0
	// every history for one task set; a stuck call skips the rest of the set
	explore := func(t *rt.Trace, tasks map[string]Shape, n int) {
		skip := false
		histories(rt.SortedKeys(tasks), n, func(h []step) {
			if skip {
				return
			}
			key := histKey(tasks, h)
			if !lab.run(key, func(w *World) { runHistory(w, t, tasks, h, "seq") }) {
				skip = true
				return
			}
			t.Distinct(key)
			count++
		})
	}
	// first subscriber of a series: every shape x every series alone; next to every other shape for
	// series the task is routed under (run first: the ingress scan walks every statistic of the process,
	// and failed starts leak node statistics)
	runFixed := func(t *rt.Trace, tasks map[string]Shape, h []step) {
		ids := map[string]Shape{}
		for _, st := range h {
			if st.t != "" {
				ids[st.t] = tasks[st.t]
			}
		}
		key := histKey(ids, h)
		if lab.run(key, func(w *World) { runHistory(w, t, ids, h, "seq") }) {
			t.Distinct(key)
			count++
		}
	}
	for _, s := range catalogue {
		for k := range seriesKeys {
			runFixed(tx, map[string]Shape{"t2": s}, firstSubscriber(k, false))
		}
	}
	for i, u := range catalogue {
		for j, s := range catalogue {
			rk := routedKeys(s)
			for n := 0; n < nFirstSubKeys && n < len(rk); n++ {
				runFixed(tx, map[string]Shape{"t1": u, "t2": s}, firstSubscriber(rk[(i+j+n)%len(rk)], true))
			}
		}
	}
	firstSub := count
	// singles: every shape, every history
	for _, s := range catalogue {
		explore(t, map[string]Shape{"t1": s}, singleLen)
	}
	// pairs: every unordered pair of shapes (including twice the same)
	for i := range catalogue {
		for j := i; j < len(catalogue); j++ {
			explore(t, map[string]Shape{"t1": catalogue[i], "t2": catalogue[j]}, pairLen)
		}
	}
	// pairs, one step deeper on the patterns the property names: with both tasks running, stop or
	// delete one (or restart it, or fail to start it) and write: the other must get everything
	for i := range catalogue {
		for j := range catalogue {
			tasks := map[string]Shape{"t1": catalogue[i], "t2": catalogue[j]}
			skip := false
			for _, h := range interference[:nInterf] {
				key := histKey(tasks, h)
				if skip || !lab.run(key, func(w *World) { runHistory(w, tx, tasks, h, "seq") }) {
					skip = true
					continue
				}
				tx.Distinct(key)
				count++
			}
		}
	}
	// a neighbour that dies at run time (both dying shapes x every catalogue shape, repeated so
	// that map iteration order cannot hide a point that stops at the dead edge)
	for rep := 0; rep < nDyingReps; rep++ {
		for _, d := range dyingShapes {
			for _, s := range catalogue {
				tasks := map[string]Shape{"t1": d, "t2": s, "t3": s}
				for _, h := range dyingNeighbour {
					ids := map[string]Shape{}
					for _, st := range h {
						if st.t != "" {
							ids[st.t] = tasks[st.t]
						}
					}
					key := histKey(ids, h) + fmt.Sprint(rep)
					if lab.run(key, func(w *World) { runHistory(w, tx, ids, h, "seq") }) {
						tx.Distinct(key)
						count++
					}
				}
			}
		}
	}
	// large compressed / chunked HTTP writes: everything acknowledged is delivered
	for _, s := range catalogue {
		tasks := map[string]Shape{"t1": s}
		h := []step{{kind: "start", t: "t1"}, {kind: "Wbig", t: ""}}
		key := histKey(tasks, h)
		if lab.run(key, func(w *World) { runHistory(w, tx, tasks, h, "seq") }) {
			tx.Distinct(key)
			count++
		}
	}
	rshape := func() Shape { return catalogue[r.Rand.Intn(len(catalogue))] }
	// a seeded sample of pairs one step deeper
	for n := 0; n < nPairsDeep; n++ {
		explore(t, map[string]Shape{"t1": rshape(), "t2": rshape()}, pairDeepLen)
	}
	// triples: seeded samples of shape triples, every history
	for n := 0; n < nTriples; n++ {
		explore(t, map[string]Shape{"t1": rshape(), "t2": rshape(), "t3": rshape()}, tripleLen)
	}
	for n := 0; n < nTriplesDeep; n++ {
		explore(t, map[string]Shape{"t1": rshape(), "t2": rshape(), "t3": rshape()}, tripleDeepLen)
	}
	systematic := count
	for i := 0; i < nRandom; i++ {
		lab.run("random history", func(w *World) { runRandom(r, w, tx) })
	}
	for i := 0; i < nConc; i++ {
		lab.run("concurrent history", func(w *World) { runConcurrent(r, w, tc) })
	}
	races := runRaces(r, nRaceReps)
	r.Extra["first_subscriber_histories"] = firstSub
	r.Extra["backed_up_task_stop_races_in_child_processes"] = races
	r.Extra["systematic_histories"] = systematic
	r.Extra["random_histories"] = nRandom
	r.Extra["concurrent_histories"] = nConc
	r.Extra["catalogue_shapes"] = len(catalogue)
	r.Extra["single_task_history_len"] = singleLen
	r.Extra["task_pair_history_len"] = pairLen
	r.Extra["task_pairs_sampled_deeper"] = fmt.Sprintf("%d pairs at length %d", nPairsDeep, pairDeepLen)
	r.Extra["task_triple_history_len"] = tripleLen
	r.Extra["task_triples_sampled"] = nTriples
	r.Extra["task_triples_sampled_deeper"] = fmt.Sprintf("%d triples at length %d", nTriplesDeep, tripleDeepLen)
	r.Extra["targeted_two_task_histories_per_ordered_pair"] = nInterf
	r.Extra["stuck_lifecycle_calls"] = lab.hangs
	r.Extra["dying_neighbour_histories"] = nDyingReps * len(dyingShapes) * len(catalogue) * len(dyingNeighbour)
	r.Extra["dying_tasks_with_aborted_fork_edge_when_stopped"] = lab.deaths()
	if lab.w != nil {
		r.Extra["dying_tasks_still_alive_after_feeding"] = lab.w.notDying
	}
	r.Finish(fmt.Sprintf("real TaskMaster; tasks are TICKscripts with |log().prefix('<task>/<k>') under every from(); "+
		"every history of exactly the given length in which every task appears over {start,stop,delete} per task (only when applicable) + {burst and wait for fork, burst without waiting} "+
		"(a burst = 4 WritePoints calls x 6 points over 4 dbrps x 2 measurements x {tag a, tag b, no tag}, alternately Go API and HTTP /write) "+
		"for every one of %d catalogue shapes alone (length %d), every unordered pair (%d pairs, length %d), %d seeded triples (length %d); "+
		"targeted two-task histories of length 4-6 for every ordered pair (stop/delete/restart/failed start of one task, then write: the other task must get everything); "+
		"first-subscriber histories (points of one series forked before its first subscriber exists, task started, more points of exactly that series with no fence in between; ingress statistics as quiescence) for every shape x 8 series and every ordered pair; "+
		"a backed-up task (gated sink, 3 full edges) stopped/deleted while others receive, in child processes (a dead process is an outcome the specification rejects); "+
		"a neighbour task that dies at run time (refused httpOut route) next to every catalogue shape sharing its fork keys; 60-point HTTP writes gzip/chunked; "+
		"then seeded random histories (random shapes, 1-3 tasks, single writes incl. gzip/chunked HTTP bodies of up to 69 points, no-op stops, failed starts, dying tasks) and histories with a concurrent writer goroutine; "+
		"non-trivial = history with at least one write, distinct by (task set, operation sequence)",
		len(catalogue), singleLen, len(catalogue)*(len(catalogue)+1)/2, pairLen, nTriples, tripleLen), false)
	return nil
}

// ---------- random histories ----------

var (
	rDBs   = []string{"d1", "d2"}
	rRPs   = []string{"", "rp1", "rp2"}
	rMeas  = []string{"m1", "m2", "m3"}
	rTags  = []string{"a", "b", ""}
	rDBRPs = []kapacitor.DBRP{dA, dB, dC, dD}
)

func pick[T any](r *rt.Run, xs []T) T { return xs[r.Rand.Intn(len(xs))] }

func randomShape(r *rt.Run) Shape {
	if r.Rand.Intn(3) == 0 {
		return pick(r, catalogue)
	}
	s := Shape{Name: "rnd"}
	perm := r.Rand.Perm(len(rDBRPs))
	for _, i := range perm[:1+r.Rand.Intn(3)] {
		s.DBRPs = append(s.DBRPs, rDBRPs[i])
	}
	for k := 1 + r.Rand.Intn(3); k > 0; k-- {
		f := From{}
		if r.Rand.Intn(2) == 0 {
			f.Meas = pick(r, rMeas[:2])
		}
		if r.Rand.Intn(4) == 0 {
			f.DB = pick(r, rDBs)
		}
		if r.Rand.Intn(4) == 0 {
			f.RP = pick(r, rRPs[1:])
		}
		if r.Rand.Intn(4) == 0 {
			f.Pred = pick(r, []string{"a", "b", "?a", "?b"})
		}
		f.GB = r.Rand.Intn(5) == 0
		s.Froms = append(s.Froms, f)
	}
	s.Name = fmt.Sprintf("rnd%v", s.Enc())
	return s
}

func randomWrite(r *rt.Run) Op {
	op := Op{Kind: "write", DB: pick(r, rDBs), RP: pick(r, rRPs), HTTP: r.Rand.Intn(3) == 0, Sync: r.Rand.Intn(2) == 0}
	n := 1 + r.Rand.Intn(3)
	if op.HTTP {
		op.Enc = pick(r, []string{"", "gzip", "chunked", "gzip-chunked"})
		if r.Rand.Intn(5) == 0 {
			n = 20 + r.Rand.Intn(50) // a body that really compresses; fenced (it is about the HTTP body, not about races)
			op.Sync = true
		}
	}
	for k := n; k > 0; k-- {
		op.Pts = append(op.Pts, Pt{pick(r, rMeas), pick(r, rTags)})
	}
	return op
}

func runRandom(r *rt.Run, w *World, t *rt.Trace) {
	ids := []string{"t1", "t2", "t3"}[:1+r.Rand.Intn(3)]
	tasks := map[string]Shape{}
	for _, id := range ids {
		tasks[id] = randomShape(r)
	}
	if len(ids) > 1 && r.Rand.Intn(4) == 0 {
		tasks[ids[0]] = tasks[ids[0]].dying()
	}
	tr := w.Begin(t, tasks, "seq")
	key := histKey(tasks, nil)
	n := 8 + r.Rand.Intn(16)
	for k := 0; k < n; k++ {
		var op Op
		if r.Rand.Intn(10) < 6 {
			op = randomWrite(r)
		} else {
			id := pick(r, ids)
			switch {
			case !tr.exec[id] && r.Rand.Intn(6) == 0:
				op = Op{Kind: "startfail", T: id}
			case !tr.exec[id] && r.Rand.Intn(8) != 0:
				op = Op{Kind: "start", T: id}
			case r.Rand.Intn(2) == 0:
				op = Op{Kind: "stop", T: id} // possibly a no-op on a stopped task
			default:
				op = Op{Kind: "delete", T: id}
			}
		}
		tr.Do(op)
		key += op.key() + ","
	}
	tr.End()
	t.Distinct(key)
}
