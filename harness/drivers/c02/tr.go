package c02

import (
	"fmt"
	"strings"
	"time"

	imodels "github.com/influxdata/influxdb/models"
	"github.com/influxdata/kapacitor"

	"kapverif/rt"
)

// Tr is one trace in progress on a World.
type Tr struct {
	w     *World
	t     tracer
	ids   []string
	tasks map[string]Shape
	exec  map[string]bool
	nw    int // points written so far (seq numbers 1..nw)
	no    int64
	// scan the published statistics for orphan input edges at the final observation
	// (the scan walks every statistic of the process: only after a failed start and every 50th trace)
	scan bool
}

// tracer is what a trace in progress writes to: the run's rt.Trace, or the
// unbuffered line file of a child process (whose lines the parent re-emits).
type tracer interface {
	Reset(cfg rt.M)
	Event(ev string, fields rt.M)
}

// Begin starts a trace with the given task definitions (none started yet).
func (w *World) Begin(t tracer, tasks map[string]Shape, mode string) *Tr {
	w.trNo++
	tr := &Tr{w: w, t: t, tasks: tasks, exec: map[string]bool{}, ids: rt.SortedKeys(tasks), no: int64(w.trNo), scan: w.trNo%50 == 0}
	defs := rt.M{}
	for id, s := range tasks {
		defs[id] = s.Enc()
	}
	t.Reset(rt.M{"tasks": defs, "rpdefault": defaultRP, "mode": mode})
	return tr
}

func retStr(err error) string {
	if err == nil {
		return "ok"
	}
	return "error: " + err.Error()
}

func (tr *Tr) mkPoints(pts []Pt) ([]imodels.Point, []string, []any) {
	ps := make([]imodels.Point, 0, len(pts))
	lines := make([]string, 0, len(pts))
	enc := make([]any, 0, len(pts))
	for i, p := range pts {
		seq := tr.nw + i + 1
		tm := rt.DefaultTime.T(seq)
		tags, ltags := map[string]string{}, ""
		if p.Tag != "" { // Tag "": the point does not carry the tag at all
			tags["tag"] = p.Tag
			ltags = ",tag=" + p.Tag
		}
		ps = append(ps, mustPoint(p.Meas, tags, map[string]any{"seq": int64(seq), "tr": tr.no}, tm))
		lines = append(lines, fmt.Sprintf("%s%s seq=%di,tr=%di %d", p.Meas, ltags, seq, tr.no, tm.Unix()))
		enc = append(enc, rt.M{"meas": p.Meas, "tag": p.Tag})
	}
	return ps, lines, enc
}

// writeCall performs the API call of a write op and returns (via, ret).
func (tr *Tr) writeCall(op Op, ps []imodels.Point, lines []string) (string, string) {
	if op.HTTP {
		code := tr.w.writeHTTP(op.DB, op.RP, lines, op.Enc)
		via := "http"
		if op.Enc != "" {
			via += "-" + op.Enc
		}
		if code == 204 {
			tr.w.total.Add(int64(len(ps)))
			return via, "ok"
		}
		return via, fmt.Sprintf("http status %d", code)
	}
	err := tr.w.Env.Write(op.DB, op.RP, ps...)
	if err == nil {
		tr.w.total.Add(int64(len(ps)))
	}
	return "api", retStr(err)
}

// Do executes one operation from the driver goroutine and logs it.
func (tr *Tr) Do(op Op) {
	switch op.Kind {
	case "write":
		ps, lines, enc := tr.mkPoints(op.Pts)
		first := tr.nw + 1
		tr.nw += len(op.Pts)
		via, ret := tr.writeCall(op, ps, lines)
		tr.t.Event("Write", rt.M{"db": op.DB, "rp": op.RP, "pts": enc, "first": first, "via": via, "ret": ret})
		if op.ISync && tr.w.SyncIngress() {
			tr.t.Event("Sync", nil)
		}
		if op.Sync {
			tr.Sync()
		}
	case "start":
		tr.t.Event("Lc", rt.M{"op": "start", "t": op.T, "ret": tr.start(op.T)})
	case "await":
		// not an action of the specification: give a dying task time to die
		// (ordinary, logged writes) feed it points until its source node has failed, i.e. the fork
		// edge is aborted: every stage of the failure needs a point that meets the aborted edge below it
		if tr.exec[op.T] && tr.tasks[op.T].Dies {
			dbrps := tr.tasks[op.T].DBRPs
			for i := 0; i < 60 && !tr.w.nodeFailed(op.T, "stream"); i++ {
				d := dbrps[i%len(dbrps)]
				tr.Do(Op{Kind: "write", DB: d.Database, RP: d.RetentionPolicy, Pts: burstPts, Sync: true})
				tr.w.settle(op.T)
			}
			if !tr.w.nodeFailed(op.T, "stream") {
				tr.w.notDying++
			}
		}
	case "startfail":
		// StartTask of a task whose snapshot cannot be loaded: returns an error, the task is not executing
		tr.scan = true
		tr.w.snaps.setFail(op.T, true)
		ret := tr.start(op.T)
		tr.w.snaps.setFail(op.T, false)
		tr.t.Event("Lc", rt.M{"op": "startfail", "t": op.T, "ret": ret})
		tr.Obs(op.T)
	case "stop", "delete":
		tr.t.Event("Lc", rt.M{"op": op.Kind, "t": op.T, "ret": tr.stop(op.Kind, op.T)})
		tr.Obs(op.T)
	default:
		rt.Fatalf("unknown op %q", op.Kind)
	}
}

// guarded runs one lifecycle call with a watchdog.  A call that does not
// return leaves the TaskMaster stuck (it holds tm.mu): the world is declared
// dead and the trace is cut short (panic(hang), recovered by Lab.run).
func (tr *Tr) guarded(what string, f func() error) string {
	ch := make(chan error, 1)
	go func() { ch <- f() }()
	tm := time.NewTimer(callDeadline)
	defer tm.Stop()
	select {
	case err := <-ch:
		return retStr(err)
	case <-tm.C:
		tr.w.dead.Store(true)
		panic(hang{what})
	}
}

func (tr *Tr) start(id string) string {
	s := tr.tasks[id]
	task, err := tr.w.Env.TM.NewTask(id, s.Script(id), kapacitor.StreamTask, s.DBRPs, 0, nil)
	if err != nil {
		rt.Fatalf("NewTask %s (%s): %v", id, s.Name, err)
	}
	ret := tr.guarded("StartTask "+id, func() error { _, err := tr.w.Env.TM.StartTask(task); return err })
	if ret == "ok" {
		tr.exec[id] = true
	}
	return ret
}

func (tr *Tr) stop(kind, id string) string {
	if tr.exec[id] && tr.tasks[id].Dies && tr.w.nodeFailed(id, "stream") {
		tr.w.deaths++ // statistics only: the fork edge of this task was aborted while it was registered
	}
	ret := tr.guarded(kind+" "+id, func() error {
		if kind == "delete" {
			return tr.w.Env.TM.DeleteTask(id)
		}
		return tr.w.Env.TM.StopTask(id)
	})
	delete(tr.exec, id)
	return ret
}

// Sync waits for the fence and logs that everything written so far is forked.
func (tr *Tr) Sync() {
	if tr.w.Sync() {
		tr.t.Event("Sync", nil)
	}
}

// Obs logs everything the sinks of task id have seen since the trace began.
// It is only called when the task is not executing (StopTask has drained it).
func (tr *Tr) Obs(id string) { tr.obs(id, false) }

func (tr *Tr) obs(id string, final bool) {
	s := tr.tasks[id]
	sinks := make([]any, 0, len(s.Froms))
	for k := range s.Froms {
		items := tr.w.Env.Diag.SinkItems(fmt.Sprintf("%s/%d", id, k+1))
		arr := make([]any, 0, len(items))
		for _, it := range items {
			p := it.Point
			seq := int64(0)
			if p != nil {
				f := p.Fields()
				if n, ok := f["tr"].(int64); ok && n == tr.no {
					seq, _ = f["seq"].(int64)
				}
				arr = append(arr, rt.M{"s": seq,
					"sig": strings.Join([]string{p.Database(), p.RetentionPolicy(), p.Name(), p.Tags()["tag"]}, "/"),
					"grp": string(p.GroupID())})
			} else {
				arr = append(arr, rt.M{"s": seq, "sig": "not-a-point", "grp": ""})
			}
		}
		sinks = append(sinks, arr)
	}
	edges, collected := -1, int64(-1) // -1: not measured
	if final && tr.scan {
		edges, collected = orphan(id)
	}
	tr.t.Event("Obs", rt.M{"t": id, "sinks": sinks, "orphan_edges": edges, "orphan_collected": collected})
}

// End drains everything deterministically: fence, stop every executing task
// (StopTask returns after the task has consumed its input edge), observe all
// sinks, and check that the fence task (another dbrp) saw nothing but fences.
func (tr *Tr) End() {
	tr.Sync()
	for _, id := range tr.ids {
		if tr.exec[id] {
			tr.t.Event("Lc", rt.M{"op": "stop", "t": id, "ret": tr.stop("stop", id)})
		}
		tr.obs(id, true)
	}
	foreign := 0
	for _, it := range tr.w.Env.Diag.SinkItems("fence") {
		if it.Point == nil || it.Point.Name() != "fence" || it.Point.Database() != fenceDBRP.Database {
			foreign++
		}
	}
	tr.t.Event("End", rt.M{"fence_foreign": foreign, "node_errors": len(tr.w.Env.Diag.Errors())})
	tr.w.Env.Diag.Clear()
	tr.w.fence = 0
}
