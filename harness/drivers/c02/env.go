package c02

import (
	"expvar"
	"fmt"
	"io"
	"log"
	"net/http"
	"net/http/httptest"
	"strings"
	"time"

	"github.com/influxdata/kapacitor"
	"github.com/influxdata/kapacitor/services/httpd"

	"kapverif/rt"
)

// generous: a missed deadline is a broken check (exit 2), never a verdict
const waitDeadline = 120 * time.Second

var fenceDBRP = kapacitor.DBRP{Database: "_fence", RetentionPolicy: "f"}

// World is one real TaskMaster with a permanently running fence task on its
// own dbrp, and the real HTTP handler wired to it.
type World struct {
	Env   *rt.Env
	HTTP  *httpd.Handler
	fence int // fence points seen since the last Diag.Clear
	trNo  int
}

func NewWorld() (*World, error) {
	env, err := rt.NewEnv(rt.EnvOpts{})
	if err != nil {
		return nil, err
	}
	env.TM.DefaultRetentionPolicy = defaultRP
	w := &World{Env: env}
	if _, err := env.StartTask("fence", "stream\n    |from()\n    |log()\n        .prefix('fence')\n", kapacitor.StreamTask, []kapacitor.DBRP{fenceDBRP}); err != nil {
		env.Close()
		return nil, fmt.Errorf("fence task: %w", err)
	}
	h := httpd.NewHandler(false, false, false, false, true, new(expvar.Map).Init(), httpDiag{env.Diag}, "")
	h.PointsWriter = env.TM
	w.HTTP = h
	return w, nil
}

func (w *World) Close() { w.Env.Close() }

// Sync returns when every point written before the call has been handed to
// the task edges: the forking goroutine is a single FIFO consumer, so once the
// fence task (own dbrp, always running) has logged this fence point, forkPoint
// has completed for everything written earlier.
func (w *World) Sync() {
	w.fence++
	p := rt.MustPoint("fence", nil, map[string]any{"n": int64(w.fence)}, rt.DefaultTime.T(0))
	if err := w.Env.Write(fenceDBRP.Database, fenceDBRP.RetentionPolicy, p); err != nil {
		rt.Fatalf("fence write: %v", err)
	}
	if !w.Env.Diag.WaitCount("fence", w.fence, waitDeadline) {
		rt.Fatalf("fence point %d not seen within %v (forking goroutine stuck?)", w.fence, waitDeadline)
	}
}

// httpDiag satisfies httpd.Diagnostic.
type httpDiag struct{ d *rt.Diag }

func (h httpDiag) NewHTTPServerErrorLogger() *log.Logger { return log.New(io.Discard, "", 0) }
func (h httpDiag) StartingService()                      {}
func (h httpDiag) StoppedService()                       {}
func (h httpDiag) ShutdownTimeout()                      {}
func (h httpDiag) AuthenticationEnabled(bool)            {}
func (h httpDiag) ListeningOn(string, string)            {}
func (h httpDiag) WriteBodyReceived(string)              {}
func (h httpDiag) HTTP(host, username string, start time.Time, method, uri, proto string, status int, referer, userAgent, reqID string, duration time.Duration) {
}
func (h httpDiag) Error(msg string, err error) { h.d.Error(msg, err) }
func (h httpDiag) RecoveryError(msg, err, host, username string, start time.Time, method, uri, proto string, status int, referer, userAgent, reqID string, duration time.Duration) {
	h.d.Error(msg+": "+err, nil)
}

// writeHTTP sends the points as line protocol through the real /write handler.
func (w *World) writeHTTP(db, rp string, lines []string) int {
	url := "/kapacitor/v1/write?precision=s&db=" + db
	if rp != "" {
		url += "&rp=" + rp
	}
	req := httptest.NewRequest("POST", url, strings.NewReader(strings.Join(lines, "\n")+"\n"))
	rec := httptest.NewRecorder()
	w.HTTP.ServeHTTP(rec, req)
	return rec.Code
}

var _ http.Handler = (*httpd.Handler)(nil)
