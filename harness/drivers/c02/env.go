package c02

import (
	"bytes"
	"compress/gzip"
	"expvar"
	"fmt"
	"io"
	"log"
	"net/http"
	"net/http/httptest"
	"strings"
	"sync"
	"sync/atomic"
	"time"

	"github.com/influxdata/kapacitor"
	"github.com/influxdata/kapacitor/server/vars"
	"github.com/influxdata/kapacitor/services/httpd"

	"kapverif/rt"
)

// generous: a missed deadline is a broken check (exit 2), never a verdict
const (
	waitDeadline = 120 * time.Second // fence point through the forking goroutine
	callDeadline = 60 * time.Second  // one StartTask/StopTask/DeleteTask call
	maxHangs     = 4                 // give up the run after this many stuck calls
)

// hang is panicked (and recovered by Lab.run) when a lifecycle call does not
// return: the TaskMaster is then stuck holding its lock and is abandoned.
type hang struct{ what string }

var fenceDBRP = kapacitor.DBRP{Database: "_fence", RetentionPolicy: "f"}

// World is one real TaskMaster with a permanently running fence task on its
// own dbrp, and the real HTTP handler wired to it.
type World struct {
	Env      *rt.Env
	HTTP     *httpd.Handler
	fence    int // fence points seen since the last Diag.Clear
	trNo     int
	dead     atomic.Bool // a lifecycle call is stuck: nothing more can be asked of this TaskMaster
	snaps    *snapStore
	total    atomic.Int64 // points accepted by this TaskMaster so far (writes, acknowledged HTTP writes, fences)
	gmu      sync.Mutex
	gates    map[string]chan struct{} // sink -> closed gate: the log node of that sink blocks after recording an arrival
	notDying int                      // dying tasks that were still alive after 60 feeding writes
	deaths   int                      // dying tasks whose source node had failed (fork edge aborted) by the time they were stopped
}

// dieHTTPD is the TaskMaster's HTTP service: it refuses the route of an httpOut
// node named dieEndpoint (as the real service refuses a conflicting pattern),
// which makes that node fail as soon as it runs.
type dieHTTPD struct{ *rt.FakeHTTPD }

func (d dieHTTPD) AddRoutes(rs []httpd.Route) error {
	for _, r := range rs {
		if strings.HasSuffix(r.Pattern, "/"+dieEndpoint) {
			return fmt.Errorf("route conflict: %s", r.Pattern)
		}
	}
	return d.FakeHTTPD.AddRoutes(rs)
}

// nodeFailed reports whether a node of task id whose name starts with prefix has
// reported "node failed" since the last Diag.Clear.
func (w *World) nodeFailed(id, prefix string) bool {
	for _, e := range w.Env.Diag.Errors() {
		if e.Msg == "node failed" && strings.Contains(e.Ctx, "task:"+id+"/node:"+prefix) {
			return true
		}
	}
	return false
}

// settle gives the nodes of a dying task a moment to process what was just
// forked (bounded, never a verdict: it only speeds up the dying).
func (w *World) settle(id string) {
	for i := 0; i < 20 && !w.nodeFailed(id, "stream"); i++ {
		time.Sleep(100 * time.Microsecond)
	}
}

// snapStore is the TaskMaster's TaskStore: it claims a (corrupt) snapshot for
// the tasks in fail, which makes StartTask return an error after it has
// already registered the task's fork.
type snapStore struct {
	mu   sync.Mutex
	fail map[string]bool
}

func (s *snapStore) SaveSnapshot(string, *kapacitor.TaskSnapshot) error { return nil }
func (s *snapStore) HasSnapshot(id string) bool {
	s.mu.Lock()
	defer s.mu.Unlock()
	return s.fail[id]
}
func (s *snapStore) LoadSnapshot(id string) (*kapacitor.TaskSnapshot, error) {
	return nil, fmt.Errorf("snapshot of %s is corrupt", id)
}
func (s *snapStore) setFail(id string, v bool) {
	s.mu.Lock()
	s.fail[id] = v
	s.mu.Unlock()
}

// orphan reports, from the published statistics (what /kapacitor/v1/debug/vars
// shows), the live input edges "stream -> stream0" registered for task id and
// how many points the forking goroutine has collected on them.  For a task
// that is not executing both must be zero: StopTask closes the edge, which
// removes its statistic.
func orphan(id string) (edges int, collected int64) {
	data, err := vars.GetStatsData()
	if err != nil {
		rt.Fatalf("GetStatsData: %v", err)
	}
	for _, d := range data {
		if d.Name == "edges" && d.Tags["task"] == id && d.Tags["parent"] == "stream" && d.Tags["child"] == "stream0" {
			edges++
			if n, ok := d.Values["collected"].(int64); ok {
				collected += n
			}
		}
	}
	return
}

func NewWorld() (*World, error) {
	env, err := rt.NewEnv(rt.EnvOpts{})
	if err != nil {
		return nil, err
	}
	env.TM.DefaultRetentionPolicy = defaultRP
	w := &World{Env: env, snaps: &snapStore{fail: map[string]bool{}}, gates: map[string]chan struct{}{}}
	env.Diag.OnItem = w.onItem
	env.TM.TaskStore = w.snaps
	env.TM.HTTPDService = dieHTTPD{env.HTTPD}
	if _, err := env.StartTask("fence", "stream\n    |from()\n    |log()\n        .prefix('fence')\n", kapacitor.StreamTask, []kapacitor.DBRP{fenceDBRP}); err != nil {
		env.Close()
		return nil, fmt.Errorf("fence task: %w", err)
	}
	h := httpd.NewHandler(false, false, false, false, true, new(expvar.Map).Init(), httpDiag{env.Diag}, "")
	h.PointsWriter = env.TM
	w.HTTP = h
	return w, nil
}

func (w *World) Close() { w.Env.Close() }

// Sync returns when every point written before the call has been handed to
// the task edges: the forking goroutine is a single FIFO consumer, so once the
// fence task (own dbrp, always running) has logged this fence point, forkPoint
// has completed for everything written earlier.
// It returns false only when the world has been declared dead meanwhile.
func (w *World) Sync() bool {
	w.fence++
	p := mustPoint("fence", nil, map[string]any{"n": int64(w.fence)}, rt.DefaultTime.T(0))
	if err := w.Env.Write(fenceDBRP.Database, fenceDBRP.RetentionPolicy, p); err != nil {
		rt.Fatalf("fence write: %v", err)
	}
	w.total.Add(1)
	for waited := time.Duration(0); !w.Env.Diag.WaitCount("fence", w.fence, time.Second); waited += time.Second {
		if w.dead.Load() {
			return false
		}
		if waited >= waitDeadline {
			rt.Fatalf("fence point %d not seen within %v (forking goroutine stuck?)", w.fence, waitDeadline)
		}
	}
	return true
}

// SyncIngress is Sync without putting a point of another series on the write
// stream: it waits until the published "ingress" statistics of this TaskMaster
// (incremented at the end of forkPoint) have counted every point accepted so far.
func (w *World) SyncIngress() bool {
	want := w.total.Load()
	pause := 20 * time.Microsecond
	for waited := time.Duration(0); w.Env.Ingress() < want; waited += pause {
		if w.dead.Load() {
			return false
		}
		if waited >= waitDeadline {
			rt.Fatalf("ingress statistics count %d of %d points after %v (forking goroutine stuck?)", w.Env.Ingress(), want, waitDeadline)
		}
		time.Sleep(pause)
		if pause < 2*time.Millisecond {
			pause *= 2
		}
	}
	return true
}

// onItem runs in the goroutine of a log node after the arrival has been recorded:
// a closed gate for that sink blocks the node, which backs the task up.
func (w *World) onItem(it rt.SinkItem) {
	w.gmu.Lock()
	ch := w.gates[it.Sink]
	w.gmu.Unlock()
	if ch != nil {
		<-ch
	}
}

func (w *World) closeGate(sink string) {
	w.gmu.Lock()
	w.gates[sink] = make(chan struct{})
	w.gmu.Unlock()
}

func (w *World) openGate(sink string) {
	w.gmu.Lock()
	if ch := w.gates[sink]; ch != nil {
		close(ch)
		delete(w.gates, sink)
	}
	w.gmu.Unlock()
}

// httpDiag satisfies httpd.Diagnostic.
type httpDiag struct{ d *rt.Diag }

func (h httpDiag) NewHTTPServerErrorLogger() *log.Logger { return log.New(io.Discard, "", 0) }
func (h httpDiag) StartingService()                      {}
func (h httpDiag) StoppedService()                       {}
func (h httpDiag) ShutdownTimeout()                      {}
func (h httpDiag) AuthenticationEnabled(bool)            {}
func (h httpDiag) ListeningOn(string, string)            {}
func (h httpDiag) WriteBodyReceived(string)              {}
func (h httpDiag) HTTP(host, username string, start time.Time, method, uri, proto string, status int, referer, userAgent, reqID string, duration time.Duration) {
}
func (h httpDiag) Error(msg string, err error) { h.d.Error(msg, err) }
func (h httpDiag) RecoveryError(msg, err, host, username string, start time.Time, method, uri, proto string, status int, referer, userAgent, reqID string, duration time.Duration) {
	h.d.Error(msg+": "+err, nil)
}

// writeHTTP sends the points as line protocol through the real /write handler.
// enc: "" plain with Content-Length, "gzip" gzip with Content-Length (what Telegraf
// or a client library with compression sends), "chunked"/"gzip-chunked" body of
// unknown length (Content-Length -1, as with Transfer-Encoding: chunked).
func (w *World) writeHTTP(db, rp string, lines []string, enc string) int {
	url := "/kapacitor/v1/write?precision=s&db=" + db
	if rp != "" {
		url += "&rp=" + rp
	}
	payload := []byte(strings.Join(lines, "\n") + "\n")
	if strings.HasPrefix(enc, "gzip") {
		var buf bytes.Buffer
		zw := gzip.NewWriter(&buf)
		zw.Write(payload)
		zw.Close()
		payload = buf.Bytes()
	}
	var body io.Reader = bytes.NewReader(payload) // httptest sets ContentLength from a *bytes.Reader
	if strings.HasSuffix(enc, "chunked") {
		body = struct{ io.Reader }{body} // unknown length: ContentLength = -1
	}
	req := httptest.NewRequest("POST", url, body)
	if strings.HasPrefix(enc, "gzip") {
		req.Header.Set("Content-Encoding", "gzip")
	}
	rec := httptest.NewRecorder()
	w.HTTP.ServeHTTP(rec, req)
	return rec.Code
}

var _ http.Handler = (*httpd.Handler)(nil)
