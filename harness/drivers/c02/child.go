package c02

import (
	"context"
	"encoding/json"
	"fmt"
	"os"
	"os/exec"
	"path/filepath"
	"regexp"
	"strings"
	"sync"
	"time"

	"github.com/influxdata/kapacitor"

	"kapverif/rt"
)

// Stopping or deleting a task that is backed up, while other tasks receive data,
// can take the whole process down (forkPoint collecting on an edge that delFork
// has closed panics in the TaskMaster's own goroutine).  Such histories run in a
// child process: the child writes its trace line by line to an unbuffered file,
// the parent re-emits the lines and, if the child died, appends a Died line -
// an outcome the specification rejects ("the daemon process survived").

func init() {
	rt.Register("c02child", RunChild)
}

// Race is one scenario of the child.
type Race struct {
	Kind string // stop | delete : the lifecycle call on the backed-up task
	N    int    // points written (more than the three edges of the task hold)
}

// lineTrace is the child's tracer: one write(2) per event, nothing buffered.
type lineTrace struct {
	mu sync.Mutex
	f  *os.File
}

func (l *lineTrace) emit(m rt.M) {
	b, err := json.Marshal(m)
	if err != nil {
		rt.Fatalf("marshal: %v", err)
	}
	l.mu.Lock()
	l.f.Write(append(b, '\n'))
	l.mu.Unlock()
}
func (l *lineTrace) Reset(cfg rt.M) {
	m := rt.M{"ev": "Reset"}
	for k, v := range cfg {
		m[k] = v
	}
	l.emit(m)
}
func (l *lineTrace) Event(ev string, fields rt.M) {
	m := rt.M{"ev": ev}
	for k, v := range fields {
		m[k] = v
	}
	l.emit(m)
}

// RunChild: t1 names the measurement and is backed up behind a closed gate at its
// sink (fork edge, stream->from and from->log edges full: the forking goroutine is
// blocked handing it the next point); t2 (all measurements) and t3 (same key as t1)
// keep receiving.  t1 is stopped/deleted; the gate opens a moment later so that t1
// can drain.  Every point must still reach t2 and t3.
func RunChild(r *rt.Run) error {
	if len(r.Args) < 1 {
		rt.Fatalf("c02child: scenario argument missing")
	}
	var sc Race
	if err := json.Unmarshal([]byte(r.Args[0]), &sc); err != nil {
		rt.Fatalf("c02child: %v", err)
	}
	f, err := os.OpenFile(filepath.Join(r.OutDir, "child.ndjson"), os.O_CREATE|os.O_WRONLY|os.O_TRUNC, 0o644)
	if err != nil {
		rt.Fatalf("c02child: %v", err)
	}
	lt := &lineTrace{f: f}
	w, err := NewWorld()
	if err != nil {
		rt.Fatalf("c02child: %v", err)
	}
	tasks := map[string]Shape{
		"t1": {Name: "slow", DBRPs: []kapacitor.DBRP{dA}, Froms: []From{{Meas: "m1"}}},
		"t2": {Name: "all", DBRPs: []kapacitor.DBRP{dA}, Froms: []From{{}}},
		"t3": {Name: "m1", DBRPs: []kapacitor.DBRP{dA, dC}, Froms: []From{{Meas: "m1"}}},
	}
	tr := w.Begin(lt, tasks, "race")
	for _, id := range tr.ids {
		tr.Do(Op{Kind: "start", T: id})
	}
	w.closeGate("t1/1")
	op := Op{Kind: "write", DB: "d1", RP: "rp1"}
	tags := []string{"a", "", "b"}
	for i := 0; i < sc.N; i++ {
		op.Pts = append(op.Pts, Pt{"m1", tags[i%len(tags)]})
	}
	tr.Do(op)
	// aim (never a verdict): t2 is handed a point only after t1 has taken it, so once t2 has seen three
	// edge buffers' worth and stops advancing, the forking goroutine is blocked on t1's full fork edge
	if !w.Env.Diag.WaitCount("t2/1", 3000, waitDeadline) {
		rt.Fatalf("c02child: t2 did not receive 3000 points within %v", waitDeadline)
	}
	for last, same := -1, 0; same < 5; {
		time.Sleep(20 * time.Millisecond)
		if n := w.Env.Diag.Count("t2/1"); n == last {
			same++
		} else {
			last, same = n, 0
		}
	}
	backedUp := w.Env.Diag.Count("t2/1") < sc.N
	tr.t.Event("LcCall", rt.M{"op": sc.Kind, "t": "t1"})
	ret := make(chan string, 1)
	go func() { ret <- tr.stop(sc.Kind, "t1") }()
	time.Sleep(200 * time.Millisecond) // let the call reach tm.mu before t1 can drain
	w.openGate("t1/1")
	tr.t.Event("LcRet", rt.M{"op": sc.Kind, "t": "t1", "ret": <-ret})
	tr.Obs("t1")
	tr.End()
	f.Close()
	out, _ := json.Marshal(rt.M{"backed_up": backedUp})
	os.WriteFile(filepath.Join(r.OutDir, "outcome.json"), out, 0o644)
	w.Close()
	return nil
}

var rePanic = regexp.MustCompile(`(?m)^(panic: .*|fatal error: .*)$`)

// runRaces runs the scenarios in child processes and re-emits their traces.
func runRaces(r *rt.Run, reps int) int {
	self, err := os.Executable()
	if err != nil {
		rt.Fatalf("c02: %v", err)
	}
	var scs []Race
	for i := 0; i < reps; i++ {
		scs = append(scs, Race{"stop", 3600}, Race{"delete", 3600})
	}
	type res struct {
		lines []string
		died  string
	}
	results := make([]res, len(scs))
	sem := make(chan struct{}, 2)
	var wg sync.WaitGroup
	for i := range scs {
		i := i
		wg.Add(1)
		go func() {
			defer wg.Done()
			sem <- struct{}{}
			defer func() { <-sem }()
			dir := filepath.Join(r.OutDir, fmt.Sprintf("child%03d", i))
			os.MkdirAll(dir, 0o755)
			arg, _ := json.Marshal(scs[i])
			ctx, cancel := context.WithTimeout(context.Background(), 300*time.Second)
			defer cancel()
			cmd := exec.CommandContext(ctx, self, "c02child", "-tier", r.Tier, "-seed", fmt.Sprint(r.Seed), "-out", dir, string(arg))
			outb, err := cmd.CombinedOutput()
			if ctx.Err() != nil {
				rt.Fatalf("c02: child %s did not finish in 300s:\n%s", arg, tailOf(string(outb)))
			}
			b, _ := os.ReadFile(filepath.Join(dir, "child.ndjson"))
			var x res
			for _, ln := range strings.Split(string(b), "\n") {
				if strings.HasPrefix(ln, "{") && strings.HasSuffix(ln, "}") {
					x.lines = append(x.lines, ln)
				}
			}
			if err != nil {
				if strings.Contains(string(outb), "HARNESS-ERROR") {
					rt.Fatalf("c02: child harness error for %s:\n%s", arg, tailOf(string(outb)))
				}
				// the process died: a panic/fatal error of the Go runtime (exit status 2), a signal, ...
				x.died = "exit: " + err.Error()
				if m := rePanic.FindString(string(outb)); m != "" {
					x.died = m
				}
			} else if _, serr := os.Stat(filepath.Join(dir, "outcome.json")); serr != nil {
				rt.Fatalf("c02: child %s exited 0 without an outcome:\n%s", arg, tailOf(string(outb)))
			}
			results[i] = x
			os.RemoveAll(dir)
		}()
	}
	wg.Wait()
	t := r.NewTrace("race")
	for i, x := range results {
		if len(x.lines) == 0 {
			rt.Fatalf("c02: child %d left no trace", i)
		}
		for _, ln := range x.lines {
			var m rt.M
			if err := json.Unmarshal([]byte(ln), &m); err != nil {
				rt.Fatalf("c02: bad child line %q: %v", ln, err)
			}
			ev, _ := m["ev"].(string)
			delete(m, "ev")
			if ev == "Reset" {
				t.Reset(m)
			} else {
				t.Event(ev, m)
			}
		}
		if x.died != "" {
			t.Event("Died", rt.M{"note": x.died})
		}
		t.Distinct(fmt.Sprintf("race/%s/%d", scs[i].Kind, i))
	}
	return len(scs)
}

func tailOf(s string) string {
	ls := strings.Split(strings.TrimSpace(s), "\n")
	if len(ls) > 30 {
		ls = ls[len(ls)-30:]
	}
	return strings.Join(ls, "\n")
}
