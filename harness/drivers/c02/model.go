// Package c02 drives the real TaskMaster stream routing (WritePoints ->
// forkPoint -> task edges -> from() nodes) through task sets and operation
// histories and records API returns and what arrives directly under every
// from() node (DESIGN.md C02, spec/Routing).
package c02

import (
	"fmt"
	"strings"
	"time"

	imodels "github.com/influxdata/influxdb/models"
	"github.com/influxdata/kapacitor"

	"kapverif/rt"
)

// From is one from() node: empty string = option not set.  Pred "v" is the tag
// value required by .where(lambda: "tag" == 'v'), Pred "?v" selects the points
// without the tag or with value v (.where(lambda: !isPresent("tag") OR "tag" == 'v')).
type From struct {
	Meas, DB, RP, Pred string
	GB                 bool // .groupBy('tag')
}

// Shape is a task definition of the catalogue.
type Shape struct {
	Name  string
	DBRPs []kapacitor.DBRP
	Froms []From
	// Dies: the first chain ends in an httpOut node whose route the HTTP service
	// refuses, so the node fails as soon as it runs; with the next few points the
	// failure travels up the pipeline until the source node aborts the task's fork
	// edge.  The task stays registered ("executing") until somebody stops it.
	Dies bool
}

// dying returns the shape as a task that dies at run time.
func (s Shape) dying() Shape {
	s.Dies = true
	s.Name += "+dies"
	return s
}

var (
	dA = kapacitor.DBRP{Database: "d1", RetentionPolicy: "rp1"}
	dB = kapacitor.DBRP{Database: "d2", RetentionPolicy: "rp2"}
	dC = kapacitor.DBRP{Database: "d1", RetentionPolicy: "rp2"}
	dD = kapacitor.DBRP{Database: "d2", RetentionPolicy: "rp1"}
)

const defaultRP = "rp1"

// dieEndpoint: routes ending in it are refused by the World's HTTP service.
const dieEndpoint = "c02die"

// The two dying neighbours of the targeted histories subscribe to every dbrp,
// once under the empty-measurement key and once under the measurement keys, so
// that every catalogue shape shares a fork key (the same inner map) with one of them.
var dyingShapes = []Shape{
	Shape{Name: "dieall", DBRPs: []kapacitor.DBRP{dA, dB, dC, dD}, Froms: []From{{}}}.dying(),
	Shape{Name: "diemeas", DBRPs: []kapacitor.DBRP{dA, dB, dC, dD}, Froms: []From{{Meas: "m1"}, {Meas: "m2"}}}.dying(),
}

// The catalogue: the shapes of spec/Routing/RoutingMC.tla plus variants over
// dbrps that differ in only one component.
var catalogue = []Shape{
	{Name: "all", DBRPs: []kapacitor.DBRP{dA}, Froms: []From{{}}},
	{Name: "m1", DBRPs: []kapacitor.DBRP{dA}, Froms: []From{{Meas: "m1"}}},
	{Name: "db", DBRPs: []kapacitor.DBRP{dA, dB}, Froms: []From{{DB: "d2"}}},
	{Name: "rp", DBRPs: []kapacitor.DBRP{dA, dC}, Froms: []From{{RP: "rp2"}}},
	{Name: "rpm", DBRPs: []kapacitor.DBRP{dA, dB}, Froms: []From{{Meas: "m2", RP: "rp1"}}},
	{Name: "pred", DBRPs: []kapacitor.DBRP{dA}, Froms: []From{{Pred: "a"}}},
	{Name: "two", DBRPs: []kapacitor.DBRP{dA}, Froms: []From{{Meas: "m1"}, {}}},
	{Name: "two2", DBRPs: []kapacitor.DBRP{dA, dB}, Froms: []From{{Meas: "m1", DB: "d1"}, {Meas: "m2", Pred: "b"}}},
	{Name: "other", DBRPs: []kapacitor.DBRP{dB}, Froms: []From{{}}},
	{Name: "three", DBRPs: []kapacitor.DBRP{dA, dC}, Froms: []From{{Meas: "m1", RP: "rp2"}, {}, {Meas: "m1"}}},
	{Name: "gb", DBRPs: []kapacitor.DBRP{dC}, Froms: []From{{GB: true}, {Meas: "m2", GB: true, Pred: "b"}}},
	{Name: "dbC", DBRPs: []kapacitor.DBRP{dC, dD}, Froms: []From{{Meas: "m1", DB: "d1"}, {DB: "d2"}}},
	{Name: "absent", DBRPs: []kapacitor.DBRP{dA, dD}, Froms: []From{{Pred: "?b"}, {Meas: "m1", Pred: "a"}, {Meas: "m2", DB: "d2", Pred: "?a"}}},
	{Name: "dbrp", DBRPs: []kapacitor.DBRP{dA, dC, dD}, Froms: []From{{DB: "d1", RP: "rp2"}, {Meas: "m2", DB: "d2", RP: "rp1", Pred: "a"}}},
}

// Script renders the TICKscript of a shape for task id: one
// stream|from()...|log().prefix('<id>/<k>') chain per from() node.
func (s Shape) Script(id string) string {
	var b strings.Builder
	for k, f := range s.Froms {
		b.WriteString("stream\n    |from()\n")
		if f.Meas != "" {
			fmt.Fprintf(&b, "        .measurement('%s')\n", f.Meas)
		}
		if f.DB != "" {
			fmt.Fprintf(&b, "        .database('%s')\n", f.DB)
		}
		if f.RP != "" {
			fmt.Fprintf(&b, "        .retentionPolicy('%s')\n", f.RP)
		}
		if strings.HasPrefix(f.Pred, "?") {
			// selects the points that lack the tag, or carry the given value
			fmt.Fprintf(&b, "        .where(lambda: !isPresent(\"tag\") OR \"tag\" == '%s')\n", f.Pred[1:])
		} else if f.Pred != "" {
			// a point that lacks the tag is not selected (the node reports an evaluation error for it)
			fmt.Fprintf(&b, "        .where(lambda: \"tag\" == '%s')\n", f.Pred)
		}
		if f.GB {
			b.WriteString("        .groupBy('tag')\n")
		}
		fmt.Fprintf(&b, "    |log()\n        .prefix('%s/%d')\n", id, k+1)
		if s.Dies && k == 0 {
			fmt.Fprintf(&b, "    |httpOut('%s')\n", dieEndpoint)
		}
	}
	return b.String()
}

// Enc is the shape as the specification sees it.
func (s Shape) Enc() rt.M {
	dbrps := make([]any, 0, len(s.DBRPs))
	for _, d := range s.DBRPs {
		dbrps = append(dbrps, rt.M{"db": d.Database, "rp": d.RetentionPolicy})
	}
	froms := make([]any, 0, len(s.Froms))
	for _, f := range s.Froms {
		froms = append(froms, rt.M{"meas": f.Meas, "db": f.DB, "rp": f.RP, "pred": f.Pred, "gb": f.GB})
	}
	return rt.M{"dbrps": dbrps, "froms": froms, "dies": s.Dies}
}

// Pt is one point of a write call (measurement and tag value).
type Pt struct{ Meas, Tag string }

// Op is one step of a history.
type Op struct {
	Kind string // start | stop | delete | write
	T    string // task id (lifecycle)
	DB   string // write
	RP   string // write: the rp ARGUMENT ("" = let the TaskMaster use its default)
	Pts  []Pt
	HTTP bool // write through the real httpd.Handler (/write, line protocol)
	// Enc (HTTP only): "" = plain body with Content-Length, "gzip" = gzip body with
	// Content-Length, "chunked" = plain body of unknown length, "gzip-chunked"
	Enc  string
	Sync bool // write: wait until everything written so far has been forked
	// ISync: like Sync, but by the ingress statistics instead of a fence point, so that no
	// point of another series gets between this write and the next one on the write stream
	ISync bool
}

func (o Op) key() string {
	switch o.Kind {
	case "write":
		s := fmt.Sprintf("W[%s.%s", o.DB, o.RP)
		for _, p := range o.Pts {
			s += "," + p.Meas + p.Tag
		}
		if o.HTTP {
			s += ";h" + o.Enc
		}
		if o.ISync {
			s += ";i"
		}
		if o.Sync {
			s += ";s"
		}
		return s + "]"
	default:
		return o.Kind + ":" + o.T
	}
}

// mustPoint builds an influx point (private copy: the shared helper moved).
func mustPoint(name string, tags map[string]string, fields map[string]any, t time.Time) imodels.Point {
	p, err := imodels.NewPoint(name, imodels.NewTags(tags), fields, t)
	if err != nil {
		panic(err)
	}
	return p
}
