package c02

import (
	"runtime"
	"sync/atomic"

	"kapverif/rt"
)

// runConcurrent: a writer goroutine issues write calls (and fences) while the
// driver goroutine issues lifecycle calls.  Calls are logged as Call/Ret pairs
// (under the trace mutex, Call before the API call starts, Ret after it
// returned), so the specification knows which writes overlapped which
// lifecycle calls; only those may be delivered 0 or 1 times.  All random
// choices are made up front from the seed; the interleaving itself is the
// scheduler's.
func runConcurrent(r *rt.Run, w *World, t *rt.Trace) {
	var fin chan struct{}
	defer func() {
		// a stuck lifecycle call (panic(hang)) must not leave the writer goroutine logging
		if fin != nil && w.dead.Load() {
			<-fin
		}
	}()
	ids := []string{"t1", "t2"}[:1+r.Rand.Intn(2)]
	tasks := map[string]Shape{}
	for _, id := range ids {
		tasks[id] = randomShape(r)
	}
	type wop struct {
		op    Op
		yield bool
	}
	nWrites := 10 + r.Rand.Intn(30)
	wops := make([]wop, nWrites)
	for i := range wops {
		o := randomWrite(r)
		o.Sync = r.Rand.Intn(4) == 0
		wops[i] = wop{o, r.Rand.Intn(2) == 0}
	}
	type lop struct {
		op    Op
		after int // issue once the writer has completed this many calls
	}
	nLc := 3 + r.Rand.Intn(6)
	lops := make([]lop, nLc)
	exec := map[string]bool{}
	at := 0
	for i := range lops {
		id := pick(r, ids)
		var o Op
		if !exec[id] {
			o = Op{Kind: "start", T: id}
			exec[id] = true
		} else {
			o = Op{Kind: pick(r, []string{"stop", "delete"}), T: id}
			exec[id] = false
		}
		at += r.Rand.Intn(2 * nWrites / nLc)
		if at > nWrites {
			at = nWrites
		}
		lops[i] = lop{o, at}
	}

	tr := w.Begin(t, tasks, "conc")
	var done atomic.Int64
	fin = make(chan struct{})
	go func() {
		defer close(fin)
		for _, wo := range wops {
			if w.dead.Load() {
				return
			}
			op := wo.op
			ps, lines, enc := tr.mkPoints(op.Pts)
			first := tr.nw + 1
			tr.nw += len(op.Pts)
			tr.t.Event("WrCall", rt.M{"db": op.DB, "rp": op.RP, "pts": enc, "first": first})
			via, ret := tr.writeCall(op, ps, lines)
			tr.t.Event("WrRet", rt.M{"first": first, "via": via, "ret": ret})
			if op.Sync {
				upto := tr.nw
				if !w.Sync() {
					return
				}
				tr.t.Event("SyncUpto", rt.M{"upto": upto})
			}
			done.Add(1)
			if wo.yield {
				runtime.Gosched()
			}
		}
	}()
	key := histKey(tasks, nil) + "conc:"
	for _, lo := range lops {
		for done.Load() < int64(lo.after) {
			runtime.Gosched()
		}
		tr.t.Event("LcCall", rt.M{"op": lo.op.Kind, "t": lo.op.T})
		var ret string
		if lo.op.Kind == "start" {
			ret = tr.start(lo.op.T)
		} else {
			ret = tr.stop(lo.op.Kind, lo.op.T)
		}
		tr.t.Event("LcRet", rt.M{"op": lo.op.Kind, "t": lo.op.T, "ret": ret})
		if lo.op.Kind != "start" {
			tr.Obs(lo.op.T)
		}
		key += lo.op.key() + ","
	}
	<-fin
	for _, wo := range wops {
		key += wo.op.key()
	}
	tr.End()
	t.Distinct(key)
}
