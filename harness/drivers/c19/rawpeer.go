package c19

import (
	"bufio"
	"io"
	"sync"

	"github.com/influxdata/kapacitor/udf/agent"
	"google.golang.org/protobuf/proto"
)

// rawPeer is a UDF peer written directly on agent.ReadMessage / agent.WriteMessage (one goroutine, so its frames
// never interleave): it echoes data and answers requests like the echo handler, and it can answer ONE request
// wrongly - something a Handler below the agent library cannot do, the library always sends the right kind.
//
//	wrong:<k>           the at-th request is answered with a response of kind k only (never with its own kind)
//	wrongThenRight:<k>  a response of kind k, then the right one
//	rightThenWrong:<k>  the right one, then a response of kind k
//	twice:same          the right one twice
type reqFault struct {
	Name  string `json:"name"`
	Other string `json:"other"`
	At    int    `json:"at"` // 1-based among the info/init/snapshot/restore requests
}

func (f *reqFault) kind() string { return f.Name + ":" + f.Other }

type rawPeer struct {
	in    io.Reader
	out   io.WriteCloser
	fault *reqFault
	pad   int

	mu       sync.Mutex
	cond     *sync.Cond
	seen     int
	reqs     int // requests answered (as far as this peer answers them)
	restored []byte
	saw      []proto.Message
	done     chan struct{}
}

func newRawPeer(in io.Reader, out io.WriteCloser, f *reqFault, pad int) *rawPeer {
	p := &rawPeer{in: in, out: out, fault: f, pad: pad, done: make(chan struct{})}
	p.cond = sync.NewCond(&p.mu)
	go p.run()
	return p
}

func wrongResponse(kind string) *agent.Response {
	switch kind {
	case "info":
		return &agent.Response{Message: &agent.Response_Info{Info: &agent.InfoResponse{}}}
	case "init":
		return &agent.Response{Message: &agent.Response_Init{Init: &agent.InitResponse{Success: true}}}
	case "snapshot":
		return &agent.Response{Message: &agent.Response_Snapshot{Snapshot: &agent.SnapshotResponse{Snapshot: []byte("stale")}}}
	case "restore":
		return &agent.Response{Message: &agent.Response_Restore{Restore: &agent.RestoreResponse{Success: true}}}
	case "keepalive":
		return &agent.Response{Message: &agent.Response_Keepalive{Keepalive: &agent.KeepaliveResponse{Time: 1}}}
	}
	panic("wrongResponse " + kind)
}

func (p *rawPeer) write(rs ...*agent.Response) bool {
	for _, r := range rs {
		if err := agent.WriteMessage(r, p.out); err != nil {
			return false
		}
	}
	return true
}

func (p *rawPeer) run() {
	defer close(p.done)
	defer p.out.Close()
	br := bufio.NewReader(p.in)
	var buf []byte
	for {
		req := new(agent.Request)
		if err := agent.ReadMessage(&buf, br, req); err != nil {
			return
		}
		var right *agent.Response
		switch m := req.Message.(type) {
		case *agent.Request_Point:
			p.data(m.Point)
			if !p.write(&agent.Response{Message: &agent.Response_Point{Point: m.Point}}) {
				return
			}
			continue
		case *agent.Request_Begin:
			p.data(m.Begin)
			if !p.write(&agent.Response{Message: &agent.Response_Begin{Begin: m.Begin}}) {
				return
			}
			continue
		case *agent.Request_End:
			p.data(m.End)
			if !p.write(&agent.Response{Message: &agent.Response_End{End: m.End}}) {
				return
			}
			continue
		case *agent.Request_Keepalive:
			if !p.write(&agent.Response{Message: &agent.Response_Keepalive{Keepalive: &agent.KeepaliveResponse{Time: m.Keepalive.Time}}}) {
				return
			}
			continue
		case *agent.Request_Info:
			right = &agent.Response{Message: &agent.Response_Info{Info: &agent.InfoResponse{Wants: agent.EdgeType_STREAM, Provides: agent.EdgeType_STREAM}}}
		case *agent.Request_Init:
			right = &agent.Response{Message: &agent.Response_Init{Init: &agent.InitResponse{Success: true}}}
		case *agent.Request_Snapshot:
			p.mu.Lock()
			b := snapshotBytes(p.seen, p.restored, p.pad)
			p.mu.Unlock()
			right = &agent.Response{Message: &agent.Response_Snapshot{Snapshot: &agent.SnapshotResponse{Snapshot: b}}}
		case *agent.Request_Restore:
			p.mu.Lock()
			p.restored = append([]byte{}, m.Restore.Snapshot...)
			p.mu.Unlock()
			right = &agent.Response{Message: &agent.Response_Restore{Restore: &agent.RestoreResponse{Success: true}}}
		default:
			continue // an empty request: nothing to do
		}
		p.mu.Lock()
		k := p.reqs + 1
		p.mu.Unlock()
		ok := true
		if f := p.fault; f != nil && f.At == k {
			switch f.Name {
			case "wrong":
				ok = p.write(wrongResponse(f.Other))
			case "wrongThenRight":
				ok = p.write(wrongResponse(f.Other), right)
			case "rightThenWrong":
				ok = p.write(right, wrongResponse(f.Other))
			case "twice":
				ok = p.write(right, right)
			default:
				panic("reqFault " + f.Name)
			}
		} else {
			ok = p.write(right)
		}
		p.mu.Lock()
		p.reqs = k
		p.cond.Broadcast()
		p.mu.Unlock()
		if !ok {
			return
		}
	}
}

func (p *rawPeer) data(m proto.Message) {
	p.mu.Lock()
	p.seen++
	p.saw = append(p.saw, proto.Clone(m))
	p.mu.Unlock()
}

// handled reports how many requests the peer has dealt with (its responses, right or wrong, are written).
func (p *rawPeer) handled() int {
	p.mu.Lock()
	defer p.mu.Unlock()
	return p.reqs
}

func (p *rawPeer) Saw() []proto.Message {
	p.mu.Lock()
	defer p.mu.Unlock()
	return append([]proto.Message(nil), p.saw...)
}
