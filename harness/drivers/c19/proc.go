package c19

import (
	"encoding/json"
	"fmt"
	"os"
	"path/filepath"
	"runtime"
	"strings"
	"sync"
	"time"

	"github.com/influxdata/kapacitor"
	"github.com/influxdata/kapacitor/command"
	"github.com/influxdata/kapacitor/edge"
	"github.com/influxdata/kapacitor/models"
	"github.com/influxdata/kapacitor/udf/agent"

	"kapverif/rt"
)

// The process flavour of the boundary with a REAL child process: kapacitor.UDFProcess driven through the real
// command.ExecCommander (os/exec: real OS pipes, exec.Cmd.Wait closing the parent's pipe ends once the process
// has exited), the child being this very binary re-executed as `kvh c19child`: the real udf/agent on
// stdin/stdout with the echo handler.
//
// Schedule (gates, no clocks): nobody reads Out() while the points are sent and the UDF is closed, so the
// server's reader blocks on its first output with at most a bufio buffer read; the child echoes everything into
// its stdout pipe (the backlog stays below the capacity of an OS pipe), sees EOF on stdin, finishes and exits
// WITH THE BACKLOG UNREAD.  Only then the consumer starts.  Everything the peer wrote before it closed must
// still be delivered (UDFProto: fromAgent.q is drained before the EOF is seen; StopDrains) and Close returns nil.

func init() {
	rt.Register("c19proc", RunProc)
	rt.Register("c19child", RunProcChild)
}

// RunProcChild is the UDF process.  Nothing but protocol frames may go to stdout.
func RunProcChild(r *rt.Run) error {
	a := agent.New(os.Stdin, os.Stdout)
	h := &echoHandler{a: a, wants: agent.EdgeType_STREAM, provides: agent.EdgeType_STREAM, pad: 64}
	a.Handler = h
	if err := a.Start(); err != nil {
		return err
	}
	werr := a.Wait()
	// what this peer saw on the wire, for the parent's AgentSaw line
	var saw []any
	for _, m := range h.Saw() {
		saw = append(saw, encWire(m))
	}
	b, err := json.Marshal(rt.M{"saw": saw, "pid": os.Getpid(), "err": errStr(werr)})
	if err != nil {
		return err
	}
	tmp := filepath.Join(r.OutDir, "done.tmp")
	if err := os.WriteFile(tmp, b, 0o644); err != nil {
		return err
	}
	// everything has been written to stdout; the process exits right after this
	return os.Rename(tmp, filepath.Join(r.OutDir, "done.json"))
}

// obsCommander is the real exec commander with an observer on Wait (a gate needs to know when it returned).
type obsCommander struct {
	mu   sync.Mutex
	cmds []*obsCmd
}

type obsCmd struct {
	command.Command
	waitReturned chan struct{}
	once         sync.Once
}

func (c *obsCommander) NewCommand(s command.Spec) command.Command {
	oc := &obsCmd{Command: command.ExecCommander.NewCommand(s), waitReturned: make(chan struct{})}
	c.mu.Lock()
	c.cmds = append(c.cmds, oc)
	c.mu.Unlock()
	return oc
}

func (c *obsCmd) Wait() error {
	err := c.Command.Wait()
	c.once.Do(func() { close(c.waitReturned) })
	return err
}

// reaperInWaitIO: the goroutine of UDFProcess.Open that reaps the process is parked in Server.WaitIO, i.e. the
// process has closed its stderr (it is gone) and the reaper waits for the reader/writer goroutines before it
// calls cmd.Wait.  A scheduling gate only.
func reaperInWaitIO() bool {
	buf := make([]byte, 1<<20)
	n := runtime.Stack(buf, true)
	for _, g := range strings.Split(string(buf[:n]), "\n\n") {
		if strings.Contains(g, "kapacitor.(*UDFProcess).Open.func") && strings.Contains(g, "udf.(*Server).WaitIO") {
			return true
		}
	}
	return false
}

type procScript struct {
	name  string
	items []edge.Message
	early int // outputs the consumer takes before it stops reading (0 = reads nothing until the child is gone)
}

func bigPoint(k, size int) edge.PointMessage {
	s := strings.Repeat(fmt.Sprintf("%04d-ünï ☃,=\" ", k), size/16+1)
	return mkPoint("cpu", groupClasses()[3], models.Fields{"n": int64(9007199254740993 + int64(k)), "v": float64(k) / 8, "b": k%2 == 0, "s": s}, tTyp.Add(time.Duration(k)))
}

func runProcSession(ps procScript, r *rt.Run) (*recorder, error) {
	rec := &recorder{}
	dir, err := os.MkdirTemp(r.OutDir, "child-")
	if err != nil {
		return nil, err
	}
	defer os.RemoveAll(dir)
	self, err := os.Executable()
	if err != nil {
		return nil, err
	}
	cmdr := &obsCommander{}
	diag := &recDiag{}
	aborted := make(chan struct{})
	var abortOnce sync.Once
	var pumpMu sync.RWMutex
	p := kapacitor.NewUDFProcess("task", "node", cmdr, command.Spec{Prog: self, Args: []string{"c19child", "-out", dir}}, diag, 0,
		func() {
			abortOnce.Do(func() { close(aborted) })
			pumpMu.Lock()
			pumpMu.Unlock()
		})
	if err := p.Open(); err != nil {
		return nil, fmt.Errorf("open: %w", err)
	}
	rec.ev("Call", rt.M{"kind": "init", "data": ""})
	err = p.Init(nil)
	rec.ev("Ret", rt.M{"kind": "init", "err": errStr(err)})

	// the consumer: takes `early` outputs, then waits for the gate
	gate := make(chan struct{})
	outClosed := make(chan struct{})
	var nOut int
	var outMu sync.Mutex
	go func() {
		defer close(outClosed)
		k := 0
		for {
			if k == ps.early {
				<-gate
			}
			m, ok := <-p.Out()
			if !ok {
				return
			}
			rec.ev("Out", rt.M{"item": encMsg(m)})
			k++
			outMu.Lock()
			nOut = k
			outMu.Unlock()
		}
	}()
	for _, m := range ps.items {
		rec.ev("Send", rt.M{"item": encMsg(m)})
		pumpMu.RLock()
		ok := false
		select {
		case <-aborted:
		default:
			select {
			case p.In() <- m:
				ok = true
			case <-aborted:
			case <-time.After(opDeadline):
				pumpMu.RUnlock()
				rec.ev("SendHang", nil)
				close(gate)
				return rec, nil
			}
		}
		pumpMu.RUnlock()
		rec.ev("Sent", rt.M{"ok": ok})
		if !ok {
			break
		}
	}
	// the early outputs have been taken before the UDF is closed (keeps the trace small and the schedule fixed)
	start := time.Now()
	for {
		outMu.Lock()
		k := nOut
		outMu.Unlock()
		if k >= ps.early {
			break
		}
		if time.Since(start) > opDeadline {
			rec.ev("OutMissing", rt.M{"have": k, "want": ps.early})
			close(gate)
			return rec, nil
		}
		time.Sleep(200 * time.Microsecond)
	}
	rec.ev("PumpDone", nil)
	rec.ev("StopCall", nil)
	closeRet := make(chan error, 1)
	go func() { closeRet <- p.Close() }()
	// gate 1: the child has written everything to its stdout and is exiting
	done := filepath.Join(dir, "done.json")
	start = time.Now()
	for {
		if _, err := os.Stat(done); err == nil {
			break
		}
		select {
		case err := <-closeRet:
			// Close returned although nobody has read the output: only possible after an abort
			rec.ev("StopRet", rt.M{"err": errStr(err)})
			close(gate)
			<-outClosed
			rec.ev("OutClosed", nil)
			return rec, nil
		default:
		}
		if time.Since(start) > opDeadline {
			return nil, fmt.Errorf("the UDF child process did not finish within %v", opDeadline)
		}
		time.Sleep(500 * time.Microsecond)
	}
	// gate 2: the process is gone and kapacitor has noticed - its reaper goroutine either waits for the server's
	// IO to finish (before it calls cmd.Wait), or cmd.Wait has already returned
	if len(cmdr.cmds) != 1 {
		return nil, fmt.Errorf("%d commands created", len(cmdr.cmds))
	}
	start = time.Now()
	how := ""
	for how == "" {
		select {
		case <-cmdr.cmds[0].waitReturned:
			how = "cmd.Wait has returned"
		default:
			if reaperInWaitIO() {
				how = "the reaper waits for the server IO"
			}
		}
		if how == "" {
			if time.Since(start) > opDeadline {
				return nil, fmt.Errorf("the exit of the UDF child was not noticed within %v", opDeadline)
			}
			time.Sleep(500 * time.Microsecond)
		}
	}
	rec.ev("Note", rt.M{"what": "child process gone with its responses unread; consumer released", "how": how})
	close(gate)
	select {
	case err := <-closeRet:
		rec.ev("StopRet", rt.M{"err": errStr(err)})
	case <-time.After(opDeadline):
		rec.ev("StopHang", nil)
		return rec, nil
	}
	select {
	case <-outClosed:
		rec.ev("OutClosed", nil)
	case <-time.After(opDeadline):
		rec.ev("OutNotClosed", nil)
		return rec, nil
	}
	b, err := os.ReadFile(done)
	if err != nil {
		return nil, err
	}
	var d struct {
		Saw []any  `json:"saw"`
		Err string `json:"err"`
	}
	if err := json.Unmarshal(b, &d); err != nil {
		return nil, err
	}
	if d.Saw == nil {
		d.Saw = []any{}
	}
	rec.ev("AgentSaw", rt.M{"msgs": fixInts(d.Saw), "agent_err": d.Err})
	dropped := false
	for _, e := range diag.Errors() {
		if strings.Contains(e, "dropping") {
			dropped = true
		}
	}
	rec.ev("Diag", rt.M{"dropped": dropped, "errors": strsAny(diag.Errors())})
	return rec, nil
}

// RunProc: sessions with a real child process.
func RunProc(r *rt.Run) error {
	t := r.NewTrace("proc")
	var pts []edge.Message
	for k := 0; k < 8; k++ {
		pts = append(pts, bigPoint(k, 3000)) // ~24 KB of responses: more than the reader buffers, less than a pipe holds
	}
	g := groupClasses()[3]
	mixed := []edge.Message{bigPoint(20, 2500),
		mkBatch("m", g.tags, true, tTyp, 3, bp(bigPoint(21, 2500).Fields(), g.tags, tTyp), bp(bigPoint(22, 2500).Fields(), nil, tNeg), bp(bigPoint(23, 2500).Fields(), g.tags, tMax)),
		bigPoint(24, 2500)}
	mixed = append(mixed, unbuffered(mkBatch("m", nil, false, tZero, 2, bp(bigPoint(25, 2500).Fields(), nil, tTyp), bp(bigPoint(26, 2500).Fields(), g.tags, tTyp)))...)
	mixed = append(mixed, bigPoint(27, 2500))
	scripts := []procScript{
		{name: "points-held", items: pts},
		{name: "points-2-then-held", items: pts, early: 2},
		{name: "mixed-held", items: mixed},
		{name: "small", items: []edge.Message{pointPayloads()[2], batchPayloads()[5], pointPayloads()[15]}},
	}
	if r.Thorough() {
		var more []edge.Message
		for k := 0; k < 14; k++ {
			more = append(more, bigPoint(40+k, 3500))
		}
		scripts = append(scripts, procScript{name: "points-48k-held", items: more, early: 6})
	}
	for _, ps := range scripts {
		rec, err := runProcSession(ps, r)
		if err != nil {
			return fmt.Errorf("process session %s: %w", ps.name, err)
		}
		t.Reset(rt.M{"mode": "proto", "name": ps.name, "flavour": "process"})
		for _, e := range rec.evs {
			name := e["ev"].(string)
			delete(e, "ev")
			t.Event(name, e)
		}
		t.Distinct(ps.name)
	}
	r.Extra["process_sessions"] = len(scripts)
	r.Finish("kapacitor.UDFProcess through the real command.ExecCommander with a real child process (this binary re-executed as `kvh c19child`: the real udf/agent on stdin/stdout with the echo handler): points and batches of ~3 KB each are sent while nobody reads Out(), the UDF is closed, the child echoes everything into its stdout pipe and exits with the backlog unread (gates: the child's done file; the reaper goroutine parked in Server.WaitIO or cmd.Wait returned), then the consumer is released: everything comes out unchanged, Close returns nil; distinct by script", true)
	return nil
}
