package c19

import (
	"encoding/binary"
	"fmt"
	"sync"

	"github.com/influxdata/kapacitor/udf/agent"
	"google.golang.org/protobuf/proto"
)

// echoHandler is a udf/agent Handler that sends every point / begin / end it receives straight back
// (a deep copy, so that nothing is shared with the request the agent decodes into next).  Its
// snapshot is a function of everything it has seen: the number of data messages received so far, the
// last restored blob and a padding that makes the frame long enough to be split (SnapshotRoundTrip,
// and the position of a snapshot request among the data = ResponsesMatchRequests).
type echoHandler struct {
	a *agent.Agent

	mu       sync.Mutex
	seen     int    // data messages (begin, point, end) received
	restored []byte // last restored snapshot
	pad      int    // snapshot padding length
	saw      []proto.Message
	snaps    int
	restores int
	nresp    int               // responses handed to the agent so far (each becomes one frame)
	onReq    func(kind string) // called (outside the lock) when a snapshot/restore request arrives
	wants    agent.EdgeType
	provides agent.EdgeType
	// fault, when set, replaces the echo of the At-th data message by misbehaviour (peer-fault alphabet)
	fault *faultSpec
	// raw writes bytes directly to the agent's output pipe (frames that are no valid Response)
	raw     func([]byte)
	closeFn func() // closes the agent's output pipe under its feet (early close)
	// noClone: send back the very message object the agent decoded, as udf/agent/examples/mirror does (the agent
	// decodes the next request into the same Request object: nothing of it may be shared with what is in flight)
	noClone bool
}

func snapshotBytes(seen int, restored []byte, pad int) []byte {
	rs := "nil"
	if restored != nil {
		rs = fmt.Sprintf("%x", restored)
	}
	b := []byte(fmt.Sprintf("seen=%d|restored=%s|", seen, rs))
	for i := 0; i < pad; i++ {
		// every byte value occurs, including ones that look like varint continuation bytes
		b = append(b, byte(i*37+seen))
	}
	return b
}

func (h *echoHandler) count() {
	h.mu.Lock()
	h.nresp++
	h.mu.Unlock()
}

// handed: number of responses handed to the agent so far.
func (h *echoHandler) handed() int {
	h.mu.Lock()
	defer h.mu.Unlock()
	return h.nresp
}

func (h *echoHandler) Info() (*agent.InfoResponse, error) {
	h.count()
	return &agent.InfoResponse{Wants: h.wants, Provides: h.provides, Options: map[string]*agent.OptionInfo{}}, nil
}

func (h *echoHandler) Init(*agent.InitRequest) (*agent.InitResponse, error) {
	h.count()
	return &agent.InitResponse{Success: true}, nil
}

func (h *echoHandler) Snapshot() (*agent.SnapshotResponse, error) {
	h.mu.Lock()
	h.snaps++
	h.nresp++
	b := snapshotBytes(h.seen, h.restored, h.pad)
	cb := h.onReq
	h.mu.Unlock()
	if cb != nil {
		cb("snapshot")
	}
	return &agent.SnapshotResponse{Snapshot: b}, nil
}

func (h *echoHandler) Restore(r *agent.RestoreRequest) (*agent.RestoreResponse, error) {
	h.mu.Lock()
	h.restores++
	h.nresp++
	h.restored = append([]byte{}, r.Snapshot...)
	cb := h.onReq
	h.mu.Unlock()
	if cb != nil {
		cb("restore")
	}
	return &agent.RestoreResponse{Success: true}, nil
}

func (h *echoHandler) data(m proto.Message, resp *agent.Response) error {
	h.mu.Lock()
	h.seen++
	k := h.seen
	h.saw = append(h.saw, m)
	f := h.fault
	h.mu.Unlock()
	if f != nil && f.At == k {
		return h.misbehave(f, resp)
	}
	h.send(resp)
	return nil
}

func (h *echoHandler) BeginBatch(b *agent.BeginBatch) error {
	c := proto.Clone(b).(*agent.BeginBatch)
	if h.noClone {
		return h.data(c, &agent.Response{Message: &agent.Response_Begin{Begin: b}})
	}
	return h.data(c, &agent.Response{Message: &agent.Response_Begin{Begin: c}})
}

func (h *echoHandler) Point(p *agent.Point) error {
	c := proto.Clone(p).(*agent.Point)
	if h.noClone {
		return h.data(c, &agent.Response{Message: &agent.Response_Point{Point: p}})
	}
	return h.data(c, &agent.Response{Message: &agent.Response_Point{Point: c}})
}

func (h *echoHandler) EndBatch(e *agent.EndBatch) error {
	c := proto.Clone(e).(*agent.EndBatch)
	if h.noClone {
		return h.data(c, &agent.Response{Message: &agent.Response_End{End: e}})
	}
	return h.data(c, &agent.Response{Message: &agent.Response_End{End: c}})
}

func (h *echoHandler) Stop() { close(h.a.Responses) }

func (h *echoHandler) seenCount() int {
	h.mu.Lock()
	defer h.mu.Unlock()
	return h.seen
}

func (h *echoHandler) Saw() []proto.Message {
	h.mu.Lock()
	defer h.mu.Unlock()
	return append([]proto.Message(nil), h.saw...)
}

// ---- misbehaving peer (the alphabet of UDFProto.tla's BadAgent) ----

type faultSpec struct {
	Kind string `json:"kind"`
	At   int    `json:"at"` // the At-th data message triggers it (1-based)
}

// faultKinds: what a peer can do wrong at the protocol level.  `fatalBefore` lists those that
// terminated the whole process before the repair (reproduced, see docs/notes/C19.md).
var faultKinds = []string{
	"endNoBegin",    // EndBatch response although no BeginBatch response preceded it
	"beginNeg",      // BeginBatch response with Size = -1
	"emptyFrame",    // a frame of length 0: decodes to a Response without any message
	"hugeLen",       // a frame header announcing 2^62 bytes
	"garbage",       // a frame whose payload is no protobuf message
	"unsolInfo",     // responses nobody asked for (twice each: the first fills the 1-slot buffer, the second is refused)
	"unsolInit",     //
	"unsolSnapshot", //
	"unsolRestore",  //
	"unsolKeepalive",
	"errorResp",  // ErrorResponse
	"earlyClose", // the peer closes its output at a frame boundary and stops reading
	"truncFrame", // the peer closes its output in the middle of a frame
	"pointGap",   // Begin, then End for another batch name/group and a point in between (legal but odd: must not crash)
}

// junkName: the name of the batches a misbehaving peer makes up (UDFProtoTrace knows it).
const junkName = "c19-junk"

func (h *echoHandler) send(r *agent.Response) {
	h.count()
	h.a.Responses <- r
}

func frame(payload []byte) []byte {
	hdr := make([]byte, binary.MaxVarintLen64)
	n := binary.PutUvarint(hdr, uint64(len(payload)))
	return append(hdr[:n], payload...)
}

func (h *echoHandler) misbehave(f *faultSpec, echo *agent.Response) error {
	switch f.Kind {
	case "endNoBegin":
		h.send(&agent.Response{Message: &agent.Response_End{End: &agent.EndBatch{Name: junkName, Tmax: 1}}})
	case "beginNeg":
		h.send(&agent.Response{Message: &agent.Response_Begin{Begin: &agent.BeginBatch{Name: junkName, Size: -1}}})
		h.send(&agent.Response{Message: &agent.Response_End{End: &agent.EndBatch{Name: junkName, Tmax: 1}}})
	case "emptyFrame":
		h.raw([]byte{0})
	case "hugeLen":
		hdr := make([]byte, binary.MaxVarintLen64)
		n := binary.PutUvarint(hdr, uint64(1)<<62)
		h.raw(hdr[:n])
	case "garbage":
		h.raw(frame([]byte{0xff, 0xff, 0xff, 0xff, 0x0f, 0x01}))
	case "unsolInfo":
		for i := 0; i < 2; i++ {
			h.send(&agent.Response{Message: &agent.Response_Info{Info: &agent.InfoResponse{}}})
		}
	case "unsolInit":
		for i := 0; i < 2; i++ {
			h.send(&agent.Response{Message: &agent.Response_Init{Init: &agent.InitResponse{Success: true}}})
		}
	case "unsolSnapshot":
		for i := 0; i < 2; i++ {
			h.send(&agent.Response{Message: &agent.Response_Snapshot{Snapshot: &agent.SnapshotResponse{Snapshot: []byte("stale")}}})
		}
	case "unsolRestore":
		for i := 0; i < 2; i++ {
			h.send(&agent.Response{Message: &agent.Response_Restore{Restore: &agent.RestoreResponse{Success: true}}})
		}
	case "unsolKeepalive":
		for i := 0; i < 2; i++ {
			h.send(&agent.Response{Message: &agent.Response_Keepalive{Keepalive: &agent.KeepaliveResponse{Time: 1}}})
		}
	case "errorResp":
		h.send(&agent.Response{Message: &agent.Response_Error{Error: &agent.ErrorResponse{Error: "boom"}}})
	case "earlyClose":
		h.closeFn()
		return nil
	case "truncFrame":
		b, _ := proto.Marshal(echo)
		fr := frame(b)
		h.raw(fr[:len(fr)-1])
		h.closeFn()
		return nil
	case "pointGap":
		h.send(&agent.Response{Message: &agent.Response_Begin{Begin: &agent.BeginBatch{Name: "other", Size: 1}}})
		h.send(&agent.Response{Message: &agent.Response_End{End: &agent.EndBatch{Name: junkName, Group: "zz", Tmax: 1}}})
	default:
		panic("unknown fault " + f.Kind)
	}
	// the unsolicited ones keep echoing: the peer is odd, not dead
	switch f.Kind {
	case "unsolInfo", "unsolInit", "unsolSnapshot", "unsolRestore", "unsolKeepalive", "pointGap", "beginNeg":
		h.send(echo)
	}
	return nil
}
