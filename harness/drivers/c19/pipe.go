// Package c19: UDF boundary fidelity and framing (DESIGN.md C19, spec/UDFProto).
//
// The real udf.Server (and, in the task runs, the real UDFNode/UDFSocket around it) sits on one side
// of two in-memory byte pipes, an agent built on the real udf/agent package on the other side.  The
// pipes are ours: they hand the bytes to the reader in fragments chosen by a schedule, can be held
// (gate) so that the driver decides when the peer's bytes arrive, and keep a copy of everything that
// crossed them.
package c19

import (
	"io"
	"sync"
)

// fragPipe is an in-memory byte pipe with an unbounded buffer (writes never block: an OS pipe to a
// UDF process has a 64 KB buffer, the scenarios stay far below that; see docs/notes/C07.md for what an
// unbuffered pipe does to udf.Server.abort).  Read returns at most next() bytes: the fragmentation
// schedule.  While held, Read blocks although bytes are available (B3 gate).
type fragPipe struct {
	mu     sync.Mutex
	cond   *sync.Cond
	buf    []byte
	closed bool
	held   bool
	next   func() int // size of the next fragment (>= 1); nil = everything that is available
	log    []byte     // every byte ever written
	reads  int        // number of Read calls that returned data
	// quota > 0: release exactly that many more bytes, then hold again (byte-exact gating)
	quota int
	// heldW: Write blocks (the peer does not read and the pipe is full); broken: the peer is gone
	heldW  bool
	broken bool
	inW    int // writers blocked in Write
}

func newFragPipe(next func() int) *fragPipe {
	p := &fragPipe{next: next}
	p.cond = sync.NewCond(&p.mu)
	return p
}

func (p *fragPipe) Write(b []byte) (int, error) {
	p.mu.Lock()
	defer p.mu.Unlock()
	p.inW++
	p.cond.Broadcast()
	for p.heldW && !p.broken && !p.closed {
		p.cond.Wait()
	}
	p.inW--
	if p.closed || p.broken {
		return 0, io.ErrClosedPipe
	}
	p.buf = append(p.buf, b...)
	p.log = append(p.log, b...)
	p.cond.Broadcast()
	return len(b), nil
}

func (p *fragPipe) Read(b []byte) (int, error) {
	p.mu.Lock()
	defer p.mu.Unlock()
	for {
		if len(p.buf) > 0 && (!p.held || p.quota > 0) {
			break
		}
		if len(p.buf) == 0 && p.closed {
			return 0, io.EOF
		}
		p.cond.Wait()
	}
	n := len(p.buf)
	if p.next != nil {
		if k := p.next(); k >= 1 && k < n {
			n = k
		}
	}
	if p.held && p.quota < n {
		n = p.quota
	}
	if n > len(b) {
		n = len(b)
	}
	copy(b, p.buf[:n])
	p.buf = p.buf[n:]
	if p.held {
		p.quota -= n
	}
	p.reads++
	p.cond.Broadcast()
	return n, nil
}

// Close marks the end of the stream: the reader gets what is buffered, then io.EOF.
func (p *fragPipe) Close() error {
	p.mu.Lock()
	p.closed = true
	p.cond.Broadcast()
	p.mu.Unlock()
	return nil
}

// HoldW makes Write block until ReleaseW or Break.
func (p *fragPipe) HoldW() {
	p.mu.Lock()
	p.heldW = true
	p.mu.Unlock()
}

func (p *fragPipe) ReleaseW() {
	p.mu.Lock()
	p.heldW = false
	p.cond.Broadcast()
	p.mu.Unlock()
}

// Break: the peer died. Blocked and future writes fail, the reader gets what is buffered and then EOF.
func (p *fragPipe) Break() {
	p.mu.Lock()
	p.broken = true
	p.closed = true
	p.cond.Broadcast()
	p.mu.Unlock()
}

// WaitWriter waits until a writer is blocked inside Write.
func (p *fragPipe) WaitWriter() {
	p.mu.Lock()
	for p.inW == 0 {
		p.cond.Wait()
	}
	p.mu.Unlock()
}

func (p *fragPipe) Hold() {
	p.mu.Lock()
	p.held = true
	p.quota = 0
	p.mu.Unlock()
}

func (p *fragPipe) Release() {
	p.mu.Lock()
	p.held = false
	p.quota = 0
	p.cond.Broadcast()
	p.mu.Unlock()
}

// Written returns a copy of every byte written so far.
func (p *fragPipe) Written() []byte {
	p.mu.Lock()
	defer p.mu.Unlock()
	return append([]byte(nil), p.log...)
}

// Consumed returns everything written so far and how much of it the reader has taken.
func (p *fragPipe) Consumed() ([]byte, int) {
	p.mu.Lock()
	defer p.mu.Unlock()
	return append([]byte(nil), p.log...), len(p.log) - len(p.buf)
}

func (p *fragPipe) Reads() int {
	p.mu.Lock()
	defer p.mu.Unlock()
	return p.reads
}

// sliceReader serves a fixed byte string in the given fragment sizes (the last fragment is whatever
// remains); after the bytes it returns io.EOF.  It is the B1 "every split" reader.
type sliceReader struct {
	data []byte
	cuts []int // fragment sizes
	ci   int
	// unbuffered: implement ReadByte directly (agent.ByteReadReader without bufio)
}

func (r *sliceReader) avail() int {
	if len(r.data) == 0 {
		return 0
	}
	if r.ci < len(r.cuts) {
		return r.cuts[r.ci]
	}
	return len(r.data)
}

func (r *sliceReader) Read(b []byte) (int, error) {
	if len(r.data) == 0 {
		return 0, io.EOF
	}
	if len(b) == 0 {
		return 0, nil
	}
	n := r.avail()
	if n > len(r.data) {
		n = len(r.data)
	}
	if n > len(b) {
		// the caller's buffer is smaller than the fragment: the rest of the fragment stays
		n = len(b)
		if r.ci < len(r.cuts) {
			r.cuts[r.ci] -= n
		}
	} else if r.ci < len(r.cuts) {
		r.ci++
	}
	copy(b, r.data[:n])
	r.data = r.data[n:]
	return n, nil
}

func (r *sliceReader) ReadByte() (byte, error) {
	var b [1]byte
	n, err := r.Read(b[:])
	if n == 1 {
		return b[0], nil
	}
	return 0, err
}
