package c19

import (
	"context"
	"encoding/json"
	"fmt"
	"os"
	"os/exec"
	"path/filepath"
	"strings"
	"sync"
	"time"

	imodels "github.com/influxdata/influxdb/models"
	"github.com/influxdata/kapacitor"
	"github.com/influxdata/kapacitor/edge"
	"github.com/influxdata/kapacitor/models"
	"github.com/influxdata/kapacitor/udf/agent"

	"kapverif/rt"
)

// Peer faults and data faults (ties into C05: a peer message / a data point may cause an error for that
// peer / point at most).  Every scenario runs in a CHILD PROCESS because the outcome may be process
// fatal: before fix: 3025274 / 8d97ccf a malformed response or an unsupported field type panicked in
// the server's reader / writer goroutine, where no node-level recover can help.  The child appends its
// events to a file as it goes; if it dies the parent adds a ProcessDied line that no action of the
// specification explains.

func init() {
	rt.Register("c19fault", RunFault)
	rt.Register("c19faultchild", RunFaultChild)
}

type faultScenario struct {
	Level string `json:"level"` // server | task
	Kind  string `json:"kind"`  // a fault kind of agent.go, or: utf8 | utf8tag | duration | nil | dl-snap | dl-tick | dl-snapwait | none
	At    int    `json:"at"`    // the peer misbehaves at its At-th data message
	Feed  string `json:"feed"`  // points | batch
	// Req: the peer (a rawPeer) answers its At-th request wrongly; After: what ends an unanswered request: stop | die
	Req   *reqFault `json:"req,omitempty"`
	After string    `json:"after,omitempty"`
}

// eventFile appends one JSON line per event, unbuffered: what was written survives the death of the process.
type eventFile struct {
	mu sync.Mutex
	f  *os.File
}

func (e *eventFile) ev(name string, f rt.M) {
	m := rt.M{"ev": name}
	for k, v := range f {
		m[k] = v
	}
	b, err := json.Marshal(m)
	if err != nil {
		rt.Fatalf("c19faultchild: marshal: %v", err)
	}
	e.mu.Lock()
	e.f.Write(append(b, '\n'))
	e.mu.Unlock()
}

const faultDeadline = 60 * time.Second

func faultFeed(sc faultScenario) []edge.Message {
	g := groupClasses()[3]
	p := func(k int) edge.PointMessage {
		f := models.Fields{"k": int64(k)}
		if k == 2 {
			switch sc.Kind {
			case "utf8":
				f["s"] = "a\xffb"
			case "duration":
				f["d"] = time.Second
			case "nil":
				f["n"] = nil
			}
		}
		gg := g
		if k == 2 && sc.Kind == "utf8tag" {
			gg.tags = models.Tags{"host": "a\xffb", "dc": "x"}
		}
		return mkPoint("m", gg, f, tTyp.Add(time.Duration(k)*time.Second))
	}
	if sc.Feed == "batch" {
		b := mkBatch("m", g.tags, false, tTyp, 2, bp(models.Fields{"k": int64(10)}, g.tags, tTyp), bp(models.Fields{"k": int64(11)}, g.tags, tTyp))
		out := []edge.Message{p(1)}
		out = append(out, unbuffered(b)...)
		return append(out, p(3))
	}
	return []edge.Message{p(1), p(2), p(3)}
}

func hasBadField(p edge.PointMessage) bool {
	for _, v := range p.Fields() {
		switch v.(type) {
		case int64, float64, bool:
		case string:
			if t, _ := encVal(v); t != "string" {
				return true
			}
		default:
			return true
		}
	}
	return false
}

func isPeerFault(kind string) bool {
	for _, k := range faultKinds {
		if k == kind {
			return true
		}
	}
	return false
}

// RunFaultChild executes one scenario; r.Args[0] is the scenario JSON; events go to <out>/events.ndjson.
func RunFaultChild(r *rt.Run) error {
	defer func() {
		if x := recover(); x != nil {
			rt.Fatalf("c19faultchild: harness panic: %v", x) // a panic on the harness's own goroutine is never a verdict
		}
	}()
	var sc faultScenario
	if err := json.Unmarshal([]byte(r.Args[0]), &sc); err != nil {
		return err
	}
	f, err := os.OpenFile(filepath.Join(r.OutDir, "events.ndjson"), os.O_CREATE|os.O_WRONLY|os.O_APPEND, 0o644)
	if err != nil {
		return err
	}
	ef := &eventFile{f: f}
	if sc.Level == "task" {
		err = faultTask(sc, ef)
	} else if sc.Req != nil {
		err = faultReqServer(sc, ef)
	} else if strings.HasPrefix(sc.Kind, "dl-") {
		err = faultDeadlock(sc, ef)
	} else {
		err = faultServer(sc, ef)
	}
	if err != nil {
		return err
	}
	return os.WriteFile(filepath.Join(r.OutDir, "finished"), []byte("ok"), 0o644)
}

func stopAndObserve(s *session, ef *eventFile, withOutClosed bool) bool {
	ef.ev("PumpDone", nil)
	ef.ev("StopCall", nil)
	done := make(chan error, 1)
	go func() { done <- s.srv.Stop() }()
	select {
	case err := <-done:
		ef.ev("StopRet", rt.M{"err": errStr(err)})
	case <-time.After(faultDeadline):
		ef.ev("StopHang", rt.M{"after": faultDeadline.String()})
		return false
	}
	if withOutClosed {
		select {
		case <-s.outClosed:
			ef.ev("OutClosed", nil)
		case <-time.After(faultDeadline):
			ef.ev("OutNotClosed", nil)
			return false
		}
	}
	return true
}

func diagEvent(ef *eventFile, errs []string) {
	dropped := false
	for _, e := range errs {
		if strings.Contains(e, "dropping") {
			dropped = true
		}
	}
	ef.ev("Diag", rt.M{"dropped": dropped, "errors": strsAny(errs)})
}

// faultServer: the real udf.Server against a peer that misbehaves at its At-th data message (or a feed with
// a point the protocol cannot carry).
func faultServer(sc faultScenario, ef *eventFile) error {
	var flt *faultSpec
	if isPeerFault(sc.Kind) {
		flt = &faultSpec{Kind: sc.Kind, At: sc.At}
		ef.ev("Fault", rt.M{"kind": sc.Kind, "at": sc.At})
	}
	s := newSession(sessOpts{Wants: agent.EdgeType_STREAM, Provides: agent.EdgeType_STREAM, Fault: flt,
		OnOut: func(m edge.Message) { ef.ev("Out", rt.M{"item": encMsg(m)}) }})
	if sc.Kind == "earlyClose" {
		// the peer dies: both directions are gone
		closeOut := s.h.closeFn
		s.h.closeFn = func() { closeOut(); s.toAgent.Break() }
	}
	ef.ev("Call", rt.M{"kind": "init", "data": ""})
	err := s.srv.Init(nil)
	ef.ev("Ret", rt.M{"kind": "init", "err": errStr(err)})
	sent := 0
	for _, m := range faultFeed(sc) {
		ef.ev("Send", rt.M{"item": encMsg(m)})
		ok, err := s.send(m, faultDeadline)
		if err != nil {
			ef.ev("SendHang", nil)
			return nil
		}
		ef.ev("Sent", rt.M{"ok": ok})
		if !ok {
			break
		}
		// one message at a time towards the peer (the scenarios are about the fault, not about what is in flight:
		// fewer interleavings for TLC); given up as soon as the server has aborted or the peer is gone
		if _, bad := m.(edge.PointMessage); !bad || !hasBadField(m.(edge.PointMessage)) {
			sent++
		}
		start := time.Now()
		for s.h.seenCount() < sent && !isAborted(s) && time.Since(start) < faultDeadline {
			time.Sleep(100 * time.Microsecond)
		}
	}
	if strings.HasPrefix(sc.Kind, "unsol") {
		// a response nobody asked for is parked in the buffer of its kind; a later call of ANOTHER kind must not see
		// it (and one of the same kind is handed it: stale)
		if !callSnapshot(ef, s.srv.Snapshot, 0) {
			return nil
		}
	}
	if !stopAndObserve(s, ef, true) {
		return nil
	}
	diagEvent(ef, s.diag.Errors())
	return nil
}

// callSnapshot logs Call, runs the snapshot call in a goroutine of its own (a panic there is the death of the
// process, as in the task snapshotter goroutine) and logs Ret; false if it did not return.
func callSnapshot(ef *eventFile, f func() ([]byte, error), pad int) bool {
	ef.ev("Call", rt.M{"kind": "snapshot", "data": ""})
	done := make(chan struct{})
	go func() {
		defer close(done)
		b, err := f()
		ef.ev("Ret", snapshotRet(b, err, pad))
	}()
	select {
	case <-done:
		return true
	case <-time.After(faultDeadline):
		ef.ev("CallHang", rt.M{"kind": "snapshot"})
		return false
	}
}

func snapshotRet(b []byte, err error, pad int) rt.M {
	m := rt.M{"kind": "snapshot", "err": errStr(err)}
	if err != nil {
		return m
	}
	if string(b) == "stale" {
		m["stale"] = true
		return m
	}
	seen, restored, padok := parseSnapshot(b, pad)
	m["seen"], m["restored"], m["padok"] = seen, restored, padok
	return m
}

// faultReqServer: the real udf.Server against a peer that answers its At-th request (1 init, 2 snapshot,
// 3 restore, 4 info) with the wrong kind of response / twice; a point travels between the requests.
func faultReqServer(sc faultScenario, ef *eventFile) error {
	ef.ev("Fault", rt.M{"kind": sc.Req.kind(), "at": sc.Req.At, "on": "req"})
	var outMu sync.Mutex
	nOut := 0
	s := newSession(sessOpts{Raw: true, ReqFault: sc.Req, Pad: 32,
		OnOut: func(m edge.Message) {
			ef.ev("Out", rt.M{"item": encMsg(m)})
			outMu.Lock()
			nOut++
			outMu.Unlock()
		}})
	type call struct {
		kind string
		data []byte
		run  func() rt.M
	}
	simple := func(kind string, f func() error) func() rt.M {
		return func() rt.M { return rt.M{"kind": kind, "err": errStr(f())} }
	}
	calls := []call{
		{"init", nil, simple("init", func() error { return s.srv.Init(nil) })},
		{"snapshot", nil, func() rt.M { b, err := s.srv.Snapshot(); return snapshotRet(b, err, 32) }},
		{"restore", []byte("state"), simple("restore", func() error { return s.srv.Restore([]byte("state")) })},
		{"info", nil, simple("info", func() error { _, err := s.srv.Info(); return err })},
	}
	var pending chan struct{}
	await := func() bool {
		if pending == nil {
			return true
		}
		select {
		case <-pending:
			pending = nil
			return true
		case <-time.After(faultDeadline):
			ef.ev("CallHang", nil)
			return false
		}
	}
	unanswered := false
	feed := faultFeed(faultScenario{Feed: "points"})
	for k, c := range calls {
		if k > 0 {
			m := feed[(k-1)%len(feed)]
			ef.ev("Send", rt.M{"item": encMsg(m)})
			ok, err := s.send(m, faultDeadline)
			if err != nil {
				ef.ev("SendHang", nil)
				return nil
			}
			ef.ev("Sent", rt.M{"ok": ok})
			start := time.Now()
			for ok {
				outMu.Lock()
				n := nOut
				outMu.Unlock()
				if n >= k {
					break
				}
				if time.Since(start) > faultDeadline {
					ef.ev("OutMissing", rt.M{"want": k})
					return nil
				}
				time.Sleep(200 * time.Microsecond)
			}
		}
		ef.ev("Call", rt.M{"kind": c.kind, "data": fmt.Sprintf("%x", c.data)})
		pending = make(chan struct{})
		go func(done chan struct{}, c call) {
			defer close(done)
			ef.ev("Ret", c.run()) // no recover: a panic here is the death of the process
		}(pending, c)
		// gate: the peer has dealt with this request (its response(s), right or wrong, are on the wire)
		start := time.Now()
		for s.raw.handled() < k+1 {
			if time.Since(start) > faultDeadline {
				return fmt.Errorf("the peer did not get request %d", k+1)
			}
			time.Sleep(200 * time.Microsecond)
		}
		if sc.Req.At == k+1 && sc.Req.Name == "wrong" {
			unanswered = true // the peer will never answer this one with its own kind
			break
		}
		if !await() {
			return nil
		}
	}
	if !unanswered {
		// one more call after everything: finds what a wrong / duplicate response left behind
		if !callSnapshot(ef, s.srv.Snapshot, 32) {
			return nil
		}
	} else if sc.After == "die" {
		ef.ev("PeerDies", nil)
		s.toAgent.Break()
		s.fromAgent.Close()
		if !await() {
			return nil
		}
	}
	if !stopAndObserve(s, ef, false) {
		return nil
	}
	if !await() {
		return nil
	}
	select {
	case <-s.outClosed:
		ef.ev("OutClosed", nil)
	case <-time.After(faultDeadline):
		ef.ev("OutNotClosed", nil)
		return nil
	}
	diagEvent(ef, s.diag.Errors())
	return nil
}

// faultDeadlock: Stop racing with the death of the peer while a request is pending (fix: f7f1188).
//
//	dl-snap      a Snapshot call waits to hand its request to the writer, which is blocked in Write
//	dl-tick      a keepalive tick waits likewise
//	dl-snapwait  a Snapshot request is on the wire, the peer dies without answering
func faultDeadlock(sc faultScenario, ef *eventFile) error {
	var timeout time.Duration
	if sc.Kind == "dl-tick" {
		timeout = 300 * time.Millisecond
	}
	s := newSession(sessOpts{Wants: agent.EdgeType_STREAM, Provides: agent.EdgeType_STREAM, Timeout: timeout,
		OnOut: func(m edge.Message) { ef.ev("Out", rt.M{"item": encMsg(m)}) }})
	ef.ev("Call", rt.M{"kind": "init", "data": ""})
	err := s.srv.Init(nil)
	ef.ev("Ret", rt.M{"kind": "init", "err": errStr(err)})
	snapDone := make(chan struct{})
	startSnap := func() {
		ef.ev("Call", rt.M{"kind": "snapshot", "data": ""})
		go func() {
			defer close(snapDone)
			b, err := s.srv.Snapshot()
			m := rt.M{"kind": "snapshot", "err": errStr(err)}
			if err == nil {
				seen, restored, padok := parseSnapshot(b, 0)
				m["seen"], m["restored"], m["padok"] = seen, restored, padok
			}
			ef.ev("Ret", m)
		}()
	}
	if sc.Kind == "dl-snapwait" {
		block := make(chan struct{})
		got := make(chan struct{}, 1)
		s.h.onReq = func(string) { got <- struct{}{}; <-block }
		startSnap()
		select {
		case <-got:
		case <-time.After(faultDeadline):
			return fmt.Errorf("snapshot request never reached the peer")
		}
	} else {
		s.toAgent.HoldW()
		m := faultFeed(sc)[0]
		ef.ev("Send", rt.M{"item": encMsg(m)})
		ok, err := s.send(m, faultDeadline)
		if err != nil {
			return err
		}
		ef.ev("Sent", rt.M{"ok": ok})
		s.toAgent.WaitWriter()
		if sc.Kind == "dl-snap" {
			startSnap()
			time.Sleep(100 * time.Millisecond) // let the call reach its select (a miss only makes the scenario easier)
		} else {
			time.Sleep(timeout/2 + 50*time.Millisecond) // one tick, before the watchdog (timeout) fires
		}
	}
	ef.ev("PumpDone", nil)
	ef.ev("StopCall", nil)
	done := make(chan error, 1)
	go func() { done <- s.srv.Stop() }()
	time.Sleep(50 * time.Millisecond) // let Stop take the lock (again: a miss only makes the scenario easier)
	ef.ev("PeerDies", nil)
	s.toAgent.Break()
	s.fromAgent.Close()
	select {
	case err := <-done:
		ef.ev("StopRet", rt.M{"err": errStr(err)})
	case <-time.After(faultDeadline):
		ef.ev("StopHang", rt.M{"after": faultDeadline.String()})
		return nil
	}
	if sc.Kind != "dl-tick" {
		select {
		case <-snapDone:
		case <-time.After(faultDeadline):
			ef.ev("CallHang", nil)
			return nil
		}
	}
	select {
	case <-s.outClosed:
		ef.ev("OutClosed", nil)
	case <-time.After(faultDeadline):
		ef.ev("OutNotClosed", nil)
	}
	return nil
}

// faultTask: the same faults below a real UDFNode in a task, next to a bystander task (C05: the process and
// all other tasks are unaffected).
func faultTask(sc faultScenario, ef *eventFile) error {
	diag := rt.NewDiag()
	diag.OnItem = func(it rt.SinkItem) {
		var item rt.M
		if it.Point != nil {
			item = encPoint(it.Point)
		} else {
			item = encBatch(it.Batch)
		}
		switch it.Sink {
		case "pre":
			ef.ev("Queue", rt.M{"item": item})
		case "post":
			ef.ev("Out", rt.M{"item": item})
		}
	}
	env, err := rt.NewEnv(rt.EnvOpts{Diag: diag})
	if err != nil {
		return err
	}
	svc := newUDFService(nil)
	if isPeerFault(sc.Kind) {
		svc.fault = &faultSpec{Kind: sc.Kind, At: sc.At}
		ef.ev("Fault", rt.M{"kind": sc.Kind, "at": sc.At})
	}
	if sc.Kind == "snap-before-open" {
		svc.openGate = make(chan struct{})
	}
	if sc.Req != nil {
		svc.reqFault = sc.Req
		svc.pad = 32
		ef.ev("Fault", rt.M{"kind": sc.Req.kind(), "at": sc.Req.At, "on": "req"})
	}
	env.TM.UDFService = svc
	victim := "stream|from().measurement('m')|log().prefix('pre')@echo()|log().prefix('post')"
	switch sc.Kind {
	case "duration":
		victim = "stream|from().measurement('m')|eval(lambda: 1s).as('d').keep()|log().prefix('pre')@echo()|log().prefix('post')"
	case "nil":
		victim = "var a = stream|from().measurement('m')\nvar b = stream|from().measurement('n')\n" +
			"a|join(b).as('a','b').tolerance(1s).fill('null')|log().prefix('pre')@echo()|log().prefix('post')"
	}
	if sc.Req != nil {
		// the UDF node's own first request: invoked by StartTask, seen to have returned once data comes out
		ef.ev("Call", rt.M{"kind": "init", "data": ""})
	}
	et, err := env.StartTask("v", victim, kapacitor.StreamTask, rt.DefaultDBRP)
	if err != nil {
		return fmt.Errorf("start victim: %w", err)
	}
	if sc.Kind == "snap-before-open" {
		// the task snapshotter fires while the UDF node is still connecting.  In its own goroutine, as in the
		// daemon: a panic there is the death of the process, not something the caller could catch
		ef.ev("Call", rt.M{"kind": "snapshot", "data": ""})
		res := make(chan error, 1)
		go func() { _, err := et.Snapshot(); res <- err }()
		select {
		case err := <-res:
			ef.ev("Ret", rt.M{"kind": "snapshot", "err": errStr(err), "seen": 0, "restored": "nil", "padok": true})
		case <-time.After(faultDeadline):
			ef.ev("CallHang", nil)
			return nil
		}
		close(svc.openGate)
	}
	if _, err := env.StartTask("b", "stream|from().measurement('m')|log().prefix('by')", kapacitor.StreamTask, rt.DefaultDBRP); err != nil {
		return fmt.Errorf("start bystander: %w", err)
	}
	const n = 4
	var pts []imodels.Point
	for k := 1; k <= n; k++ {
		f := map[string]any{"k": int64(k)}
		tags := map[string]string{"t": "v"}
		if k == 2 && sc.Kind == "utf8" {
			f["s"] = "a\xffb"
		}
		pts = append(pts, rt.MustPoint("m", tags, f, rt.DefaultTime.T(k)))
		if sc.Kind == "nil" && k%2 == 0 {
			pts = append(pts, rt.MustPoint("n", tags, map[string]any{"k": int64(k)}, rt.DefaultTime.T(k)))
		}
	}
	if sc.Kind == "nil" {
		// move both sides of the join past the last timestamp so that every pending point is emitted (matched or filled)
		pts = append(pts, rt.MustPoint("n", map[string]string{"t": "v"}, map[string]any{"k": int64(99)}, rt.DefaultTime.T(n+10)))
		pts = append(pts, rt.MustPoint("m", map[string]string{"t": "v"}, map[string]any{"k": int64(99)}, rt.DefaultTime.T(n+20)))
	}
	nm := 0
	for _, p := range pts {
		if string(p.Name()) == "m" {
			nm++
		}
		if err := env.Write("db", "rp", p); err != nil {
			return fmt.Errorf("write: %w", err)
		}
		if sc.Req != nil && !diag.WaitCount("post", nm, faultDeadline) {
			// (request-fault scenarios: one point in flight at a time - they are about the requests)
			ef.ev("OutMissing", rt.M{"want": nm})
			return nil
		}
	}
	env.WaitIngress()
	byOK := diag.WaitCount("by", nm, faultDeadline)
	var snapPending chan struct{}
	earlyStopLines := false
	if sc.Req != nil {
		// the path of the task snapshotter: ExecutingTask.Snapshot -> UDFNode.snapshot -> udf.Server.Snapshot on the
		// running task, in a goroutine of its own (nothing recovers a panic there: the daemon would die).  The UDF
		// node's first request was its Init (request 1); this snapshot is request 2.
		if !diag.WaitCount("post", n, faultDeadline) {
			ef.ev("OutMissing", rt.M{"want": n})
			return nil
		}
		ef.ev("Ret", rt.M{"kind": "init", "err": ""})
		ef.ev("Call", rt.M{"kind": "snapshot", "data": ""})
		snapPending = make(chan struct{})
		go func(done chan struct{}) {
			defer close(done)
			snap, err := et.Snapshot()
			var b []byte
			if err == nil {
				for node, x := range snap.NodeSnapshots {
					if strings.HasPrefix(node, "echo") {
						b = x
					}
				}
			}
			ef.ev("Ret", snapshotRet(b, err, 32))
		}(snapPending)
		sock := svc.last()
		start := time.Now()
		for sock.raw.handled() < 2 {
			if time.Since(start) > faultDeadline {
				return fmt.Errorf("the peer did not get the snapshot request")
			}
			time.Sleep(200 * time.Microsecond)
		}
		if sc.Req.Name != "wrong" || sc.Req.At != 2 {
			select {
			case <-snapPending:
				snapPending = nil
			case <-time.After(faultDeadline):
				ef.ev("CallHang", rt.M{"kind": "snapshot"})
				return nil
			}
		}
		// everything has come out of the UDF node, its input goroutine is idle: the invocation lines of the stop can
		// (and, for the pending snapshot that only the stop ends, must) be written before StopTask is called
		ef.ev("PumpDone", nil)
		ef.ev("StopCall", nil)
		earlyStopLines = true
	}
	done := make(chan error, 1)
	go func() { done <- env.TM.StopTask("v") }()
	select {
	case err := <-done:
		// StopTask closes the source edge; the UDF node's input goroutine ends when the edge is drained and the
		// node then closes the UDF (= Stop): both happen inside StopTask, so the two invocation lines can only be
		// written now (late invocations are harmless: nothing observed before depends on them)
		if !earlyStopLines {
			ef.ev("PumpDone", nil)
			ef.ev("StopCall", nil)
		}
		e := errStr(err)
		if s, ok := diag.StoppedWithError("v"); ok && s != "" && e == "" {
			e = s
		}
		for _, x := range diag.Errors() {
			if x.Msg == "node failed" && strings.Contains(x.Ctx, "task:v") && e == "" {
				e = x.Err
			}
		}
		ef.ev("StopRet", rt.M{"err": e})
	case <-time.After(faultDeadline):
		ef.ev("StopHang", rt.M{"after": faultDeadline.String()})
		return nil
	}
	if snapPending != nil {
		select {
		case <-snapPending:
		case <-time.After(faultDeadline):
			ef.ev("CallHang", rt.M{"kind": "snapshot"})
			return nil
		}
	}
	env.TM.StopTask("b")
	by := diag.SinkItems("by")
	ok := byOK && len(by) == nm
	for i, it := range by {
		if kv, _ := it.Point.Fields()["k"].(int64); i < n && int(kv) != i+1 && kv != 99 {
			ok = false
		}
	}
	ef.ev("Bystander", rt.M{"ok": ok, "n": len(by)})
	var errs []string
	for _, x := range diag.Errors() {
		errs = append(errs, x.Msg+": "+x.Err)
	}
	diagEvent(ef, errs)
	return nil
}

// ---- parent ----

func faultScenarios(thorough bool, seed int64) []faultScenario {
	var scs []faultScenario
	for _, k := range faultKinds {
		ats := []int{1, 2}
		if thorough {
			ats = []int{1, 2, 3}
		}
		for _, at := range ats {
			scs = append(scs, faultScenario{Level: "server", Kind: k, At: at, Feed: "points"})
		}
		// inside / at the end of an unbuffered batch: data messages 2..5 are begin, point, point, end
		bat := []int{3}
		if thorough {
			bat = []int{2, 3, 4, 5}
		}
		for _, at := range bat {
			scs = append(scs, faultScenario{Level: "server", Kind: k, At: at, Feed: "batch"})
		}
		scs = append(scs, faultScenario{Level: "task", Kind: k, At: 2})
	}
	for _, k := range []string{"utf8", "duration", "nil"} {
		scs = append(scs, faultScenario{Level: "server", Kind: k, Feed: "points"})
	}
	for _, k := range []string{"utf8", "duration", "nil", "none", "snap-before-open"} {
		scs = append(scs, faultScenario{Level: "task", Kind: k})
	}
	for _, k := range []string{"dl-snap", "dl-tick", "dl-snapwait"} {
		scs = append(scs, faultScenario{Level: "server", Kind: k, Feed: "points"})
	}
	// the peer answers a request with the wrong kind of response / twice (requests: 1 init, 2 snapshot, 3 restore, 4 info)
	reqKinds := []string{"init", "snapshot", "restore", "info"}
	others := []string{"info", "init", "snapshot", "restore", "keepalive"}
	add := func(level, name, other string, at int, after string) {
		if other == reqKinds[at-1] {
			return // that would be the right kind
		}
		scs = append(scs, faultScenario{Level: level, Kind: "req", Req: &reqFault{Name: name, Other: other, At: at}, After: after})
	}
	for at := 1; at <= 4; at++ {
		for oi, other := range others {
			// quick: the snapshot request (the one the task snapshotter goroutine makes) gets every other kind as a lone
			// wrong answer and as a wrong answer before the right one; everything else rotates with the seed.
			// thorough: every request kind x every other kind x every variant
			rot := (oi + at + int(seed)) % 5
			if thorough || at == 2 || rot == 0 {
				add("server", "wrong", other, at, "stop")
			}
			if thorough || rot == 1 {
				add("server", "wrong", other, at, "die")
			}
			if thorough || at == 2 || rot == 2 {
				add("server", "wrongThenRight", other, at, "")
			}
			if thorough || rot == 3 {
				add("server", "rightThenWrong", other, at, "")
			}
		}
		if thorough || at%2 == int(seed)%2 {
			scs = append(scs, faultScenario{Level: "server", Kind: "req", Req: &reqFault{Name: "twice", Other: "same", At: at}})
		}
	}
	// ... and below a UDF node, the snapshot coming from ExecutingTask.Snapshot on the running task
	for _, other := range []string{"init", "restore", "info", "keepalive"} {
		if thorough || other == "init" || other == "restore" {
			add("task", "wrong", other, 2, "stop")
		}
		if thorough || other == "init" {
			add("task", "wrongThenRight", other, 2, "")
		}
	}
	add("task", "rightThenWrong", "snapshot", 1, "") // a snapshot response nobody asked for, parked before the snapshotter's first request
	add("task", "rightThenWrong", "restore", 1, "")
	return scs
}

// RunFault runs every scenario in a child process and assembles the trace.
func RunFault(r *rt.Run) error {
	scs := faultScenarios(r.Thorough(), r.Seed)
	self, err := os.Executable()
	if err != nil {
		return err
	}
	type res struct {
		lines []string
		died  string
	}
	results := make([]res, len(scs))
	sem := make(chan struct{}, 6)
	var wg sync.WaitGroup
	for i := range scs {
		i := i
		wg.Add(1)
		go func() {
			defer wg.Done()
			sem <- struct{}{}
			defer func() { <-sem }()
			dir := filepath.Join(r.OutDir, fmt.Sprintf("child%03d", i))
			os.MkdirAll(dir, 0o755)
			arg, _ := json.Marshal(scs[i])
			ctx, cancel := context.WithTimeout(context.Background(), 240*time.Second)
			defer cancel()
			cmd := exec.CommandContext(ctx, self, "c19faultchild", "-out", dir, "-seed", fmt.Sprint(r.Seed), string(arg))
			outb, err := cmd.CombinedOutput()
			if ctx.Err() != nil {
				rt.Fatalf("c19fault: child for %s did not finish in 240s:\n%s", arg, tailStr(string(outb)))
			}
			if strings.Contains(string(outb), "HARNESS-ERROR") {
				rt.Fatalf("c19fault: child harness error for %s:\n%s", arg, tailStr(string(outb)))
			}
			b, _ := os.ReadFile(filepath.Join(dir, "events.ndjson"))
			var lines []string
			for _, ln := range strings.Split(string(b), "\n") {
				if strings.HasPrefix(ln, "{") && strings.HasSuffix(ln, "}") {
					lines = append(lines, ln)
				}
			}
			x := res{lines: lines}
			if _, ferr := os.Stat(filepath.Join(dir, "finished")); ferr != nil || err != nil {
				// the process died (a panic in a goroutine of the code under test: exit status 2 of the Go runtime, a signal, ...)
				x.died = tailStr(string(outb))
				if x.died == "" {
					x.died = fmt.Sprint(err)
				}
			}
			results[i] = x
			os.RemoveAll(dir)
		}()
	}
	wg.Wait()
	t := r.NewTrace("fault")
	died := 0
	for i, x := range results {
		// (keys that sort after "ev": the trace tools recognise a Reset line by its first key)
		reset := rt.M{"mode": "fault", "level": scs[i].Level, "kind": scs[i].Kind, "fault_at": scs[i].At, "feed": scs[i].Feed}
		if scs[i].Req != nil {
			reset["req_fault"], reset["req_at"], reset["unanswered_ends_by"] = scs[i].Req.kind(), scs[i].Req.At, scs[i].After
		}
		t.Reset(reset)
		for _, ln := range x.lines {
			var m rt.M
			if err := json.Unmarshal([]byte(ln), &m); err != nil {
				rt.Fatalf("c19fault: bad event line %q: %v", ln, err)
			}
			name, _ := m["ev"].(string)
			delete(m, "ev")
			fixInts(m)
			t.Event(name, m)
		}
		if x.died != "" {
			died++
			t.Event("ProcessDied", rt.M{"output": x.died})
		}
		key := fmt.Sprintf("%s/%s/%d/%s", scs[i].Level, scs[i].Kind, scs[i].At, scs[i].Feed)
		if scs[i].Req != nil {
			key += fmt.Sprintf("/%s@%d/%s", scs[i].Req.kind(), scs[i].Req.At, scs[i].After)
		}
		t.Distinct(key)
	}
	r.Extra["fault_scenarios"] = len(scs)
	r.Extra["fault_children_died"] = died
	r.Finish("peer-fault and data-fault scenarios, one child process each: every kind of the misbehaving-peer alphabet (EndBatch without BeginBatch, negative batch size, empty frame, oversized frame header, non-protobuf frame, truncated frame, unsolicited Info/Init/Snapshot/Restore/Keepalive responses, ErrorResponse, early close, Begin/End of different batches) at the 1st..3rd data message of a point feed and inside an unbuffered batch, against the real udf.Server and below a real UDFNode next to a bystander task; fields the protocol cannot carry (duration via eval, nil via join.fill(null), invalid UTF-8); Stop racing with the death of the peer while a Snapshot call / keepalive tick / response is pending; distinct by (level, kind, at, feed)", true)
	return nil
}

// fixInts: encoding/json decodes numbers as float64; the trace wants ints.
func fixInts(v any) any {
	switch x := v.(type) {
	case map[string]any:
		for k, e := range x {
			x[k] = fixInts(e)
		}
		return x
	case []any:
		for i, e := range x {
			x[i] = fixInts(e)
		}
		return x
	case float64:
		return int(x)
	}
	return v
}

func tailStr(s string) string {
	if len(s) > 1500 {
		return s[len(s)-1500:]
	}
	return s
}
