package c19

import (
	"fmt"
	"strings"
	"sync"
	"time"

	imodels "github.com/influxdata/influxdb/models"
	"github.com/influxdata/kapacitor"
	"github.com/influxdata/kapacitor/edge"
	"github.com/influxdata/kapacitor/models"

	"kapverif/rt"
)

func init() { rt.Register("c19task", RunTask) }

// The same boundary below a real UDFNode in a real task: TICKscript `@echo()` / `@echoBatch()`, the
// TaskMaster's UDFService returning kapacitor.UDFSocket over our pipes.  What enters the UDF node is
// observed by a log() sink in front of it (Queue lines), what leaves it by a log() sink behind it (Out
// lines); ExecutingTask.Snapshot() reaches udf.Server.Snapshot() through UDFNode.snapshot while data flows.

type taskSession struct {
	name    string
	script  string
	batch   bool
	points  []imodels.Point
	batches []edge.BufferedBatchMessage
	snapAt  map[int]bool // take a task snapshot before writing item k (0-based)
	frag    string
	pad     int
	window  int // items in flight at most (0 = unbounded; sessions in which points are dropped cannot count outputs)
	// restart: stop the task after the points, start it again from the task snapshot taken before the stop
	// (TaskStore.LoadSnapshot -> UDFNode -> udf.Restore) and send the points once more: a second trace
	restart bool
}

// snapStore is the TaskStore of a restart session.
type snapStore struct {
	snap *kapacitor.TaskSnapshot
}

func (s *snapStore) SaveSnapshot(string, *kapacitor.TaskSnapshot) error { return nil }
func (s *snapStore) HasSnapshot(string) bool                            { return s.snap != nil }
func (s *snapStore) LoadSnapshot(string) (*kapacitor.TaskSnapshot, error) {
	return s.snap, nil
}

func ingestible() (pts []imodels.Point, skipped int) {
	k := 0
	for _, fc := range fieldClasses() {
		for _, g := range []groupClass{groupClasses()[3], groupClasses()[7]} {
			if len(fc.f) == 0 {
				continue
			}
			f := map[string]any{}
			for n, v := range fc.f {
				f[n] = v
			}
			tm := []time.Time{tTyp, tZero, tNeg, time.Unix(0, imodels.MaxNanoTime).UTC(), time.Unix(0, imodels.MinNanoTime).UTC()}[k%5]
			k++
			p, err := imodels.NewPoint("m", imodels.NewTags(g.tags), f, tm)
			if err != nil {
				skipped++ // NaN, Inf, empty field names: not part of the ingest domain
				continue
			}
			pts = append(pts, p)
		}
	}
	return pts, skipped
}

func runTaskSession(ts taskSession, r *rt.Run) ([]*recorder, error) {
	if !ts.restart {
		rec, _, err := runTaskOnce(ts, r, nil)
		return []*recorder{rec}, err
	}
	// first life: the last snapshot of the UDF node is kept; second life: restored from it
	ts.snapAt = map[int]bool{-1: true}
	rec1, snap, err := runTaskOnce(ts, r, nil)
	if err != nil || snap == nil {
		return []*recorder{rec1}, err
	}
	rec2, _, err := runTaskOnce(ts, r, snap)
	return []*recorder{rec1, rec2}, err
}

func runTaskOnce(ts taskSession, r *rt.Run, restoreFrom *kapacitor.TaskSnapshot) (*recorder, *kapacitor.TaskSnapshot, error) {
	rec := &recorder{}
	var lastSnap *kapacitor.TaskSnapshot
	diag := rt.NewDiag()
	diag.OnItem = func(it rt.SinkItem) {
		var item rt.M
		if it.Point != nil {
			item = encPoint(it.Point)
		} else {
			item = encBatch(it.Batch)
		}
		switch it.Sink {
		case "pre":
			rec.ev("Queue", rt.M{"item": item})
		case "post":
			rec.ev("Out", rt.M{"item": item})
		}
	}
	env, err := rt.NewEnv(rt.EnvOpts{Diag: diag})
	if err != nil {
		return nil, nil, err
	}
	defer env.Close()
	svc := newUDFService(fragFn(ts.frag, r.Rand))
	svc.pad = ts.pad
	env.TM.UDFService = svc
	tt := kapacitor.StreamTask
	if ts.batch {
		tt = kapacitor.BatchTask
	}
	restoring := false
	if restoreFrom != nil {
		env.TM.TaskStore = &snapStore{snap: restoreFrom}
		for node, b := range restoreFrom.NodeSnapshots {
			if strings.HasPrefix(node, "echo") {
				// the UDF node restores its UDF before it takes any data: an invocation made by StartTask
				rec.ev("Call", rt.M{"kind": "restore", "data": fmt.Sprintf("%x", b)})
				restoring = true
			}
		}
	}
	et, err := env.StartTask("t", ts.script, tt, rt.DefaultDBRP)
	if err != nil {
		return nil, nil, fmt.Errorf("start %s: %w\n%s", ts.name, err, ts.script)
	}
	// waitPost waits until n messages have left the UDF node; it gives up at once when the task has failed
	// (nothing more will come) and after opDeadline
	waitPost := func(n int) bool {
		start := time.Now()
		for diag.Count("post") < n {
			for _, x := range diag.Errors() {
				if x.Msg == "node failed" {
					return false
				}
			}
			if time.Since(start) > opDeadline {
				return false
			}
			time.Sleep(300 * time.Microsecond)
		}
		return true
	}
	broken := false
	snapshot := func() {
		// not before the UDF node has opened its UDF (that window is the fault scenario snap-before-open, which
		// needs a child process): wait for the first output
		if broken {
			return
		}
		if !waitPost(1) {
			rec.ev("OutMissing", rt.M{"want": 1}) // nothing came out of the UDF node: no action explains this line
			broken = true
			return
		}
		if restoring {
			// data has come out, so Restore has returned (it precedes the node's input goroutine) - without an
			// error, or the node would have failed
			rec.ev("Ret", rt.M{"kind": "restore", "err": ""})
			restoring = false
		}
		rec.ev("Call", rt.M{"kind": "snapshot", "data": ""})
		snap, err := et.Snapshot()
		if err == nil {
			lastSnap = snap
		}
		m := rt.M{"kind": "snapshot", "err": errStr(err)}
		if err == nil {
			found := false
			for node, b := range snap.NodeSnapshots {
				if strings.HasPrefix(node, "echo") {
					seen, restored, padok := parseSnapshot(b, ts.pad)
					m["seen"], m["restored"], m["padok"] = seen, restored, padok
					found = true
				}
			}
			if !found {
				m["err"] = "no snapshot of the UDF node in the task snapshot"
			}
		}
		rec.ev("Ret", m)
	}
	if ts.batch {
		cols := env.TM.BatchCollectors("t")
		if len(cols) != 1 {
			return nil, nil, fmt.Errorf("%d batch collectors", len(cols))
		}
		// a query node only ends when its collector is closed: also on the early returns below (env.Close waits for it)
		var closeOnce sync.Once
		closeCols := func() { closeOnce.Do(func() { cols[0].Close() }) }
		defer closeCols()
		for k, b := range ts.batches {
			if ts.snapAt[k] {
				snapshot()
			}
			if broken {
				return rec, nil, nil
			}
			if err := cols[0].CollectBatch(b); err != nil {
				return nil, nil, err
			}
			// at most `window` items in flight (keeps the number of interleavings TLC has to consider small)
			if k+1 > ts.window && !waitPost(k+1-ts.window) {
				rec.ev("OutMissing", rt.M{"want": k + 1 - ts.window})
				return rec, nil, nil
			}
		}
		// the last snapshot while the task is still running: closing the collector ends the batch source, the UDF node
		// then closes its UDF on its own and a snapshot call meeting that stop returns ErrServerStopped
		if ts.snapAt[-1] {
			snapshot()
			ts.snapAt = map[int]bool{}
		}
		closeCols()
	} else {
		for k, p := range ts.points {
			if ts.snapAt[k] {
				snapshot()
			}
			if broken {
				return rec, nil, nil
			}
			if err := env.Write("db", "rp", p); err != nil {
				return nil, nil, err
			}
			if ts.window > 0 && k+1 > ts.window && !waitPost(k+1-ts.window) {
				rec.ev("OutMissing", rt.M{"want": k + 1 - ts.window})
				return rec, nil, nil
			}
		}
		env.WaitIngress()
	}
	if ts.snapAt[-1] {
		snapshot()
	}
	done := make(chan error, 1)
	go func() { done <- env.TM.StopTask("t") }()
	select {
	case err := <-done:
		rec.ev("PumpDone", nil)
		rec.ev("StopCall", nil)
		e := errStr(err)
		if s, ok := diag.StoppedWithError("t"); ok && s != "" && e == "" {
			e = s
		}
		rec.ev("StopRet", rt.M{"err": e})
	case <-time.After(opDeadline):
		rec.ev("StopHang", nil)
		return rec, nil, nil
	}
	sock := svc.last()
	if sock == nil {
		return nil, nil, fmt.Errorf("the UDF was never opened")
	}
	var saw []any
	for _, m := range sock.h.Saw() {
		saw = append(saw, encWire(m))
	}
	rec.ev("AgentSaw", rt.M{"msgs": saw})
	var errs []string
	for _, x := range diag.Errors() {
		errs = append(errs, x.Msg+": "+x.Err)
	}
	dropped := false
	for _, e := range errs {
		if strings.Contains(e, "dropping") {
			dropped = true
		}
	}
	rec.ev("Diag", rt.M{"dropped": dropped, "errors": strsAny(errs)})
	return rec, lastSnap, nil
}

func RunTask(r *rt.Run) error {
	t := r.NewTrace("task")
	pts, skipped := ingestible()
	var sessions []taskSession
	froms := []struct{ name, from string }{
		{"nogroup", "from().measurement('m')"},
		{"byhost", "from().measurement('m').groupBy('host')"},
		{"bystar", "from().measurement('m').groupBy(*)"},
		{"byname", "from().measurement('m').groupByMeasurement()"},
		{"byname+host", "from().measurement('m').groupBy('host').groupByMeasurement()"},
		{"bymissing", "from().measurement('m').groupBy('nosuch')"},
	}
	frags := []string{"", "1", "3", "rnd", "7", "2"}
	chunk := 12
	for i, f := range froms {
		// every ingestible payload class passes each group shape over the sessions of a run (rotating window)
		var ps []imodels.Point
		for k := 0; k < chunk; k++ {
			ps = append(ps, pts[(i*chunk+k+int(r.Seed)*7)%len(pts)])
		}
		if r.Thorough() {
			ps = pts
		}
		sessions = append(sessions, taskSession{name: "stream-" + f.name, window: 2 + i%2, frag: frags[i%len(frags)], points: ps, pad: 100 * i,
			script: "stream|" + f.from + "|log().prefix('pre')@" + []string{"echo", "echoProc"}[i%2] + "()|log().prefix('post')", snapAt: map[int]bool{1: i%2 == 0, 5: true, -1: true}})
	}
	bts := batchPayloads()
	for i := 0; i < 3; i++ {
		var bs []edge.BufferedBatchMessage
		for k := range bts {
			if r.Thorough() || k%3 == i {
				bs = append(bs, bts[k])
			}
		}
		sessions = append(sessions, taskSession{name: fmt.Sprintf("batch-%d", i), batch: true, window: 2, frag: frags[(i+2)%len(frags)], batches: bs, pad: 50,
			script: "batch|query('SELECT v FROM \"db\".\"rp\".\"m\"').period(1s).every(1h)|log().prefix('pre')@echoBatch()|log().prefix('post')",
			snapAt: map[int]bool{1: true, -1: i == 0}})
	}
	// unsupported field types produced by real nodes (they are reported and dropped, the task goes on)
	mixed := func(n int) []imodels.Point {
		var out []imodels.Point
		for k := 1; k <= n; k++ {
			out = append(out, rt.MustPoint("m", map[string]string{"host": "a"}, map[string]any{"k": int64(k)}, rt.DefaultTime.T(k)))
			if k%2 == 0 {
				out = append(out, rt.MustPoint("n", map[string]string{"host": "a"}, map[string]any{"k": int64(k)}, rt.DefaultTime.T(k)))
			}
		}
		out = append(out, rt.MustPoint("n", map[string]string{"host": "a"}, map[string]any{"k": int64(99)}, rt.DefaultTime.T(n+10)))
		out = append(out, rt.MustPoint("m", map[string]string{"host": "a"}, map[string]any{"k": int64(99)}, rt.DefaultTime.T(n+20)))
		return out
	}
	sessions = append(sessions,
		taskSession{name: "join-fill-null", frag: "rnd", points: mixed(4),
			script: "var a = stream|from().measurement('m')\nvar b = stream|from().measurement('n')\n" +
				"a|join(b).as('a','b').tolerance(1s).fill('null')|log().prefix('pre')@echo()|log().prefix('post')"},
		taskSession{name: "eval-duration", frag: "2", points: mixed(4)[:4],
			script: "stream|from().measurement('m')|eval(lambda: if(\"k\" == 2, 1s, 2s)).as('d').keep('k', 'd')|log().prefix('pre')@echo()|log().prefix('post')"},
	)
	// a task restarted from its snapshot: the UDF gets back the bytes it supplied (socket and process flavour)
	for i, u := range []string{"echo", "echoProc"} {
		sessions = append(sessions, taskSession{name: "restart-" + u, frag: frags[3+i], points: pts[4*i : 4*i+3], pad: 200 + 20000*i, window: 2, restart: true,
			script: "stream|from().measurement('m')|log().prefix('pre')@" + u + "()|log().prefix('post')"})
	}
	_ = models.Fields{}
	for _, ts := range sessions {
		recs, err := runTaskSession(ts, r)
		if err != nil {
			return fmt.Errorf("task session %s: %w", ts.name, err)
		}
		for life, rec := range recs {
			t.Reset(rt.M{"mode": "task", "name": ts.name, "frag": ts.frag, "life": life + 1})
			for _, e := range rec.evs {
				name := e["ev"].(string)
				delete(e, "ev")
				t.Event(name, e)
			}
		}
		t.Distinct(ts.name)
	}
	r.Extra["task_sessions"] = len(sessions)
	r.Extra["ingestible_payload_classes"] = len(pts)
	r.Extra["payload_classes_outside_ingest"] = skipped
	r.Finish("real tasks `stream|from()...|log()@echo()|log()` (6 group shapes) and `batch|query()|log()@echoBatch()|log()` with the in-process UDFService (kapacitor.UDFSocket over fragmenting pipes to the udf/agent echo handler): ingestible payload classes through the real ingest path, batch payloads through the batch collectors, ExecutingTask.Snapshot() between the writes, nil/duration fields produced by join.fill('null') / eval; distinct by session", false)
	return nil
}
