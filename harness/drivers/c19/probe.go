package c19

import (
	"fmt"
	"time"

	"github.com/influxdata/kapacitor/edge"
	"github.com/influxdata/kapacitor/models"
	"github.com/influxdata/kapacitor/udf/agent"

	imodels "github.com/influxdata/influxdb/models"

	"kapverif/rt"
)

func init() { rt.Register("c19probe", RunProbe) }

// RunProbe: ad-hoc reproduction of one peer fault (development aid; not used by the check).
func RunProbe(r *rt.Run) error {
	kind := r.Args[0]
	var flt *faultSpec
	var bad any
	switch kind {
	case "f:duration":
		bad = time.Second
	case "f:nil":
		bad = nil
	case "f:utf8":
		bad = "a\xffb"
	case "f:int":
		bad = int(3)
	default:
		flt = &faultSpec{Kind: kind, At: 2}
	}
	s := newSession(sessOpts{Wants: agent.EdgeType_STREAM, Provides: agent.EdgeType_STREAM, Fault: flt})
	if err := s.srv.Init(nil); err != nil {
		return err
	}
	for k := 1; k <= 3; k++ {
		p := edge.NewPointMessage("m", "db", "rp", models.Dimensions{}, flds(k, flt == nil, bad), models.Tags{"t": "v"}, time.Unix(int64(k), 0).UTC())
		ok, err := s.send(p, 5*time.Second)
		fmt.Println("send", k, ok, err)
		if !ok {
			break
		}
	}
	time.Sleep(200 * time.Millisecond)
	done := make(chan error, 1)
	go func() { done <- s.srv.Stop() }()
	select {
	case err := <-done:
		fmt.Println("stop returned:", err)
	case <-time.After(5 * time.Second):
		fmt.Println("stop HANGS")
	}
	select {
	case <-s.outClosed:
		fmt.Println("out closed")
	case <-time.After(2 * time.Second):
		fmt.Println("out NOT closed")
	}
	fmt.Println("outs:", len(s.Outs()), "aborted:", isAborted(s), "errors:", s.diag.Errors())
	return nil
}

func flds(k int, withBad bool, bad any) models.Fields {
	f := models.Fields{"k": int64(k)}
	if withBad && k == 2 {
		f["bad"] = bad
	}
	return f
}

func init() { rt.Register("c19probetask", RunProbeTask) }

// RunProbeTask: a real task with a UDF node fed a point class through the ingest path.
func RunProbeTask(r *rt.Run) error {
	env, err := rt.NewEnv(rt.EnvOpts{})
	if err != nil {
		return err
	}
	svc := newUDFService(nil)
	env.TM.UDFService = svc
	script := map[string]string{
		"duration": "stream|from().measurement('m')|eval(lambda: 1s).as('d').keep()@echo()|log().prefix('s')",
		"plain":    "stream|from().measurement('m')@echo()|log().prefix('s')",
		"nil": "var a = stream|from().measurement('m')\nvar b = stream|from().measurement('n')\n" +
			"a|join(b).as('a','b').tolerance(1s).fill('null')@echo()|log().prefix('s')",
	}[r.Args[0]]
	var pts []imodels.Point
	for k := 1; k <= 3; k++ {
		f := map[string]any{"k": int64(k)}
		if len(r.Args) > 1 && r.Args[1] == "utf8" && k == 2 {
			f["s"] = "a\xffb"
		}
		pts = append(pts, rt.MustPoint("m", map[string]string{"t": "v"}, f, rt.DefaultTime.T(k)))
	}
	if r.Args[0] == "nil" {
		pts = append(pts, rt.MustPoint("n", map[string]string{"t": "v"}, map[string]any{"k": int64(9)}, rt.DefaultTime.T(10)))
		pts = append(pts, rt.MustPoint("m", map[string]string{"t": "v"}, map[string]any{"k": int64(9)}, rt.DefaultTime.T(20)))
		pts = append(pts, rt.MustPoint("n", map[string]string{"t": "v"}, map[string]any{"k": int64(9)}, rt.DefaultTime.T(30)))
	}
	res, err := rt.RunStreamTask(env, script, pts)
	if err != nil {
		return err
	}
	for _, it := range res.BySink("s") {
		fmt.Println("sink:", encPoint(it.Point))
	}
	fmt.Println("errors:", res.Errors, "stopErr:", res.StopErr)
	return nil
}

func init() { rt.Register("c19probedl", RunProbeDeadlock) }

// RunProbeDeadlock: Stop racing with a dying peer while a Snapshot call / a keepalive tick is pending.
func RunProbeDeadlock(r *rt.Run) error {
	variant := r.Args[0]
	var timeout time.Duration
	if variant == "tick" {
		timeout = 200 * time.Millisecond
	}
	s := newSession(sessOpts{Wants: agent.EdgeType_STREAM, Provides: agent.EdgeType_STREAM, Timeout: timeout})
	if err := s.srv.Init(nil); err != nil {
		return err
	}
	if variant == "snapwait" {
		block := make(chan struct{})
		got := make(chan struct{}, 1)
		s.h.onReq = func(string) { got <- struct{}{}; <-block }
		snapDone := make(chan error, 1)
		go func() { _, err := s.srv.Snapshot(); snapDone <- err }()
		<-got
		fmt.Println("snapshot request reached the peer; peer dies without answering")
		s.toAgent.Break()
		s.fromAgent.Close()
		time.Sleep(50 * time.Millisecond)
		done := make(chan error, 1)
		go func() { done <- s.srv.Stop() }()
		select {
		case err := <-done:
			fmt.Println("stop returned:", err)
		case <-time.After(5 * time.Second):
			fmt.Println("stop HANGS (5s)")
		}
		select {
		case err := <-snapDone:
			fmt.Println("snapshot returned:", err)
		case <-time.After(100 * time.Millisecond):
			fmt.Println("snapshot pending")
		}
		return nil
	}
	s.toAgent.HoldW()
	p := edge.NewPointMessage("m", "db", "rp", models.Dimensions{}, models.Fields{"k": int64(1)}, models.Tags{"t": "v"}, time.Unix(1, 0).UTC())
	ok, err := s.send(p, 5*time.Second)
	fmt.Println("send", ok, err)
	s.toAgent.WaitWriter()
	fmt.Println("writer blocked in Write")
	snapDone := make(chan error, 1)
	if variant == "snap" {
		go func() { _, err := s.srv.Snapshot(); snapDone <- err }()
		time.Sleep(100 * time.Millisecond)
	} else {
		time.Sleep(150 * time.Millisecond) // one tick (timeout/2 = 100ms); the watchdog fires at 200ms
	}
	done := make(chan error, 1)
	go func() { done <- s.srv.Stop() }()
	time.Sleep(20 * time.Millisecond)
	s.toAgent.Break()
	s.fromAgent.Close()
	fmt.Println("peer died")
	select {
	case err := <-done:
		fmt.Println("stop returned:", err)
	case <-time.After(5 * time.Second):
		fmt.Println("stop HANGS (5s)")
	}
	select {
	case err := <-snapDone:
		fmt.Println("snapshot returned:", err)
	case <-time.After(100 * time.Millisecond):
		fmt.Println("snapshot pending")
	}
	return nil
}
