package c19

import (
	"fmt"
	"time"

	"github.com/influxdata/kapacitor/edge"
	"github.com/influxdata/kapacitor/models"
	"github.com/influxdata/kapacitor/udf/agent"

	imodels "github.com/influxdata/influxdb/models"

	"kapverif/rt"
)

func init() { rt.Register("c19probe", RunProbe) }

// RunProbe: ad-hoc reproduction of one peer fault (development aid; not used by the check).
func RunProbe(r *rt.Run) error {
	kind := r.Args[0]
	var flt *faultSpec
	var bad any
	switch kind {
	case "f:duration":
		bad = time.Second
	case "f:nil":
		bad = nil
	case "f:utf8":
		bad = "a\xffb"
	case "f:int":
		bad = int(3)
	default:
		flt = &faultSpec{Kind: kind, At: 2}
	}
	s := newSession(sessOpts{Wants: agent.EdgeType_STREAM, Provides: agent.EdgeType_STREAM, Fault: flt})
	if err := s.srv.Init(nil); err != nil {
		return err
	}
	for k := 1; k <= 3; k++ {
		p := edge.NewPointMessage("m", "db", "rp", models.Dimensions{}, flds(k, flt == nil, bad), models.Tags{"t": "v"}, time.Unix(int64(k), 0).UTC())
		ok, err := s.send(p, 5*time.Second)
		fmt.Println("send", k, ok, err)
		if !ok {
			break
		}
	}
	time.Sleep(200 * time.Millisecond)
	done := make(chan error, 1)
	go func() { done <- s.srv.Stop() }()
	select {
	case err := <-done:
		fmt.Println("stop returned:", err)
	case <-time.After(5 * time.Second):
		fmt.Println("stop HANGS")
	}
	select {
	case <-s.outClosed:
		fmt.Println("out closed")
	case <-time.After(2 * time.Second):
		fmt.Println("out NOT closed")
	}
	fmt.Println("outs:", len(s.Outs()), "aborted:", isAborted(s), "errors:", s.diag.Errors())
	return nil
}

func flds(k int, withBad bool, bad any) models.Fields {
	f := models.Fields{"k": int64(k)}
	if withBad && k == 2 {
		f["bad"] = bad
	}
	return f
}

func init() { rt.Register("c19probetask", RunProbeTask) }

// RunProbeTask: a real task with a UDF node fed a point class through the ingest path.
func RunProbeTask(r *rt.Run) error {
	env, err := rt.NewEnv(rt.EnvOpts{})
	if err != nil {
		return err
	}
	svc := newUDFService(nil)
	env.TM.UDFService = svc
	script := map[string]string{
		"duration": "stream|from().measurement('m')|eval(lambda: 1s).as('d').keep()@echo()|log().prefix('s')",
		"plain":    "stream|from().measurement('m')@echo()|log().prefix('s')",
		"nil": "var a = stream|from().measurement('m')\nvar b = stream|from().measurement('n')\n" +
			"a|join(b).as('a','b').tolerance(1s).fill('null')@echo()|log().prefix('s')",
	}[r.Args[0]]
	var pts []imodels.Point
	for k := 1; k <= 3; k++ {
		f := map[string]any{"k": int64(k)}
		if len(r.Args) > 1 && r.Args[1] == "utf8" && k == 2 {
			f["s"] = "a\xffb"
		}
		pts = append(pts, rt.MustPoint("m", map[string]string{"t": "v"}, f, rt.DefaultTime.T(k)))
	}
	if r.Args[0] == "nil" {
		pts = append(pts, rt.MustPoint("n", map[string]string{"t": "v"}, map[string]any{"k": int64(9)}, rt.DefaultTime.T(10)))
		pts = append(pts, rt.MustPoint("m", map[string]string{"t": "v"}, map[string]any{"k": int64(9)}, rt.DefaultTime.T(20)))
		pts = append(pts, rt.MustPoint("n", map[string]string{"t": "v"}, map[string]any{"k": int64(9)}, rt.DefaultTime.T(30)))
	}
	res, err := rt.RunStreamTask(env, script, pts)
	if err != nil {
		return err
	}
	for _, it := range res.BySink("s") {
		fmt.Println("sink:", encPoint(it.Point))
	}
	fmt.Println("errors:", res.Errors, "stopErr:", res.StopErr)
	return nil
}
