package c19

import (
	"fmt"
	"math"
	"sort"
	"strconv"
	"time"
	"unicode/utf8"

	"github.com/influxdata/kapacitor/edge"
	"github.com/influxdata/kapacitor/models"
	"github.com/influxdata/kapacitor/udf/agent"
	"google.golang.org/protobuf/proto"

	"kapverif/rt"
)

// Canonical, exact JSON forms.  TLC has 32-bit integers and no floats, so every value is a string:
// ints in decimal, floats as the hex of their IEEE bits, times as decimal Unix nanoseconds.
// Tags and fields are sorted lists (nil and empty maps are the same set).

func encVal(v any) (typ, val string) {
	switch x := v.(type) {
	case int64:
		return "int", strconv.FormatInt(x, 10)
	case float64:
		return "float", fmt.Sprintf("%016x", math.Float64bits(x))
	case bool:
		return "bool", strconv.FormatBool(x)
	case string:
		if !utf8.ValidString(x) {
			return "string/invalid-utf8", fmt.Sprintf("%x", x)
		}
		return "string", x
	case nil:
		return "nil", ""
	case time.Duration:
		return "duration", strconv.FormatInt(int64(x), 10)
	default:
		// anything else is no field type of kapacitor's data model (Go int, float32, ...)
		return fmt.Sprintf("go:%T", v), fmt.Sprint(v)
	}
}

func encFields(f models.Fields) []any {
	out := make([]any, 0, len(f))
	for _, k := range rt.SortedKeys(f) {
		t, v := encVal(f[k])
		out = append(out, []any{k, t, v})
	}
	return out
}

func encTags(t models.Tags) []any {
	out := make([]any, 0, len(t))
	for _, k := range rt.SortedKeys(t) {
		out = append(out, []any{k, t[k]})
	}
	return out
}

func encStrs(s []string) []any {
	out := make([]any, 0, len(s))
	for _, x := range s {
		out = append(out, x)
	}
	return out
}

func encTime(t time.Time) string { return strconv.FormatInt(t.UnixNano(), 10) }

func encPoint(p edge.PointMessage) rt.M {
	return rt.M{"k": "point", "name": p.Name(), "db": p.Database(), "rp": p.RetentionPolicy(),
		"group": string(p.GroupID()), "byName": p.Dimensions().ByName, "dims": encStrs(p.Dimensions().TagNames),
		"tags": encTags(p.Tags()), "fields": encFields(p.Fields()), "t": encTime(p.Time())}
}

func encBatchPoint(bp edge.BatchPointMessage) rt.M {
	return rt.M{"tags": encTags(bp.Tags()), "fields": encFields(bp.Fields()), "t": encTime(bp.Time())}
}

func encBatch(b edge.BufferedBatchMessage) rt.M {
	pts := make([]any, 0, len(b.Points()))
	for _, bp := range b.Points() {
		pts = append(pts, encBatchPoint(bp))
	}
	return rt.M{"k": "batch", "name": b.Name(), "group": string(b.GroupID()), "byName": b.Dimensions().ByName,
		"dims": encStrs(b.Dimensions().TagNames), "tags": encTags(b.Tags()), "tmax": encTime(b.Time()), "pts": pts,
		"size": strconv.Itoa(b.Begin().SizeHint())}
}

func encBegin(b edge.BeginBatchMessage) rt.M {
	return rt.M{"k": "begin", "name": b.Name(), "group": string(b.GroupID()), "byName": b.Dimensions().ByName,
		"dims": encStrs(b.Dimensions().TagNames), "tags": encTags(b.Tags()), "tmax": encTime(b.Time()),
		"size": strconv.Itoa(b.SizeHint())}
}

func encMsg(m edge.Message) rt.M {
	switch x := m.(type) {
	case edge.PointMessage:
		return encPoint(x)
	case edge.BufferedBatchMessage:
		return encBatch(x)
	case edge.BeginBatchMessage:
		return encBegin(x)
	case edge.BatchPointMessage:
		m := encBatchPoint(x)
		m["k"] = "bp"
		return m
	case edge.EndBatchMessage:
		return rt.M{"k": "end"}
	default:
		return rt.M{"k": fmt.Sprintf("%T", m)}
	}
}

// ---- what the peer saw on the wire (udf/agent messages) ----

func sortedKeys[V any](m map[string]V) []string {
	ks := make([]string, 0, len(m))
	for k := range m {
		ks = append(ks, k)
	}
	sort.Strings(ks)
	return ks
}

// encWireFields merges the four typed maps into the [name, type, value] list form, one entry per map
// entry (a field name present in two maps shows up twice: the merge on the way back would lose one).
func encWireFields(p *agent.Point) []any {
	type ent struct{ k, t, v string }
	var es []ent
	for k, v := range p.FieldsInt {
		t, s := encVal(v)
		es = append(es, ent{k, t, s})
	}
	for k, v := range p.FieldsDouble {
		t, s := encVal(v)
		es = append(es, ent{k, t, s})
	}
	for k, v := range p.FieldsBool {
		t, s := encVal(v)
		es = append(es, ent{k, t, s})
	}
	for k, v := range p.FieldsString {
		t, s := encVal(v)
		es = append(es, ent{k, t, s})
	}
	sort.Slice(es, func(i, j int) bool {
		if es[i].k != es[j].k {
			return es[i].k < es[j].k
		}
		return es[i].t < es[j].t
	})
	out := make([]any, 0, len(es))
	for _, e := range es {
		out = append(out, []any{e.k, e.t, e.v})
	}
	return out
}

func encWire(m proto.Message) rt.M {
	switch x := m.(type) {
	case *agent.Point:
		return rt.M{"k": "point", "name": x.Name, "db": x.Database, "rp": x.RetentionPolicy, "group": x.Group,
			"byName": x.ByName, "dims": encStrs(x.Dimensions), "tags": encTags(x.Tags), "fields": encWireFields(x),
			"t": strconv.FormatInt(x.Time, 10)}
	case *agent.BeginBatch:
		return rt.M{"k": "begin", "name": x.Name, "group": x.Group, "byName": x.ByName, "tags": encTags(x.Tags),
			"size": strconv.FormatInt(x.Size, 10)}
	case *agent.EndBatch:
		return rt.M{"k": "end", "name": x.Name, "group": x.Group, "tags": encTags(x.Tags), "tmax": strconv.FormatInt(x.Tmax, 10)}
	default:
		return rt.M{"k": fmt.Sprintf("%T", m)}
	}
}
