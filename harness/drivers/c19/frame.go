package c19

import (
	"bufio"
	"bytes"
	"encoding/binary"
	"fmt"
	"io"
	"strings"

	"github.com/influxdata/kapacitor/udf/agent"
	"google.golang.org/protobuf/proto"

	"kapverif/rt"
)

func init() { rt.Register("c19frame", RunFrame) }

// B1 for the byte level (UDFFraming.tla): streams written by the real agent.WriteMessage, cut into
// fragments in every way (short streams) or in seeded ways (long ones), read back by the real
// agent.ReadMessage the way udf.Server.readData and agent.readLoop do (one reused buffer, a
// bufio.Reader around the pipe - or the raw ByteReadReader).  TLC recomputes from the logged bytes
// what a reader that sees the whole stream at once returns (Parse) and compares.

func ints(b []byte) []any {
	out := make([]any, len(b))
	for i, x := range b {
		out[i] = int(x)
	}
	return out
}
func intsI(b []int) []any {
	out := make([]any, len(b))
	for i, x := range b {
		out[i] = x
	}
	return out
}

// classify maps the error ReadMessage ended with to the end classes of UDFFraming.Parse.
func classify(err error) string {
	switch {
	case err == io.EOF:
		return "eof"
	case err == io.ErrUnexpectedEOF:
		return "trunc" // inside the header
	case err == nil:
		return "none"
	}
	s := err.Error()
	switch {
	case strings.HasPrefix(s, "unexpected EOF, expected"):
		return "trunc" // inside the payload
	case strings.Contains(s, "exceeds the maximum"):
		return "toolarge"
	case strings.Contains(s, "overflows a 64-bit integer"):
		return "overflow"
	case strings.Contains(s, "proto:"):
		return "garbage"
	}
	return "other:" + s
}

// readAll reads messages until the first error, like readData/readLoop do.  reuse: every frame is decoded into
// ONE message value, as Agent.readLoop does (`request := &Request{}` outside its loop) - ReadMessage has to leave
// in it exactly the message of the frame, whatever the previous frame was (in particular for a frame without
// body); otherwise into a fresh value per frame, as Server.readResponse does.  The messages returned are copies.
func readAll(r agent.ByteReadReader, mk func() proto.Message, reuse bool) (msgs []proto.Message, end string, panicked string) {
	defer func() {
		if x := recover(); x != nil {
			panicked = fmt.Sprint(x)
			end = "panic"
		}
	}()
	var buf []byte
	one := mk()
	for {
		m := one
		if !reuse {
			m = mk()
		}
		err := agent.ReadMessage(&buf, r, m)
		if err != nil {
			return msgs, classify(err), ""
		}
		msgs = append(msgs, proto.Clone(m))
	}
}

type frameStream struct {
	name string
	msgs []proto.Message
	raw  []byte // hostile bytes (msgs empty)
	req  bool   // the messages are Requests (the agent's direction), not Responses
}

func reqKA(t int64) *agent.Request {
	return &agent.Request{Message: &agent.Request_Keepalive{Keepalive: &agent.KeepaliveRequest{Time: t}}}
}
func reqPoint(n int) *agent.Request {
	return &agent.Request{Message: &agent.Request_Point{Point: respPoint(n).Message.(*agent.Response_Point).Point}}
}

func respPoint(n int) *agent.Response {
	p := &agent.Point{Name: "m", Time: int64(n), Tags: map[string]string{"t": strings.Repeat("v", n)},
		FieldsInt: map[string]int64{"a": int64(n)}}
	return &agent.Response{Message: &agent.Response_Point{Point: p}}
}
func respSnap(n int) *agent.Response {
	return &agent.Response{Message: &agent.Response_Snapshot{Snapshot: &agent.SnapshotResponse{Snapshot: snapshotBytes(n, nil, n)}}}
}
func respKA(t int64) *agent.Response {
	return &agent.Response{Message: &agent.Response_Keepalive{Keepalive: &agent.KeepaliveResponse{Time: t}}}
}

func varint(x uint64) []byte {
	b := make([]byte, binary.MaxVarintLen64)
	return b[:binary.PutUvarint(b, x)]
}

// RunFrame enumerates streams x fragmentations x reader wirings.
func RunFrame(r *rt.Run) error {
	t := r.NewTrace("frame")
	mkResp := func() proto.Message { return new(agent.Response) }
	mkReq := func() proto.Message { return new(agent.Request) }
	empty := &agent.Response{}
	emptyReq := &agent.Request{}
	snapReq := &agent.Request{Message: &agent.Request_Snapshot{Snapshot: &agent.SnapshotRequest{}}}
	short := []frameStream{
		{name: "ka", msgs: []proto.Message{respKA(1)}},
		{name: "empty,ka", msgs: []proto.Message{empty, respKA(1)}},
		{name: "ka,empty,ka", msgs: []proto.Message{respKA(1), empty, respKA(300)}},
		{name: "ka,ka", msgs: []proto.Message{respKA(200), respKA(1)}},
		{name: "empty,empty", msgs: []proto.Message{empty, empty}},
		{name: "point", msgs: []proto.Message{respPoint(1)}},
		// the agent's direction: empty requests (frames without body) before, between and after other requests
		{name: "req:ka,empty,snap,empty", req: true, msgs: []proto.Message{reqKA(42), emptyReq, snapReq, emptyReq}},
		{name: "req:empty,ka,empty,empty", req: true, msgs: []proto.Message{emptyReq, reqKA(1), emptyReq, emptyReq}},
	}
	medium := []frameStream{
		{name: "point,snap130,ka", msgs: []proto.Message{respPoint(3), respSnap(130), respKA(1)}}, // 2-byte header
		{name: "snap127,snap128", msgs: []proto.Message{respSnap(100), respSnap(101), respSnap(102)}},
		{name: "points", msgs: []proto.Message{respPoint(1), respPoint(120), respPoint(2), empty, respPoint(130)}},
		{name: "req:point,empty,point,empty,ka,empty", req: true, msgs: []proto.Message{reqPoint(3), emptyReq, reqPoint(130), emptyReq, reqKA(7), emptyReq}},
	}
	long := []frameStream{
		{name: "snap20000", msgs: []proto.Message{respKA(1), respSnap(20000), respPoint(5)}}, // 3-byte header
	}
	if r.Thorough() {
		medium = append(medium,
			frameStream{name: "snap16383..16385", msgs: []proto.Message{respSnap(16350), respSnap(16360), respSnap(16370)}},
		)
		long = append(long, frameStream{name: "snap70000", msgs: []proto.Message{respSnap(70000), respKA(2), respSnap(300)}})
	}
	hostile := []frameStream{
		{name: "len 2^31", raw: append(varint(1<<31), 1, 2, 3)},
		{name: "len 2^62", raw: varint(1 << 62)},
		{name: "len 2^35 after a good frame", raw: append(append([]byte{0}, varint(1<<35)...), 7)},
		{name: "header of 10 continuation bytes", raw: bytes.Repeat([]byte{0x80}, 11)},
		{name: "header cut after continuation bytes", raw: []byte{0x80, 0x80}},
		{name: "announces 5 bytes, has 2", raw: []byte{5, 1, 2}},
	}

	wirings := []string{"bufio", "bufio16", "raw"}
	nRun := 0
	isReq := false
	runOne := func(data []byte, cuts []int, wiring string, want []proto.Message) rt.M {
		nRun++
		reuse := nRun%2 == 0 // both decoding disciplines over all the splits and wirings
		mk := mkResp
		if isReq {
			mk = mkReq
		}
		sr := &sliceReader{data: append([]byte(nil), data...), cuts: append([]int(nil), cuts...)}
		var rd agent.ByteReadReader
		switch wiring {
		case "bufio":
			rd = bufio.NewReader(sr) // production: UDFSocket.Open, UDFProcess.Open, agent.readLoop
		case "bufio16":
			rd = bufio.NewReaderSize(sr, 16) // payloads larger than the buffer are read directly from the pipe
		default:
			rd = sr
		}
		got, end, pan := readAll(rd, mk, reuse)
		eq := len(got) <= len(want) || want == nil // hostile streams: nothing to compare with
		for i := range got {
			if i < len(want) && !proto.Equal(got[i], want[i]) {
				eq = false
			}
		}
		m := rt.M{"cuts": intsI(cuts), "wiring": wiring, "n": len(got), "eq": eq, "end": end, "decode": map[bool]string{true: "reused", false: "fresh"}[reuse]}
		if pan != "" {
			m["panic"] = pan
		}
		return m
	}
	encode := func(fs frameStream) ([]byte, []int) {
		if fs.raw != nil {
			return fs.raw, nil
		}
		var bb bytes.Buffer
		var lens []int
		for _, m := range fs.msgs {
			if err := agent.WriteMessage(m, &bb); err != nil {
				rt.Fatalf("c19frame: WriteMessage: %v", err)
			}
			lens = append(lens, proto.Size(m))
		}
		return bb.Bytes(), lens
	}
	begin := func(fs frameStream, data []byte, lens []int, closedAt int) {
		isReq = fs.req
		nRun = 0
		t.Reset(rt.M{"mode": "frame"})
		t.Event("Stream", rt.M{"name": fs.name, "bytes": ints(data[:closedAt]), "lens": intsI(lens), "whole": closedAt == len(data), "hostile": fs.raw != nil})
	}
	splits := 0
	// (a) short streams: every split into fragments, every wiring; and every prefix (the peer closes early)
	maxAll := 13
	if r.Thorough() {
		maxAll = 16
	}
	for _, fs := range short {
		data, lens := encode(fs)
		for closedAt := len(data); closedAt >= 0; closedAt-- {
			begin(fs, data, lens, closedAt)
			d := data[:closedAt]
			n := len(d)
			switch {
			case n == 0:
				t.Event("Split", runOne(d, nil, "bufio", fs.msgs))
				splits++
			case n-1 <= maxAll:
				for mask := 0; mask < 1<<(n-1); mask++ {
					var cuts []int
					last := 0
					for i := 1; i < n; i++ {
						if mask&(1<<(i-1)) != 0 {
							cuts = append(cuts, i-last)
							last = i
						}
					}
					if n <= 8 {
						for _, w := range wirings {
							t.Event("Split", runOne(d, cuts, w, fs.msgs))
							splits++
						}
					} else {
						t.Event("Split", runOne(d, cuts, wirings[mask%len(wirings)], fs.msgs))
						splits++
					}
				}
			default:
				ones := make([]int, n)
				for i := range ones {
					ones[i] = 1
				}
				for _, w := range wirings {
					t.Event("Split", runOne(d, nil, w, fs.msgs))
					t.Event("Split", runOne(d, ones, w, fs.msgs))
					splits += 2
				}
			}
			t.Distinct(fmt.Sprintf("%s/%d", fs.name, closedAt))
		}
	}
	// (b) medium streams: every position of a single cut, uniform fragment sizes, seeded random splits
	nRand := 40
	if r.Thorough() {
		nRand = 400
	}
	randCuts := func(n int) []int {
		var cuts []int
		left := n
		for left > 0 {
			var k int
			switch r.Rand.Intn(4) {
			case 0:
				k = 1
			case 1:
				k = 1 + r.Rand.Intn(4)
			case 2:
				k = 1 + r.Rand.Intn(40)
			default:
				k = 1 + r.Rand.Intn(n)
			}
			if k > left {
				k = left
			}
			cuts = append(cuts, k)
			left -= k
		}
		return cuts
	}
	uniform := func(n, k int) []int {
		var cuts []int
		for left := n; left > 0; left -= k {
			if left < k {
				cuts = append(cuts, left)
			} else {
				cuts = append(cuts, k)
			}
		}
		return cuts
	}
	for _, fs := range append(medium, long...) {
		data, lens := encode(fs)
		begin(fs, data, lens, len(data))
		n := len(data)
		isLong := n > 5000
		if !isLong {
			for pos := 1; pos < n; pos++ {
				t.Event("Split", runOne(data, []int{pos}, wirings[pos%3], fs.msgs))
				splits++
			}
		}
		for _, k := range []int{1, 2, 3, 5, 7, 15, 16, 17, 127, 128, 4095, 4096, 4097} {
			for _, w := range wirings {
				t.Event("Split", runOne(data, uniform(n, k), w, fs.msgs))
				splits++
			}
		}
		for i := 0; i < nRand; i++ {
			t.Event("Split", runOne(data, randCuts(n), wirings[i%3], fs.msgs))
			splits++
		}
		t.Distinct(fs.name)
		// the peer closes early at seeded positions
		for i := 0; i < 6; i++ {
			at := r.Rand.Intn(n)
			begin(fs, data, lens, at)
			t.Event("Split", runOne(data[:at], randCuts(at), wirings[i%3], fs.msgs))
			splits++
		}
	}
	// (c) hostile headers
	for _, fs := range hostile {
		data, _ := encode(fs)
		begin(fs, data, nil, len(data))
		for _, w := range wirings {
			t.Event("Split", runOne(data, nil, w, nil))
			ones := make([]int, len(data))
			for i := range ones {
				ones[i] = 1
			}
			t.Event("Split", runOne(data, ones, w, nil))
			splits += 2
		}
		t.Distinct(fs.name)
	}
	r.Extra["frame_splits"] = splits
	r.Extra["frame_streams"] = len(short) + len(medium) + len(long) + len(hostile)
	r.Finish("byte streams written by agent.WriteMessage (1-, 2- and 3-byte length headers, empty messages) read back by agent.ReadMessage through bufio(4096), bufio(16) and a raw ByteReadReader: every split of every short stream and of each of its prefixes (early close), every single-cut position, uniform fragment sizes and seeded random splits of longer streams; hostile headers (size >= 2^31, 10 continuation bytes); distinct by stream and close position", true)
	return nil
}
