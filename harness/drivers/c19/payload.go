package c19

import (
	"fmt"
	"math"
	"time"

	"github.com/influxdata/kapacitor/edge"
	"github.com/influxdata/kapacitor/models"
)

// Payload classes (DESIGN.md C19: "as in C18"): every field type incl. integers beyond 2^53 and
// floats no decimal rendering keeps, strings with the characters line protocol has to escape, empty
// tag sets, every group shape, times at the edges of the int64 nanosecond range, batches of 0..3 points.

var (
	tTyp  = time.Date(2020, 1, 6, 0, 0, 1, 123456789, time.UTC)
	tZero = time.Unix(0, 0).UTC()
	tNeg  = time.Date(1960, 2, 3, 4, 5, 6, 7, time.UTC)
	tMax  = time.Unix(0, math.MaxInt64).UTC()
	tMin  = time.Unix(0, math.MinInt64+1).UTC()
	// the same instant in another zone: the boundary carries instants, not zones
	tZone = time.Date(2020, 1, 6, 5, 0, 1, 0, time.FixedZone("x", 5*3600))
)

var trickyStrings = []string{"", "plain", `quo"te`, "com,ma", "sp ace", "new\nline", "ünïcödé ☃ 日本", `back\slash`, "eq=ual", "tab\there", "nul\x00byte", " lead"}

type fieldClass struct {
	name string
	f    models.Fields
}

func fieldClasses() []fieldClass {
	out := []fieldClass{
		{"int", models.Fields{"v": int64(42)}},
		{"int0", models.Fields{"v": int64(0)}},
		{"int2^53+1", models.Fields{"v": int64(9007199254740993)}},
		{"intmax", models.Fields{"v": int64(math.MaxInt64)}},
		{"intmin", models.Fields{"v": int64(math.MinInt64)}},
		{"float", models.Fields{"v": 1.5}},
		{"float-0", models.Fields{"v": math.Copysign(0, -1)}},
		{"float0.1", models.Fields{"v": 0.1}},
		{"floatmax", models.Fields{"v": math.MaxFloat64}},
		{"floatdenorm", models.Fields{"v": math.SmallestNonzeroFloat64}},
		{"floatint", models.Fields{"v": 9007199254740992.0}},
		{"float+inf", models.Fields{"v": math.Inf(1)}},
		{"floatnan", models.Fields{"v": math.NaN()}},
		{"true", models.Fields{"v": true}},
		{"false", models.Fields{"v": false}},
		{"alltypes", models.Fields{"i": int64(-7), "f": -2.25, "b": true, "s": "x", "i2": int64(1), "f2": 3.0, "b2": false, "s2": ""}},
		{"names", models.Fields{"a b": int64(1), "c,d": 2.0, "e=f": "g", `h"i`: true, "ü": int64(2), "": int64(3)}},
		{"many", func() models.Fields {
			f := models.Fields{}
			for i := 0; i < 40; i++ {
				switch i % 4 {
				case 0:
					f[fmt.Sprintf("f%02d", i)] = int64(i)
				case 1:
					f[fmt.Sprintf("f%02d", i)] = float64(i) / 8
				case 2:
					f[fmt.Sprintf("f%02d", i)] = i%8 == 2
				default:
					f[fmt.Sprintf("f%02d", i)] = trickyStrings[i%len(trickyStrings)]
				}
			}
			return f
		}()},
		{"nofields", models.Fields{}},
		{"nilfields", nil},
	}
	for i, s := range trickyStrings {
		out = append(out, fieldClass{"str" + string(rune('a'+i)), models.Fields{"v": s}})
	}
	return out
}

type groupClass struct {
	name string
	tags models.Tags
	dims models.Dimensions
}

func groupClasses() []groupClass {
	return []groupClass{
		{"notags", nil, models.Dimensions{}},
		{"emptytags", models.Tags{}, models.Dimensions{TagNames: []string{}}},
		{"tags-nogroup", models.Tags{"host": "a", "dc": "x"}, models.Dimensions{}},
		{"by1", models.Tags{"host": "a", "dc": "x"}, models.Dimensions{TagNames: []string{"host"}}},
		{"by2", models.Tags{"host": "a", "dc": "x"}, models.Dimensions{TagNames: []string{"dc", "host"}}},
		{"byname", models.Tags{"host": "a"}, models.Dimensions{ByName: true}},
		{"byname+tag", models.Tags{"host": "a"}, models.Dimensions{ByName: true, TagNames: []string{"host"}}},
		{"trickytags", models.Tags{"ho st": "a b,c=d", "q": `"x"`, "ü": "☃\n", "e": ""}, models.Dimensions{TagNames: []string{"ho st", "q"}}},
		{"by-missing-tag", models.Tags{"host": "a"}, models.Dimensions{TagNames: []string{"nosuch"}}},
	}
}

var timeClasses = []struct {
	name string
	t    time.Time
}{{"typ", tTyp}, {"epoch", tZero}, {"neg", tNeg}, {"max", tMax}, {"min", tMin}, {"zone", tZone}}

func mkPoint(name string, g groupClass, f models.Fields, t time.Time) edge.PointMessage {
	return edge.NewPointMessage(name, "db", "rp", g.dims, f, g.tags, t)
}

// pointPayloads: every field class with a typical group, every group class and time class with a typical field set.
func pointPayloads() []edge.PointMessage {
	var out []edge.PointMessage
	gs := groupClasses()
	for _, fc := range fieldClasses() {
		out = append(out, mkPoint("m", gs[3], fc.f, tTyp))
	}
	for _, g := range gs {
		out = append(out, mkPoint("cpu", g, models.Fields{"v": int64(1), "w": 2.5}, tTyp))
	}
	for _, tc := range timeClasses {
		out = append(out, mkPoint("m", gs[0], models.Fields{"v": int64(1)}, tc.t))
	}
	out = append(out,
		mkPoint("", gs[0], models.Fields{"v": int64(1)}, tTyp),
		mkPoint("me as,ure ment=\"x\"\n", gs[5], models.Fields{"v": int64(1)}, tTyp),
		edge.NewPointMessage("m", "", "", models.Dimensions{}, models.Fields{"v": 1.0}, nil, tTyp),
		edge.NewPointMessage("m", "d b", `r"p`, models.Dimensions{}, models.Fields{"v": 1.0}, nil, tTyp),
	)
	return out
}

func mkBatch(name string, tags models.Tags, byName bool, tmax time.Time, hint int, pts ...edge.BatchPointMessage) edge.BufferedBatchMessage {
	return edge.NewBufferedBatchMessage(edge.NewBeginBatchMessage(name, tags, byName, tmax, hint), pts, edge.NewEndBatchMessage())
}

func bp(f models.Fields, tags models.Tags, t time.Time) edge.BatchPointMessage {
	return edge.NewBatchPointMessage(f, tags, t)
}

// batchPayloads: sizes 0..3, group shapes, tmax classes, a size hint that is not the number of points,
// every field class inside a batch.
func batchPayloads() []edge.BufferedBatchMessage {
	fcs := fieldClasses()
	f1 := models.Fields{"v": int64(9007199254740993), "s": "a b,c"}
	f2 := models.Fields{"v": int64(2), "x": 0.1}
	f3 := models.Fields{"b": true}
	gt := models.Tags{"host": "a"}
	pt := models.Tags{"host": "a", "cpu": "0"}
	out := []edge.BufferedBatchMessage{
		mkBatch("m", nil, false, tTyp, 0),
		mkBatch("m", gt, false, tTyp, 0),
		mkBatch("m", nil, false, tTyp, 1, bp(f1, nil, tTyp)),
		mkBatch("m", gt, false, tTyp, 1, bp(f1, pt, tTyp)),
		mkBatch("m", gt, true, tTyp, 2, bp(f1, pt, tNeg), bp(f2, gt, tTyp)),
		mkBatch("m", models.Tags{"ho st": "a b,c=d", "e": ""}, true, tMax, 3, bp(f1, models.Tags{"ho st": "a b,c=d", "e": "", "z": "1"}, tZero), bp(f2, nil, tTyp), bp(f3, models.Tags{}, tMax)),
		mkBatch("m", models.Tags{}, false, tZero, 7, bp(f2, pt, tTyp)),       // size hint larger than the batch
		mkBatch("m", gt, false, tNeg, 0, bp(f2, pt, tTyp), bp(f3, pt, tTyp)), // size hint smaller than the batch
		mkBatch("", nil, true, tMin, 1, bp(f3, nil, tMin)),
		mkBatch("m", nil, false, tZone, 1, bp(f3, nil, tZone)),
	}
	// every field class as the middle point of a batch of three
	for i, fc := range fcs {
		if i%3 == 0 {
			out = append(out, mkBatch("m", gt, false, tTyp, 3, bp(f2, pt, tTyp), bp(fc.f, pt, tTyp), bp(f3, pt, tTyp)))
		}
	}
	return out
}

// badFields: field values the protocol has no representation for (they are reported and dropped, fix 8d97ccf).
func badFields() []models.Fields {
	return []models.Fields{
		{"v": int64(1), "d": time.Second},
		{"v": int64(1), "n": nil},
		{"n": nil},
		{"v": int(3)},
		{"v": float32(1)},
	}
}
