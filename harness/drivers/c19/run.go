package c19

import (
	"fmt"
	"math/rand"
	"strings"
	"sync"
	"time"

	"github.com/influxdata/kapacitor/edge"
	"github.com/influxdata/kapacitor/models"
	"github.com/influxdata/kapacitor/udf/agent"

	"kapverif/rt"
)

func init() { rt.Register("c19", Run) }

// ---- a session script: what the owner of a udf.Server does, in order ----

type op struct {
	k    string       // send | snap | restore | snapAsync | restoreAsync | await | holdFrom | releaseFrom | abort | waitOut | ticks | inject | armHold | heldInject
	m    edge.Message // send
	data []byte       // restore
	n    int          // waitOut: number of outputs to wait for; ticks: keepalive round trips to wait for
}

type script struct {
	name    string
	ops     []op
	frag    string        // fragmentation schedule of both pipes: "" | "1" | "2" | "3" | "7" | "rnd"
	timeout time.Duration // keepalive timeout (0 = none)
	pad     int
	noClone bool // the echo handler sends back the object the agent decoded (as the mirror example does)
}

// countOuts: how many messages come out of the server for these inputs (points and completed batches).
func countOuts(ms []edge.Message) int {
	n := 0
	for _, m := range ms {
		switch m.(type) {
		case edge.PointMessage, edge.BufferedBatchMessage, edge.EndBatchMessage:
			n++
		}
	}
	return n
}

// wireCount: data messages udf.Server writes for one edge message (supported field types only).
func wireCount(m edge.Message) int {
	if b, ok := m.(edge.BufferedBatchMessage); ok {
		return len(b.Points()) + 2
	}
	return 1
}

func sendOps(ms ...edge.Message) []op {
	var out []op
	for _, m := range ms {
		out = append(out, op{k: "send", m: m})
	}
	return out
}

// unbuffered returns the begin / point / end messages of a batch, as a batch edge delivers them when the
// parent does not buffer.
func unbuffered(b edge.BufferedBatchMessage) []edge.Message {
	out := []edge.Message{b.Begin()}
	for _, p := range b.Points() {
		out = append(out, p)
	}
	return append(out, b.End())
}

func fragFn(kind string, rnd *rand.Rand) func() func() int {
	switch kind {
	case "":
		return func() func() int { return nil }
	case "rnd":
		// one independent deterministic source per pipe (the pipes are read by different goroutines)
		return func() func() int {
			r := rand.New(rand.NewSource(rnd.Int63()))
			return func() int {
				switch r.Intn(3) {
				case 0:
					return 1
				case 1:
					return 1 + r.Intn(5)
				default:
					return 1 + r.Intn(200)
				}
			}
		}
	default:
		var k int
		fmt.Sscan(kind, &k)
		return func() func() int { return func() int { return k } }
	}
}

// recorder buffers the events of one session; they go to the trace file only if the session counts
// (a keepalive session in which the watchdog fired because the machine was busy is repeated, not judged).
type recorder struct {
	mu  sync.Mutex
	evs []rt.M
}

func (r *recorder) ev(name string, f rt.M) {
	r.mu.Lock()
	m := rt.M{"ev": name}
	for k, v := range f {
		m[k] = v
	}
	r.evs = append(r.evs, m)
	r.mu.Unlock()
}

func errStr(err error) string {
	if err == nil {
		return ""
	}
	return err.Error()
}

const opDeadline = 60 * time.Second

// parseSnapshot checks the bytes Snapshot() returned against the echo handler's format.
func parseSnapshot(b []byte, pad int) (seen int, restored string, padok bool) {
	s := string(b)
	parts := strings.SplitN(s, "|", 3)
	if len(parts) != 3 {
		return -1, "?", false
	}
	fmt.Sscanf(parts[0], "seen=%d", &seen)
	restored = strings.TrimPrefix(parts[1], "restored=")
	var rb []byte
	if restored != "nil" {
		rb = make([]byte, len(restored)/2)
		fmt.Sscanf(restored, "%x", &rb)
	}
	want := snapshotBytes(seen, rb, pad)
	if restored == "nil" {
		want = snapshotBytes(seen, nil, pad)
	}
	return seen, restored, string(want) == s
}

type sessionResult struct {
	spurious bool // the keepalive watchdog fired: load, not a verdict
	rec      *recorder
	ticks    int
	wire     []byte
	wireN    int
}

// runSession executes one script against a fresh real udf.Server + echo agent and records it.
func runSession(sc script, rnd *rand.Rand) (*sessionResult, error) {
	rec := &recorder{}
	ff := fragFn(sc.frag, rnd)
	var outMu sync.Mutex
	nOut := 0
	s := newSession(sessOpts{Timeout: sc.timeout, FragTo: ff(), FragFrom: ff(), Wants: agent.EdgeType_STREAM, Provides: agent.EdgeType_STREAM,
		Pad: sc.pad, NoClone: sc.noClone, OnOut: func(m edge.Message) {
			rec.ev("Out", rt.M{"item": encMsg(m)})
			outMu.Lock()
			nOut++
			outMu.Unlock()
		}})
	res := &sessionResult{rec: rec}
	hung := false
	call := func(kind string, data []byte, f func() (rt.M, error)) {
		rec.ev("Call", rt.M{"kind": kind, "data": fmt.Sprintf("%x", data)})
		type ret struct {
			extra rt.M
			err   error
		}
		c := make(chan ret, 1)
		go func() { e, err := f(); c <- ret{e, err} }()
		select {
		case x := <-c:
			m := rt.M{"kind": kind, "err": errStr(x.err)}
			for k, v := range x.extra {
				m[k] = v
			}
			rec.ev("Ret", m)
		case <-time.After(opDeadline):
			rec.ev("CallHang", rt.M{"kind": kind}) // no action of the specification explains this line
			hung = true
		}
	}
	snap := func() (rt.M, error) {
		b, err := s.srv.Snapshot()
		if err != nil {
			return nil, err
		}
		seen, restored, padok := parseSnapshot(b, sc.pad)
		return rt.M{"seen": seen, "restored": restored, "padok": padok}, nil
	}
	call("init", nil, func() (rt.M, error) { return nil, s.srv.Init(nil) })
	var pending chan struct{}
	aborted := false
	wireSent := 0 // data messages put on the wire by the sends so far
	for _, o := range sc.ops {
		if hung {
			return res, nil
		}
		switch o.k {
		case "send":
			if aborted {
				continue // UDFNode's input goroutine has returned: nothing is offered any more
			}
			rec.ev("Send", rt.M{"item": encMsg(o.m)})
			ok, err := s.send(o.m, opDeadline)
			if err != nil {
				rec.ev("SendHang", nil) // no action of the specification explains this line
				return res, nil
			}
			rec.ev("Sent", rt.M{"ok": ok})
			if !ok {
				aborted = true
			} else {
				wireSent += wireCount(o.m)
			}
		case "snap":
			call("snapshot", nil, snap)
		case "restore":
			d := o.data
			call("restore", d, func() (rt.M, error) { return nil, s.srv.Restore(d) })
		case "snapAsync", "restoreAsync":
			pending = make(chan struct{})
			reached := make(chan struct{}, 1)
			s.h.mu.Lock()
			s.h.onReq = func(string) {
				select {
				case reached <- struct{}{}:
				default:
				}
			}
			s.h.mu.Unlock()
			d := o.data
			kind := o.k
			go func(done chan struct{}) {
				defer close(done)
				if kind == "snapAsync" {
					call("snapshot", nil, snap)
				} else {
					call("restore", d, func() (rt.M, error) { return nil, s.srv.Restore(d) })
				}
			}(pending)
			// the request is on the wire and the peer has answered it before the script goes on: the position
			// of the request among the data is then exactly the script's
			select {
			case <-reached:
			case <-pending:
			case <-time.After(opDeadline):
				rec.ev("CallHang", nil)
				return res, nil
			}
		case "await":
			if pending != nil {
				select {
				case <-pending:
				case <-time.After(opDeadline):
					rec.ev("CallHang", nil)
					return res, nil
				}
				pending = nil
			}
		case "inject":
			// a request of the driver's own between two frames of the server: "empty" (one byte 0x00) or "keepalive"
			rec.ev("Inject", rt.M{"kind": string(o.data)})
			s.inject(string(o.data))
		case "armHold":
			// the header write of the agent's NEXT response frame will be held (bytes in the pipe, call not returning);
			// first the agent must have dealt with everything sent so far
			start := time.Now()
			for s.h.seenCount() < wireSent {
				if time.Since(start) > opDeadline {
					return res, fmt.Errorf("the agent saw %d of %d data messages", s.h.seenCount(), wireSent)
				}
				time.Sleep(100 * time.Microsecond)
			}
			s.out.holdHeaderOfNext(s.h.handed() + s.strayKA)
		case "heldInject":
			// ... and while the agent's writer sits between header and body of that response, a keepalive request is
			// delivered.  The writer is released once the agent has dealt with the request as far as it can: either
			// somebody else wrote to the agent's output meanwhile, or the read loop is parked handing the keepalive
			// response to the (busy) single writer.  Gates only; a gate that does not open is a harness error.
			if !s.out.waitHolding(opDeadline) {
				return res, fmt.Errorf("the agent never started to write the response whose header was to be held")
			}
			rec.ev("Inject", rt.M{"kind": "keepalive"})
			s.inject("keepalive")
			start := time.Now()
			for s.out.othersWhileHeld() == 0 && !readLoopParked() {
				if time.Since(start) > opDeadline {
					s.out.release()
					return res, fmt.Errorf("the agent neither wrote nor parked after the keepalive request")
				}
				time.Sleep(100 * time.Microsecond)
			}
			rec.ev("Note", rt.M{"what": "agent writer released", "writes_while_held": s.out.othersWhileHeld()})
			s.out.release()
		case "holdFrom":
			s.fromAgent.Hold()
			rec.ev("Note", rt.M{"what": "responses held back"})
		case "releaseFrom":
			s.fromAgent.Release()
			rec.ev("Note", rt.M{"what": "responses released"})
		case "abort":
			rec.ev("Abort", nil)
			s.srv.Abort(fmt.Errorf("owner abort"))
			aborted = true
		case "waitOut":
			// until n outputs were seen - or the server has aborted (then nothing more will come; the rest of the
			// script runs as it would below a UDF node whose UDF is gone)
			start := time.Now()
			got := 0
			for {
				outMu.Lock()
				got = nOut
				outMu.Unlock()
				if got >= o.n || isAborted(s) || time.Since(start) > opDeadline {
					break
				}
				time.Sleep(200 * time.Microsecond)
			}
			if got < o.n && !isAborted(s) {
				rec.ev("OutMissing", rt.M{"have": got, "want": o.n})
				return res, nil
			}
		case "ticks":
			// wait until the peer has answered n keepalive requests (counted on the wire, not by the clock)
			start := time.Now()
			for s.keepalives() < o.n {
				if time.Since(start) > opDeadline {
					return res, fmt.Errorf("no keepalive round trip within %v", opDeadline)
				}
				time.Sleep(time.Millisecond)
				if isAborted(s) {
					break
				}
			}
		}
	}
	if pending != nil {
		select {
		case <-pending:
		case <-time.After(opDeadline):
			rec.ev("CallHang", nil)
			return res, nil
		}
	}
	_ = aborted
	rec.ev("PumpDone", nil)
	rec.ev("StopCall", nil)
	done := make(chan error, 1)
	go func() { done <- s.srv.Stop() }()
	select {
	case err := <-done:
		rec.ev("StopRet", rt.M{"err": errStr(err)})
	case <-time.After(opDeadline):
		rec.ev("StopHang", nil)
		return res, nil
	}
	select {
	case <-s.outClosed:
		rec.ev("OutClosed", nil)
	case <-time.After(opDeadline):
		rec.ev("OutNotClosed", nil)
		return res, nil
	}
	// the peer has seen EOF by now or will in a moment; its handler is quiescent once Wait returns
	select {
	case <-s.agentDone:
	case <-time.After(opDeadline):
		return res, fmt.Errorf("the agent did not finish")
	}
	var saw []any
	for _, m := range s.h.Saw() {
		saw = append(saw, encWire(m))
	}
	rec.ev("AgentSaw", rt.M{"msgs": saw})
	dropped := false
	for _, e := range s.diag.Errors() {
		if strings.Contains(e, "keepalive timedout") {
			res.spurious = true
		}
		if strings.Contains(e, "dropping") {
			dropped = true
		}
	}
	rec.ev("Diag", rt.M{"dropped": dropped, "errors": strsAny(s.diag.Errors())})
	res.ticks = s.keepalives()
	// the agent -> server byte stream as a whole: whole frames, as many as responses were handed to the agent's
	// writer (unknown when the server's own keepalive timer ran)
	res.wire = s.fromAgent.Written()
	res.wireN = s.h.handed() + s.strayKA
	if sc.timeout > 0 {
		res.wireN = -1
	}
	return res, nil
}

func strsAny(s []string) []any {
	out := make([]any, 0, len(s))
	for _, x := range s {
		out = append(out, x)
	}
	return out
}

func emit(t *rt.Trace, sc script, rec *recorder) {
	t.Reset(rt.M{"mode": "proto", "name": sc.name, "frag": sc.frag, "keepalive": sc.timeout > 0})
	for _, e := range rec.evs {
		name := e["ev"].(string)
		delete(e, "ev")
		t.Event(name, e)
	}
}

// Run: B1 (systematic payloads and short sequences) and B3 (scripted interleavings of data, snapshot /
// restore calls, held-back responses, keepalives, aborts) on the real udf.Server.
func Run(r *rt.Run) error {
	t := r.NewTrace("proto")
	tw := r.NewTrace("wire")
	var scripts []script
	frags := []string{"", "1", "2", "3", "7", "rnd"}
	add := func(sc script) { scripts = append(scripts, sc) }

	pts := pointPayloads()
	bts := batchPayloads()
	// (1) every payload class on its own, buffered and unbuffered batches, rotating fragmentations
	for i, p := range pts {
		add(script{name: fmt.Sprintf("point%d", i), ops: sendOps(p), frag: frags[i%len(frags)]})
	}
	for i, b := range bts {
		add(script{name: fmt.Sprintf("batch%d", i), ops: sendOps(b), frag: frags[(i+1)%len(frags)]})
		add(script{name: fmt.Sprintf("ubatch%d", i), ops: sendOps(unbuffered(b)...), frag: frags[(i+2)%len(frags)]})
	}
	for i, f := range badFields() {
		g := groupClasses()[3]
		add(script{name: fmt.Sprintf("badpoint%d", i), frag: frags[i%len(frags)],
			ops: sendOps(mkPoint("m", g, models.Fields{"k": int64(1)}, tTyp), mkPoint("m", g, f, tTyp), mkPoint("m", g, models.Fields{"k": int64(3)}, tTyp))})
		add(script{name: fmt.Sprintf("badbatch%d", i), frag: frags[(i+3)%len(frags)],
			ops: sendOps(mkBatch("m", g.tags, false, tTyp, 3, bp(models.Fields{"k": int64(1)}, g.tags, tTyp), bp(f, g.tags, tTyp), bp(models.Fields{"k": int64(3)}, g.tags, tTyp)))})
	}
	// (2) every sequence of up to maxLen items over an alphabet of shapes
	alpha := []func(k int) []edge.Message{
		func(k int) []edge.Message { return []edge.Message{pts[(k*7)%len(pts)]} },
		func(k int) []edge.Message { return []edge.Message{bts[0]} },       // empty batch
		func(k int) []edge.Message { return []edge.Message{bts[4+(k%2)]} }, // batch of 2 / 3
		func(k int) []edge.Message { return unbuffered(bts[4]) },           // unbuffered batch of 2
		func(k int) []edge.Message {
			return []edge.Message{mkPoint("m", groupClasses()[0], badFields()[k%2], tTyp)}
		}, // dropped
	}
	maxLen := 2
	if r.Thorough() {
		maxLen = 3
	}
	var rec func(seq []int)
	nSeq := 0
	rec = func(seq []int) {
		if len(seq) > 0 {
			var ms []edge.Message
			for k, a := range seq {
				ms = append(ms, alpha[a](k+nSeq)...)
			}
			add(script{name: fmt.Sprintf("seq%v", seq), ops: sendOps(ms...), frag: frags[nSeq%len(frags)]})
			nSeq++
		}
		if len(seq) == maxLen {
			return
		}
		for a := range alpha {
			rec(append(append([]int(nil), seq...), a))
		}
	}
	rec(nil)
	// (3) snapshot / restore at every position of a mixed sequence (also between Begin and End of an
	// unbuffered batch), synchronously: the snapshot must report exactly the data sent before it
	mixed := append([]edge.Message{pts[2]}, unbuffered(bts[4])...)
	mixed = append(mixed, bts[3], pts[15])
	for pos := 0; pos <= len(mixed); pos++ {
		for _, variant := range []string{"snap", "restore+snap", "snap+restore+snap"} {
			var ops []op
			ops = append(ops, sendOps(mixed[:pos]...)...)
			switch variant {
			case "snap":
				ops = append(ops, op{k: "snap"})
			case "restore+snap":
				ops = append(ops, op{k: "restore", data: []byte{0, 1, 0x80, 0xff, byte(pos)}}, op{k: "snap"})
			default:
				ops = append(ops, op{k: "snap"}, op{k: "restore", data: []byte("state" + fmt.Sprint(pos))}, op{k: "snap"})
			}
			ops = append(ops, sendOps(mixed[pos:]...)...)
			ops = append(ops, op{k: "snap"})
			pad := []int{0, 150, 20000}[pos%3]
			add(script{name: fmt.Sprintf("%s@%d", variant, pos), ops: ops, frag: frags[(pos+len(variant))%len(frags)], pad: pad})
		}
	}
	// (4) responses held back while data and a request go out, then released: the response of the request is
	// queued behind the echoes of everything sent before it
	for pos := 0; pos <= 3; pos++ {
		for _, async := range []string{"snapAsync", "restoreAsync"} {
			seq := []edge.Message{pts[0], bts[3], pts[1]}
			var ops []op
			ops = append(ops, op{k: "holdFrom"})
			ops = append(ops, sendOps(seq[:pos]...)...)
			ops = append(ops, op{k: async, data: []byte("held")})
			ops = append(ops, sendOps(seq[pos:]...)...)
			ops = append(ops, op{k: "releaseFrom"}, op{k: "await"}, op{k: "snap"})
			add(script{name: fmt.Sprintf("held-%s@%d", async, pos), ops: ops, frag: frags[(pos+2)%len(frags)], pad: 300})
		}
	}
	// (4b) requests udf.Server never writes, between its frames: an empty request (a frame without body; the agent
	// decodes every frame into one reused Request value) and an extra keepalive request, at every position of a
	// mixed sequence incl. inside an unbuffered batch - the agent must ignore the one and answer the other, with no
	// effect on the data
	for pos := 0; pos <= len(mixed); pos++ {
		for vi, kinds := range [][]string{{"empty"}, {"keepalive"}, {"empty", "empty", "keepalive", "empty"}} {
			if vi == 2 && pos%2 == 1 {
				continue
			}
			var ops []op
			ops = append(ops, sendOps(mixed[:pos]...)...)
			for _, k := range kinds {
				ops = append(ops, op{k: "inject", data: []byte(k)})
			}
			ops = append(ops, sendOps(mixed[pos:]...)...)
			ops = append(ops, op{k: "inject", data: []byte("empty")}, op{k: "snap"})
			add(script{name: fmt.Sprintf("stray%d@%d", vi, pos), ops: ops, frag: frags[(pos+vi)%len(frags)], pad: 10 * pos})
		}
	}
	// (4c) a keepalive request delivered while the agent's writer is between the header and the body of a response
	// (held there by the pipe): echo of a point, of Begin / batch point / End, response of a snapshot request.
	// The agent has one writer: the keepalive response must come after the whole frame.
	ub := unbuffered(bts[4])
	heldCases := []struct {
		name   string
		before []edge.Message
		held   []op
		after  []edge.Message
	}{
		{"point", []edge.Message{pts[0]}, sendOps(pts[2]), []edge.Message{pts[1]}},
		{"first", nil, sendOps(pts[15]), []edge.Message{bts[3]}},
		{"begin", []edge.Message{pts[0]}, sendOps(ub[0]), ub[1:]},
		{"batchpoint", ub[:1], sendOps(ub[1]), ub[2:]},
		{"end", ub[:3], sendOps(ub[3]), []edge.Message{pts[1]}},
		{"snapshot", []edge.Message{pts[0]}, []op{{k: "snapAsync"}}, []edge.Message{pts[1]}},
	}
	for i, hc := range heldCases {
		var ops []op
		ops = append(ops, sendOps(hc.before...)...)
		ops = append(ops, op{k: "waitOut", n: countOuts(hc.before)}, op{k: "armHold"})
		ops = append(ops, hc.held...)
		ops = append(ops, op{k: "heldInject"}, op{k: "await"})
		ops = append(ops, sendOps(hc.after...)...)
		ops = append(ops, op{k: "snap"})
		add(script{name: "heldhdr-" + hc.name, ops: ops, frag: frags[i%len(frags)], pad: 40})
	}
	// (5) owner abort at every position (outputs are a prefix; Stop returns the abort error; nothing hangs)
	for pos := 0; pos <= 3; pos++ {
		seq := []edge.Message{pts[0], bts[4], pts[1]}
		var ops []op
		ops = append(ops, sendOps(seq[:pos]...)...)
		if pos%2 == 1 {
			ops = append(ops, op{k: "waitOut", n: pos})
		}
		ops = append(ops, op{k: "abort"})
		add(script{name: fmt.Sprintf("abort@%d", pos), ops: ops, frag: frags[pos%len(frags)]})
	}
	// (6) keepalives between and during data; the watchdog must not fire while the peer answers
	nKA := 4
	if r.Thorough() {
		nKA = 16
	}
	for i := 0; i < nKA; i++ {
		seq := []edge.Message{pts[i%len(pts)], bts[(3+i)%len(bts)], pts[(i+9)%len(pts)]}
		var ops []op
		ops = append(ops, op{k: "ticks", n: 1})
		ops = append(ops, sendOps(seq[0])...)
		ops = append(ops, op{k: "snap"}, op{k: "ticks", n: 2})
		ops = append(ops, sendOps(unbuffered(bts[4])[:2]...)...)
		ops = append(ops, op{k: "ticks", n: 3})
		ops = append(ops, sendOps(unbuffered(bts[4])[2:]...)...)
		ops = append(ops, sendOps(seq[1:]...)...)
		ops = append(ops, op{k: "restore", data: []byte("ka")}, op{k: "snap"})
		add(script{name: fmt.Sprintf("keepalive%d", i), ops: ops, frag: frags[i%len(frags)], timeout: 400 * time.Millisecond, pad: 100})
	}
	// (7) seeded long sessions: random payloads, shapes, requests and fragmentations
	nLong := 12
	if r.Thorough() {
		nLong = 150
	}
	for i := 0; i < nLong; i++ {
		var ops []op
		n := 10 + r.Rand.Intn(20)
		sent := 0
		for k := 0; k < n; k++ {
			switch x := r.Rand.Intn(20); {
			case x < 8:
				ops = append(ops, sendOps(pts[r.Rand.Intn(len(pts))])...)
				sent++
			case x < 11:
				ops = append(ops, sendOps(bts[r.Rand.Intn(len(bts))])...)
				sent++
			case x < 13:
				ops = append(ops, sendOps(unbuffered(bts[r.Rand.Intn(len(bts))])...)...)
				sent++
			case x < 14:
				ops = append(ops, sendOps(mkPoint("m", groupClasses()[1], badFields()[r.Rand.Intn(len(badFields()))], tTyp))...)
			case x < 17:
				ops = append(ops, op{k: "snap"})
			case x < 19:
				d := make([]byte, r.Rand.Intn(300))
				r.Rand.Read(d)
				ops = append(ops, op{k: "restore", data: d})
			default:
				ops = append(ops, op{k: "waitOut", n: sent})
			}
			if k%5 == 4 {
				ops = append(ops, op{k: "waitOut", n: sent}) // bound what is in flight (keeps the validation cheap)
			}
		}
		add(script{name: fmt.Sprintf("long%d", i), ops: ops, frag: []string{"rnd", "1", "rnd", "7"}[i%4], pad: r.Rand.Intn(400)})
	}

	spurious, ticks := 0, 0
	for i, sc := range scripts {
		sc.noClone = i%2 == 1
		var res *sessionResult
		for attempt := 0; ; attempt++ {
			var err error
			res, err = runSession(sc, r.Rand)
			if err != nil {
				return fmt.Errorf("session %s: %w", sc.name, err)
			}
			if !res.spurious {
				break
			}
			// the keepalive watchdog fired although the peer answers: the machine is busy - repeat with a longer timeout
			spurious++
			if attempt == 4 {
				return fmt.Errorf("session %s: keepalive watchdog fired in 5 attempts (last timeout %v): machine too busy", sc.name, sc.timeout)
			}
			sc.timeout *= 3
		}
		ticks += res.ticks
		emit(t, sc, res.rec)
		t.Distinct(sc.name)
		if res.wire != nil {
			tw.Reset(rt.M{"mode": "frame", "name": sc.name})
			tw.Event("Wire", rt.M{"bytes": ints(res.wire), "n": res.wireN})
		}
	}
	r.Extra["proto_sessions"] = len(scripts)
	r.Extra["keepalive_round_trips"] = ticks
	r.Extra["keepalive_sessions_repeated_for_load"] = spurious
	r.Finish("sessions of the real udf.Server over fragmenting in-memory pipes (whole, 1-, 2-, 3-, 7-byte and seeded random fragments in both directions) with an echo agent built on udf/agent: every payload class alone (every field type incl. ints beyond 2^53, -0, NaN, Inf, denormals; tricky strings; empty tag sets; every group shape; times at the edges of the int64 range; batches of 0..3 points buffered and unbuffered; unsupported field types), every sequence of item shapes up to the length bound, snapshot/restore at every position incl. inside a batch, requests whose responses are held back behind data, owner aborts at every position, keepalive round trips between and inside batches, seeded long sessions; distinct by script", false)
	return nil
}
