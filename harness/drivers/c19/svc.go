package c19

import (
	"errors"
	"io"
	"sync"
	"time"

	"github.com/influxdata/kapacitor"
	"github.com/influxdata/kapacitor/command"
	"github.com/influxdata/kapacitor/udf"
	"github.com/influxdata/kapacitor/udf/agent"
)

// In-process UDFService for rt.Env (TaskMaster.UDFService): `@echo()` is a stream->stream UDF,
// `@echoBatch()` a batch->batch one.  Create returns the real kapacitor.UDFSocket (udf.Interface) whose
// Socket is a pair of fragmenting pipes to the real Go agent with the echo handler: the production
// path UDFNode -> UDFSocket -> udf.Server -> bytes -> udf/agent.Agent -> Handler.

type pipeSocket struct {
	svc       *udfService
	wants     agent.EdgeType
	provides  agent.EdgeType
	toAgent   *fragPipe
	fromAgent *fragPipe
	out       *agentOut
	ag        *agent.Agent
	h         *echoHandler
	raw       *rawPeer
	agentDone chan struct{}
}

func (s *pipeSocket) Open() error {
	if g := s.svc.openGate; g != nil {
		<-g // the socket of the UDF is not there yet (kapacitor retries the connection for up to 5 minutes)
	}
	s.toAgent = newFragPipe(s.svc.frag())
	s.fromAgent = newFragPipe(s.svc.frag())
	s.out = &agentOut{p: s.fromAgent}
	s.out.cond = sync.NewCond(&s.out.mu)
	if s.svc.reqFault != nil {
		// a peer that answers one request wrongly cannot be built on the agent library
		s.raw = newRawPeer(s.toAgent, s.out, s.svc.reqFault, s.svc.pad)
		s.agentDone = s.raw.done
		s.svc.mu.Lock()
		s.svc.socks = append(s.svc.socks, s)
		s.svc.mu.Unlock()
		return nil
	}
	s.ag = agent.New(s.toAgent, s.out)
	s.h = &echoHandler{a: s.ag, pad: s.svc.pad, wants: s.wants, provides: s.provides, fault: s.svc.fault}
	s.h.raw = func(b []byte) { s.out.afterFrames(s.h.handed(), func() { s.fromAgent.Write(b) }) }
	// early close = the peer process is gone: both directions
	s.h.closeFn = func() { s.out.afterFrames(s.h.handed(), func() { s.fromAgent.Close() }); s.toAgent.Break() }
	s.ag.Handler = s.h
	if err := s.ag.Start(); err != nil {
		return err
	}
	s.agentDone = make(chan struct{})
	go func() { _ = s.ag.Wait(); close(s.agentDone) }()
	s.svc.mu.Lock()
	s.svc.socks = append(s.svc.socks, s)
	s.svc.mu.Unlock()
	return nil
}

func (s *pipeSocket) Close() error {
	s.toAgent.Close()
	s.fromAgent.Close()
	return nil
}
func (s *pipeSocket) In() io.WriteCloser { return s.toAgent }
func (s *pipeSocket) Out() io.Reader     { return s.fromAgent }

type udfService struct {
	mu       sync.Mutex
	frag     func() func() int // a fresh fragmentation schedule per pipe
	pad      int
	fault    *faultSpec
	reqFault *reqFault
	timeout  time.Duration
	// openGate, when set, blocks Socket.Open until it is closed
	openGate chan struct{}
	socks    []*pipeSocket
	udfs     []udf.Interface
}

var udfInfos = map[string]udf.Info{
	"echo":      {Wants: agent.EdgeType_STREAM, Provides: agent.EdgeType_STREAM, Options: map[string]*agent.OptionInfo{}},
	"echoBatch": {Wants: agent.EdgeType_BATCH, Provides: agent.EdgeType_BATCH, Options: map[string]*agent.OptionInfo{}},
	// the same echo agent as a "process": kapacitor.UDFProcess over a fake command.Commander
	"echoProc": {Wants: agent.EdgeType_STREAM, Provides: agent.EdgeType_STREAM, Options: map[string]*agent.OptionInfo{}},
}

// fakeCmd is the command.Command of the in-process "UDF process": stdin/stdout are the two pipes of a
// pipeSocket, stderr says one line and ends when the agent ends, Wait returns when the agent has finished
// (a process exits after EOF on its stdin), Kill breaks the pipes.
type fakeCmd struct {
	sock   *pipeSocket
	stderr *fragPipe
	done   chan struct{}
}

func (c *fakeCmd) Start() error {
	c.stderr = newFragPipe(nil)
	c.done = make(chan struct{})
	if err := c.sock.Open(); err != nil {
		return err
	}
	c.stderr.Write([]byte("echo agent started\n"))
	go func() {
		<-c.sock.agentDone
		c.stderr.Close()
		close(c.done)
	}()
	return nil
}
func (c *fakeCmd) Wait() error                        { <-c.done; return nil }
func (c *fakeCmd) Stdin(io.Reader)                    {}
func (c *fakeCmd) Stdout(io.Writer)                   {}
func (c *fakeCmd) Stderr(io.Writer)                   {}
func (c *fakeCmd) StdinPipe() (io.WriteCloser, error) { return lazyIn{c}, nil }
func (c *fakeCmd) StdoutPipe() (io.Reader, error)     { return lazyOut{c}, nil }
func (c *fakeCmd) StderrPipe() (io.Reader, error)     { return lazyErr{c}, nil }
func (c *fakeCmd) Kill()                              { c.sock.toAgent.Break(); c.sock.fromAgent.Close() }

// UDFProcess asks for the pipes before it starts the command; ours exist once Start has run.
type lazyIn struct{ c *fakeCmd }
type lazyOut struct{ c *fakeCmd }
type lazyErr struct{ c *fakeCmd }

func (l lazyIn) Write(b []byte) (int, error) { return l.c.sock.toAgent.Write(b) }
func (l lazyIn) Close() error                { return l.c.sock.toAgent.Close() }
func (l lazyOut) Read(b []byte) (int, error) { return l.c.sock.fromAgent.Read(b) }
func (l lazyErr) Read(b []byte) (int, error) { return l.c.stderr.Read(b) }

type fakeCommander struct{ svc *udfService }

func (f fakeCommander) NewCommand(command.Spec) command.Command {
	i := udfInfos["echoProc"]
	return &fakeCmd{sock: &pipeSocket{svc: f.svc, wants: i.Wants, provides: i.Provides}}
}

func newUDFService(frag func() func() int) *udfService {
	if frag == nil {
		frag = func() func() int { return nil }
	}
	return &udfService{frag: frag}
}

func (u *udfService) List() []string { return []string{"echo", "echoBatch", "echoProc"} }
func (u *udfService) Info(name string) (udf.Info, bool) {
	i, ok := udfInfos[name]
	return i, ok
}
func (u *udfService) Create(name, taskID, nodeID string, d udf.Diagnostic, abortCallback func()) (udf.Interface, error) {
	i, ok := udfInfos[name]
	if !ok {
		return nil, errors.New("unknown udf")
	}
	var f udf.Interface
	if name == "echoProc" {
		f = kapacitor.NewUDFProcess(taskID, nodeID, fakeCommander{u}, command.Spec{Prog: "echo-agent"}, d, u.timeout, abortCallback)
	} else {
		f = kapacitor.NewUDFSocket(taskID, nodeID, &pipeSocket{svc: u, wants: i.Wants, provides: i.Provides}, d, u.timeout, abortCallback)
	}
	u.mu.Lock()
	u.udfs = append(u.udfs, f)
	u.mu.Unlock()
	return f, nil
}

// last returns the most recently opened socket (the sessions of a run are sequential).
func (u *udfService) last() *pipeSocket {
	u.mu.Lock()
	defer u.mu.Unlock()
	if len(u.socks) == 0 {
		return nil
	}
	return u.socks[len(u.socks)-1]
}
