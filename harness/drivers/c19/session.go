package c19

import (
	"bufio"
	"encoding/binary"
	"fmt"
	"runtime"
	"strings"
	"sync"
	"time"

	"github.com/influxdata/kapacitor/edge"
	"github.com/influxdata/kapacitor/keyvalue"
	"github.com/influxdata/kapacitor/udf"
	"github.com/influxdata/kapacitor/udf/agent"
	"google.golang.org/protobuf/proto"
)

// recDiag is the udf.Diagnostic of a session: it records every error the server reports.
type recDiag struct {
	mu   sync.Mutex
	errs []string
}

func (d *recDiag) Error(msg string, err error, ctx ...keyvalue.T) {
	d.mu.Lock()
	d.errs = append(d.errs, msg+": "+fmt.Sprint(err))
	d.mu.Unlock()
}
func (d *recDiag) UDFLog(string) {}
func (d *recDiag) Errors() []string {
	d.mu.Lock()
	defer d.mu.Unlock()
	return append([]string(nil), d.errs...)
}

// agentOut is a writer in front of one of the pipes (the agent's output; also the server's output).  It counts
// completed Write calls - agent.WriteMessage makes exactly two per frame, header then body - so that
//   - a misbehaving handler / the driver can put raw bytes on the wire at a frame boundary,
//   - the header write of a chosen frame can be HELD: its bytes are in the pipe, the call does not return until
//     released (a pipe to a busy peer holds a writer just like that).  Whoever else writes meanwhile goes through:
//     with a single writer per direction nobody does.
type agentOut struct {
	p     *fragPipe
	mu    sync.Mutex
	cond  *sync.Cond
	calls int
	// holdFrame > 0: hold the header write of that frame (1-based); holding: it is being held;
	// others: Write calls that completed while it was held
	holdFrame int
	holding   bool
	released  bool
	others    int
}

func (o *agentOut) Write(b []byte) (int, error) {
	o.mu.Lock()
	defer o.mu.Unlock()
	n, err := o.p.Write(b)
	o.calls++
	if o.holding {
		o.others++
	}
	o.cond.Broadcast()
	if o.holdFrame > 0 && o.calls == 2*o.holdFrame-1 && !o.holding {
		o.holding = true
		o.cond.Broadcast()
		for !o.released {
			o.cond.Wait()
		}
		o.holding = false
		o.holdFrame = 0
		o.released = false
		o.cond.Broadcast()
	}
	return n, err
}
func (o *agentOut) Close() error { return o.p.Close() }

// afterFrames waits until `frames` frames were written completely and then runs f with the writer locked.
func (o *agentOut) afterFrames(frames int, f func()) {
	o.mu.Lock()
	defer o.mu.Unlock()
	for o.calls < 2*frames {
		o.cond.Wait()
	}
	f()
}

// atBoundary runs f with the writer locked at a moment when no frame is half written.
func (o *agentOut) atBoundary(f func()) {
	o.mu.Lock()
	defer o.mu.Unlock()
	for o.calls%2 != 0 {
		o.cond.Wait()
	}
	f()
}

// holdHeaderOfNext: once everything handed over so far (frames) is written, arm the hold for the next frame.
func (o *agentOut) holdHeaderOfNext(frames int) {
	o.afterFrames(frames, func() { o.holdFrame = frames + 1; o.released = false; o.others = 0 })
}

// waitHolding blocks until the armed header write is being held; false after the deadline.
func (o *agentOut) waitHolding(d time.Duration) bool {
	t := time.AfterFunc(d, func() { o.mu.Lock(); o.cond.Broadcast(); o.mu.Unlock() })
	defer t.Stop()
	start := time.Now()
	o.mu.Lock()
	defer o.mu.Unlock()
	for !o.holding {
		if time.Since(start) > d {
			return false
		}
		o.cond.Wait()
	}
	return true
}

func (o *agentOut) othersWhileHeld() int {
	o.mu.Lock()
	defer o.mu.Unlock()
	return o.others
}

func (o *agentOut) release() {
	o.mu.Lock()
	o.released = true
	o.cond.Broadcast()
	o.mu.Unlock()
}

type sessOpts struct {
	Timeout  time.Duration // keepalive timeout handed to udf.NewServer (0 = no keepalives)
	FragTo   func() int    // fragmentation of the server->agent byte stream (read by the agent)
	FragFrom func() int    // fragmentation of the agent->server byte stream (read by the server)
	Wants    agent.EdgeType
	Provides agent.EdgeType
	Pad      int
	Fault    *faultSpec
	NoClone  bool
	Raw      bool // the peer is a rawPeer (no agent library), optionally answering one request wrongly
	ReqFault *reqFault
	OnOut    func(edge.Message) // called from the consumer goroutine for every message taken from Out()
}

// session = one real udf.Server talking to one in-process agent over two fragmenting pipes.
type session struct {
	srv       *udf.Server
	toAgent   *fragPipe
	fromAgent *fragPipe
	out       *agentOut
	srvOut    *agentOut // the server's writer in front of toAgent (frame boundaries of that direction)
	strayKA   int       // keepalive requests the driver put into the server->agent stream
	raw       *rawPeer
	ag        *agent.Agent
	h         *echoHandler
	diag      *recDiag
	aborted   chan struct{}
	killed    chan struct{}
	agentDone chan error

	mu        sync.Mutex
	outs      []edge.Message
	outClosed chan struct{}
	// pumpMu: the abort callback waits for a send in progress, as UDFNode.abortedCallback waits for its
	// input goroutine (the server closes its input channel right after the callback)
	pumpMu sync.RWMutex
}

func newSession(o sessOpts) *session {
	s := &session{diag: &recDiag{}, aborted: make(chan struct{}), killed: make(chan struct{}), agentDone: make(chan error, 1),
		outClosed: make(chan struct{})}
	s.toAgent = newFragPipe(o.FragTo)
	s.fromAgent = newFragPipe(o.FragFrom)
	s.out = &agentOut{p: s.fromAgent}
	s.out.cond = sync.NewCond(&s.out.mu)
	s.srvOut = &agentOut{p: s.toAgent}
	s.srvOut.cond = sync.NewCond(&s.srvOut.mu)
	if o.Raw {
		s.raw = newRawPeer(s.toAgent, s.out, o.ReqFault, o.Pad)
		go func() { <-s.raw.done; s.agentDone <- nil }()
	} else {
		s.ag = agent.New(s.toAgent, s.out)
		s.h = &echoHandler{a: s.ag, pad: o.Pad, wants: o.Wants, provides: o.Provides, fault: o.Fault, noClone: o.NoClone}
		s.h.raw = func(b []byte) {
			s.out.afterFrames(s.h.handed(), func() { s.fromAgent.Write(b) })
		}
		s.h.closeFn = func() {
			s.out.afterFrames(s.h.handed(), func() { s.fromAgent.Close() })
		}
		s.ag.Handler = s.h
		if err := s.ag.Start(); err != nil {
			panic(err)
		}
		go func() { s.agentDone <- s.ag.Wait() }()
	}
	var abortOnce, killOnce sync.Once
	// production wiring (UDFSocket.Open / UDFProcess.Open): a bufio.Reader around the peer's output
	s.srv = udf.NewServer("task", "node", bufio.NewReader(s.fromAgent), s.srvOut, s.diag, o.Timeout,
		func() {
			abortOnce.Do(func() { close(s.aborted) })
			s.pumpMu.Lock()
			s.pumpMu.Unlock()
		},
		func() {
			killOnce.Do(func() { close(s.killed) })
			s.toAgent.Close()
			s.fromAgent.Close()
		})
	if err := s.srv.Start(); err != nil {
		panic(err)
	}
	go func() {
		for m := range s.srv.Out() {
			s.mu.Lock()
			s.outs = append(s.outs, m)
			s.mu.Unlock()
			if o.OnOut != nil {
				o.OnOut(m)
			}
		}
		close(s.outClosed)
	}()
	return s
}

func (s *session) Outs() []edge.Message {
	s.mu.Lock()
	defer s.mu.Unlock()
	return append([]edge.Message(nil), s.outs...)
}

// send hands m to the server's input channel; false if the server aborted instead of taking it
// (what UDFNode's pump does: select on In() and the abort callback).
func (s *session) send(m edge.Message, deadline time.Duration) (bool, error) {
	s.pumpMu.RLock()
	defer s.pumpMu.RUnlock()
	select {
	case <-s.aborted:
		return false, nil
	default:
	}
	select {
	case s.srv.In() <- m:
		return true, nil
	case <-s.aborted:
		return false, nil
	case <-time.After(deadline):
		return false, fmt.Errorf("server did not take the message within %v", deadline)
	}
}

func isAborted(s *session) bool {
	select {
	case <-s.aborted:
		return true
	default:
		return false
	}
}

// keepalives counts the keepalive responses of the peer that the server has read completely.
func (s *session) keepalives() int {
	log, consumed := s.fromAgent.Consumed()
	n := 0
	for off := 0; off < consumed; {
		size, k := binary.Uvarint(log[off:])
		if k <= 0 || off+k+int(size) > consumed {
			break
		}
		var r agent.Response
		if proto.Unmarshal(log[off+k:off+k+int(size)], &r) == nil {
			if _, ok := r.Message.(*agent.Response_Keepalive); ok {
				n++
			}
		}
		off += k + int(size)
	}
	return n
}

// inject puts a request of the driver's own into the server->agent byte stream, between two frames of the server.
func (s *session) inject(kind string) {
	var req *agent.Request
	switch kind {
	case "empty":
		req = &agent.Request{} // marshals to zero bytes: the frame is the single byte 0x00
	case "keepalive":
		req = &agent.Request{Message: &agent.Request_Keepalive{Keepalive: &agent.KeepaliveRequest{Time: 42}}}
		s.strayKA++
	default:
		panic("inject " + kind)
	}
	b, err := proto.Marshal(req)
	if err != nil {
		panic(err)
	}
	s.srvOut.atBoundary(func() { s.toAgent.Write(frame(b)) })
}

// readLoopParked reports whether a goroutine of the agent library sits in (*Agent).readLoop itself (not in handler
// code below it) blocked on a channel send: it has decoded a request whose response it wants to hand to the
// agent's single writer goroutine, which is busy.  A scheduling gate only - never a verdict.
func readLoopParked() bool {
	buf := make([]byte, 1<<20)
	n := runtime.Stack(buf, true)
	for _, g := range strings.Split(string(buf[:n]), "\n\n") {
		lines := strings.Split(g, "\n")
		if len(lines) < 2 || !strings.Contains(lines[0], "[chan send") {
			continue
		}
		if strings.Contains(lines[1], "udf/agent.(*Agent).readLoop") {
			return true
		}
	}
	return false
}
