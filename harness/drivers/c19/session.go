package c19

import (
	"bufio"
	"encoding/binary"
	"fmt"
	"sync"
	"time"

	"github.com/influxdata/kapacitor/edge"
	"github.com/influxdata/kapacitor/keyvalue"
	"github.com/influxdata/kapacitor/udf"
	"github.com/influxdata/kapacitor/udf/agent"
	"google.golang.org/protobuf/proto"
)

// recDiag is the udf.Diagnostic of a session: it records every error the server reports.
type recDiag struct {
	mu   sync.Mutex
	errs []string
}

func (d *recDiag) Error(msg string, err error, ctx ...keyvalue.T) {
	d.mu.Lock()
	d.errs = append(d.errs, msg+": "+fmt.Sprint(err))
	d.mu.Unlock()
}
func (d *recDiag) UDFLog(string) {}
func (d *recDiag) Errors() []string {
	d.mu.Lock()
	defer d.mu.Unlock()
	return append([]string(nil), d.errs...)
}

// agentOut is the agent's output writer.  It counts completed Write calls (agent.WriteMessage makes
// exactly two per frame) so that a misbehaving handler can put raw bytes on the wire at a frame
// boundary, after everything it handed to the agent before has been written.
type agentOut struct {
	p     *fragPipe
	mu    sync.Mutex
	cond  *sync.Cond
	calls int
}

func (o *agentOut) Write(b []byte) (int, error) {
	o.mu.Lock()
	defer o.mu.Unlock()
	n, err := o.p.Write(b)
	o.calls++
	o.cond.Broadcast()
	return n, err
}
func (o *agentOut) Close() error { return o.p.Close() }

// afterFrames waits until `frames` frames were written completely and then runs f with the writer locked.
func (o *agentOut) afterFrames(frames int, f func()) {
	o.mu.Lock()
	defer o.mu.Unlock()
	for o.calls < 2*frames {
		o.cond.Wait()
	}
	f()
}

type sessOpts struct {
	Timeout  time.Duration // keepalive timeout handed to udf.NewServer (0 = no keepalives)
	FragTo   func() int    // fragmentation of the server->agent byte stream (read by the agent)
	FragFrom func() int    // fragmentation of the agent->server byte stream (read by the server)
	Wants    agent.EdgeType
	Provides agent.EdgeType
	Pad      int
	Fault    *faultSpec
	NoClone  bool
	OnOut    func(edge.Message) // called from the consumer goroutine for every message taken from Out()
}

// session = one real udf.Server talking to one in-process agent over two fragmenting pipes.
type session struct {
	srv       *udf.Server
	toAgent   *fragPipe
	fromAgent *fragPipe
	out       *agentOut
	ag        *agent.Agent
	h         *echoHandler
	diag      *recDiag
	aborted   chan struct{}
	killed    chan struct{}
	agentDone chan error

	mu        sync.Mutex
	outs      []edge.Message
	outClosed chan struct{}
	// pumpMu: the abort callback waits for a send in progress, as UDFNode.abortedCallback waits for its
	// input goroutine (the server closes its input channel right after the callback)
	pumpMu sync.RWMutex
}

func newSession(o sessOpts) *session {
	s := &session{diag: &recDiag{}, aborted: make(chan struct{}), killed: make(chan struct{}), agentDone: make(chan error, 1),
		outClosed: make(chan struct{})}
	s.toAgent = newFragPipe(o.FragTo)
	s.fromAgent = newFragPipe(o.FragFrom)
	s.out = &agentOut{p: s.fromAgent}
	s.out.cond = sync.NewCond(&s.out.mu)
	s.ag = agent.New(s.toAgent, s.out)
	s.h = &echoHandler{a: s.ag, pad: o.Pad, wants: o.Wants, provides: o.Provides, fault: o.Fault, noClone: o.NoClone}
	s.h.raw = func(b []byte) {
		s.out.afterFrames(s.h.handed(), func() { s.fromAgent.Write(b) })
	}
	s.h.closeFn = func() {
		s.out.afterFrames(s.h.handed(), func() { s.fromAgent.Close() })
	}
	s.ag.Handler = s.h
	if err := s.ag.Start(); err != nil {
		panic(err)
	}
	go func() { s.agentDone <- s.ag.Wait() }()
	var abortOnce, killOnce sync.Once
	// production wiring (UDFSocket.Open / UDFProcess.Open): a bufio.Reader around the peer's output
	s.srv = udf.NewServer("task", "node", bufio.NewReader(s.fromAgent), s.toAgent, s.diag, o.Timeout,
		func() {
			abortOnce.Do(func() { close(s.aborted) })
			s.pumpMu.Lock()
			s.pumpMu.Unlock()
		},
		func() {
			killOnce.Do(func() { close(s.killed) })
			s.toAgent.Close()
			s.fromAgent.Close()
		})
	if err := s.srv.Start(); err != nil {
		panic(err)
	}
	go func() {
		for m := range s.srv.Out() {
			s.mu.Lock()
			s.outs = append(s.outs, m)
			s.mu.Unlock()
			if o.OnOut != nil {
				o.OnOut(m)
			}
		}
		close(s.outClosed)
	}()
	return s
}

func (s *session) Outs() []edge.Message {
	s.mu.Lock()
	defer s.mu.Unlock()
	return append([]edge.Message(nil), s.outs...)
}

// send hands m to the server's input channel; false if the server aborted instead of taking it
// (what UDFNode's pump does: select on In() and the abort callback).
func (s *session) send(m edge.Message, deadline time.Duration) (bool, error) {
	s.pumpMu.RLock()
	defer s.pumpMu.RUnlock()
	select {
	case <-s.aborted:
		return false, nil
	default:
	}
	select {
	case s.srv.In() <- m:
		return true, nil
	case <-s.aborted:
		return false, nil
	case <-time.After(deadline):
		return false, fmt.Errorf("server did not take the message within %v", deadline)
	}
}

func isAborted(s *session) bool {
	select {
	case <-s.aborted:
		return true
	default:
		return false
	}
}

// keepalives counts the keepalive responses of the peer that the server has read completely.
func (s *session) keepalives() int {
	log, consumed := s.fromAgent.Consumed()
	n := 0
	for off := 0; off < consumed; {
		size, k := binary.Uvarint(log[off:])
		if k <= 0 || off+k+int(size) > consumed {
			break
		}
		var r agent.Response
		if proto.Unmarshal(log[off+k:off+k+int(size)], &r) == nil {
			if _, ok := r.Message.(*agent.Response_Keepalive); ok {
				n++
			}
		}
		off += k + int(size)
	}
	return n
}
