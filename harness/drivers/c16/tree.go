// Package c16 drives the real batch query code of kapacitor (query.go, batch.go,
// task.go) and records what it issues, for validation against
// spec/BatchSchedule (property C16).
package c16

import (
	"fmt"
	"strings"
	"time"

	"github.com/influxdata/influxql"
	"kapverif/rt"
)

// T is a WHERE-condition tree in the vocabulary of BatchSchedule.tla:
// leaf (an opaque comparison), tm (a comparison of time with a constant),
// and / or, par (explicit parentheses), none (no WHERE clause).
type T struct {
	K       string
	N       string // leaf name
	Op      string // tm: ge gt lt le
	V       int    // tm: constant in model units
	Lit     string // tm: "str" (quoted string) or "time" (TimeLiteral node)
	L, R, E *T
}

var none = &T{K: "none"}

func (t *T) J() rt.M {
	switch t.K {
	case "leaf":
		return rt.M{"k": "leaf", "n": t.N}
	case "tm":
		return rt.M{"k": "tm", "op": t.Op, "v": t.V, "lit": t.Lit}
	case "and", "or":
		return rt.M{"k": t.K, "l": t.L.J(), "r": t.R.J()}
	case "par":
		return rt.M{"k": "par", "e": t.E.J()}
	}
	return rt.M{"k": "none"}
}

func (t *T) leaves() int {
	switch t.K {
	case "leaf", "tm":
		return 1
	case "and", "or":
		return t.L.leaves() + t.R.leaves()
	case "par":
		return t.E.leaves()
	}
	return 0
}

func (t *T) hasLeaf(n string) bool {
	switch t.K {
	case "leaf":
		return t.N == n
	case "and", "or":
		return t.L.hasLeaf(n) || t.R.hasLeaf(n)
	case "par":
		return t.E.hasLeaf(n)
	}
	return false
}

// The opaque predicates: a few syntactic forms, chosen by leaf name.
func leafSQL(n string) string {
	if n == "tnow" {
		return "time > now() - 1h"
	}
	var i int
	if _, err := fmt.Sscanf(n, "p%d", &i); err != nil {
		return n + " = 'q'"
	}
	switch i % 4 {
	case 0:
		return n + " = 'x'"
	case 1:
		return n + " != 'y'"
	case 2:
		return n + " > 5"
	default:
		return n + " =~ /z/"
	}
}

var opSQL = map[string]string{"ge": ">=", "gt": ">", "lt": "<", "le": "<="}
var opTok = map[influxql.Token]string{influxql.GTE: "ge", influxql.GT: "gt", influxql.LT: "lt", influxql.LTE: "le"}

// SQL prints a generated tree the way a user would type it: no parentheses
// except explicit par nodes.  (What the text means is decided by the parser.)
func (t *T) SQL(tm rt.TimeMap) string {
	switch t.K {
	case "leaf":
		return leafSQL(t.N)
	case "tm":
		return fmt.Sprintf("time %s '%s'", opSQL[t.Op], tm.T(t.V).UTC().Format(time.RFC3339))
	case "and":
		return t.L.SQL(tm) + " AND " + t.R.SQL(tm)
	case "or":
		return t.L.SQL(tm) + " OR " + t.R.SQL(tm)
	case "par":
		return "(" + t.E.SQL(tm) + ")"
	}
	return ""
}

// BadTime marks a time constant that is not a whole number of model units.
const BadTime = -999999

// enc maps a wall time to model units.
type enc func(time.Time) int

func encMap(tm rt.TimeMap) enc {
	return func(t time.Time) int {
		k, ok := tm.KOK(t)
		if !ok {
			return BadTime
		}
		return k
	}
}

// conv translates an influxql expression into a tree.  It is deliberately
// literal: one tree node per AST node, nothing simplified.
func conv(e influxql.Expr, en enc) *T {
	switch x := e.(type) {
	case nil:
		return none
	case *influxql.ParenExpr:
		return &T{K: "par", E: conv(x.Expr, en)}
	case *influxql.BinaryExpr:
		switch x.Op {
		case influxql.AND:
			return &T{K: "and", L: conv(x.LHS, en), R: conv(x.RHS, en)}
		case influxql.OR:
			return &T{K: "or", L: conv(x.LHS, en), R: conv(x.RHS, en)}
		}
		if v, ok := x.LHS.(*influxql.VarRef); ok {
			if v.Val == "time" {
				if op, ok := opTok[x.Op]; ok {
					switch r := x.RHS.(type) {
					case *influxql.StringLiteral:
						if ts, err := time.Parse(time.RFC3339Nano, r.Val); err == nil {
							return &T{K: "tm", Op: op, V: en(ts), Lit: "str"}
						}
					case *influxql.TimeLiteral:
						return &T{K: "tm", Op: op, V: en(r.Val), Lit: "time"}
					}
				}
				if x.String() == leafSQL("tnow") {
					return &T{K: "leaf", N: "tnow"}
				}
			} else if x.String() == leafSQL(v.Val) {
				return &T{K: "leaf", N: v.Val}
			}
		}
	}
	return &T{K: "leaf", N: "?" + e.String()}
}

// whereOf cuts the WHERE condition text out of a SELECT statement string.
func whereOf(stmt string) string {
	i := strings.Index(stmt, " WHERE ")
	if i < 0 {
		return ""
	}
	w := stmt[i+len(" WHERE "):]
	for _, end := range []string{" GROUP BY ", " fill("} {
		if j := strings.Index(w, end); j >= 0 {
			w = w[:j]
		}
	}
	return w
}

// tokens scans the condition text with influxql's scanner and returns the
// token sequence at the granularity of the model: ( ) AND OR and atoms.  It
// does not use the parser for the structure, so the model's parser can be
// compared with influxql's on every recorded statement.
func tokens(where string, en enc) ([]any, error) {
	out := []any{}
	if where == "" {
		return out, nil
	}
	sc := influxql.NewScanner(strings.NewReader(where))
	atomStart := -1
	nowDepth := 0
	lastTok, lastLit := influxql.ILLEGAL, ""
	var ferr error
	flush := func(end int) {
		if atomStart < 0 {
			return
		}
		txt := strings.TrimSpace(where[atomStart:end])
		atomStart = -1
		e, err := influxql.ParseExpr(txt)
		if err != nil {
			ferr = fmt.Errorf("atom %q: %v", txt, err)
			return
		}
		a := conv(e, en)
		if a.K != "leaf" && a.K != "tm" {
			ferr = fmt.Errorf("atom %q is not atomic", txt)
			return
		}
		out = append(out, rt.M{"k": "atom", "a": a.J()})
	}
	for {
		tok, pos, lit := sc.Scan()
		if tok == influxql.EOF {
			flush(len(where))
			break
		}
		if tok == influxql.WS {
			continue
		}
		switch {
		case tok == influxql.AND:
			flush(pos.Char)
			out = append(out, rt.M{"k": "and"})
		case tok == influxql.OR:
			flush(pos.Char)
			out = append(out, rt.M{"k": "or"})
		case tok == influxql.LPAREN && lastTok == influxql.IDENT && lastLit == "now":
			nowDepth++
		case tok == influxql.RPAREN && nowDepth > 0:
			nowDepth--
		case tok == influxql.LPAREN:
			flush(pos.Char)
			out = append(out, rt.M{"k": "lp"})
		case tok == influxql.RPAREN:
			flush(pos.Char)
			out = append(out, rt.M{"k": "rp"})
		default:
			if atomStart < 0 {
				atomStart = pos.Char
			}
		}
		lastTok, lastLit = tok, lit
	}
	return out, ferr
}

// cxOf is influxql.ConditionExpr's own reading of a condition (what the
// InfluxDB 1.x engine does with it): one time range for the whole statement
// plus the condition with the time predicates removed.  Bounds are on the
// doubled time axis of the model (2k: >= k / < k, 2k+1: > k / <= k).
func cxOf(cond influxql.Expr, tm rt.TimeMap, en enc) (rt.M, bool) {
	if cond == nil {
		return nil, false
	}
	resid, tr, err := influxql.ConditionExpr(influxql.CloneExpr(cond), nil)
	if err != nil {
		return nil, false
	}
	lo2, hi2 := -1000000, 1000000
	if !tr.Min.IsZero() {
		d := tr.Min.Sub(tm.Epoch)
		switch d % tm.Unit {
		case 0:
			lo2 = 2 * int(d/tm.Unit)
		case 1:
			lo2 = 2*int(d/tm.Unit) + 1
		default:
			lo2 = BadTime
		}
	}
	if !tr.Max.IsZero() {
		d := tr.Max.Add(1).Sub(tm.Epoch)
		switch d % tm.Unit {
		case 0:
			hi2 = 2 * int(d/tm.Unit)
		case 1:
			hi2 = 2*int(d/tm.Unit) + 1
		default:
			hi2 = BadTime
		}
	}
	return rt.M{"lo2": lo2, "hi2": hi2, "resid": conv(resid, en).J()}, true
}
