package c16

import (
	"fmt"
	"strings"
	"time"

	"github.com/influxdata/influxql"
	"github.com/influxdata/kapacitor"
	"kapverif/rt"
)

func init() { rt.Register("c16", Run) }

// TM: model time k = 2020-01-06T00:00:00Z + k seconds (epoch is a multiple of
// every duration used, relative to Go's zero time and to the Unix epoch).
var TM = rt.DefaultTime

// ---------- what a statement string says (re-parsed with influxql) ----------

type stmtObs struct {
	out    *T
	toks   []any
	cx     rt.M
	hasCx  bool
	sel    *influxql.SelectStatement
	lo, hi time.Time // the last time >= / time < constants of the condition
}

func observe(qstr string, tm rt.TimeMap, en enc) *stmtObs {
	o := &stmtObs{out: &T{K: "bad"}, toks: []any{}}
	st, err := influxql.ParseStatement(qstr)
	if err != nil {
		return o
	}
	sel, ok := st.(*influxql.SelectStatement)
	if !ok {
		return o
	}
	o.sel = sel
	o.lo, o.hi = rawRange(sel.Condition)
	if en == nil {
		// relative encoding: model units counted from the statement's own lower bound
		lo := o.lo
		en = func(t time.Time) int {
			d := t.Sub(lo)
			if lo.IsZero() || d%tm.Unit != 0 {
				return BadTime
			}
			return int(d / tm.Unit)
		}
		tm = rt.TimeMap{Epoch: lo, Unit: tm.Unit}
	}
	o.out = conv(sel.Condition, en)
	if toks, err := tokens(whereOf(qstr), en); err == nil {
		o.toks = toks
	} else {
		o.toks = []any{rt.M{"k": "err:" + err.Error()}}
	}
	if !o.out.hasLeaf("tnow") {
		o.cx, o.hasCx = cxOf(sel.Condition, tm, en)
	}
	return o
}

func (o *stmtObs) J() rt.M {
	m := rt.M{"out": o.out.J(), "toks": o.toks}
	if o.hasCx {
		m["cx"] = o.cx
	}
	return m
}

// rawRange: constants of the last "time >=|> c" and the last "time <|<= c" in walk order.
func rawRange(cond influxql.Expr) (lo, hi time.Time) {
	if cond == nil {
		return
	}
	influxql.WalkFunc(cond, func(n influxql.Node) {
		b, ok := n.(*influxql.BinaryExpr)
		if !ok {
			return
		}
		if v, ok := b.LHS.(*influxql.VarRef); !ok || v.Val != "time" {
			return
		}
		s, ok := b.RHS.(*influxql.StringLiteral)
		if !ok {
			return
		}
		ts, err := time.Parse(time.RFC3339Nano, s.Val)
		if err != nil {
			return
		}
		switch b.Op {
		case influxql.GTE, influxql.GT:
			lo = ts
		case influxql.LT, influxql.LTE:
			hi = ts
		}
	})
	return
}

func durUnits(d, unit time.Duration) int {
	if d%unit != 0 {
		return BadTime
	}
	return int(d / unit)
}

// clauses: GROUP BY / fill / FROM of the re-parsed statement.
func (o *stmtObs) clauses(unit time.Duration) rt.M {
	gb := rt.M{"len": 0, "off": 0}
	tags := []any{}
	star := false
	fill := "?"
	srcs := []any{}
	if o.sel != nil {
		for _, d := range o.sel.Dimensions {
			switch x := d.Expr.(type) {
			case *influxql.Call:
				if x.Name == "time" && len(x.Args) >= 1 {
					if dl, ok := x.Args[0].(*influxql.DurationLiteral); ok {
						gb["len"] = durUnits(dl.Val, unit)
					}
					if len(x.Args) >= 2 {
						if dl, ok := x.Args[1].(*influxql.DurationLiteral); ok {
							gb["off"] = durUnits(dl.Val, unit)
						} else {
							gb["off"] = BadTime
						}
					}
				} else {
					tags = append(tags, "?"+x.String())
				}
			case *influxql.VarRef:
				tags = append(tags, x.Val)
			case *influxql.Wildcard:
				star = true
			default:
				tags = append(tags, "?"+d.String())
			}
		}
		switch o.sel.Fill {
		case influxql.NullFill:
			fill = "null"
		case influxql.NoFill:
			fill = "none"
		case influxql.PreviousFill:
			fill = "previous"
		case influxql.LinearFill:
			fill = "linear"
		case influxql.NumberFill:
			fill = fmt.Sprintf("num:%v", o.sel.FillValue)
		}
		for _, s := range o.sel.Sources {
			switch m := s.(type) {
			case *influxql.Measurement:
				srcs = append(srcs, rt.M{"db": m.Database, "rp": m.RetentionPolicy}) // the pair as written
			default:
				srcs = append(srcs, pair("sub"))
			}
		}
	}
	return rt.M{"gb": gb, "tags": tags, "star": star, "fill": fill, "srcs": srcs}
}

// ---------- kind "q": the Query object ----------

func shapes(d int) []*T {
	if d == 0 {
		return []*T{{K: "leaf"}}
	}
	sub := shapes(d - 1)
	out := []*T{{K: "leaf"}}
	for _, op := range []string{"and", "or"} {
		for _, l := range sub {
			for _, r := range sub {
				out = append(out, &T{K: op, L: l, R: r})
			}
		}
	}
	for _, e := range sub {
		out = append(out, &T{K: "par", E: e})
	}
	return out
}

// label copies a shape, naming leaves p1, p2, ... left to right; subst replaces
// the i-th leaf (1-based) by another atom.
func label(t *T, i *int, subst map[int]*T) *T {
	switch t.K {
	case "leaf":
		*i++
		if s, ok := subst[*i]; ok {
			c := *s
			return &c
		}
		return &T{K: "leaf", N: fmt.Sprintf("p%d", *i)}
	case "and", "or":
		l := label(t.L, i, subst)
		r := label(t.R, i, subst)
		return &T{K: t.K, L: l, R: r}
	case "par":
		return &T{K: "par", E: label(t.E, i, subst)}
	}
	return none
}

// user-written time predicates around the ranges the driver sets ([10,20) first)
var userAtoms = []*T{
	{K: "tm", Op: "ge", V: 15, Lit: "str"},
	{K: "tm", Op: "lt", V: 15, Lit: "str"},
	{K: "tm", Op: "gt", V: 10, Lit: "str"},
	{K: "tm", Op: "le", V: 20, Lit: "str"},
	{K: "tm", Op: "ge", V: 5, Lit: "str"},
	{K: "tm", Op: "lt", V: 25, Lit: "str"},
	{K: "leaf", N: "tnow"},
}

type qRunner struct {
	t    *rt.Trace
	seen map[string]bool
	n    int
}

func (qr *qRunner) objObs(q *kapacitor.Query) rt.M {
	m := observe(q.String(), TM, encMap(TM)).J()
	en := encMap(TM)
	m["gs"] = en(q.StartTime())
	m["ge"] = en(q.StopTime())
	return m
}

// one trace: NewQuery, SetStart/StopTime on the original (the live path),
// Clone (the historical path), SetStart/StopTime on the clone, and again.
func (qr *qRunner) run(where string, full bool) {
	if qr.seen[where] {
		return
	}
	qr.seen[where] = true
	qs := "SELECT v FROM db.rp.m"
	var user *T = none
	if where != "" {
		qs += " WHERE " + where
		e, err := influxql.ParseExpr(where)
		if err != nil {
			rt.Fatalf("generated condition %q does not parse: %v", where, err)
		}
		user = conv(e, encMap(TM))
	}
	q, err := kapacitor.NewQuery(qs)
	if err != nil {
		rt.Fatalf("NewQuery(%q): %v", qs, err)
	}
	t := qr.t
	t.Reset(rt.M{"kind": "q", "sql": qs})
	qr.n++
	if user.leaves() >= 2 {
		t.Distinct(where)
	}
	t.Event("NewQuery", rt.M{"user": user.J()})
	set := func(which string, o, other *kapacitor.Query, s, e int) {
		o.SetStartTime(TM.T(s))
		o.SetStopTime(TM.T(e))
		m := rt.M{"which": which, "s": s, "e": e, "obs": qr.objObs(o)}
		if other != nil {
			m["other"] = qr.objObs(other)
		}
		t.Event("SetTimes", m)
	}
	clone := func() *kapacitor.Query {
		c, err := q.Clone()
		if err != nil {
			t.Event("Clone", rt.M{"err": err.Error(), "obs": rt.M{}})
			return nil
		}
		t.Event("Clone", rt.M{"err": "", "obs": qr.objObs(c)})
		return c
	}
	set("q", q, nil, 10, 20)
	c := clone()
	if c == nil {
		return
	}
	set("c", c, q, 30, 37)
	if !full {
		return
	}
	set("q", q, c, 50, 60)
	c2 := clone()
	if c2 == nil {
		return
	}
	set("c", c2, q, 12, 17)
	set("q", q, c2, 10, 20)
}

func runQ(r *rt.Run, t *rt.Trace) {
	qr := &qRunner{t: t, seen: map[string]bool{}}
	qr.run("", true)
	// every shape up to depth 2, plain and with each leaf replaced by each user time predicate
	for _, sh := range shapes(2) {
		i := 0
		plain := label(sh, &i, nil)
		n := i
		qr.run(plain.SQL(TM), true)
		for pos := 1; pos <= n; pos++ {
			for _, ua := range userAtoms {
				i = 0
				qr.run(label(sh, &i, map[int]*T{pos: ua}).SQL(TM), true)
			}
		}
		if r.Thorough() {
			for p1 := 1; p1 <= n; p1++ {
				for p2 := p1 + 1; p2 <= n; p2++ {
					for _, u1 := range userAtoms[:4] {
						for _, u2 := range userAtoms[:4] {
							i = 0
							qr.run(label(sh, &i, map[int]*T{p1: u1, p2: u2}).SQL(TM), false)
						}
					}
				}
			}
		}
	}
	d2 := qr.n
	// depth 3: every shape (thorough) / every shape with at most maxLeaves leaves (quick), plain
	s3 := shapes(3)
	maxLeaves := 5
	if r.Thorough() {
		maxLeaves = 8
	}
	for _, sh := range s3 {
		i := 0
		plain := label(sh, &i, nil)
		if i > maxLeaves {
			continue
		}
		qr.run(plain.SQL(TM), false)
	}
	d3 := qr.n - d2
	// seeded random: depth-3 shapes (any size) with random user time predicates
	nRand := 150
	if r.Thorough() {
		nRand = 6000
	}
	for k := 0; k < nRand; k++ {
		sh := s3[r.Rand.Intn(len(s3))]
		i := 0
		label(sh, &i, nil)
		n := i
		if n > 7 {
			k--
			continue
		}
		subst := map[int]*T{}
		for j := 0; j < 1+r.Rand.Intn(2); j++ {
			subst[1+r.Rand.Intn(n)] = userAtoms[r.Rand.Intn(len(userAtoms))]
		}
		i = 0
		qr.run(label(sh, &i, subst).SQL(TM), r.Rand.Intn(4) == 0)
	}
	r.Extra["q_traces_depth2"] = d2
	r.Extra["q_traces_depth3"] = d3
	r.Extra["q_traces_random"] = qr.n - d2 - d3
	r.Extra["q_depth3_max_leaves"] = maxLeaves
}

// ---------- kind "task": a real batch task ----------

type taskCfg struct {
	Kind       string // every | cron
	Every      int
	Align      bool
	P, R       int
	Period     int
	Offset     int
	GbLen      int
	GbOff      int
	AlignGroup bool
	Tags       []string
	Star       bool
	Fill       string // null none previous linear num:0
	Declared   []string
	Sources    []string
	Where      string
	Meas       string
	DefaultRP  string // TaskMaster.DefaultRetentionPolicy while this task is defined and run
	Unquoted   bool   // write FROM items without quotes: db.rp.m, db..m, m
	unit       string // TICKscript duration suffix: s (model traces) or ms (live)
}

func strs(a []string) []any {
	out := make([]any, len(a))
	for i, s := range a {
		out[i] = s
	}
	return out
}

// A database/retention-policy pair is written "db.rp" in the driver's tables: "db." has an
// empty rp (FROM "db".."m"), "." is a bare measurement, "sub" a subquery.  In the trace it is
// the record {db, rp} of BatchSchedule.tla.
func pair(s string) rt.M {
	if s == "sub" {
		return rt.M{"db": "?subquery", "rp": ""}
	}
	dr := strings.SplitN(s, ".", 2)
	return rt.M{"db": dr[0], "rp": dr[1]}
}

func pairs(a []string) []any {
	out := make([]any, len(a))
	for i, s := range a {
		out[i] = pair(s)
	}
	return out
}

func (c *taskCfg) user() *T {
	if c.Where == "" {
		return none
	}
	e, err := influxql.ParseExpr(c.Where)
	if err != nil {
		rt.Fatalf("condition %q: %v", c.Where, err)
	}
	return conv(e, encMap(TM))
}

func (c *taskCfg) J() rt.M {
	return rt.M{"kind": c.Kind, "every": c.Every, "align": c.Align, "p": c.P, "r": c.R,
		"period": c.Period, "offset": c.Offset, "gbLen": c.GbLen, "gbOff": c.GbOff, "alignGroup": c.AlignGroup,
		"tags": strs(c.Tags), "star": c.Star, "fill": c.Fill,
		"declared": pairs(c.Declared), "sources": pairs(c.Sources), "defaultRP": c.DefaultRP, "user": c.user().J()}
}

func (c *taskCfg) cronExpr() string {
	// seconds field of a 7-field cronexpr; p divides 60 (seconds) or is 60
	if c.unit != "s" {
		return "* * * * * * *" // live: every second
	}
	if c.P == 60 {
		return fmt.Sprintf("%d * * * * * *", c.R)
	}
	return fmt.Sprintf("%d-59/%d * * * * * *", c.R, c.P)
}

func (c *taskCfg) fromClause() string {
	var parts []string
	for _, s := range c.Sources {
		switch s {
		case "sub":
			parts = append(parts, fmt.Sprintf(`(SELECT v FROM "other"."rp"."%s")`, c.Meas))
		case ".":
			if c.Unquoted {
				parts = append(parts, c.Meas)
			} else {
				parts = append(parts, fmt.Sprintf(`"%s"`, c.Meas))
			}
		default:
			dr := strings.SplitN(s, ".", 2)
			switch {
			case c.Unquoted: // db.rp.m or db..m
				parts = append(parts, fmt.Sprintf(`%s.%s.%s`, dr[0], dr[1], c.Meas))
			case dr[1] == "": // "db".."m"
				parts = append(parts, fmt.Sprintf(`"%s".."%s"`, dr[0], c.Meas))
			default:
				parts = append(parts, fmt.Sprintf(`"%s"."%s"."%s"`, dr[0], dr[1], c.Meas))
			}
		}
	}
	return strings.Join(parts, ", ")
}

func (c *taskCfg) script() string { return c.chain("o") }

// chain is one `batch|query(...)...|log()` pipeline.
func (c *taskCfg) chain(sink string) string {
	u := c.unit
	q := "SELECT v FROM " + c.fromClause()
	if c.Where != "" {
		q += " WHERE " + c.Where
	}
	var b strings.Builder
	fmt.Fprintf(&b, "batch\n  |query('%s')\n", strings.ReplaceAll(q, `'`, `\'`))
	fmt.Fprintf(&b, "    .period(%d%s)\n", c.Period, u)
	if c.Kind == "cron" {
		fmt.Fprintf(&b, "    .cron('%s')\n", c.cronExpr())
	} else {
		fmt.Fprintf(&b, "    .every(%d%s)\n", c.Every, u)
		if c.Align {
			b.WriteString("    .align()\n")
		}
	}
	if c.Offset != 0 {
		fmt.Fprintf(&b, "    .offset(%d%s)\n", c.Offset, u)
	}
	var dims []string
	if c.GbLen > 0 {
		if c.GbOff != 0 {
			dims = append(dims, fmt.Sprintf("time(%d%s, %d%s)", c.GbLen, u, c.GbOff, u))
		} else {
			dims = append(dims, fmt.Sprintf("time(%d%s)", c.GbLen, u))
		}
	}
	for _, tg := range c.Tags {
		dims = append(dims, "'"+tg+"'")
	}
	if c.Star {
		dims = append(dims, "*")
	}
	if len(dims) > 0 {
		fmt.Fprintf(&b, "    .groupBy(%s)\n", strings.Join(dims, ", "))
	}
	if c.AlignGroup {
		b.WriteString("    .alignGroup()\n")
	}
	switch c.Fill {
	case "null":
	case "num:0":
		b.WriteString("    .fill(0)\n")
	default:
		fmt.Fprintf(&b, "    .fill('%s')\n", c.Fill)
	}
	fmt.Fprintf(&b, "  |log().prefix('%s')\n", sink)
	return b.String()
}

func (c *taskCfg) dbrps() []kapacitor.DBRP {
	var out []kapacitor.DBRP
	for _, s := range c.Declared {
		dr := strings.SplitN(s, ".", 2)
		out = append(out, kapacitor.DBRP{Database: dr[0], RetentionPolicy: dr[1]})
	}
	return out
}

type taskRunner struct {
	r   *rt.Run
	t   *rt.Trace
	env *rt.Env
	n   int
}

func (tr *taskRunner) newTask(c *taskCfg) *kapacitor.Task {
	tr.n++
	c.Meas = fmt.Sprintf("m%d", tr.n)
	// the server setting is read by the executing task through its TaskMaster; the driver is sequential
	// and every earlier task is stopped, so it can be set per task
	tr.env.TM.DefaultRetentionPolicy = c.DefaultRP
	task, err := tr.env.TM.NewTask(fmt.Sprintf("t%d", tr.n), c.script(), kapacitor.BatchTask, c.dbrps(), 0, nil)
	if err != nil {
		rt.Fatalf("NewTask: %v\n%s", err, c.script())
	}
	return task
}

func histItem(q *kapacitor.Query, tm rt.TimeMap, en enc, unit time.Duration) rt.M {
	o := observe(q.String(), tm, en)
	m := o.J()
	for k, v := range o.clauses(unit) {
		m[k] = v
	}
	m["gs"] = en(q.StartTime())
	m["ge"] = en(q.StopTime())
	return m
}

// hist: BatchQueries(start, stop) on a task that is not running (as the replay
// service does for recordings).
func (tr *taskRunner) hist(c *taskCfg, spans [][2]int) {
	task := tr.newTask(c)
	et, err := kapacitor.NewExecutingTask(tr.env.TM, task)
	if err != nil {
		rt.Fatalf("NewExecutingTask: %v\n%s", err, c.script())
	}
	t := tr.t
	t.Reset(rt.M{"kind": "task", "script": c.script()})
	t.Event("Task", rt.M{"cfg": c.J(), "err": ""})
	en := encMap(TM)
	for _, sp := range spans {
		t.Event("Hist", rt.M{"start": sp[0], "stop": sp[1]})
		bqs, err := et.BatchQueries(TM.T(sp[0]), TM.T(sp[1]))
		items := []any{}
		if err != nil {
			t.Event("HistRet", rt.M{"err": err.Error(), "qs": items})
			continue
		}
		for _, bq := range bqs {
			for _, q := range bq.Queries {
				items = append(items, histItem(q, TM, en, TM.Unit))
			}
		}
		t.Event("HistRet", rt.M{"err": "", "qs": items})
		if len(items) >= 2 {
			t.Distinct(fmt.Sprintf("%v|%v", c.J(), sp))
		}
	}
}

// histMulti: one task with two query nodes; BatchQueries returns one list per node.
func (tr *taskRunner) histMulti(c1, c2 *taskCfg, spans [][2]int) {
	tr.n++
	c1.Meas, c2.Meas = fmt.Sprintf("m%da", tr.n), fmt.Sprintf("m%db", tr.n)
	script := "var a = " + c1.chain("o") + "var b = " + c2.chain("p")
	task, err := tr.env.TM.NewTask(fmt.Sprintf("t%d", tr.n), script, kapacitor.BatchTask, c1.dbrps(), 0, nil)
	if err != nil {
		rt.Fatalf("NewTask: %v\n%s", err, script)
	}
	et, err := kapacitor.NewExecutingTask(tr.env.TM, task)
	if err != nil {
		rt.Fatalf("NewExecutingTask: %v\n%s", err, script)
	}
	en := encMap(TM)
	type res struct {
		err   string
		items [][]any
	}
	var results []res
	for _, sp := range spans {
		bqs, err := et.BatchQueries(TM.T(sp[0]), TM.T(sp[1]))
		r := res{items: [][]any{{}, {}}}
		if err != nil {
			r.err = err.Error()
		} else if len(bqs) != 2 {
			r.err = fmt.Sprintf("BatchQueries returned %d lists for 2 query nodes", len(bqs))
		} else {
			// the order of the lists is the executing task's node order, which nothing ties to the
			// order in the script: attribute each list to its node by the measurement it queries
			for _, bq := range bqs {
				for _, q := range bq.Queries {
					i := 0
					if strings.Contains(q.String(), c2.Meas) {
						i = 1
					}
					r.items[i] = append(r.items[i], histItem(q, TM, en, TM.Unit))
				}
			}
		}
		results = append(results, r)
	}
	for i, c := range []*taskCfg{c1, c2} {
		tr.t.Reset(rt.M{"kind": "task", "script": script, "node": i})
		tr.t.Event("Task", rt.M{"cfg": c.J(), "err": ""})
		for k, sp := range spans {
			tr.t.Event("Hist", rt.M{"start": sp[0], "stop": sp[1]})
			tr.t.Event("HistRet", rt.M{"err": results[k].err, "qs": results[k].items[i]})
		}
	}
}

// mixed: one batch task whose source has several |query (InfluxQL) and |queryFlux
// children, given in script order (kind "ql" with its FROM databases, or "flux").
// Only BatchQueries is called: it runs checkDBRPs and asks every child for its
// queries; nothing is started, so no Flux code runs.
type childCfg struct {
	flux bool
	srcs []string
}

func (tr *taskRunner) mixed(declared []string, children []childCfg) {
	tr.n++
	var b strings.Builder
	kids := []any{}
	for i, ch := range children {
		if ch.flux {
			fmt.Fprintf(&b, "var n%d = batch\n  |queryFlux('from(bucket:\"b\") |> range(start: -1m)')\n    .period(10s)\n    .every(10s)\n  |log().prefix('f%d')\n", i, i)
			kids = append(kids, rt.M{"kind": "flux", "srcs": []any{}})
			continue
		}
		c := &taskCfg{Sources: ch.srcs, Meas: fmt.Sprintf("m%dn%d", tr.n, i)}
		fmt.Fprintf(&b, "var n%d = batch\n  |query('SELECT v FROM %s')\n    .period(10s)\n    .every(10s)\n  |log().prefix('q%d')\n", i, c.fromClause(), i)
		kids = append(kids, rt.M{"kind": "ql", "srcs": pairs(ch.srcs)})
	}
	script := b.String()
	dc := &taskCfg{Declared: declared}
	tr.env.TM.DefaultRetentionPolicy = ""
	task, err := tr.env.TM.NewTask(fmt.Sprintf("t%d", tr.n), script, kapacitor.BatchTask, dc.dbrps(), 0, nil)
	if err != nil {
		rt.Fatalf("NewTask: %v\n%s", err, script)
	}
	et, err := kapacitor.NewExecutingTask(tr.env.TM, task)
	if err != nil {
		rt.Fatalf("NewExecutingTask: %v\n%s", err, script)
	}
	t := tr.t
	t.Reset(rt.M{"kind": "mixed", "script": script})
	t.Event("Batch", rt.M{"declared": pairs(declared), "children": kids, "err": ""})
	bqs, err := et.BatchQueries(TM.T(120), TM.T(145))
	issued := []any{}
	nflux := 0
	if err != nil {
		t.Event("BQ", rt.M{"err": err.Error(), "issued": issued, "nflux": 0})
		return
	}
	for _, bq := range bqs {
		if len(bq.FluxQueries) > 0 {
			nflux++ // a Flux child; every child ticks twice in the span
			continue
		}
		srcs := map[string]bool{}
		first := []any{}
		for k, q := range bq.Queries {
			cl := observe(q.String(), TM, encMap(TM)).clauses(TM.Unit)["srcs"].([]any)
			if k == 0 {
				first = cl
			}
			srcs[fmt.Sprint(cl)] = true
		}
		if len(srcs) != 1 {
			first = append(first, "?inconsistent")
		}
		issued = append(issued, first)
	}
	t.Event("BQ", rt.M{"err": "", "issued": issued, "nflux": nflux})
	t.Distinct(fmt.Sprintf("mixed|%v|%v", declared, kids))
}

// histNow: BatchQueries(start, zero time): the span ends at the wall clock.  Model
// time is seconds from an epoch a whole number of minutes in the past; the
// driver logs the whole second before and after each call.
func (tr *taskRunner) histNow(c *taskCfg) {
	task := tr.newTask(c)
	et, err := kapacitor.NewExecutingTask(tr.env.TM, task)
	if err != nil {
		rt.Fatalf("NewExecutingTask: %v\n%s", err, c.script())
	}
	t := tr.t
	t0 := time.Now().Truncate(time.Minute).Add(-60 * time.Second)
	tmN := rt.TimeMap{Epoch: t0.Add(-600 * time.Second), Unit: time.Second}
	en := encMap(tmN)
	floorK := func(x time.Time) int { return int(x.Sub(tmN.Epoch) / time.Second) }
	t.Reset(rt.M{"kind": "task", "script": c.script()})
	t.Event("Task", rt.M{"cfg": c.J(), "err": ""})
	per := c.Every
	if c.Kind == "cron" {
		per = c.P
	}
	for ph := 0; ph < per; ph++ {
		before := time.Now()
		bqs, err := et.BatchQueries(tmN.T(600+ph), time.Time{})
		after := time.Now()
		t.Event("Hist", rt.M{"start": 600 + ph, "stop_lo": floorK(before), "stop_hi": floorK(after)})
		items := []any{}
		if err != nil {
			t.Event("HistRet", rt.M{"err": err.Error(), "qs": items})
			continue
		}
		for _, bq := range bqs {
			for _, q := range bq.Queries {
				items = append(items, histItem(q, tmN, en, time.Second))
			}
		}
		t.Event("HistRet", rt.M{"err": "", "qs": items})
	}
	t.Distinct(fmt.Sprintf("now|%v", c.J()))
}

// live: start the task the way the task store does (StartTask, then
// StartBatching), let the real ticker run against the fake InfluxDB client
// until `want` queries arrived, stop it, and record what was issued.
func (tr *taskRunner) live(c *taskCfg, want int) {
	task := tr.newTask(c)
	t := tr.t
	unit := time.Millisecond
	if c.unit == "s" {
		unit = time.Second
	}
	lm := rt.TimeMap{Unit: unit}
	t.Reset(rt.M{"kind": "live", "script": c.script()})
	t.Event("Task", rt.M{"cfg": c.J(), "err": ""})
	before := time.Now()
	et, err := tr.env.TM.StartTask(task)
	if err == nil {
		if err = et.StartBatching(); err != nil {
			tr.env.TM.StopTask(task.ID)
		}
	}
	if err != nil {
		t.Event("Start", rt.M{"err": err.Error()})
		t.Event("Stopped", rt.M{"before": 0, "after": 0, "qs": []any{}})
		return
	}
	t.Event("Start", rt.M{"err": ""})
	mine := func() []string {
		var out []string
		for _, q := range tr.env.Influx.QueriesFrom(0) {
			if strings.Contains(q.Command, `"`+c.Meas+`"`) || strings.Contains(q.Command, "."+c.Meas+" ") || strings.HasSuffix(q.Command, "."+c.Meas) ||
				strings.Contains(q.Command, " "+c.Meas+" ") || strings.Contains(q.Command, " "+c.Meas+",") || strings.Contains(q.Command, "."+c.Meas+",") {
				out = append(out, q.Command)
			}
		}
		return out
	}
	deadline := time.Now().Add(60 * time.Second)
	for want > 0 && len(mine()) < want {
		if time.Now().After(deadline) {
			rt.Fatalf("live task issued %d of %d queries within 60s:\n%s", len(mine()), want, c.script())
		}
		time.Sleep(time.Millisecond)
	}
	tr.env.TM.StopTask(task.ID)
	after := time.Now()
	base := before.Truncate(time.Hour)
	every := time.Duration(c.Every) * unit
	if c.Kind == "cron" {
		every = time.Second
	}
	offset := time.Duration(c.Offset) * unit
	tickOf := func(stop time.Time) (int, int) {
		d := stop.Add(offset).Sub(base)
		return int(d / time.Millisecond), int(d % time.Millisecond)
	}
	items := []any{}
	var lastTick time.Time
	for _, cmd := range mine() {
		o := observe(cmd, lm, nil)
		m := o.J()
		for k, v := range o.clauses(unit) {
			m[k] = v
		}
		m["exact"] = !o.lo.IsZero() && !o.hi.IsZero()
		tk := o.hi.Add(offset)
		m["tick"], m["sub"] = tickOf(o.hi)
		m["phase"] = durUnits(tk.Sub(tk.Truncate(every)), unit)
		m["smod"] = 0
		if c.GbLen > 0 {
			m["smod"] = durUnits(time.Duration(o.lo.UnixNano()%int64(time.Duration(c.GbLen)*unit)), unit)
		}
		items = append(items, m)
		lastTick = tk
	}
	ev := rt.M{"before": int(before.Sub(base) / time.Millisecond), "after": int(after.Sub(base)/time.Millisecond) + 1, "qs": items}
	// what BatchQueries reports for the same wall-clock span (aligned schedules only:
	// an unaligned live ticker's phase is its unobservable start instant)
	if (c.Kind == "cron" || c.Align) && len(items) > 0 {
		bqs, err := et.BatchQueries(before, lastTick.Add(time.Millisecond))
		if err != nil {
			rt.Fatalf("BatchQueries on the stopped live task: %v", err)
		}
		hist := []any{}
		for _, bq := range bqs {
			for _, q := range bq.Queries {
				o := observe(q.String(), lm, nil)
				tick, sub := tickOf(o.hi)
				hist = append(hist, rt.M{"tick": tick, "sub": sub, "gboff": o.clauses(unit)["gb"].(rt.M)["off"]})
			}
		}
		ev["hist"] = hist
	}
	t.Event("Stopped", ev)
	t.Distinct(fmt.Sprintf("live|%v", c.J()))
}

var gbVariants = []struct {
	len, off int
	ag       bool
	tags     []string
	star     bool
}{
	{0, 0, false, nil, false},
	{5, 0, false, nil, false},
	{20, 0, true, nil, true},
	{5, 2, false, []string{"host"}, false},
	{0, 0, false, []string{"host", "dc"}, true},
	{20, 2, true, []string{"host"}, false},
	{60, 0, true, nil, false},
}
var fills = []string{"null", "num:0", "previous", "none", "linear"}
var wheres = []string{"", "p1 = 'x' OR p2 = 'x'", "(p1 = 'x' OR p2 = 'x') AND time < '2020-01-06T00:02:05Z'", "p1 = 'x' AND p2 = 'x' OR p3 = 'x'"}

func leafFix(w string) string {
	// the where clauses above use the "= 'x'" form for all leaves; rewrite to the canonical leaf forms
	for _, n := range []string{"p1", "p2", "p3"} {
		w = strings.ReplaceAll(w, n+" = 'x'", leafSQL(n))
	}
	return w
}

func spansFor(per int, lens []int, base int) [][2]int {
	var out [][2]int
	for ph := 0; ph < per; ph++ {
		for _, n := range lens {
			out = append(out, [2]int{base + ph, base + ph + n})
		}
	}
	return out
}

func runTasks(r *rt.Run, t *rt.Trace) error {
	env, err := rt.NewEnv(rt.EnvOpts{})
	if err != nil {
		return err
	}
	defer env.Close()
	tr := &taskRunner{r: r, t: t, env: env}
	base := 120
	everys := []int{10, 4}
	periods := []int{10, 7}
	offsets := []int{0, 3, 13}
	crons := [][2]int{{5, 0}, {10, 3}}
	if r.Thorough() {
		base = 420
		everys = []int{1, 2, 3, 4, 5, 7, 10, 12}
		periods = []int{0, 7, 10, 20}
		offsets = []int{-3, 0, 3, 10, 13}
		crons = [][2]int{{5, 0}, {10, 3}, {15, 3}, {60, 0}, {60, 3}}
	}
	k := 0
	mk := func() *taskCfg {
		g := gbVariants[k%len(gbVariants)]
		c := &taskCfg{Kind: "every", Every: 1, P: 1, GbLen: g.len, GbOff: g.off, AlignGroup: g.ag, Tags: g.tags, Star: g.star,
			Fill: fills[k%len(fills)], Declared: []string{"db.rp"}, Sources: []string{"db.rp"},
			Where: leafFix(wheres[k%len(wheres)]), unit: "s"}
		k++
		return c
	}
	// every()/align()/offset/period, all phases of start modulo every, several span lengths
	for _, ev := range everys {
		for _, al := range []bool{false, true} {
			for _, pd := range periods {
				for _, of := range offsets {
					c := mk()
					c.Every, c.Align, c.Period, c.Offset = ev, al, pd, of
					tr.hist(c, spansFor(ev, []int{0, ev - 1, ev, 2*ev + 1, 4 * ev}, base))
				}
			}
		}
	}
	// every group-by variant under align and alignGroup
	for gi := range gbVariants {
		for _, al := range []bool{false, true} {
			k = gi
			c := mk()
			c.Every, c.Align, c.Period, c.Offset = 10, al, 20, 3*(gi%2)
			tr.hist(c, spansFor(10, []int{9, 25}, base))
		}
	}
	// cron schedules (periodic second patterns), offset applies as well
	for _, cr := range crons {
		for _, of := range offsets[:2] {
			c := mk()
			c.Kind, c.P, c.R, c.Period, c.Offset = "cron", cr[0], cr[1], 7, of
			tr.hist(c, spansFor(cr[0], []int{0, cr[0] - 1, cr[0], 3*cr[0] + 1}, base))
		}
	}
	// two query nodes in one task (different schedules, group-by and conditions)
	for _, al := range []bool{false, true} {
		c1, c2 := mk(), mk()
		c1.Every, c1.Align, c1.Period, c1.Offset = 10, al, 10, 3
		c2.Every, c2.Align, c2.Period, c2.Offset = 4, !al, 7, 0
		tr.histMulti(c1, c2, spansFor(10, []int{9, 25}, base))
	}
	nHist := tr.n
	// declared vs queried DBRPs: BatchQueries and StartBatching must both refuse
	decls := [][]string{{"db.rp"}, {"db.rp", "db.rp2"}, {"other.rp"}, {"db.rp2", "other.rp"}}
	srcs := [][]string{{"db.rp"}, {"db.rp2"}, {"other.rp"}, {"db.rp", "db.rp2"}, {"db.rp", "other.rp"}, {"other.rp", "db.rp"}, {"sub"}, {"."}, {"db.rp", "sub"}}
	for _, d := range decls {
		for _, s := range srcs {
			c := mk()
			c.Every, c.Period, c.Declared, c.Sources = 10, 10, d, s
			tr.hist(c, [][2]int{{base, base + 25}})
			c2 := *c
			tr.live(&c2, 0)
		}
	}
	// how a source is written x what the task declared x the server's default-retention-policy:
	// db.rp.m, "db"."rp"."m", db..m, "db".."m" (no rp), a bare measurement, two sources in one FROM.
	// Both paths: BatchQueries, and StartTask+StartBatching with a 50 ms ticker so that the text
	// the fake InfluxDB client receives is recorded whenever the task is let through.
	nForms := 0
	{
		fdecls := [][]string{{"db.rp"}, {"db.autogen"}, {"db.rp", "db."}, {"other.rp"}}
		fsrcs := [][]string{{"db.rp"}, {"db."}, {"."}, {"db.autogen"}, {"other."}, {"db.rp", "db."}, {"db.", "db.rp"}, {"db.rp", "."}}
		for _, drp := range []string{"", "autogen", "rp"} {
			for _, d := range fdecls {
				for _, sl := range fsrcs {
					for _, unq := range []bool{false, true} {
						c := mk()
						c.Every, c.Period, c.Declared, c.Sources, c.DefaultRP, c.Unquoted = 10, 10, d, sl, drp, unq
						tr.hist(c, [][2]int{{base, base + 25}})
						c2 := *c
						c2.unit = "ms"
						c2.Every, c2.Align, c2.Period, c2.Offset = 50, false, 70, 0
						c2.GbLen, c2.GbOff, c2.AlignGroup = 0, 0, false
						c2.Where = leafFix(wheres[1]) // no absolute user time predicate next to wall-clock ranges
						tr.live(&c2, 1)
						nForms += 2
					}
				}
			}
		}
		tr.env.TM.DefaultRetentionPolicy = ""
	}
	r.Extra["task_traces_source_forms"] = nForms
	// mixed Flux / InfluxQL children of one batch source: 1-2 |queryFlux and 1-2 |query nodes, both
	// orders and interleaved, each |query reading a declared or an undeclared database
	nMixed := 0
	{
		fl := childCfg{flux: true}
		ql := func(s ...string) childCfg { return childCfg{srcs: s} }
		qlSides := [][]childCfg{}
		for _, a := range [][]string{{"db.rp"}, {"other.rp"}, {"db.rp", "other.rp"}} {
			qlSides = append(qlSides, []childCfg{ql(a...)})
			for _, b := range [][]string{{"db.rp"}, {"other.rp"}} {
				qlSides = append(qlSides, []childCfg{ql(a...), ql(b...)})
			}
		}
		var lists [][]childCfg
		for _, qs := range qlSides {
			for nf := 1; nf <= 2; nf++ {
				fs := []childCfg{fl, fl}[:nf]
				lists = append(lists, append(append([]childCfg{}, qs...), fs...)) // |query nodes written first
				lists = append(lists, append(append([]childCfg{}, fs...), qs...)) // |queryFlux nodes written first
				if len(qs) == 2 {
					lists = append(lists, []childCfg{qs[0], fl, qs[1]}) // interleaved
					if nf == 2 {
						lists = append(lists, []childCfg{fl, qs[0], fl, qs[1]}, []childCfg{qs[0], fl, qs[1], fl})
					}
				}
			}
		}
		lists = append(lists, []childCfg{fl}, []childCfg{fl, fl})
		for _, d := range [][]string{{"db.rp"}, {"db.rp", "other.rp"}, {"db.rp2"}} {
			for _, l := range lists {
				tr.mixed(d, l)
				nMixed++
			}
		}
	}
	r.Extra["task_traces_mixed_flux"] = nMixed
	nDBRP := tr.n - nHist - nMixed - nForms
	// seeded random settings and spans
	nRand := 40
	if r.Thorough() {
		nRand = 1000
	}
	for i := 0; i < nRand; i++ {
		c := mk()
		if r.Rand.Intn(4) == 0 {
			ps := []int{2, 3, 4, 5, 6, 10, 12, 15, 20, 30, 60}
			c.Kind, c.P = "cron", ps[r.Rand.Intn(len(ps))]
			c.R = r.Rand.Intn(c.P)
		} else {
			// Truncate/Round work relative to Go's zero time; the model epoch is a whole number
			// of weeks after it, so integer div/mod in the model agree for divisors of a week.
			evs := []int{1, 2, 3, 4, 5, 6, 7, 8, 9, 10, 12, 14, 15}
			c.Every, c.Align = evs[r.Rand.Intn(len(evs))], r.Rand.Intn(2) == 0
		}
		c.Period, c.Offset = r.Rand.Intn(30), r.Rand.Intn(20)-3
		var sp [][2]int
		for j := 0; j < 12; j++ {
			s := 400 + r.Rand.Intn(200)
			sp = append(sp, [2]int{s, s + r.Rand.Intn(70)})
		}
		tr.hist(c, sp)
	}
	// span ending at the wall clock (stop time zero)
	nNow := 0
	for _, al := range []bool{false, true} {
		for _, of := range []int{0, 3, 13} {
			c := mk()
			c.Every, c.Align, c.Period, c.Offset = 10, al, 10, of
			c.Where = leafFix(wheres[1])
			tr.histNow(c)
			nNow++
		}
	}
	{
		c := mk()
		c.Kind, c.P, c.R, c.Period, c.Offset = "cron", 15, 3, 7, 2
		c.Where = leafFix(wheres[1])
		tr.histNow(c)
		nNow++
	}
	r.Extra["task_traces_until_now"] = nNow
	// the real tickers (wall clock, milliseconds): timing-robust facts only
	nLive := 0
	for _, al := range []bool{false, true} {
		for _, of := range []int{0, 20} {
			c := mk()
			c.unit = "ms"
			c.Every, c.Align, c.Period, c.Offset = 50, al, 70, of
			c.GbLen, c.GbOff, c.AlignGroup, c.Tags, c.Star = 0, 0, false, []string{"host"}, false
			if al {
				c.GbLen, c.AlignGroup = 20, true
			}
			c.Where = leafFix(wheres[1])
			tr.live(c, 4)
			nLive++
		}
	}
	{
		c := mk()
		c.unit = "ms"
		c.Kind, c.P, c.R, c.Period, c.Offset = "cron", 1000, 0, 1500, 250
		c.GbLen, c.GbOff, c.AlignGroup, c.Tags, c.Star = 0, 0, false, nil, true
		c.Where = leafFix(wheres[3])
		tr.live(c, 2)
		nLive++
	}
	r.Extra["task_traces_enumerated"] = nHist
	r.Extra["task_traces_dbrp"] = nDBRP
	r.Extra["task_traces_random"] = nRand
	r.Extra["live_ticker_runs"] = nLive
	return nil
}

// Run: B1 for C16.
func Run(r *rt.Run) error {
	t := r.NewTrace("trace")
	runQ(r, t)
	if err := runTasks(r, t); err != nil {
		return err
	}
	r.Finish("Query objects: real NewQuery/SetStartTime/SetStopTime/Clone/String over every WHERE shape of {leaf, AND, OR, parentheses} up to depth 2 (plain and with each leaf replaced by each user time predicate), depth-3 shapes, and seeded random ones; batch tasks: real ExecutingTask.BatchQueries for every()/align()/cron()/offset/period settings over every phase of the start time and several span lengths, group-by/fill variants, declared-vs-queried DBRPs through BatchQueries and StartBatching (every way of writing a source - with/without retention policy, quoted or not, bare, two per FROM - under each default-retention-policy setting; batch sources mixing |query and |queryFlux children in every order), seeded random settings, and the real tickers run against a fake InfluxDB client; every issued statement is re-parsed with influxql and judged by TLC; non-trivial = condition with >= 2 atoms / call returning >= 2 queries, distinct by input", false)
	return nil
}
