package c01

import (
	"fmt"
	"strings"
	"sync"
	"sync/atomic"
	"time"

	imodels "github.com/influxdata/influxdb/models"
	"github.com/influxdata/kapacitor"
	"github.com/influxdata/kapacitor/alert"
	"github.com/influxdata/kapacitor/edge"
	"github.com/influxdata/kapacitor/keyvalue"
	"github.com/influxdata/kapacitor/models"
	alertservice "github.com/influxdata/kapacitor/services/alert"

	"kapverif/rt"
)

// topicBuf is the per-handler event buffer of the alert service.  A full buffer
// drops the event (by design, with an error); a chunk never offers more steps
// than this, so it cannot fill, and any collect error is a harness failure.
const topicBuf = 1 << 16
const maxChunkSteps = 60000

var tmap = rt.DefaultTime

// evRec is an alert event as the handler on the topic saw it.
type evRec struct {
	Lvl  int
	T    int   // model time of State.Time (-1: not on the grid)
	Dur  int64 // State.Duration in model units (-1: not a small whole number of units)
	ID   string
	B, N int // step / point index carried in the event's fields
	Prev int // PreviousState().Level as the handler sees it
	// MsgOK: the default message template rendered "<id> is <LEVEL>"; Recov: Data.Recoverable
	MsgOK, Recov bool
}

// fwdRec is one data point forwarded downstream of the alert node.
type fwdRec struct {
	Lvl int
	Dur int64
	ID  string
	// levelTag / idTag on the forwarded point
	TagLvl int
	TagID  string
}

// stepObs is everything observed for one input step of one ID.
type stepObs struct {
	Anon int // events an inline handler (anonymous topic) got for this step
	Ev   []evRec
	NFwd int // forwarded messages (stream: points, batch: batches)
	Fwd  []fwdRec
}

func durUnits(d time.Duration) int64 {
	if d < 0 || d%tmap.Unit != 0 || d/tmap.Unit > 1000000 {
		return -1
	}
	return int64(d / tmap.Unit)
}

func levelOfString(s string) int {
	switch s {
	case "OK":
		return 0
	case "INFO":
		return 1
	case "WARNING":
		return 2
	case "CRITICAL":
		return 3
	}
	return -1
}

func intField(f map[string]interface{}, k string) int {
	switch v := f[k].(type) {
	case int64:
		return int(v)
	case float64:
		return int(v)
	}
	return -1
}

// collector is the alert.Handler registered on the alert's topic.
type collector struct {
	mu  sync.Mutex
	evs map[string][]evRec
	n   int
}

func (c *collector) Handle(e alert.Event) {
	k, ok := tmap.KOK(e.State.Time)
	if !ok {
		k = -1
	}
	r := evRec{Lvl: int(e.State.Level), T: k, Dur: durUnits(e.State.Duration), ID: e.State.ID,
		B: intField(e.Data.Fields, "b"), N: intField(e.Data.Fields, "n"),
		Prev: int(e.PreviousState().Level), MsgOK: e.State.Message == e.State.ID+" is "+e.State.Level.String(),
		Recov: e.Data.Recoverable}
	c.mu.Lock()
	c.evs[e.Data.Tags["g"]] = append(c.evs[e.Data.Tags["g"]], r)
	c.n++
	c.mu.Unlock()
}

// inlineHandler is what the node's .talk() inline handler resolves to (the
// harness is the TalkService): it records which (ID, step) it was handed and,
// when gated, blocks inside Handle - a stuck inline handler whose queue fills up.
type inlineHandler struct {
	mu      sync.Mutex
	got     map[string][]int
	gate    chan struct{} // nil: never blocks
	entered atomic.Int64
}

func (h *inlineHandler) Handle(e alert.Event) {
	h.entered.Add(1)
	if h.gate != nil {
		<-h.gate
	}
	h.mu.Lock()
	g := e.Data.Tags["g"]
	h.got[g] = append(h.got[g], intField(e.Data.Fields, "b"))
	h.mu.Unlock()
}

type talkService struct {
	mu sync.Mutex
	h  *inlineHandler
}

func (t *talkService) Handler(...keyvalue.T) alert.Handler {
	t.mu.Lock()
	defer t.mu.Unlock()
	return t.h
}

func (t *talkService) set(h *inlineHandler) {
	t.mu.Lock()
	t.h = h
	t.mu.Unlock()
}

// Exec runs chunks of sequences through real tasks on one assembled TaskMaster.
type Exec struct {
	env   *rt.Env
	store *rt.BoltStore
	talk  *talkService
	n    int
	// measured totals
	Points, Events, Forwarded, Tasks, NodeErrors, InlineEvents int
}

// chunkErrs is what the task and its nodes reported through their diagnostics
// while one chunk ran: a count and the first few distinct classes.
type chunkErrs struct {
	N       int
	Classes []string
}

func (c *chunkErrs) add(class string) {
	c.N++
	if len(class) > 160 {
		class = class[:160]
	}
	for _, k := range c.Classes {
		if k == class {
			return
		}
	}
	if len(c.Classes) < 4 {
		c.Classes = append(c.Classes, class)
	}
}

func NewExec() (*Exec, error) { return NewExecBuf(topicBuf) }

// NewExecPersist: the alert service persists its topics (Bolt file in memory, no fsync),
// so a restore after a task restart decodes the stored event states.
func NewExecPersist() (*Exec, error) {
	var store *rt.BoltStore
	env, err := rt.NewEnv(rt.EnvOpts{TopicBufLen: topicBuf, PersistTopics: true,
		StorageWrap: func(inner alertservice.StorageService) alertservice.StorageService {
			st, err := rt.NewBoltStore("", true, inner.Diagnostic())
			if err != nil {
				rt.Fatalf("c01: bolt store: %v", err)
			}
			store = st
			return st
		}})
	if err != nil {
		return nil, err
	}
	x := &Exec{env: env, talk: &talkService{}, store: store}
	env.TM.TalkService = x.talk
	return x, nil
}

// NewExecBuf: bufLen is the per-handler event queue of the alert service.
func NewExecBuf(bufLen int) (*Exec, error) {
	env, err := rt.NewEnv(rt.EnvOpts{TopicBufLen: bufLen})
	if err != nil {
		return nil, err
	}
	x := &Exec{env: env, talk: &talkService{}}
	env.TM.TalkService = x.talk
	return x, nil
}

func (x *Exec) Close() {
	x.env.Close()
	if x.store != nil {
		x.store.Close()
	}
}

func fieldsOf(p Pt, b, n int) map[string]interface{} {
	f := map[string]interface{}{
		"i": p.C[0], "w": p.C[1], "c": p.C[2], "ri": p.R[0], "rw": p.R[1], "rc": p.R[2],
		"b": int64(b), "n": int64(n), "value": float64(p.V),
	}
	// a lambda that must fail on this point: its field is missing (even steps) or a
	// string where a boolean is expected (odd steps)
	for l := 0; l < 3; l++ {
		for _, e := range []struct {
			on   bool
			name string
		}{{p.CE[l], lvlField[l]}, {p.RE[l], rstField[l]}} {
			if e.on && (b+n)%2 == 0 {
				delete(f, e.name)
			} else if e.on {
				f[e.name] = "x"
			}
		}
	}
	return f
}

// Times of a sequence: per step the model time of every point and tmax.
func stepTimes(s Seq) (pts [][]int, tmax []int) {
	clock := 0
	for _, st := range s {
		var ts []int
		t := clock
		for _, p := range st.Pts {
			t += p.Dt
			ts = append(ts, t)
		}
		clock = t + st.G
		pts = append(pts, ts)
		tmax = append(tmax, clock)
	}
	return
}

// Run executes seqs (one alert ID each, ids[i]) through ONE real task with
// configuration cfg, the steps of all IDs interleaved round-robin, drains the
// task and returns the observations per sequence and step.
//
// o.Cut >= 0: the task is stopped and a new one started on the same topic before
// step Cut.  o.Stuck (stream, cfg.Inline, an executor with a small handler queue):
// the inline handler blocks inside Handle from the first event on, so its queue
// fills up and collecting for the anonymous topic fails from then on; the steps
// are fed in rounds with exact waits, so that the named topic's own queue can
// never fill.
type runOpts struct {
	Cut   int
	Stuck bool
}

const sentinelID = "zz"

func (x *Exec) Run(cfg Cfg, seqs []Seq, ids []string, o runOpts) ([][]stepObs, chunkErrs) {
	cut := o.Cut
	x.n++
	topic := fmt.Sprintf("c01topic%d", x.n)
	col := &collector{evs: map[string][]evRec{}}
	x.env.Alert.RegisterAnonHandler(topic, col)
	var inl *inlineHandler
	if cfg.Inline {
		inl = &inlineHandler{got: map[string][]int{}}
		if o.Stuck {
			inl.gate = make(chan struct{})
		}
		x.talk.set(inl)
	}
	var namedEnq, namedDone, sentinels atomic.Int64
	if o.Stuck {
		if cfg.Batch || !cfg.Inline {
			rt.Fatalf("c01: the stuck-handler scenario needs a stream configuration with an inline handler")
		}
		alert.VerifHook = func(point string, args ...string) {
			if len(args) > 0 && args[0] == topic {
				switch point {
				case "handler.enq":
					namedEnq.Add(1)
				case "handler.done":
					namedDone.Add(1)
				}
			}
		}
		x.env.Diag.OnItem = func(it rt.SinkItem) {
			if it.Sink == "fwd" && it.Point != nil && it.Point.Tags()["g"] == sentinelID {
				sentinels.Add(1)
			}
		}
		defer func() { alert.VerifHook = nil; x.env.Diag.OnItem = nil }()
	}
	waitFor := func(what string, cond func() bool) {
		deadline := time.Now().Add(120 * time.Second)
		for i := 0; !cond(); i++ {
			if time.Now().After(deadline) {
				rt.Fatalf("c01: %s not reached within the deadline", what)
			}
			if i > 50 {
				time.Sleep(100 * time.Microsecond)
			}
		}
	}
	tt := kapacitor.StreamTask
	if cfg.Batch {
		tt = kapacitor.BatchTask
	}
	var taskID string
	var taskIDs []string
	var collectors []kapacitor.BatchCollector
	written := 0
	start := func() {
		x.Tasks++
		// a restarted task keeps its ID (as a stop/start through the API does): the name of
		// the inline handlers' anonymous topic derives from it
		taskID = fmt.Sprintf("c01task%d", x.n)
		if len(taskIDs) == 0 {
			taskIDs = append(taskIDs, taskID)
		}
		if _, err := x.env.StartTask(taskID, cfg.Script(topic), tt, rt.DefaultDBRP); err != nil {
			rt.Fatalf("c01: start task for %v: %v\n%s", cfg, err, cfg.Script(topic))
		}
		if cfg.Batch {
			collectors = x.env.TM.BatchCollectors(taskID)
			if len(collectors) != 1 {
				rt.Fatalf("c01: expected 1 batch collector, got %d", len(collectors))
			}
		}
	}
	// drain: close the source, every node drains and exits.  Stream ingest is
	// asynchronous (WritePoints -> ingest edge -> fork), so first wait until the task
	// has received every point (condition wait on the 'in' sink; a miss is exit 2).
	drain := func() {
		if cfg.Batch {
			collectors[0].Close()
		} else if !x.env.Diag.WaitCount("in", written, 120*time.Second) {
			rt.Fatalf("c01: task received %d of %d points within the deadline", x.env.Diag.Count("in"), written)
		}
		// an error returned here is the task's own (a node failed); it is also reported
		// through the diagnostics (StoppedTaskWithError) and recorded below
		_ = x.env.TM.StopTask(taskID)
	}
	start()
	maxLen := 0
	times := make([][][]int, len(seqs))
	tmaxs := make([][]int, len(seqs))
	for i, s := range seqs {
		if len(s) > maxLen {
			maxLen = len(s)
		}
		times[i], tmaxs[i] = stepTimes(s)
	}
	for b := 0; b < maxLen; b++ {
		if b == cut {
			// task restart while the daemon keeps running: the topic (and with it the
			// last event state of every ID) stays, the new task's alert node restores from it
			drain()
			start()
		}
		var wr []imodels.Point
		for i, s := range seqs {
			if b >= len(s) {
				continue
			}
			st := s[b]
			tags := map[string]string{"g": ids[i]}
			meas := "m"
			if cfg.Multi && len(st.Pts) > 0 {
				meas = measOf(st.Pts[0].Sub)
				if !cfg.Batch {
					tags["h"] = hOf(st.Pts[0].Sub)
				}
			}
			if cfg.Batch {
				begin := edge.NewBeginBatchMessage(meas, models.Tags{"g": ids[i]}, false, tmap.T(tmaxs[i][b]), len(st.Pts))
				bps := make([]edge.BatchPointMessage, len(st.Pts))
				for n, p := range st.Pts {
					bps[n] = edge.NewBatchPointMessage(models.Fields(fieldsOf(p, b, n)), models.Tags{"g": ids[i]}, tmap.T(times[i][b][n]))
				}
				if err := collectors[0].CollectBatch(edge.NewBufferedBatchMessage(begin, bps, edge.NewEndBatchMessage())); err != nil {
					rt.Fatalf("c01: CollectBatch: %v", err)
				}
				x.Points += len(st.Pts)
			} else {
				wr = append(wr, rt.MustPoint(meas, tags, fieldsOf(st.Pts[0], b, 0), tmap.T(times[i][b][0])))
				x.Points++
			}
		}
		if o.Stuck && b == 0 && len(wr) > 1 {
			// primer: one event first; once the inline handler is stuck holding it, the
			// number of events its queue still takes is exact
			if err := x.env.Write("db", "rp", wr[0]); err != nil {
				rt.Fatalf("c01: write: %v", err)
			}
			written++
			wr = wr[1:]
			waitFor("the inline handler holding the first event", func() bool { return inl.entered.Load() >= 1 })
		}
		if o.Stuck {
			// the sentinel ID is always CRITICAL: when its point of this round shows up
			// downstream the alert node has processed (and collected) the whole round
			wr = append(wr, rt.MustPoint("m", map[string]string{"g": sentinelID},
				fieldsOf(Pt{C: [3]bool{true, true, true}}, b, 0), tmap.T(b+1)))
		}
		if len(wr) > 0 {
			if err := x.env.Write("db", "rp", wr...); err != nil {
				rt.Fatalf("c01: write: %v", err)
			}
			written += len(wr)
		}
		if o.Stuck {
			round := int64(b + 1)
			waitFor("the round's sentinel downstream of the alert node", func() bool { return sentinels.Load() >= round })
			waitFor("the named topic's handler catching up", func() bool { return namedEnq.Load() == namedDone.Load() })
		}
	}
	if o.Stuck {
		close(inl.gate) // the inline handler works off what its queue took
	}
	// end-of-trace drain; then the handler is deregistered, which drains its queue
	// synchronously.
	drain()
	x.env.Alert.DeregisterAnonHandler(topic, col)
	x.env.Alert.DeleteTopic(topic)
	// Errors reported by the task / its nodes are behaviour of the code under test:
	// they are recorded with the traces of this chunk and TLC judges the outputs.
	// Only what breaks the harness' own assumptions stays a harness failure: a
	// dropped event (handler buffer full) or an error of the assembled services.
	rep := chunkErrs{}
	for _, e := range x.env.Diag.Errors() {
		fromTask := strings.HasPrefix(e.Ctx, "task:") || strings.HasPrefix(e.Ctx, "node:")
		if !fromTask || (e.Msg == "encountered error collecting event" && !o.Stuck) {
			rt.Fatalf("c01: harness assumption broken (%+v) for %v", e, cfg)
		}
		if e.Msg == "encountered error collecting event" {
			rep.add(e.Msg + " | (handler queue full)") // the error text names the event: one class
			continue
		}
		rep.add(e.Msg + " | " + e.Err)
	}
	for _, id := range taskIDs {
		if msg, ok := x.env.Diag.StoppedWithError(id); ok && msg != "" {
			rep.add("task stopped with error | " + msg)
		}
	}
	x.NodeErrors += rep.N

	idx := make(map[string]int, len(ids))
	out := make([][]stepObs, len(seqs))
	for i, s := range seqs {
		idx[ids[i]] = i
		out[i] = make([]stepObs, len(s))
	}
	var scratch stepObs
	put := func(g string, b int) *stepObs {
		if o.Stuck && g == sentinelID {
			scratch = stepObs{}
			return &scratch
		}
		i, ok := idx[g]
		if !ok || b < 0 || b >= len(out[i]) {
			rt.Fatalf("c01: output for unknown input (group %q step %d)", g, b)
		}
		return &out[i][b]
	}
	col.mu.Lock()
	for g, evs := range col.evs {
		for _, e := range evs {
			o := put(g, e.B)
			o.Ev = append(o.Ev, e)
			x.Events++
		}
	}
	col.mu.Unlock()
	if inl != nil {
		inl.mu.Lock()
		for g, bs := range inl.got {
			for _, b := range bs {
				put(g, b).Anon++
				x.InlineEvents++
			}
		}
		inl.mu.Unlock()
	}
	for _, it := range x.env.Diag.SinkItems("fwd") {
		if it.Point != nil {
			p := it.Point
			f := p.Fields()
			o := put(p.Tags()["g"], intField(f, "b"))
			o.NFwd++
			o.Fwd = append(o.Fwd, fwdOf(f, p.Tags()))
		} else if it.Batch != nil {
			bb := it.Batch
			if len(bb.Points()) == 0 {
				rt.Fatalf("c01: empty batch forwarded")
			}
			o := put(bb.Tags()["g"], intField(bb.Points()[0].Fields(), "b"))
			o.NFwd++
			for _, bp := range bb.Points() {
				o.Fwd = append(o.Fwd, fwdOf(bp.Fields(), bp.Tags()))
			}
		}
		x.Forwarded++
	}
	x.env.Diag.Clear()
	return out, rep
}

func b2i(b bool) int {
	if b {
		return 1
	}
	return 0
}

func fwdOf(f models.Fields, tags models.Tags) fwdRec {
	r := fwdRec{Lvl: -1, Dur: -1, TagLvl: -1}
	if s, ok := tags["lt"]; ok {
		r.TagLvl = levelOfString(s)
	}
	r.TagID = tags["it"]
	if s, ok := f["l"].(string); ok {
		r.Lvl = levelOfString(s)
	}
	if d, ok := f["d"].(int64); ok {
		r.Dur = durUnits(time.Duration(d))
	}
	if s, ok := f["id"].(string); ok {
		r.ID = s
	}
	return r
}

// emit writes one trace (Reset + one S line per step) for a sequence.
// nerr / nerrc: errors the task reported while the chunk this ID belongs to ran.
// cut >= 0: the task was restarted before step cut (a Restart line).
// stuck: the trace belongs to the stuck-inline-handler scenario (replay re-runs the
// whole scenario, one ID alone cannot fill a queue).
func emit(t *rt.Trace, cfg Cfg, id string, s Seq, obs []stepObs, rep chunkErrs, cut int, stuck bool) {
	errc := make([]any, len(rep.Classes))
	for i, c := range rep.Classes {
		errc[i] = c
	}
	rs := rt.M{"setup": cfg.JSON(), "id": id, "nerr": rep.N, "nerrc": errc}
	if stuck {
		rs["stuck"] = true
	}
	t.Reset(rs)
	times, tmaxs := stepTimes(s)
	for b, st := range s {
		if b == cut {
			t.Event("Restart", nil)
		}
		pts := make([]any, len(st.Pts))
		for n, p := range st.Pts {
			pm := rt.M{"c": bools(p.C), "r": bools(p.R), "t": times[b][n]}
			if cfg.Errs {
				pm["ce"], pm["re"] = bools(p.CE), bools(p.RE)
			}
			pts[n] = pm
		}
		// the ID the node has to render for THIS step's data (several per group with Multi)
		sid, sub := id, 0
		if len(st.Pts) > 0 {
			sub = st.Pts[0].Sub
			sid = idOf(cfg, id, sub)
		}
		o := obs[b]
		evs, eids := []any{}, []any{}
		for _, e := range o.Ev {
			evs = append(evs, []any{e.Lvl, e.T, e.Dur, e.N, e.Prev, b2i(e.MsgOK), b2i(e.Recov)})
			eids = append(eids, e.ID)
		}
		fw, fids, ftids := []any{}, []any{}, []any{}
		for _, f := range o.Fwd {
			fw = append(fw, []any{f.Lvl, f.Dur, f.TagLvl})
			fids = append(fids, f.ID)
			ftids = append(ftids, f.TagID)
		}
		ln := rt.M{"id": sid, "pts": pts, "tmax": tmaxs[b], "o": evs, "oid": eids, "nf": o.NFwd, "f": fw, "fid": fids, "ftid": ftids}
		if cfg.Multi {
			ln["sub"] = sub
		}
		if cfg.Inline {
			ln["an"] = o.Anon
		}
		t.Event("S", ln)
	}
}
