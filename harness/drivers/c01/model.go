// Package c01 drives the real AlertNode (alert.go) inside a real task through
// point-class sequences and records, per input step, the event the alert's
// handlers saw and the data forwarded downstream (DESIGN.md C01).
package c01

import (
	"fmt"
	"strings"

	"kapverif/rt"
)

// Cfg is one alert configuration in model terms (AlertNode.tla: MkCfg).
type Cfg struct {
	Has   [3]bool // info, warn, crit present
	Rst   [3]bool // infoReset, warnReset, critReset present
	Sco   bool    // stateChangesOnly
	Scod  int     // its interval in model time units (0 = none)
	NoRec bool
	All   bool
	Flap  bool
	Flo   int // flapping low/high thresholds in percent
	Fhi   int
	H     int // history
	Batch bool
	// RK[l] > 0: the reset condition of level l is the STATEFUL lambda
	// "count() >= RK[l]" instead of the boolean field (AlertNode.tla: rk).
	RK [3]int
	// Inline: the node also has an inline handler (.talk(): anonymous topic)
	// besides its named topic.
	Inline bool
	// Errs: points on which a level / reset lambda fails to evaluate (field missing
	// or of another type) are part of the alphabet (AlertNode.tla: errs).
	Errs bool
	// Multi: the data is grouped by 'g' only but the ID template also ranges over
	// the measurement name and the tag 'h', so one group renders several alert IDs.
	Multi bool
	// Persist: run on the executor whose alert service persists its topics (restore
	// after a task restart decodes the stored event states); not a model parameter.
	Persist bool
	// Numeric: the lambdas are the documented numeric thresholds on field "value"
	// (info >60 reset <50, warn >70 reset <60, crit >80 reset <70) instead of the
	// boolean fields; not part of the model configuration.
	Numeric bool
}

var lvlName = [3]string{"info", "warn", "crit"}
var lvlField = [3]string{"i", "w", "c"}
var rstField = [3]string{"ri", "rw", "rc"}

func (c Cfg) String() string {
	var b strings.Builder
	if c.Batch {
		b.WriteString("batch ")
	} else {
		b.WriteString("stream ")
	}
	for l := 0; l < 3; l++ {
		if c.Has[l] {
			b.WriteString(lvlField[l])
			if c.Rst[l] && c.RK[l] > 0 {
				fmt.Fprintf(&b, "+count>=%d", c.RK[l])
			} else if c.Rst[l] {
				b.WriteString("+r")
			}
			b.WriteByte(' ')
		}
	}
	if c.Sco {
		fmt.Fprintf(&b, "sco(%d) ", c.Scod)
	}
	if c.NoRec {
		b.WriteString("norec ")
	}
	if c.All {
		b.WriteString("all ")
	}
	if c.Flap {
		fmt.Fprintf(&b, "flap(%d,%d) ", c.Flo, c.Fhi)
	}
	if c.Inline {
		b.WriteString("inline ")
	}
	if c.Errs {
		b.WriteString("errs ")
	}
	if c.Multi {
		b.WriteString("multi ")
	}
	if c.Persist {
		b.WriteString("persist ")
	}
	fmt.Fprintf(&b, "H%d", c.H)
	return b.String()
}

func bools(a [3]bool) []any { return []any{a[0], a[1], a[2]} }

// JSON is the cfg record of the Reset line.
func (c Cfg) JSON() rt.M {
	return rt.M{"has": bools(c.Has), "rst": bools(c.Rst), "sco": c.Sco, "scod": c.Scod, "norec": c.NoRec,
		"all": c.All, "flap": c.Flap, "flo": c.Flo, "fhi": c.Fhi, "H": c.H, "batch": c.Batch,
		"rk": []any{c.RK[0], c.RK[1], c.RK[2]}, "inline": c.Inline, "errs": c.Errs, "multi": c.Multi, "persist": c.Persist}
}

// Valid: resets only for present levels, all() only for batch, at least one level.
func (c Cfg) Valid() bool {
	any := false
	for l := 0; l < 3; l++ {
		any = any || c.Has[l]
		if c.Rst[l] && !c.Has[l] {
			return false
		}
		if c.RK[l] > 0 && !c.Rst[l] {
			return false
		}
		// stateful resets: stream, no filters (AlertNode.tla: ConfigOK)
		if c.RK[l] > 0 && (c.Batch || c.Sco || c.NoRec || c.Flap) {
			return false
		}
	}
	if c.All && !c.Batch {
		return false
	}
	if c.Scod != 0 && !c.Sco {
		return false
	}
	return any && c.H >= 2
}

// Script renders the TICKscript of the real task.  Boolean fields i,w,c,ri,rw,rc
// drive the truth of every level / reset lambda directly.
func (c Cfg) Script(topic string) string {
	var b strings.Builder
	if c.Batch {
		b.WriteString("batch\n    |query('SELECT * FROM \"db\".\"rp\".\"m\"')\n        .period(10s)\n        .every(10s)\n        .groupBy('g')\n")
	} else {
		// the 'in' sink sees every point the task has received: ingest through
		// TaskMaster.WritePoints is asynchronous, the driver waits on this count
		meas := "        .measurement('m')\n"
		if c.Multi {
			meas = "" // measurements m and m2 in one group
		}
		b.WriteString("var src = stream\n    |from()\n" + meas + "        .groupBy('g')\nsrc\n    |log()\n        .prefix('in')\nsrc\n")
	}
	if c.Multi {
		b.WriteString("    |alert()\n        .id('{{ .Name }}/{{ index .Tags \"h\" }}/{{ index .Tags \"g\" }}')\n")
	} else {
		b.WriteString("    |alert()\n        .id('{{ index .Tags \"g\" }}')\n")
	}
	for l := 0; l < 3; l++ {
		if c.Has[l] {
			if c.Numeric {
				fmt.Fprintf(&b, "        .%s(lambda: \"value\" > %d)\n", lvlName[l], 60+10*l)
			} else {
				fmt.Fprintf(&b, "        .%s(lambda: \"%s\")\n", lvlName[l], lvlField[l])
			}
			if c.Rst[l] && c.Numeric {
				fmt.Fprintf(&b, "        .%sReset(lambda: \"value\" < %d)\n", lvlName[l], 50+10*l)
			} else if c.Rst[l] && c.RK[l] > 0 {
				fmt.Fprintf(&b, "        .%sReset(lambda: count() >= %d)\n", lvlName[l], c.RK[l])
			} else if c.Rst[l] {
				fmt.Fprintf(&b, "        .%sReset(lambda: \"%s\")\n", lvlName[l], rstField[l])
			}
		}
	}
	if c.Sco {
		if c.Scod > 0 {
			fmt.Fprintf(&b, "        .stateChangesOnly(%ds)\n", c.Scod)
		} else {
			b.WriteString("        .stateChangesOnly()\n")
		}
	}
	if c.NoRec {
		b.WriteString("        .noRecoveries()\n")
	}
	if c.All {
		b.WriteString("        .all()\n")
	}
	if c.Flap {
		fmt.Fprintf(&b, "        .flapping(%s, %s)\n", pct(c.Flo), pct(c.Fhi))
	}
	if c.Inline {
		b.WriteString("        .talk()\n")
	}
	fmt.Fprintf(&b, "        .history(%d)\n", c.H)
	fmt.Fprintf(&b, "        .topic('%s')\n        .levelField('l')\n        .idField('id')\n        .durationField('d')\n        .levelTag('lt')\n        .idTag('it')\n", topic)
	b.WriteString("    |log()\n        .prefix('fwd')\n")
	return b.String()
}

func pct(p int) string { return fmt.Sprintf("%d.%02d", p/100, p%100) }

// Pt is one point class with its time gap to the previous point (or to the
// clock for the first point of a step).
type Pt struct {
	C, R [3]bool
	// CE / RE: evaluating the level / reset lambda on the point fails (C / R are false)
	CE, RE [3]bool
	// Sub (Multi): 0 = measurement m, tag h=h0; 1 = m, h1; 2 = m2, h0
	Sub int
	Dt  int
	V    int // field "value" (only the numeric documentation example looks at it)
}

// Step is one input step for one alert ID: a stream point (one Pt, G = 0) or a
// batch (>= 0 points, tmax = time of the last point + G).
type Step struct {
	Pts []Pt
	G   int
}

// Seq is the input history of one alert ID.
type Seq []Step

// classes enumerates the point classes that matter for c: only lambdas that
// exist in the configuration vary.
func classes(c Cfg) []Pt {
	type v struct{ truth, err *bool }
	var vars []v
	var p Pt
	for l := 0; l < 3; l++ {
		if c.Has[l] {
			vars = append(vars, v{&p.C[l], &p.CE[l]})
		}
	}
	for l := 0; l < 3; l++ {
		if c.Has[l] && c.Rst[l] && c.RK[l] == 0 {
			vars = append(vars, v{&p.R[l], &p.RE[l]})
		}
	}
	base := 2
	if c.Errs {
		base = 3 // false, true, error
	}
	var out []Pt
	for m := 0; m < pow(base, len(vars)); m++ {
		x := m
		for _, vv := range vars {
			*vv.truth, *vv.err = x%base == 1, x%base == 2
			x /= base
		}
		out = append(out, p)
	}
	return out
}

// idOf is the alert ID the node has to render for a point of group g.
func idOf(c Cfg, g string, sub int) string {
	if !c.Multi {
		return g
	}
	if c.Batch {
		return measOf(sub) + "//" + g // a batch carries its group-by tags only: no h
	}
	return measOf(sub) + "/" + hOf(sub) + "/" + g
}

func measOf(sub int) string {
	if sub == 2 {
		return "m2"
	}
	return "m"
}

func hOf(sub int) string {
	if sub == 1 {
		return "h1"
	}
	return "h0"
}

func (p Pt) key() string {
	var b [7]byte
	for l := 0; l < 3; l++ {
		b[l], b[3+l] = '0', '0'
		if p.C[l] {
			b[l] = '1'
		}
		if p.R[l] {
			b[3+l] = '1'
		}
	}
	b[6] = byte('0' + p.Dt)
	e := 0
	for l := 0; l < 3; l++ {
		if p.CE[l] {
			e |= 1 << l
		}
		if p.RE[l] {
			e |= 8 << l
		}
	}
	return fmt.Sprintf("%s.%d.%d", b[:], e, p.Sub)
}

func (s Seq) key() string {
	var b strings.Builder
	for _, st := range s {
		for _, p := range st.Pts {
			b.WriteString(p.key())
			b.WriteByte('.')
		}
		fmt.Fprintf(&b, "g%d|", st.G)
	}
	return b.String()
}
