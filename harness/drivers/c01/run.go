package c01

import (
	"fmt"
	"math/rand"

	"kapverif/rt"
)

func init() { rt.Register("c01", Run) }

// plan is one configuration with the step alphabet and the exact length of the
// sequences enumerated for it (every shorter sequence is a prefix of one of them
// and is validated as such, line by line).
type plan struct {
	cfg   Cfg
	alpha []Step
	L     int
}

type chunkResult struct {
	obs [][]stepObs
	rep chunkErrs
}

func contains(s []string, x string) bool {
	for _, y := range s {
		if y == x {
			return true
		}
	}
	return false
}

func pow(a, n int) int {
	r := 1
	for i := 0; i < n; i++ {
		r *= a
		if r > 1<<40 {
			return r
		}
	}
	return r
}

// alphabet builds the step alphabet of a configuration: stream = class x dt;
// batch = one point (tmax at the point) or two points one unit apart (tmax one
// unit after the last point).
func alphabet(c Cfg, dts []int) []Step {
	if c.Multi {
		// every step once per sub-ID of the group (batch: the measurement name only)
		subs := []int{0, 1, 2}
		if c.Batch {
			subs = []int{0, 2}
		}
		c2 := c
		c2.Multi = false
		var out []Step
		for _, st := range alphabet(c2, dts) {
			for _, sub := range subs {
				s2 := Step{G: st.G, Pts: append([]Pt(nil), st.Pts...)}
				for k := range s2.Pts {
					s2.Pts[k].Sub = sub
				}
				out = append(out, s2)
			}
		}
		return out
	}
	cl := classes(c)
	var out []Step
	if !c.Batch {
		for _, p := range cl {
			for _, dt := range dts {
				p.Dt = dt
				out = append(out, Step{Pts: []Pt{p}})
			}
		}
		return out
	}
	for _, dt := range dts {
		for _, p := range cl {
			p.Dt = dt
			out = append(out, Step{Pts: []Pt{p}, G: 0})
		}
		// two-point batches: every ordered pair of classes for small class sets, else
		// every class paired (both orders) with the all-false and the all-true class
		for i, p := range cl {
			for j, q := range cl {
				if len(cl) > 4 && i != 0 && j != 0 && i != len(cl)-1 && j != len(cl)-1 {
					continue
				}
				p.Dt, q.Dt = dt, 1
				out = append(out, Step{Pts: []Pt{p, q}, G: 1})
			}
		}
	}
	return out
}

func fitLen(a, lmin, lcap, budget int) int {
	l := lmin
	for l < lcap && pow(a, l+1) <= budget {
		l++
	}
	return l
}

type tierParams struct {
	lcap, lcapFlap int
	// max sequences per configuration, by family
	budLevels, budEmit, budFlap, budBatch int
	full                                  bool
	workers                               int
	nRandCfg                              int
	nRandSeq                              int
	randLen                               int
}

var quickParams = tierParams{lcap: 3, lcapFlap: 6, budLevels: 4096, budEmit: 600, budFlap: 1100, budBatch: 1000,
	workers: 3, nRandCfg: 40, nRandSeq: 15, randLen: 12}
var thoroughParams = tierParams{lcap: 5, lcapFlap: 8, budLevels: 270000, budEmit: 8000, budFlap: 4100, budBatch: 8000,
	full: true, workers: 6, nRandCfg: 200, nRandSeq: 30, randLen: 30}

func has(i, w, c bool) [3]bool { return [3]bool{i, w, c} }

// plans is the covering set of configurations (DESIGN.md C01).
func plans(tp tierParams) []plan {
	var ps []plan
	add := func(c Cfg, dts []int, lcap, budget int) {
		if !c.Valid() {
			rt.Fatalf("c01: invalid configuration %+v", c)
		}
		a := alphabet(c, dts)
		ps = append(ps, plan{cfg: c, alpha: a, L: fitLen(len(a), 2, lcap, budget)})
	}
	one := []int{1}
	onetwo := []int{1, 2}
	zot := []int{0, 1, 2}
	T, F := true, false

	// 1. level / reset family (stream, no filters): the level rule
	lv := []Cfg{
		{Has: has(T, T, T), H: 2},
		{Has: has(F, T, T), Rst: has(F, T, T), H: 2},
		{Has: has(T, T, T), Rst: has(T, F, F), H: 2},
		{Has: has(T, T, T), Rst: has(F, T, F), H: 2},
		{Has: has(T, T, T), Rst: has(F, F, T), H: 2},
		{Has: has(T, T, T), Rst: has(T, T, T), H: 2},
		{Has: has(T, F, T), Rst: has(F, F, T), H: 2},
		{Has: has(T, F, T), Rst: has(T, F, F), H: 3},
		{Has: has(T, F, F), Rst: has(T, F, F), H: 2},
		{Has: has(F, T, F), Rst: has(F, T, F), H: 2},
		{Has: has(F, F, T), Rst: has(F, F, T), H: 2},
		{Has: has(T, T, F), Rst: has(T, T, F), H: 2},
	}
	if tp.full {
		lv = append(lv,
			Cfg{Has: has(T, T, T), Rst: has(T, T, F), H: 2},
			Cfg{Has: has(T, T, T), Rst: has(T, F, T), H: 2},
			Cfg{Has: has(T, T, T), Rst: has(F, T, T), H: 2},
			Cfg{Has: has(T, T, F), H: 2},
			Cfg{Has: has(T, F, T), H: 2},
			Cfg{Has: has(F, T, T), H: 2},
		)
	}
	for i, c := range lv {
		bud := tp.budLevels
		if !tp.full && i > 1 && len(classes(c)) > 8 {
			// quick: one 16-class configuration at full depth, the others one step shorter
			bud = tp.budLevels / 8
		}
		if tp.full && c.Rst != has(T, T, T) {
			// thorough: the all-resets configuration (64 classes) gets the large budget
			bud = 5000
		}
		add(c, one, tp.lcap, bud)
	}
	// the level family once in batch form (per-point levels, highest wins)
	add(Cfg{Has: has(T, T, T), H: 2, Batch: true}, one, tp.lcap, tp.budBatch)
	add(Cfg{Has: has(F, T, T), Rst: has(F, T, T), H: 2, Batch: true}, one, tp.lcap, tp.budBatch)
	add(Cfg{Has: has(F, T, T), Rst: has(F, F, T), H: 2, Batch: true, All: true}, one, tp.lcap, tp.budBatch)

	// 2. emission filters (stream): stateChangesOnly [interval] x noRecoveries x history
	type sco struct {
		on bool
		d  int
	}
	scos := []sco{{F, 0}, {T, 0}, {T, 2}}
	if tp.full {
		scos = append(scos, sco{T, 3})
	}
	for _, hs := range [][3]bool{has(F, F, T), has(F, T, T)} {
		for _, s := range scos {
			for _, nr := range []bool{F, T} {
				for _, H := range []int{2, 3} {
					dts := one
					if s.d > 0 {
						dts = zot
					} else if H == 2 {
						dts = onetwo
					}
					add(Cfg{Has: hs, Sco: s.on, Scod: s.d, NoRec: nr, H: H}, dts, tp.lcap, tp.budEmit)
				}
			}
		}
	}
	add(Cfg{Has: has(F, F, T), Rst: has(F, F, T), Sco: T, Scod: 2, H: 2}, onetwo, tp.lcap, tp.budEmit)
	add(Cfg{Has: has(F, T, T), Rst: has(F, F, T), Sco: T, NoRec: T, H: 2}, one, tp.lcap, tp.budEmit)

	// 3. flapping (stream and batch): longer sequences, small alphabets
	type fl struct{ lo, hi, H int }
	fls := []fl{{25, 50, 2}, {30, 45, 3}, {30, 45, 4}}
	if tp.full {
		fls = append(fls, fl{25, 50, 4}, fl{30, 45, 5})
	}
	for _, f := range fls {
		for _, s := range scos {
			for _, nr := range []bool{F, T} {
				for _, b := range []bool{F, T} {
					hs := has(F, F, T)
					if (s.on != nr) || tp.full {
						// pairwise in quick: two-level variants on the off-diagonal
						bud := tp.budFlap
						if (!tp.full && f.H != 3) || (tp.full && (b || nr || f.H != 3)) {
							bud = tp.budFlap / 4
						}
						add(Cfg{Has: has(F, T, T), Sco: s.on, Scod: s.d, NoRec: nr, Flap: T, Flo: f.lo, Fhi: f.hi, H: f.H, Batch: b}, one, tp.lcapFlap, bud)
					}
					dts := one
					if s.d > 0 {
						dts = onetwo
					}
					add(Cfg{Has: hs, Sco: s.on, Scod: s.d, NoRec: nr, Flap: T, Flo: f.lo, Fhi: f.hi, H: f.H, Batch: b}, dts, tp.lcapFlap, tp.budFlap)
				}
			}
		}
	}

	// 5. stateful reset conditions "count() >= k": every alert ID (= every sequence of the
	//    chunk, all interleaved through one task) has its own count
	for _, c := range []Cfg{
		{Has: has(F, F, T), Rst: has(F, F, T), RK: [3]int{0, 0, 2}, H: 2},
		{Has: has(F, F, T), Rst: has(F, F, T), RK: [3]int{0, 0, 3}, H: 2},
		{Has: has(F, T, T), Rst: has(F, T, T), RK: [3]int{0, 2, 0}, H: 2},
		{Has: has(F, T, T), Rst: has(F, T, T), RK: [3]int{0, 2, 2}, H: 3},
	} {
		add(c, one, tp.lcapFlap, tp.budEmit)
	}
	// 7. points on which a level / reset lambda fails to evaluate, at every position
	add(Cfg{Has: has(F, F, T), Rst: has(F, F, T), H: 2, Errs: T}, one, tp.lcap, 800)
	add(Cfg{Has: has(F, T, T), Rst: has(F, F, T), H: 2, Errs: T}, one, tp.lcap, 800)
	add(Cfg{Has: has(F, F, T), Rst: has(F, F, T), H: 2, Errs: T, Batch: T}, one, tp.lcap, 800)
	// 8. several alert IDs rendered within one group (ID template over the measurement
	//    name and a tag the data is not grouped by)
	add(Cfg{Has: has(F, F, T), H: 2, Multi: T}, one, 4, 1300)
	add(Cfg{Has: has(F, F, T), Sco: T, H: 2, Multi: T}, one, 4, 1300)
	add(Cfg{Has: has(F, F, T), H: 2, Multi: T, Batch: T}, one, 3, 1800)
	// 6. inline handler (anonymous topic) besides the named topic, handlers keeping up
	add(Cfg{Has: has(F, F, T), H: 2, Inline: T}, onetwo, tp.lcap, tp.budEmit/2)
	add(Cfg{Has: has(F, T, T), Sco: T, H: 2, Inline: T}, one, tp.lcap, tp.budEmit/2)
	add(Cfg{Has: has(F, F, T), NoRec: T, H: 2, Inline: T, Batch: T}, one, tp.lcap, tp.budEmit/2)

	// 4. batch form with and without all()
	for _, hs := range [][3]bool{has(F, F, T), has(F, T, T)} {
		for _, all := range []bool{F, T} {
			for _, s := range scos {
				for _, nr := range []bool{F, T} {
					dts := one
					if s.d > 0 && hs == has(F, F, T) {
						dts = onetwo
					}
					add(Cfg{Has: hs, Sco: s.on, Scod: s.d, NoRec: nr, All: all, H: 2, Batch: T}, dts, min(tp.lcap, 4), tp.budBatch)
				}
			}
		}
	}
	return ps
}

// restartPlans: small alphabets, every sequence of length 3 (quick) / 4 (thorough),
// restarted before every step but the first.
func restartPlans(tp tierParams) []plan {
	T, F := true, false
	L := 3
	if tp.full {
		L = 4
	}
	var ps []plan
	for _, c := range []Cfg{
		{Has: has(F, F, T), H: 2},
		{Has: has(F, F, T), Sco: T, H: 2},
		{Has: has(F, F, T), Sco: T, Scod: 2, H: 3},
		{Has: has(F, T, T), H: 2},
		{Has: has(F, T, T), Sco: T, H: 2},
		{Has: has(F, T, T), Rst: has(F, F, T), H: 2},
		{Has: has(F, F, T), H: 2, Batch: T},
		{Has: has(F, F, T), Sco: T, H: 2, Batch: T},
		{Has: has(F, T, T), Sco: T, H: 2, Batch: T, All: T},
		// inline handler + persisted topics: the new task restores the anonymous topic from
		// the stored event states of ALL IDs of the chunk (durations 0 and non-0, any key order)
		{Has: has(F, F, T), H: 2, Inline: T, Persist: T},
		{Has: has(F, F, T), Sco: T, H: 2, Inline: T, Persist: T},
		{Has: has(F, T, T), Sco: T, H: 2, Inline: T, Persist: T},
	} {
		dts := []int{1}
		if c.Scod > 0 {
			dts = []int{1, 2}
		}
		a := alphabet(c, dts)
		l := L
		lim := 1000
		if tp.full {
			lim = 20000
		}
		for l > 2 && pow(len(a), l) > lim {
			l--
		}
		ps = append(ps, plan{cfg: c, alpha: a, L: l})
	}
	return ps
}

// enumerate calls f with every sequence of exactly L steps over alpha.
func enumerate(alpha []Step, L int, f func(Seq)) {
	idx := make([]int, L)
	for {
		s := make(Seq, L)
		for i, k := range idx {
			s[i] = alpha[k]
		}
		f(s)
		i := L - 1
		for i >= 0 {
			idx[i]++
			if idx[i] < len(alpha) {
				break
			}
			idx[i] = 0
			i--
		}
		if i < 0 {
			return
		}
	}
}

// randomCfg draws a configuration from the full product.
func randomCfg(r *rand.Rand) Cfg {
	for {
		var c Cfg
		for l := 0; l < 3; l++ {
			c.Has[l] = r.Intn(3) > 0
			c.Rst[l] = c.Has[l] && r.Intn(2) == 0
		}
		c.Batch = r.Intn(3) == 0
		c.All = c.Batch && r.Intn(2) == 0
		switch r.Intn(4) {
		case 1:
			c.Sco = true
		case 2:
			c.Sco, c.Scod = true, 2+r.Intn(3)
		}
		c.NoRec = r.Intn(3) == 0
		c.H = 2 + r.Intn(4)
		if r.Intn(3) == 0 {
			c.Flap = true
			// thresholds off the reachable values of the weighted percentage (FlapNoBoundary)
			c.Flo, c.Fhi = 27, 47
			if c.H == 2 {
				c.Flo, c.Fhi = 25, 50
			}
		}
		c.Inline = r.Intn(5) == 0
		if r.Intn(6) == 0 {
			// a stateful reset: stream, no filters (Valid)
			c.Batch, c.All, c.Sco, c.Scod, c.NoRec, c.Flap, c.Flo, c.Fhi = false, false, false, 0, false, false, 0, 0
			for l := 0; l < 3; l++ {
				if c.Rst[l] && r.Intn(2) == 0 {
					c.RK[l] = 2 + r.Intn(3)
				}
			}
		}
		if c.Valid() {
			return c
		}
	}
}

// deliveryScenario: 24 alert IDs of a stream alert with an inline handler, 56 steps
// each, every step due an event (CRITICAL, now and then a recovery): 1344 events plus
// the sentinel's against a handler queue of 1000.
func deliveryScenario() (Cfg, []Seq) {
	cfg := Cfg{Has: has(false, false, true), H: 2, Inline: true}
	var seqs []Seq
	for i := 0; i < 24; i++ {
		var s Seq
		for b := 0; b < 56; b++ {
			s = append(s, Step{Pts: []Pt{{C: [3]bool{false, false, (b+i)%7 != 3}, Dt: 1}}})
		}
		seqs = append(seqs, s)
	}
	return cfg, seqs
}

func randomSeq(r *rand.Rand, c Cfg, n int) Seq {
	cl := classes(c)
	s := make(Seq, n)
	for i := range s {
		if !c.Batch {
			p := cl[r.Intn(len(cl))]
			p.Dt = r.Intn(3)
			s[i] = Step{Pts: []Pt{p}}
			continue
		}
		k := r.Intn(4) // 0 = empty batch (ignored by the node)
		if r.Intn(4) > 0 && k == 0 {
			k = 1
		}
		st := Step{G: r.Intn(2)}
		for j := 0; j < k; j++ {
			p := cl[r.Intn(len(cl))]
			p.Dt = r.Intn(2)
			if j == 0 {
				p.Dt = r.Intn(3)
			}
			st.Pts = append(st.Pts, p)
		}
		s[i] = st
	}
	return s
}

// Run: B1 - systematic enumeration over the covering configuration set plus
// seeded random longer sequences over random configurations of the full product.
func Run(r *rt.Run) error {
	if len(r.Args) == 2 && r.Args[0] == "replay" {
		return Replay(r, r.Args[1])
	}
	if len(r.Args) == 1 && r.Args[0] == "plan" {
		for _, tier := range []tierParams{quickParams, thoroughParams} {
			tot, lines := 0, 0
			for _, p := range plans(tier) {
				n := pow(len(p.alpha), p.L)
				fmt.Printf("%-40s alpha=%3d L=%d seqs=%7d lines=%8d\n", p.cfg, len(p.alpha), p.L, n, n*(p.L+1))
				tot += n
				lines += n * (p.L + 1)
			}
			fmt.Printf("TOTAL seqs=%d lines=%d\n\n", tot, lines)
		}
		r.NewTrace("trace")
		r.Finish("plan listing only", false)
		return nil
	}
	tp := quickParams
	if r.Thorough() {
		tp = thoroughParams
	}
	t := r.NewTrace("trace")
	nid := 0
	cfgSeen := map[Cfg]bool{}
	maxL, minL := 0, 1<<30
	nseq := 0
	nrestart := 0

	// Pipeline: the producer (this goroutine's closure below) enumerates chunks in a
	// fixed order; tp.workers executors - each with its own TaskMaster, alert service
	// and diagnostics - run them on real tasks concurrently; the main goroutine
	// writes the results in production order, so the trace file is deterministic.
	type job struct {
		cfg  Cfg
		seqs []Seq
		ids  []string
		doc  bool
		cut  int // restart the task before this step (-1: never)
		done chan chunkResult
	}
	// The stuck-inline-handler scenario runs alone, before the executors start (it
	// installs the alert package's verification hook, a process-wide variable), on its
	// own TaskMaster whose alert service has the minimum handler queue (1000 events).
	// Its traces are written after the documented example.
	dcfg, dseqs := deliveryScenario()
	dids := make([]string, len(dseqs))
	for i := range dids {
		dids[i] = fmt.Sprintf("d%d", i+1)
	}
	dx, err := NewExecBuf(1000)
	if err != nil {
		return err
	}
	dobs, drep := dx.Run(dcfg, dseqs, dids, runOpts{Cut: -1, Stuck: true})
	dx.Close()
	cfgSeen[dcfg] = true

	jobs := make(chan *job, tp.workers)
	order := make(chan *job, 2*tp.workers)
	execs := make([]*Exec, tp.workers)
	pexecs := make([]*Exec, tp.workers)
	for w := range execs {
		x, err := NewExec()
		if err != nil {
			return err
		}
		execs[w] = x
		w := w
		go func() {
			for j := range jobs {
				ex := x
				if j.cfg.Persist {
					if pexecs[w] == nil {
						px, err := NewExecPersist()
						if err != nil {
							rt.Fatalf("c01: persistent executor: %v", err)
						}
						pexecs[w] = px
					}
					ex = pexecs[w]
				}
				obs, rep := ex.Run(j.cfg, j.seqs, j.ids, runOpts{Cut: j.cut})
				j.done <- chunkResult{obs, rep}
			}
		}()
	}
	submit := func(cfg Cfg, seqs []Seq, doc bool, cut int) {
		ids := make([]string, len(seqs))
		for i := range seqs {
			nid++
			ids[i] = fmt.Sprintf("s%d", nid)
		}
		j := &job{cfg: cfg, seqs: seqs, ids: ids, doc: doc, cut: cut, done: make(chan chunkResult, 1)}
		order <- j
		jobs <- j
	}
	go func() {
		// the documented worked example with its numeric thresholds (first, so that it
		// also shows up in the evidence samples)
		dc, ds := docExample()
		submit(dc, ds, true, -1)
		// systematic part
		for _, p := range plans(tp) {
			cfgSeen[p.cfg] = true
			if p.L > maxL {
				maxL = p.L
			}
			if p.L < minL {
				minL = p.L
			}
			var chunk []Seq
			steps := 0
			enumerate(p.alpha, p.L, func(s Seq) {
				chunk = append(chunk, s)
				steps += len(s)
				nseq++
				if steps+p.L > maxChunkSteps {
					submit(p.cfg, chunk, false, -1)
					chunk, steps = nil, 0
				}
			})
			if len(chunk) > 0 {
				submit(p.cfg, chunk, false, -1)
			}
		}
		// restart family: the task is stopped and started again (same topic, the daemon
		// keeps running) before step `cut`; the new alert node restores the ID's level
		// and times from the topic.  Only configurations where the restored state is the
		// true state: no flapping, recoveries delivered.
		for _, p := range restartPlans(tp) {
			cfgSeen[p.cfg] = true
			for cut := 1; cut < p.L; cut++ {
				var chunk []Seq
				enumerate(p.alpha, p.L, func(s Seq) {
					chunk = append(chunk, s)
					nrestart++
					if (len(chunk)+1)*p.L > maxChunkSteps {
						submit(p.cfg, chunk, false, cut)
						chunk = nil
					}
				})
				if len(chunk) > 0 {
					submit(p.cfg, chunk, false, cut)
				}
			}
		}
		// random part
		for i := 0; i < tp.nRandCfg; i++ {
			c := randomCfg(r.Rand)
			cfgSeen[c] = true
			seqs := make([]Seq, tp.nRandSeq)
			for j := range seqs {
				seqs[j] = randomSeq(r.Rand, c, tp.randLen)
			}
			submit(c, seqs, false, -1)
		}
		close(jobs)
		close(order)
	}()
	errChunks := 0
	errClasses := []string{}
	for j := range order {
		res := <-j.done
		if res.rep.N > 0 {
			errChunks++
			for _, c := range res.rep.Classes {
				if len(errClasses) < 6 && !contains(errClasses, c) {
					errClasses = append(errClasses, c)
				}
			}
		}
		for i, s := range j.seqs {
			emit(t, j.cfg, j.ids[i], s, res.obs[i], res.rep, j.cut, false)
			if j.doc {
				t.Distinct("doc#" + s.key() + fmt.Sprint(i))
			} else if len(s) >= 2 {
				t.Distinct(fmt.Sprintf("%s#%d#%s", j.cfg, j.cut, s.key()))
			}
		}
		if j.doc {
			for i, s := range dseqs {
				emit(t, dcfg, dids[i], s, dobs[i], drep, -1, true)
				t.Distinct("stuck#" + s.key())
			}
		}
	}
	x := &Exec{Tasks: dx.Tasks, Points: dx.Points, Events: dx.Events, Forwarded: dx.Forwarded, InlineEvents: dx.InlineEvents}
	for _, e := range append(execs, pexecs...) {
		if e == nil {
			continue
		}
		x.InlineEvents += e.InlineEvents
		x.Tasks += e.Tasks
		x.Points += e.Points
		x.Events += e.Events
		x.Forwarded += e.Forwarded
		x.NodeErrors += e.NodeErrors
		e.Close()
	}

	r.Extra["configurations"] = len(cfgSeen)
	r.Extra["systematic_sequences"] = nseq
	r.Extra["systematic_len_min"] = minL
	r.Extra["systematic_len_max"] = maxL
	r.Extra["restart_sequences"] = nrestart
	r.Extra["random_sequences"] = tp.nRandCfg * tp.nRandSeq
	r.Extra["random_len"] = tp.randLen
	r.Extra["node_errors_reported"] = x.NodeErrors
	r.Extra["chunks_with_node_errors"] = errChunks
	r.Extra["node_error_classes"] = errClasses
	r.Extra["stuck_scenario_sequences"] = len(dseqs)
	r.Extra["stuck_scenario_anon_collect_errors"] = drep.N
	r.Extra["stuck_scenario_inline_events"] = dx.InlineEvents
	r.Extra["inline_handler_events_observed"] = x.InlineEvents
	r.Extra["real_tasks_run"] = x.Tasks
	r.Extra["points_fed"] = x.Points
	r.Extra["alert_events_observed"] = x.Events
	r.Extra["forwarded_messages_observed"] = x.Forwarded
	r.Finish("for each configuration of a covering set (levels present x resets; stateChangesOnly [interval] x noRecoveries x history; flapping x history x filters; stream and batch, all()) EVERY sequence of point classes (truth of each level/reset lambda, time step) of the fitted length is fed to a real task (one alert ID per sequence, all IDs of a chunk interleaved through one task) and the events seen by a handler on the topic plus the data forwarded downstream are recorded per step; stateful reset conditions count()>=k with all IDs of the node interleaved; task restarts before each step; one scenario with a stuck inline handler whose queue (1000) overflows while the named topic must still get every event; then seeded random longer sequences over random configurations of the full product; distinct by (configuration, input sequence), non-trivial = at least 2 steps", false)
	return nil
}

// docExample is the documented numeric configuration (pipeline/alert.go) with the
// documented value sequence and every 3-sequence over one value per threshold region.
func docExample() (Cfg, []Seq) {
	cfg := Cfg{Has: has(true, true, true), Rst: has(true, true, true), H: 2, Numeric: true}
	cls := func(v int) Pt {
		return Pt{C: [3]bool{v > 60, v > 70, v > 80}, R: [3]bool{v < 50, v < 60, v < 70}, Dt: 1, V: v}
	}
	var seqs []Seq
	doc := Seq{}
	for _, v := range []int{61, 73, 64, 85, 62, 56, 47} {
		doc = append(doc, Step{Pts: []Pt{cls(v)}})
	}
	seqs = append(seqs, doc)
	vals := []int{47, 56, 60, 62, 70, 73, 80, 85}
	var alpha []Step
	for _, v := range vals {
		alpha = append(alpha, Step{Pts: []Pt{cls(v)}})
	}
	enumerate(alpha, 3, func(s Seq) { seqs = append(seqs, s) })
	return cfg, seqs
}
