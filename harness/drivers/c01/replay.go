package c01

import (
	"bufio"
	"encoding/json"
	"fmt"
	"os"

	"kapverif/rt"
)

// segLine is the part of a trace line that describes the INPUT.
type segLine struct {
	Ev  string `json:"ev"`
	ID  string `json:"id"`
	Cfg *struct {
		Has, Rst          [3]bool
		Sco               bool
		Scod              int
		Norec, All, Flap  bool
		Flo, Fhi, H       int
		Batch             bool
	} `json:"setup"`
	Pts []struct {
		C, R [3]bool
		T    int
	} `json:"pts"`
	Tmax int `json:"tmax"`
}

// readSegments parses a trace file back into (cfg, input sequence) pairs.
func readSegments(path string) ([]Cfg, []Seq, []int, error) {
	f, err := os.Open(path)
	if err != nil {
		return nil, nil, nil, err
	}
	defer f.Close()
	var cfgs []Cfg
	var seqs []Seq
	var cuts []int
	clock := 0
	sc := bufio.NewScanner(f)
	sc.Buffer(make([]byte, 1<<20), 1<<26)
	for sc.Scan() {
		if len(sc.Bytes()) == 0 {
			continue
		}
		var ln segLine
		if err := json.Unmarshal(sc.Bytes(), &ln); err != nil {
			return nil, nil, nil, err
		}
		switch ln.Ev {
		case "Reset":
			if ln.Cfg == nil {
				return nil, nil, nil, fmt.Errorf("Reset line without setup")
			}
			c := ln.Cfg
			cfgs = append(cfgs, Cfg{Has: c.Has, Rst: c.Rst, Sco: c.Sco, Scod: c.Scod, NoRec: c.Norec, All: c.All,
				Flap: c.Flap, Flo: c.Flo, Fhi: c.Fhi, H: c.H, Batch: c.Batch})
			seqs = append(seqs, nil)
			cuts = append(cuts, -1)
			clock = 0
		case "Restart":
			if len(seqs) == 0 {
				return nil, nil, nil, fmt.Errorf("Restart line before Reset")
			}
			cuts[len(cuts)-1] = len(seqs[len(seqs)-1])
		case "S":
			if len(seqs) == 0 {
				return nil, nil, nil, fmt.Errorf("S line before Reset")
			}
			st := Step{}
			t := clock
			for _, p := range ln.Pts {
				st.Pts = append(st.Pts, Pt{C: p.C, R: p.R, Dt: p.T - t})
				t = p.T
			}
			st.G = ln.Tmax - t
			clock = ln.Tmax
			seqs[len(seqs)-1] = append(seqs[len(seqs)-1], st)
		}
	}
	return cfgs, seqs, cuts, sc.Err()
}

// Replay re-executes the inputs of a saved trace segment on the real code, each
// sequence alone in its own task, and records a fresh trace.
func Replay(r *rt.Run, path string) error {
	cfgs, seqs, cuts, err := readSegments(path)
	if err != nil {
		return err
	}
	x, err := NewExec()
	if err != nil {
		return err
	}
	defer x.Close()
	t := r.NewTrace("trace")
	for i := range cfgs {
		id := fmt.Sprintf("r%d", i+1)
		obs, rep := x.Run(cfgs[i], []Seq{seqs[i]}, []string{id}, cuts[i])
		emit(t, cfgs[i], id, seqs[i], obs[0], rep, cuts[i])
		t.Distinct(cfgs[i].String() + "#" + seqs[i].key())
	}
	r.Finish("replay of the inputs of a saved trace segment on the real code", false)
	return nil
}
