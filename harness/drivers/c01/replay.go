package c01

import (
	"bufio"
	"encoding/json"
	"fmt"
	"os"

	"kapverif/rt"
)

// segLine is the part of a trace line that describes the INPUT.
type segLine struct {
	Ev    string `json:"ev"`
	ID    string `json:"id"`
	Stuck bool   `json:"stuck"`
	Cfg *struct {
		Has, Rst          [3]bool
		Rk                [3]int
		Inline            bool
		Errs, Multi       bool
		Persist           bool
		Sco               bool
		Scod              int
		Norec, All, Flap  bool
		Flo, Fhi, H       int
		Batch             bool
	} `json:"setup"`
	Pts []struct {
		C, R   [3]bool
		Ce, Re [3]bool
		T      int
	} `json:"pts"`
	Sub int `json:"sub"`
	Tmax int `json:"tmax"`
}

// readSegments parses a trace file back into (cfg, input sequence) pairs.
func readSegments(path string) ([]Cfg, []Seq, []int, []bool, error) {
	f, err := os.Open(path)
	if err != nil {
		return nil, nil, nil, nil, err
	}
	defer f.Close()
	var cfgs []Cfg
	var seqs []Seq
	var cuts []int
	var stucks []bool
	clock := 0
	sc := bufio.NewScanner(f)
	sc.Buffer(make([]byte, 1<<20), 1<<26)
	for sc.Scan() {
		if len(sc.Bytes()) == 0 {
			continue
		}
		var ln segLine
		if err := json.Unmarshal(sc.Bytes(), &ln); err != nil {
			return nil, nil, nil, nil, err
		}
		switch ln.Ev {
		case "Reset":
			if ln.Cfg == nil {
				return nil, nil, nil, nil, fmt.Errorf("Reset line without setup")
			}
			c := ln.Cfg
			cfgs = append(cfgs, Cfg{Has: c.Has, Rst: c.Rst, Sco: c.Sco, Scod: c.Scod, NoRec: c.Norec, All: c.All,
				Flap: c.Flap, Flo: c.Flo, Fhi: c.Fhi, H: c.H, Batch: c.Batch, RK: c.Rk, Inline: c.Inline, Errs: c.Errs, Multi: c.Multi, Persist: c.Persist})
			seqs = append(seqs, nil)
			cuts = append(cuts, -1)
			stucks = append(stucks, ln.Stuck)
			clock = 0
		case "Restart":
			if len(seqs) == 0 {
				return nil, nil, nil, nil, fmt.Errorf("Restart line before Reset")
			}
			cuts[len(cuts)-1] = len(seqs[len(seqs)-1])
		case "S":
			if len(seqs) == 0 {
				return nil, nil, nil, nil, fmt.Errorf("S line before Reset")
			}
			st := Step{}
			t := clock
			for _, p := range ln.Pts {
				st.Pts = append(st.Pts, Pt{C: p.C, R: p.R, CE: p.Ce, RE: p.Re, Sub: ln.Sub, Dt: p.T - t})
				t = p.T
			}
			st.G = ln.Tmax - t
			clock = ln.Tmax
			seqs[len(seqs)-1] = append(seqs[len(seqs)-1], st)
		}
	}
	return cfgs, seqs, cuts, stucks, sc.Err()
}

// Replay re-executes the inputs of a saved trace segment on the real code, each
// sequence alone in its own task, and records a fresh trace.
func Replay(r *rt.Run, path string) error {
	cfgs, seqs, cuts, stucks, err := readSegments(path)
	if err != nil {
		return err
	}
	x, err := NewExec()
	if err != nil {
		return err
	}
	defer x.Close()
	t := r.NewTrace("trace")
	stuckDone := false
	for i := range cfgs {
		id := fmt.Sprintf("r%d", i+1)
		switch {
		case stucks[i]:
			// one ID alone cannot fill a handler queue: re-run the whole (fixed) scenario
			if stuckDone {
				continue
			}
			stuckDone = true
			dcfg, dseqs := deliveryScenario()
			dids := make([]string, len(dseqs))
			for k := range dids {
				dids[k] = fmt.Sprintf("d%d", k+1)
			}
			dx, err := NewExecBuf(1000)
			if err != nil {
				return err
			}
			dobs, drep := dx.Run(dcfg, dseqs, dids, runOpts{Cut: -1, Stuck: true})
			dx.Close()
			for k, s := range dseqs {
				emit(t, dcfg, dids[k], s, dobs[k], drep, -1, true)
				t.Distinct("stuck#" + s.key())
			}
		case cfgs[i].Persist:
			// restore from persisted event states depends on what ELSE is stored in the topic:
			// re-run the whole chunk this ID came from (every sequence of its length over the
			// configuration's alphabet, restarted at the same step) on a persisting executor
			px, err := NewExecPersist()
			if err != nil {
				return err
			}
			dts := []int{1}
			if cfgs[i].Scod > 0 {
				dts = []int{1, 2}
			}
			var ss []Seq
			enumerate(alphabet(cfgs[i], dts), len(seqs[i]), func(s Seq) { ss = append(ss, s) })
			ids := make([]string, len(ss))
			for k := range ids {
				ids[k] = fmt.Sprintf("%s_%d", id, k+1)
			}
			obs, rep := px.Run(cfgs[i], ss, ids, runOpts{Cut: cuts[i]})
			px.Close()
			for k := range ss {
				emit(t, cfgs[i], ids[k], ss[k], obs[k], rep, cuts[i], false)
			}
			t.Distinct(cfgs[i].String() + "#" + seqs[i].key())
		case cfgs[i].RK != [3]int{}:
			// a stateful reset condition: the ID runs together with three more IDs fed the
			// same points, interleaved through the same task (IDs must not influence each other)
			ss := []Seq{seqs[i], seqs[i], seqs[i], seqs[i]}
			ids := []string{id, id + "b", id + "c", id + "d"}
			obs, rep := x.Run(cfgs[i], ss, ids, runOpts{Cut: cuts[i]})
			for k := range ss {
				emit(t, cfgs[i], ids[k], ss[k], obs[k], rep, cuts[i], false)
			}
			t.Distinct(cfgs[i].String() + "#" + seqs[i].key())
		default:
			obs, rep := x.Run(cfgs[i], []Seq{seqs[i]}, []string{id}, runOpts{Cut: cuts[i]})
			emit(t, cfgs[i], id, seqs[i], obs[0], rep, cuts[i], false)
			t.Distinct(cfgs[i].String() + "#" + seqs[i].key())
		}
	}
	r.Finish("replay of the inputs of a saved trace segment on the real code", false)
	return nil
}
