package c10

import (
	"encoding/json"
	"fmt"
	"math"
	"regexp"
	"sort"
	"strings"
	"sync"
	"sync/atomic"
	"time"

	"github.com/influxdata/kapacitor"

	imodels "github.com/influxdata/influxdb/models"
	"github.com/influxdata/kapacitor/edge"
	"github.com/influxdata/kapacitor/models"

	"kapverif/rt"
)

// Pt is one input point (stream) or one point of an input batch.
type Pt struct {
	Name   string
	Tags   map[string]string
	Fields map[string]Val
	T      int
}

// Bt is one input batch: group tags, tmax and points.
type Bt struct {
	Name   string
	Tags   map[string]string // group tags (the source's groupBy dimensions)
	ByName bool
	TMax   int
	Pts    []Pt
}

// Input is one element of an input sequence.
type Input struct {
	P *Pt
	B *Bt
}

func goVal(v Val) any {
	switch v.T {
	case "int":
		return v.I
	case "float":
		return float64(v.I) / Scale
	case "string":
		return v.S
	case "bool":
		return v.I != 0
	}
	panic("bad val type " + v.T)
}

func goFields(f map[string]Val) map[string]any {
	out := make(map[string]any, len(f))
	for k, v := range f {
		out[k] = goVal(v)
	}
	return out
}

func copyTags(t map[string]string) map[string]string {
	out := make(map[string]string, len(t))
	for k, v := range t {
		out[k] = v
	}
	return out
}

func encTags(t map[string]string) rt.M {
	out := rt.M{}
	for k, v := range t {
		out[k] = v
	}
	return out
}

func encValFields(f map[string]Val) rt.M {
	out := rt.M{}
	for k, v := range f {
		out[k] = v.enc()
	}
	return out
}

func (p Pt) enc() rt.M {
	return rt.M{"name": p.Name, "tags": encTags(p.Tags), "fields": encValFields(p.Fields), "t": p.T}
}

func (b Bt) enc() rt.M {
	pts := make([]any, len(b.Pts))
	for i, p := range b.Pts {
		pts[i] = rt.M{"tags": encTags(p.Tags), "fields": encValFields(p.Fields), "t": p.T}
	}
	return rt.M{"name": b.Name, "tags": encTags(b.Tags), "byName": b.ByName, "tmax": b.TMax, "pts": pts}
}

func (in Input) enc() rt.M {
	if in.P != nil {
		return in.P.enc()
	}
	return in.B.enc()
}

// ---------- encoding of what the sinks saw ----------

// encOut encodes one observed field value: ints, strings and bools as they
// are; floats times Scale, which must be integral (t = "fx" otherwise, which
// no specification value equals).
func encOut(v any) rt.M {
	switch x := v.(type) {
	case int64:
		return rt.M{"t": "int", "i": x, "s": ""}
	case float64:
		s := x * Scale
		if math.IsNaN(s) || math.IsInf(s, 0) || s != math.Trunc(s) || math.Abs(s) > 1e15 {
			return rt.M{"t": "fx", "i": 0, "s": fmt.Sprintf("%v", x)}
		}
		return rt.M{"t": "float", "i": int64(s), "s": ""}
	case string:
		return rt.M{"t": "string", "i": 0, "s": x}
	case bool:
		if x {
			return rt.M{"t": "bool", "i": 1, "s": ""}
		}
		return rt.M{"t": "bool", "i": 0, "s": ""}
	default:
		return rt.M{"t": fmt.Sprintf("%T", v), "i": 0, "s": fmt.Sprintf("%v", v)}
	}
}

func encOutFields(f models.Fields) rt.M {
	out := rt.M{}
	for k, v := range f {
		out[k] = encOut(v)
	}
	return out
}

// group IDs contain "\n" after the measurement name; traces use "|".
func encGroup(g models.GroupID) string { return strings.ReplaceAll(string(g), "\n", "|") }

func encDims(d models.Dimensions) []any { return sl(d.TagNames) }

func tOf(tm rt.TimeMap, t interface{ UnixNano() int64 }) int {
	d := t.UnixNano() - tm.Epoch.UnixNano()
	if d%int64(tm.Unit) != 0 {
		return -999999
	}
	return int(d / int64(tm.Unit))
}

func encPointMsg(p edge.PointMessage) rt.M {
	return rt.M{"mk": "p", "name": p.Name(), "tags": encTags(p.Tags()), "fields": encOutFields(p.Fields()),
		"t": tOf(rt.DefaultTime, p.Time()), "dims": encDims(p.Dimensions()), "byName": p.Dimensions().ByName,
		"group": encGroup(p.GroupID())}
}

func encBatchMsg(b edge.BufferedBatchMessage) rt.M {
	pts := make([]any, 0, len(b.Points()))
	for _, bp := range b.Points() {
		pts = append(pts, rt.M{"tags": encTags(bp.Tags()), "fields": encOutFields(bp.Fields()), "t": tOf(rt.DefaultTime, bp.Time())})
	}
	return rt.M{"mk": "b", "name": b.Name(), "tags": encTags(b.Tags()), "dims": encDims(b.Dimensions()),
		"byName": b.Dimensions().ByName, "group": encGroup(b.GroupID()), "tmax": tOf(rt.DefaultTime, b.Time()), "pts": pts}
}

func encItem(it rt.SinkItem) rt.M {
	if it.Point != nil {
		return encPointMsg(it.Point)
	}
	return encBatchMsg(it.Batch)
}

// Outcome is everything observed from one run.
type Outcome struct {
	Sinks   []any    // per sink s0..sN: messages in arrival order (as delivered)
	Stable  bool     // re-encoding every delivered message after the drain gives the same data
	Late    []any    // only when !Stable: per sink, the messages re-encoded after the drain
	StopErr string   // error the task stopped with
	Errs    []string // node errors (context: message)
	ByNode  []any    // error reports per pipeline node
	NOut    int
}

func canon(m rt.M) string {
	b, _ := json.Marshal(m)
	return string(b)
}

// Exec runs the pipeline on the inputs with the real task machinery.  For
// chains every sink arrival is encoded when it arrives (the log node calls the
// diagnostic before it forwards the message, so nothing downstream has touched
// it yet) and again after the drain; for forks only after the drain, when every
// node goroutine has exited: a sibling that changed shared data in place is
// then visible at the other branch's sink whatever the goroutine schedule was.
func Exec(env *rt.Env, p Pipe, ins []Input) (*Outcome, error) {
	script := p.Script()
	fork := p.IsFork()
	var mu sync.Mutex
	early := map[int]rt.M{}
	if !fork {
		env.Diag.OnItem = func(it rt.SinkItem) {
			m := encItem(it)
			mu.Lock()
			early[it.Seq] = m
			mu.Unlock()
		}
	} else {
		env.Diag.OnItem = nil
	}
	defer func() { env.Diag.OnItem = nil }()
	var res *rt.PipeResult
	var err error
	if !p.Src.Batch {
		pts := make([]imodels.Point, 0, len(ins))
		for _, in := range ins {
			pts = append(pts, rt.MustPoint(in.P.Name, in.P.Tags, goFields(in.P.Fields), rt.DefaultTime.T(in.P.T)))
		}
		res, err = runStream(env, script, pts, "s0")
	} else {
		bs := make([]edge.BufferedBatchMessage, 0, len(ins))
		for _, in := range ins {
			b := in.B
			begin := edge.NewBeginBatchMessage(b.Name, models.Tags(copyTags(b.Tags)), b.ByName, rt.DefaultTime.T(b.TMax), len(b.Pts))
			bps := make([]edge.BatchPointMessage, len(b.Pts))
			for i, bp := range b.Pts {
				bps[i] = edge.NewBatchPointMessage(models.Fields(goFields(bp.Fields)), models.Tags(copyTags(bp.Tags)), rt.DefaultTime.T(bp.T))
			}
			bs = append(bs, edge.NewBufferedBatchMessage(begin, bps, edge.NewEndBatchMessage()))
		}
		res, err = runBatch(env, script, bs)
	}
	if err != nil {
		return nil, fmt.Errorf("%w\nscript:\n%s", err, script)
	}
	o := &Outcome{Stable: true, StopErr: res.StopErr}
	if len(o.StopErr) > 160 {
		o.StopErr = o.StopErr[:160]
	}
	sinks := make([][]any, len(p.Nodes)+1)
	late := make([][]any, len(p.Nodes)+1)
	for i := range sinks {
		sinks[i], late[i] = []any{}, []any{}
	}
	for _, it := range res.Items {
		var si int
		if _, err := fmt.Sscanf(it.Sink, "s%d", &si); err != nil || si < 0 || si >= len(sinks) {
			return nil, fmt.Errorf("unexpected sink %q", it.Sink)
		}
		lm := encItem(it)
		late[si] = append(late[si], lm)
		m := lm
		if !fork {
			mu.Lock()
			em, ok := early[it.Seq]
			mu.Unlock()
			if !ok {
				return nil, fmt.Errorf("sink arrival %d has no arrival snapshot", it.Seq)
			}
			if canon(em) != canon(lm) {
				o.Stable = false
			}
			m = em
		}
		sinks[si] = append(sinks[si], m)
		o.NOut++
	}
	for i := range sinks {
		o.Sinks = append(o.Sinks, sinks[i])
		if !o.Stable {
			o.Late = append(o.Late, late[i])
		}
	}
	for _, e := range res.Errors {
		o.Errs = append(o.Errs, e.Ctx+": "+e.Msg+": "+e.Err)
	}
	o.ByNode = errsByNode(p, res.Errors)
	sort.Strings(o.Errs)
	return o, nil
}


var taskNo atomic.Int64

func nodeFailed(env *rt.Env) bool {
	for _, e := range env.Diag.Errors() {
		if e.Msg == "node failed" {
			return true
		}
	}
	return false
}

var reNodeCtx = regexp.MustCompile(`node:[A-Za-z_]+(\d+)$`)

// errsByNode counts the error reports of every pipeline node.  Node ids are
// assigned in creation order: source 0, from/query 1, sink s0 2, then per
// descriptor the node and its sink (a tap is a sink only, a bare node has none).
func errsByNode(p Pipe, errs []rt.ErrItem) []any {
	idOf := map[int]int{}
	next := 3
	for i, n := range p.Nodes {
		if n.K == "tap" {
			next++
			continue
		}
		idOf[next] = i
		if n.Bare {
			next++
		} else {
			next += 2
		}
	}
	out := make([]int, len(p.Nodes))
	for _, e := range errs {
		m := reNodeCtx.FindStringSubmatch(e.Ctx)
		if m == nil {
			continue
		}
		var id int
		fmt.Sscan(m[1], &id)
		if i, ok := idOf[id]; ok {
			out[i]++
		}
	}
	res := make([]any, len(out))
	for i, c := range out {
		res[i] = c
	}
	return res
}

// runStream is rt.RunStreamTask with a cheaper ingest fence: WritePoints only
// enqueues on the TaskMaster's ingest edge (a goroutine forks to the tasks), so
// the task must not be stopped before the sink directly under from() has seen
// every written point (every c10 source is an unfiltered from()).  Condition
// wait on the recording diagnostic, O(1) per run (Env.WaitIngress walks the
// process-wide statistics, which grow with every task ever started: too slow
// for tens of thousands of tasks on 8 workers).  A miss is a harness failure.
func runStream(env *rt.Env, script string, pts []imodels.Point, srcSink string) (*rt.PipeResult, error) {
	id := fmt.Sprintf("c10s%d", taskNo.Add(1))
	env.Diag.Clear()
	if _, err := env.StartTask(id, script, kapacitor.StreamTask, rt.DefaultDBRP); err != nil {
		return nil, fmt.Errorf("define/start: %w", err)
	}
	for _, p := range pts {
		if err := env.Write("db", "rp", p); err != nil {
			env.TM.StopTask(id)
			return nil, fmt.Errorf("write: %w", err)
		}
	}
	// A task whose node died (panic, returned error) stops taking points: that is
	// an outcome to record (StopTask returns the error), not a harness failure.
	deadline := time.Now().Add(300 * time.Second)
	for !env.Diag.WaitCount(srcSink, len(pts), 20*time.Millisecond) {
		if nodeFailed(env) {
			break
		}
		if time.Now().After(deadline) {
			env.TM.StopTask(id)
			return nil, fmt.Errorf("task received %d of %d points within the deadline", env.Diag.Count(srcSink), len(pts))
		}
	}
	res := &rt.PipeResult{}
	if err := env.TM.StopTask(id); err != nil {
		res.StopErr = err.Error()
	}
	res.Items = env.Diag.Items()
	res.Errors = env.Diag.Errors()
	return res, nil
}

// runBatch is rt.RunBatchTask, except that a task whose node died while the
// batches were fed is an outcome (StopErr), not a harness failure: feeding stops
// at the first batch the aborted edge refuses.
func runBatch(env *rt.Env, script string, bs []edge.BufferedBatchMessage) (*rt.PipeResult, error) {
	id := fmt.Sprintf("c10b%d", taskNo.Add(1))
	env.Diag.Clear()
	if _, err := env.StartTask(id, script, kapacitor.BatchTask, rt.DefaultDBRP); err != nil {
		return nil, fmt.Errorf("define/start: %w", err)
	}
	cols := env.TM.BatchCollectors(id)
	if len(cols) != 1 {
		env.TM.StopTask(id)
		return nil, fmt.Errorf("task has %d batch sources, expected 1", len(cols))
	}
	refused := ""
	for _, b := range bs {
		if err := cols[0].CollectBatch(b); err != nil {
			refused = err.Error()
			break
		}
	}
	cols[0].Close()
	res := &rt.PipeResult{}
	if err := env.TM.StopTask(id); err != nil {
		res.StopErr = err.Error()
	} else if refused != "" {
		res.StopErr = "batch refused: " + refused
	}
	res.Items = env.Diag.Items()
	res.Errors = env.Diag.Errors()
	return res, nil
}
