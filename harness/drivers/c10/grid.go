package c10

// The parameter grid: every node kind with a few parameterisations that reach
// each documented option (and each branch of the implementation).

func iv(i int64) Val     { return Val{T: "int", I: i} }
func fv(x float64) Val   { return Val{T: "float", I: int64(x * Scale)} }
func sv(s string) Val    { return Val{T: "string", S: s} }
func bv(b bool) Val {
	if b {
		return Val{T: "bool", I: 1}
	}
	return Val{T: "bool", I: 0}
}

// Kinds in a fixed order (enumeration and sampling are deterministic).
var Kinds = []string{"where", "eval", "default", "delete", "shift", "sample", "derivative",
	"changeDetect", "stateCount", "stateDuration", "flatten", "combine", "groupBy"}

// Variants lists the parameterisations of each kind.
var Variants = map[string][]Node{
	"where": {
		{K: "where", Lam: "vgt1"},
		{K: "where", Lam: "pEqX"},
		{K: "where", Lam: "wEq1"},
		{K: "where", Lam: "vne15"},
	},
	"eval": {
		// overwrite a field, only new fields kept
		{K: "eval", Lams: []string{"dbl"}, As: []string{"v"}},
		// a later expression uses the result of an earlier one; keep everything
		{K: "eval", Lams: []string{"dbl", "aa"}, As: []string{"a", "b"}, Keep: true},
		// a string result becomes a new tag
		{K: "eval", Lams: []string{"tp", "vv"}, As: []string{"g", "v"}, Tags: []string{"g"}},
		// keep a list, discard the rest; errors are not reported
		{K: "eval", Lams: []string{"half"}, As: []string{"x"}, Keep: true, KeepList: []string{"v", "x"}, Quiet: true},
		// keep list with a computed name only; fails when w is missing
		{K: "eval", Lams: []string{"wv", "one"}, As: []string{"w", "k"}, Keep: true, KeepList: []string{"w"}},
		// the result replaces the tag the data are grouped by
		{K: "eval", Lams: []string{"tp", "vv"}, As: []string{"h", "v"}, Tags: []string{"h"}},
	},
	"default": {
		{K: "default", DefF: map[string]Val{"w": iv(7)}, DefT: map[string]string{"p": "z"}},
		{K: "default", DefF: map[string]Val{"v": fv(1.5)}, DefT: map[string]string{"h": "c"}},
		// also a field named like an eval result of the grid (a), so that eval|... sees a result shadow a field
		{K: "default", DefF: map[string]Val{"v": sv("s"), "b": bv(true), "a": iv(10)}, DefT: map[string]string{}},
	},
	"delete": {
		{K: "delete", Fields: []string{"w"}, Tags: []string{"p"}},
		{K: "delete", Fields: []string{"v"}, Tags: []string{"h"}},
	},
	"shift": {
		{K: "shift", D: 1},
		{K: "shift", D: -1},
	},
	"sample": {
		{K: "sample", N: 2},
		{K: "sample", D: 2},
		{K: "sample", N: 3},
		// durations that do not divide the distance between Go's zero time and the Unix epoch:
		// "on the grid" is t.Truncate(d) == t, i.e. relative to Go's zero time
		{K: "sample", D: 7},
		{K: "sample", D: 11, Extra: true},
		{K: "sample", D: 13, Extra: true},
	},
	"derivative": {
		{K: "derivative", Fields: []string{"v"}, As: []string{"v"}, Unit: 1},
		{K: "derivative", Fields: []string{"v"}, As: []string{"d"}, Unit: 2, NonNeg: true},
		{K: "derivative", Fields: []string{"v"}, As: []string{"v"}, Unit: 7, Extra: true},
	},
	"changeDetect": {
		{K: "changeDetect", Fields: []string{"v"}},
		{K: "changeDetect", Fields: []string{"w", "v"}},
	},
	"stateCount": {
		{K: "stateCount", Lam: "vgt1", As: []string{"sc"}},
		{K: "stateCount", Lam: "pEqX", As: []string{"w"}},
	},
	"stateDuration": {
		{K: "stateDuration", Lam: "vgt1", As: []string{"sd"}, Unit: 1},
		{K: "stateDuration", Lam: "vne15", As: []string{"v"}, Unit: 2},
	},
	"flatten": {
		{K: "flatten", On: []string{"p"}, Delim: "."},
		{K: "flatten", On: []string{"h", "p"}, Delim: "_"},
		{K: "flatten", On: []string{"p"}, Delim: ".", D: 2, Drop: true},
		{K: "flatten", On: []string{"p"}, Delim: "-", D: 2},
		{K: "flatten", On: []string{"p"}, Delim: ".", D: 7, Extra: true},
	},
	"combine": {
		{K: "combine", Lams: []string{"pEqX", "true"}, As: []string{"l", "r"}, Delim: ".", N: 10},
		{K: "combine", Lams: []string{"true", "true"}, As: []string{"l", "r"}, Delim: ".", N: 2, D: 2},
		{K: "combine", Lams: []string{"true", "pEqX"}, As: []string{"l", "r"}, Delim: ".", N: 10, D: 13, Extra: true},
	},
	"groupBy": {
		{K: "groupBy", On: []string{"p"}},
		{K: "groupBy", Star: true},
		{K: "groupBy", Star: true, Excl: []string{"h"}},
		{K: "groupBy", Star: true, Excl: []string{"p"}},
		{K: "groupBy", On: []string{"h"}, ByName: true},
		// two explicit dimensions: the node's sorted tag-name slice is shared by every point it emits
		{K: "groupBy", On: []string{"p", "h"}},
	},
}

// CoreVariants: AllVariants without the Extra ones.
func CoreVariants() []Node {
	var out []Node
	for _, v := range AllVariants() {
		if !v.Extra {
			out = append(out, v)
		}
	}
	return out
}

// AllVariants in deterministic order.
func AllVariants() []Node {
	var out []Node
	for _, k := range Kinds {
		out = append(out, Variants[k]...)
	}
	return out
}

// ---------- inputs ----------

func pt(name, h, p string, t int, fields map[string]Val) Pt {
	tags := map[string]string{}
	if h != "" {
		tags["h"] = h
	}
	if p != "" {
		tags["p"] = p
	}
	return Pt{Name: name, Tags: tags, Fields: fields, T: t}
}

// ptt is pt with an arbitrary tag set.
func ptt(name string, tags map[string]string, t int, fields map[string]Val) Pt {
	return Pt{Name: name, Tags: tags, Fields: fields, T: t}
}

type T = map[string]string

type F = map[string]Val

// Seqs are the hand-written stream input sequences.  Per group the distinct
// times are within {0,1,2} or {0,2,4}: every elapsed time any node can see is
// 1, 2 or 4 units, so derivatives and durations stay exact dyadic rationals.
var Seqs = map[string][]Pt{
	// integers, two groups interleaved, repeated timestamps, values up and down
	"ints": {
		pt("m", "a", "x", 0, F{"v": iv(1)}),
		pt("m", "b", "x", 0, F{"v": iv(3)}),
		pt("m", "a", "y", 0, F{"v": iv(2)}),
		pt("m", "a", "x", 1, F{"v": iv(4), "w": iv(1)}),
		pt("m", "b", "y", 1, F{"v": iv(1)}),
		// a: {v=4,w=1}, {v=4}, {v=4,w=1}: changeDetect('w','v') must compare with the last EMITTED point
		pt("m", "a", "x", 2, F{"v": iv(4)}),
		pt("m", "b", "x", 2, F{"v": iv(5), "w": iv(1)}),
		pt("m", "a", "y", 2, F{"v": iv(4), "w": iv(1)}),
	},
	// mixed field types, missing fields and tags
	"mixed": {
		pt("m", "a", "x", 0, F{"v": fv(1.5)}),
		pt("m", "a", "", 0, F{"v": sv("x"), "w": iv(1)}),
		pt("m", "b", "x", 0, F{"w": iv(2)}),
		pt("m", "a", "x", 1, F{"v": fv(2.5), "w": iv(1)}),
		pt("m", "b", "y", 1, F{"v": bv(true)}),
		pt("m", "a", "y", 2, F{"v": iv(2)}),
		pt("m", "b", "x", 2, F{"v": fv(0.5)}),
		pt("m", "a", "x", 2, F{"v": fv(1.5)}),
	},
	// floats going down, even times, a second measurement, a point without the group tag
	"floats": {
		pt("m", "a", "x", 0, F{"v": fv(4)}),
		pt("n", "a", "x", 0, F{"v": iv(1)}),
		pt("m", "b", "y", 0, F{"v": fv(2)}),
		pt("m", "a", "x", 2, F{"v": fv(2)}),
		pt("m", "b", "y", 2, F{"v": fv(2)}),
		pt("m", "a", "y", 4, F{"v": fv(3)}),
		pt("m", "b", "y", 4, F{"v": fv(1), "w": iv(1)}),
		pt("m", "", "x", 4, F{"v": iv(1)}),
	},
	// times going backwards inside a group (negative elapsed, late points)
	"ooo": {
		pt("m", "a", "x", 2, F{"v": iv(1)}),
		pt("m", "b", "x", 2, F{"v": fv(2)}),
		pt("m", "a", "y", 1, F{"v": iv(3)}),
		pt("m", "a", "x", 1, F{"v": iv(2)}),
		pt("m", "b", "y", 0, F{"v": fv(1)}),
		pt("m", "a", "x", 0, F{"v": iv(5), "w": iv(1)}),
		pt("m", "b", "x", 2, F{"v": fv(0.5)}),
		pt("m", "a", "y", 2, F{"v": iv(4)}),
	},
	// tag KEY sets that change from point to point (same count with other names, subsets,
	// supersets, no group tag): under groupBy(*) the dimensions of a point are a function of
	// THAT point's tags only
	"keys": {
		ptt("m", T{"h": "a", "p": "x"}, 0, F{"v": iv(1)}),
		ptt("m", T{"h": "a", "q": "u"}, 0, F{"v": iv(2)}),
		ptt("m", T{"h": "b", "p": "y", "q": "u"}, 0, F{"v": fv(1.5)}),
		ptt("m", T{"h": "a"}, 1, F{"v": iv(3)}),
		ptt("m", T{"h": "b", "q": "u"}, 1, F{"v": fv(2.5)}),
		ptt("m", T{"h": "a", "q": "w"}, 1, F{"v": iv(3), "w": iv(1)}),
		ptt("m", T{"h": "a", "p": "x"}, 2, F{"v": iv(4)}),
		ptt("m", T{"p": "x", "q": "u"}, 2, F{"v": iv(1)}),
		ptt("m", T{"h": "b", "p": "y"}, 2, F{"v": fv(0.5)}),
	},
	// times on and off the 13s grids of Go's zero time (k = 5) and of the Unix epoch (k = 9); the
	// 7s grids (0 / 4) and 11s grids (0 / 2) are hit by the other sequences.  One time set
	// {1,5,9} for all groups: regrouping must not create other elapsed times than 4 and 8.
	"grid": {
		pt("m", "a", "x", 1, F{"v": iv(2)}),
		pt("m", "b", "x", 1, F{"v": fv(1.5)}),
		pt("m", "a", "y", 5, F{"v": iv(4), "w": iv(1)}),
		pt("m", "b", "y", 5, F{"v": fv(2.5)}),
		pt("m", "b", "x", 5, F{"v": fv(2)}),
		pt("m", "a", "x", 9, F{"v": iv(2)}),
		pt("m", "b", "x", 9, F{"v": fv(0.5)}),
		pt("m", "a", "y", 9, F{"v": iv(3)}),
	},
	// one field per point (flatten with dropOriginalFieldName is only defined then)
	"single": {
		pt("m", "a", "x", 0, F{"v": iv(1)}),
		pt("m", "a", "y", 0, F{"v": iv(2)}),
		pt("m", "b", "x", 0, F{"v": fv(0.5)}),
		pt("m", "a", "x", 1, F{"v": iv(3)}),
		pt("m", "a", "", 1, F{"v": iv(9)}),
		pt("m", "b", "y", 2, F{"v": fv(1.5)}),
		pt("m", "a", "y", 2, F{"v": iv(3)}),
		pt("m", "b", "y", 2, F{"v": sv("x")}),
	},
}

var SeqNames = []string{"ints", "mixed", "floats", "single", "ooo", "keys", "grid"}

// CarrySeqs are three consecutive windows for batch inputs in which every group's
// next batch starts with what the previous batch of that group ended with (also
// after where(p == 'x') or an eval), every point satisfies "v" > 1 and every batch
// has an odd number of points: a per-batch memory (changeDetect, derivative,
// stateCount, stateDuration, sample) that survives into the next batch shows.
var CarrySeqs = [][]Pt{
	{
		pt("m", "a", "x", 0, F{"v": iv(2)}),
		pt("m", "b", "x", 0, F{"v": fv(2)}),
		pt("m", "a", "y", 0, F{"v": iv(2)}),
		pt("m", "b", "y", 1, F{"v": fv(2)}),
		pt("m", "a", "x", 1, F{"v": iv(3), "w": iv(1)}),
		pt("m", "b", "x", 2, F{"v": fv(3)}),
	},
	{
		pt("m", "a", "x", 0, F{"v": iv(3), "w": iv(1)}),
		pt("m", "b", "x", 0, F{"v": fv(3)}),
		pt("m", "a", "y", 1, F{"v": iv(4)}),
		pt("m", "b", "y", 1, F{"v": fv(3)}),
		pt("m", "a", "x", 2, F{"v": iv(4)}),
		pt("m", "b", "x", 2, F{"v": fv(4)}),
	},
	{
		pt("m", "a", "x", 0, F{"v": iv(4)}),
		pt("m", "b", "x", 0, F{"v": fv(4)}),
		pt("m", "a", "x", 1, F{"v": iv(4)}),
		pt("m", "b", "y", 2, F{"v": fv(2)}),
		pt("m", "a", "y", 2, F{"v": iv(2)}),
		pt("m", "b", "x", 2, F{"v": fv(4)}),
	},
}

// PerBatchMemory lists the kinds that keep a memory inside a batch and must forget it at the next one.
var PerBatchMemory = map[string]bool{"changeDetect": true, "derivative": true, "stateCount": true, "stateDuration": true, "sample": true}

// Field/tag alphabets of random sequences.
var randFields = []F{
	{"v": iv(1)}, {"v": iv(2)}, {"v": iv(3)}, {"v": fv(0.5)}, {"v": fv(1.5)}, {"v": fv(2)},
	{"v": iv(2), "w": iv(1)}, {"v": fv(1.5), "w": iv(2)}, {"w": iv(1)}, {"v": sv("x")}, {"v": bv(false), "w": iv(1)},
}

// RandSeq draws a stream sequence: 6-9 points, non-decreasing times in
// {0,1,2} (or {0,2,4}), groups a/b, tag p in {x,y,absent}.
func RandSeq(intn func(int) int) []Pt {
	n := 6 + intn(4)
	step := 1 + intn(2)
	var out []Pt
	t := 0
	for i := 0; i < n; i++ {
		if t < 2 && intn(3) == 0 {
			t++
		}
		h := []string{"a", "b"}[intn(2)]
		p := []string{"x", "y", "x", ""}[intn(4)]
		name := "m"
		if intn(12) == 0 {
			name = "n"
		}
		out = append(out, pt(name, h, p, t*step, randFields[intn(len(randFields))]))
	}
	return out
}

// ToBatches turns stream sequences into a batch input: window w holds the
// points of seqs[w] shifted by 10*w, one batch per group value of h (points
// without h are left out), tmax = 10*(w+1); a last one-point batch with a later
// tmax lets a batch groupBy release what it holds.
func ToBatches(seqs [][]Pt, byName bool) []Input {
	var out []Input
	for w, s := range seqs {
		for _, h := range []string{"a", "b"} {
			b := &Bt{Name: "m", Tags: map[string]string{"h": h}, ByName: byName, TMax: 10 * (w + 1)}
			for _, p := range s {
				if p.Tags["h"] != h || p.Name != "m" {
					continue
				}
				q := p
				q.T += 10 * w
				b.Pts = append(b.Pts, q)
			}
			out = append(out, Input{B: b})
		}
	}
	w := len(seqs)
	out = append(out, Input{B: &Bt{Name: "m", Tags: map[string]string{"h": "a"}, ByName: byName, TMax: 10 * (w + 1),
		Pts: []Pt{pt("m", "a", "x", 10*w, F{"v": iv(1)})}}})
	return out
}

func StreamInputs(s []Pt) []Input {
	out := make([]Input, len(s))
	for i := range s {
		p := s[i]
		out[i] = Input{P: &p}
	}
	return out
}
