package c10

import (
	"fmt"
	"sort"
	"sync"

	"kapverif/rt"
)

func init() {
	rt.Register("c10", Run)
	rt.Register("c10probe", Probe)
}

const nWorkers = 8
const chunk = 1024

type job struct {
	pipe   Pipe
	ins    []Input
	inName string
}

type done struct {
	out *Outcome
	err error
}

// names collects every tag name a trace can mention; sorted with Go's string
// order it is the `order` the specification sorts dimensions by.
func collectNames(set map[string]bool, v any) {
	switch x := v.(type) {
	case rt.M:
		if tags, ok := x["tags"].(rt.M); ok {
			for k := range tags {
				set[k] = true
			}
		}
		if dims, ok := x["dims"].([]any); ok {
			for _, d := range dims {
				set[d.(string)] = true
			}
		}
		if pts, ok := x["pts"].([]any); ok {
			for _, p := range pts {
				collectNames(set, p)
			}
		}
	case []any:
		for _, e := range x {
			collectNames(set, e)
		}
	}
}

func orderOf(j job, o *Outcome) []any {
	set := map[string]bool{}
	for _, d := range j.pipe.Src.Dims {
		set[d] = true
	}
	for _, n := range j.pipe.Nodes {
		for _, l := range [][]string{n.On, n.Excl, n.Tags} {
			for _, x := range l {
				set[x] = true
			}
		}
		for k := range n.DefT {
			set[k] = true
		}
	}
	for _, in := range j.ins {
		collectNames(set, in.enc())
	}
	collectNames(set, o.Sinks)
	names := make([]string, 0, len(set))
	for k := range set {
		names = append(names, k)
	}
	sort.Strings(names)
	return sl(names)
}

type runner struct {
	r        *rt.Run
	t        *rt.Trace
	jobs     []job
	envs     []*rt.Env
	byKind   map[string]int
	unstable int
	nodeErrs int
}

func (x *runner) add(p Pipe, ins []Input, inName string) {
	x.jobs = append(x.jobs, job{p, ins, inName})
	if len(x.jobs) >= chunk {
		x.flush()
	}
}

// flush runs the queued jobs on the worker pool (one rt.Env per worker) and
// writes their traces in queue order, so the trace file is deterministic.
func (x *runner) flush() {
	res := make([]done, len(x.jobs))
	var wg sync.WaitGroup
	next := make(chan int, len(x.jobs))
	for i := range x.jobs {
		next <- i
	}
	close(next)
	for w := 0; w < nWorkers; w++ {
		wg.Add(1)
		go func(env *rt.Env) {
			defer wg.Done()
			for i := range next {
				o, err := Exec(env, x.jobs[i].pipe, x.jobs[i].ins)
				res[i] = done{o, err}
			}
		}(x.envs[w])
	}
	wg.Wait()
	for i, j := range x.jobs {
		if res[i].err != nil {
			rt.Fatalf("c10: %v", res[i].err)
		}
		o := res[i].out
		x.t.Reset(rt.M{"src": j.pipe.Src.Enc(), "nodes": j.pipe.EncNodes(), "order": orderOf(j, o), "input": j.inName})
		for _, in := range j.ins {
			x.t.Event("In", rt.M{"msg": in.enc()})
		}
		end := rt.M{"sinks": o.Sinks, "stable": o.Stable, "fork": j.pipe.IsFork(), "stopErr": o.StopErr, "nerr": len(o.Errs), "errs": o.ByNode}
		if !o.Stable {
			end["late"] = o.Late
			x.unstable++
		}
		x.t.Event("End", end)
		x.nodeErrs += len(o.Errs)
		for _, n := range j.pipe.Nodes {
			x.byKind[n.K]++
		}
		if len(j.pipe.Nodes) >= 2 && o.NOut > len(j.ins) {
			x.t.Distinct(j.pipe.Key() + "#" + j.inName)
		}
	}
	x.jobs = x.jobs[:0]
}

func chain(src Source, ns ...Node) Pipe {
	p := Pipe{Src: src}
	for i, n := range ns {
		n.Parent = i
		p.Nodes = append(p.Nodes, n)
	}
	return p
}

// fork: the nodes of branch A and of branch B both hang under `under`
// (a prefix chain; empty = directly under the source's sink).
func fork(src Source, under []Node, a []Node, b []Node) Pipe {
	p := chain(src, under...)
	root := len(p.Nodes)
	for _, br := range [][]Node{a, b} {
		par := root
		for _, n := range br {
			n.Parent = par
			p.Nodes = append(p.Nodes, n)
			par = len(p.Nodes)
		}
	}
	return p
}

// Run: B1 systematic enumeration of chains and forks over the parameter grid.
func Run(r *rt.Run) error {
	x := &runner{r: r, t: r.NewTrace("trace"), byKind: map[string]int{}}
	for w := 0; w < nWorkers; w++ {
		env, err := rt.NewEnv(rt.EnvOpts{})
		if err != nil {
			return err
		}
		defer env.Close()
		x.envs = append(x.envs, env)
	}
	vs := AllVariants()
	srcS := Source{Dims: []string{"h"}}
	srcB := Source{Batch: true, Dims: []string{"h"}}

	// inputs: the hand-written sequences plus seeded random ones
	type named struct {
		name string
		ins  []Input
	}
	var sIn, bIn []named
	for _, n := range SeqNames {
		sIn = append(sIn, named{n, StreamInputs(Seqs[n])})
	}
	bIn = append(bIn,
		named{"ints+mixed", ToBatches([][]Pt{Seqs["ints"], Seqs["mixed"]}, false)},
		named{"floats+single", ToBatches([][]Pt{Seqs["floats"], Seqs["single"]}, false)},
		named{"single+ints", ToBatches([][]Pt{Seqs["single"], Seqs["ints"]}, false)},
		named{"ooo+floats", ToBatches([][]Pt{Seqs["ooo"], Seqs["floats"]}, false)},
		named{"keys+grid", ToBatches([][]Pt{Seqs["keys"], Seqs["grid"]}, false)},
		named{"carry", ToBatches(CarrySeqs, false)},
	)
	nRand := 2
	if r.Thorough() {
		nRand = 4
	}
	for i := 0; i < nRand; i++ {
		a, b := RandSeq(r.Rand.Intn), RandSeq(r.Rand.Intn)
		sIn = append(sIn, named{fmt.Sprintf("rand%d", i), StreamInputs(a)})
		bIn = append(bIn, named{fmt.Sprintf("rand%d", i), ToBatches([][]Pt{a, b}, false)})
	}

	// 1. every single node on every input, four stream and two batch source groupings
	// srcS2: two explicit dimensions (from() hands its sorted tag-name slice to every point)
	srcS2 := Source{Dims: []string{"p", "h"}}
	// srcT: from().truncate(7s) moves every time onto the 7s grid of Go's zero time
	srcT := Source{Dims: []string{"h"}, Trunc: 7}
	srcs := []Source{srcS, {Dims: nil}, {Dims: []string{"h"}, ByName: true}, srcS2, srcT, srcB, {Batch: true, Dims: []string{"h"}, ByName: true}}
	for _, v := range vs {
		for _, s := range srcs {
			if s.Batch {
				for _, in := range bIn {
					ins := in.ins
					if s.ByName {
						ins = withByName(ins)
					}
					x.add(chain(s, v), ins, in.name)
				}
			} else {
				// truncate(7s) makes elapsed times of 7 units: a derivative would not be a dyadic rational
				if s.Trunc != 0 && v.K == "derivative" {
					continue
				}
				for _, in := range sIn {
					x.add(chain(s, v), in.ins, in.name)
				}
			}
		}
	}
	// 2. every chain of length 2 (every variant at both positions), stream and
	// batch; the input rotates over the pairs (thorough: two inputs per pair)
	carry := bIn[len(bIn)-1]
	for _, in := range bIn {
		if in.name == "carry" {
			carry = in
		}
	}
	k := 0
	perPair := 1
	if r.Thorough() {
		perPair = 2
	}
	for _, a := range vs {
		for _, b := range vs {
			for d := 0; d < perPair; d++ {
				si := sIn[(k+d*3)%len(sIn)]
				bi := bIn[(k+d*2)%len(bIn)]
				x.add(chain(srcS, a, b), si.ins, si.name)
				x.add(chain(srcB, a, b), bi.ins, bi.name)
			}
			// a per-batch memory behind ANY node (many zero the batch size hint) must still be
			// forgotten at the next batch of the group
			// ... with NO sink between the two nodes: a log() re-buffers the batch and restores the
			// size hint that where/eval/changeDetect/flatten/derivative set to 0 or n-1
			if PerBatchMemory[b.K] || b.K == "combine" || b.K == "flatten" {
				bare := a
				bare.Bare = true
				x.add(chain(srcB, bare, b), carry.ins, carry.name)
			}
			// two-dimension source: a node that drops or rewrites a dimension must not
			// touch the dimension list other points and branches share
			if a.K == "delete" || a.K == "default" || a.K == "eval" || a.K == "groupBy" || b.K == "delete" {
				si := sIn[(k+1)%len(sIn)]
				x.add(chain(srcS2, a, b), si.ins, si.name)
			}
			k++
		}
	}
	// 3. chains of length 3: thorough = every variant at every position;
	// quick = every kind at every position (13^3 kind triples, variants
	// rotating) plus a seeded sample of variant triples
	len3 := 0
	if r.Thorough() {
		core := CoreVariants()
		for _, a := range core {
			for _, b := range core {
				for _, c := range core {
					if k%2 == 0 {
						si := sIn[k%len(sIn)]
						x.add(chain(srcS, a, b, c), si.ins, si.name)
					} else {
						bi := bIn[k%len(bIn)]
						x.add(chain(srcB, a, b, c), bi.ins, bi.name)
					}
					k++
					len3++
				}
			}
		}
	} else {
		for _, ka := range Kinds {
			for _, kb := range Kinds {
				for _, kc := range Kinds {
					a := Variants[ka][k%len(Variants[ka])]
					b := Variants[kb][(k/2)%len(Variants[kb])]
					c := Variants[kc][(k/3)%len(Variants[kc])]
					if k%2 == 0 {
						si := sIn[k%len(sIn)]
						x.add(chain(srcS, a, b, c), si.ins, si.name)
					} else {
						bi := bIn[k%len(bIn)]
						x.add(chain(srcB, a, b, c), bi.ins, bi.name)
					}
					k++
					len3++
				}
			}
		}
		for i := 0; i < 400; i++ {
			a, b, c := vs[r.Rand.Intn(len(vs))], vs[r.Rand.Intn(len(vs))], vs[r.Rand.Intn(len(vs))]
			if r.Rand.Intn(2) == 0 {
				si := sIn[r.Rand.Intn(len(sIn))]
				x.add(chain(srcS, a, b, c), si.ins, si.name)
			} else {
				bi := bIn[r.Rand.Intn(len(bIn))]
				x.add(chain(srcB, a, b, c), bi.ins, bi.name)
			}
			len3++
		}
	}
	// 4. forks: one shared message, two children.  Branch A starts with every
	// variant (the data-changing ones are what matters), branch B is a plain tap
	// or another node; the fork point is the source's sink or the sink of a node.
	tap := Node{K: "tap"}
	forks := 0
	for _, a := range vs {
		for fi, s := range []Source{srcS, srcB} {
			ins := sIn[(k)%len(sIn)]
			if s.Batch {
				ins = bIn[k%len(bIn)]
			}
			x.add(fork(s, nil, []Node{a}, []Node{tap}), ins.ins, ins.name)
			x.add(fork(s, nil, []Node{tap}, []Node{a}), ins.ins, ins.name)
			// under a node that already made its own copy
			u := vs[(k*7+fi)%len(vs)]
			x.add(fork(s, []Node{u}, []Node{a}, []Node{tap}), ins.ins, ins.name)
			forks += 3
			k++
		}
		ins := sIn[k%len(sIn)]
		x.add(fork(srcS2, nil, []Node{a}, []Node{tap}), ins.ins, ins.name)
		x.add(fork(srcS2, nil, []Node{tap}, []Node{a}), ins.ins, ins.name)
		forks += 2
	}
	for _, a := range vs {
		for _, b := range vs {
			if !r.Thorough() && (k%4) != 0 {
				k++
				continue
			}
			si := sIn[k%len(sIn)]
			bi := bIn[k%len(bIn)]
			x.add(fork(srcS, nil, []Node{a}, []Node{b}), si.ins, si.name)
			x.add(fork(srcB, nil, []Node{a}, []Node{b}), bi.ins, bi.name)
			forks += 2
			k++
		}
	}
	x.flush()
	r.Extra["variants"] = len(vs)
	r.Extra["kinds"] = len(Kinds)
	r.Extra["chains_len3"] = len3
	r.Extra["forks"] = forks
	r.Extra["traces_per_kind"] = x.byKind
	r.Extra["late_mutation_in_chains_drift"] = x.unstable
	r.Extra["node_errors_reported"] = x.nodeErrs
	r.Finish(fmt.Sprintf("every parameterisation (%d over %d node kinds) alone under 6 source groupings (one with two dimensions) on every input; every chain of length 2 on stream and batch edges; chains of length 3 (thorough: all, quick: every kind triple + seeded sample); forks with a shared message (every variant against a tap sibling, under the source and under a node; variant pairs). Real tasks with a log() sink under every node; inputs: 5 hand-written sequences (ints, mixed types/missing fields, floats/second measurement/missing group tag, single-field, times going backwards) + seeded random ones, 2 groups, repeated timestamps. Non-trivial = >= 2 nodes and some node emitted something, distinct by (pipeline, input)", len(vs), len(Kinds)), r.Thorough())
	return nil
}

// withByName marks batches as grouped by measurement (the source descriptor says so).
func withByName(ins []Input) []Input {
	out := make([]Input, len(ins))
	for i, in := range ins {
		b := *in.B
		b.ByName = true
		out[i] = Input{B: &b}
	}
	return out
}
