// Package c10 binds spec/Nodes to the real per-point / per-group nodes
// (where, eval, default, delete, shift, sample, derivative, changeDetect,
// stateCount, stateDuration, flatten, combine, groupBy): pipelines built from
// node descriptors are run as real tasks with a log() sink under every node,
// and the descriptor, the inputs and everything every sink saw are recorded
// for TLC, which recomputes the composed operators of Nodes.tla.
package c10

import (
	"time"
	"fmt"
	"sort"
	"strings"

	"kapverif/rt"
)

// Scale is the fixed-point scale of float values in traces (inputs and
// parameters are dyadic rationals, so every float the pipelines can produce
// is an exact multiple of 1/Scale; see docs/notes/C10.md).
const Scale = 1024

// ---------- lambda catalogue (the spec knows the same names) ----------

// Predicates (where, stateCount, stateDuration, combine).
var Preds = map[string]string{
	"true":  `TRUE`,
	"vgt1":  `"v" > 1`,
	"pEqX":  `"p" == 'x'`,
	"wEq1":  `"w" == 1`,
	"vne15": `"v" != 1.5`,
}

// Scalar expressions (eval).
var Scalars = map[string]string{
	"one":  `1`,
	"dbl":  `"v" + "v"`,
	"half": `"v" / 2.0`,
	"tp":   `'t' + "p"`,
	"wv":   `"w" + "v"`,
	"aa":   `"a" + "a"`,
	"vv":   `"v"`,
}

// ---------- node descriptors ----------

// Val is a typed constant (default().field values).
type Val struct {
	T string // int | float | string | bool
	I int64  // int value, float value * Scale, bool as 0/1
	S string
}

func (v Val) enc() rt.M { return rt.M{"t": v.T, "i": v.I, "s": v.S} }

func (v Val) tick() string {
	switch v.T {
	case "int":
		return fmt.Sprint(v.I)
	case "float":
		return fmt.Sprintf("%v", floatLit(float64(v.I)/Scale))
	case "string":
		return "'" + v.S + "'"
	case "bool":
		if v.I != 0 {
			return "TRUE"
		}
		return "FALSE"
	}
	panic("bad val type " + v.T)
}

func floatLit(f float64) string {
	s := fmt.Sprintf("%g", f)
	if !strings.ContainsAny(s, ".e") {
		s += ".0"
	}
	return s
}

// Node is one node descriptor.  Parent is the index of the node it hangs
// under (0 = the source; nodes are numbered from 1 in pipeline order).  Sink
// s<i> sits directly under node i (s0 under the source).
type Node struct {
	K      string
	Parent int
	// Extra: a parameterisation that only differs in an alignment/unit constant; it is used alone,
	// in all chains of length 2 and in forks, but not in the product of length-3 chains.
	Extra bool
	// Bare: no log() sink under this node, its children read its output edge directly
	// (a sink re-buffers batches and thereby restores the size hint the node set).
	Bare bool

	Lam      string   // where, stateCount, stateDuration
	Lams     []string // eval (scalars), combine (predicates)
	As       []string // eval, combine; [0] = derivative/stateCount/stateDuration name
	Tags     []string // eval.tags, delete.tag
	Keep     bool
	KeepList []string
	Quiet    bool
	DefF     map[string]Val    // default.field
	DefT     map[string]string // default.tag
	Fields   []string          // delete.field, changeDetect fields; [0] = derivative field
	D        int               // shift seconds; sample duration; tolerance (flatten/combine)
	N        int               // sample count; combine max
	Unit     int               // derivative/stateDuration unit (seconds)
	NonNeg   bool
	On       []string // flatten.on, groupBy dimensions
	Delim    string
	Drop     bool // flatten.dropOriginalFieldName
	Star     bool // groupBy(*)
	Excl     []string
	ByName   bool
}

func sl(s []string) []any {
	out := make([]any, len(s))
	for i, x := range s {
		out[i] = x
	}
	return out
}

// Enc is the descriptor as the trace spec reads it (only the keys of its kind).
func (n Node) Enc() rt.M {
	m := rt.M{"k": n.K, "parent": n.Parent}
	if n.Bare {
		m["bare"] = true
	}
	switch n.K {
	case "tap":
	case "where":
		m["lam"] = n.Lam
	case "eval":
		m["lams"], m["as"], m["tags"] = sl(n.Lams), sl(n.As), sl(n.Tags)
		m["keep"], m["keepList"], m["quiet"] = n.Keep, sl(n.KeepList), n.Quiet
	case "default":
		f := rt.M{}
		for k, v := range n.DefF {
			f[k] = v.enc()
		}
		t := rt.M{}
		for k, v := range n.DefT {
			t[k] = v
		}
		m["fields"], m["tags"] = f, t
	case "delete":
		m["fields"], m["tags"] = sl(n.Fields), sl(n.Tags)
	case "shift":
		m["d"] = n.D
	case "sample":
		m["n"], m["d"], m["zr"] = n.N, n.D, ZeroResidue(n.D)
	case "derivative":
		m["field"], m["as"], m["unit"], m["nonNeg"] = n.Fields[0], n.As[0], n.Unit, n.NonNeg
	case "changeDetect":
		m["fields"] = sl(n.Fields)
	case "stateCount":
		m["lam"], m["as"] = n.Lam, n.As[0]
	case "stateDuration":
		m["lam"], m["as"], m["unit"] = n.Lam, n.As[0], n.Unit
	case "flatten":
		m["on"], m["delim"], m["tol"], m["zr"], m["drop"] = sl(n.On), n.Delim, n.D, ZeroResidue(n.D), n.Drop
	case "combine":
		m["lams"], m["as"], m["delim"], m["tol"], m["zr"], m["max"] = sl(n.Lams), sl(n.As), n.Delim, n.D, ZeroResidue(n.D), n.N
	case "groupBy":
		m["dims"], m["star"], m["excl"], m["byName"] = sl(n.On), n.Star, sl(n.Excl), n.ByName
	default:
		panic("unknown node kind " + n.K)
	}
	return m
}

func q(s []string) string {
	out := make([]string, len(s))
	for i, x := range s {
		out[i] = "'" + x + "'"
	}
	return strings.Join(out, ", ")
}

func dur(s int) string { return fmt.Sprintf("%ds", s) }

// Tick is the TICKscript fragment of the node (without its sink).
func (n Node) Tick() string {
	var b strings.Builder
	switch n.K {
	case "tap":
		return ""
	case "where":
		fmt.Fprintf(&b, "|where(lambda: %s)", Preds[n.Lam])
	case "eval":
		ls := make([]string, len(n.Lams))
		for i, l := range n.Lams {
			ls[i] = "lambda: " + Scalars[l]
		}
		fmt.Fprintf(&b, "|eval(%s).as(%s)", strings.Join(ls, ", "), q(n.As))
		if len(n.Tags) > 0 {
			fmt.Fprintf(&b, ".tags(%s)", q(n.Tags))
		}
		if n.Keep {
			fmt.Fprintf(&b, ".keep(%s)", q(n.KeepList))
		}
		if n.Quiet {
			b.WriteString(".quiet()")
		}
	case "default":
		b.WriteString("|default()")
		for _, k := range rt.SortedKeys(n.DefF) {
			fmt.Fprintf(&b, ".field('%s', %s)", k, n.DefF[k].tick())
		}
		for _, k := range rt.SortedKeys(n.DefT) {
			fmt.Fprintf(&b, ".tag('%s', '%s')", k, n.DefT[k])
		}
	case "delete":
		b.WriteString("|delete()")
		for _, f := range n.Fields {
			fmt.Fprintf(&b, ".field('%s')", f)
		}
		for _, t := range n.Tags {
			fmt.Fprintf(&b, ".tag('%s')", t)
		}
	case "shift":
		fmt.Fprintf(&b, "|shift(%s)", dur(n.D))
	case "sample":
		if n.D != 0 {
			fmt.Fprintf(&b, "|sample(%s)", dur(n.D))
		} else {
			fmt.Fprintf(&b, "|sample(%d)", n.N)
		}
	case "derivative":
		fmt.Fprintf(&b, "|derivative('%s').as('%s').unit(%s)", n.Fields[0], n.As[0], dur(n.Unit))
		if n.NonNeg {
			b.WriteString(".nonNegative()")
		}
	case "changeDetect":
		fmt.Fprintf(&b, "|changeDetect(%s)", q(n.Fields))
	case "stateCount":
		fmt.Fprintf(&b, "|stateCount(lambda: %s).as('%s')", Preds[n.Lam], n.As[0])
	case "stateDuration":
		fmt.Fprintf(&b, "|stateDuration(lambda: %s).as('%s').unit(%s)", Preds[n.Lam], n.As[0], dur(n.Unit))
	case "flatten":
		fmt.Fprintf(&b, "|flatten().on(%s).delimiter('%s')", q(n.On), n.Delim)
		if n.D != 0 {
			fmt.Fprintf(&b, ".tolerance(%s)", dur(n.D))
		}
		if n.Drop {
			b.WriteString(".dropOriginalFieldName()")
		}
	case "combine":
		ls := make([]string, len(n.Lams))
		for i, l := range n.Lams {
			ls[i] = "lambda: " + Preds[l]
		}
		fmt.Fprintf(&b, "|combine(%s).as(%s).delimiter('%s').max(%d)", strings.Join(ls, ", "), q(n.As), n.Delim, n.N)
		if n.D != 0 {
			fmt.Fprintf(&b, ".tolerance(%s)", dur(n.D))
		}
	case "groupBy":
		if n.Star {
			b.WriteString("|groupBy(*)")
		} else {
			fmt.Fprintf(&b, "|groupBy(%s)", q(n.On))
		}
		if len(n.Excl) > 0 {
			fmt.Fprintf(&b, ".exclude(%s)", q(n.Excl))
		}
		if n.ByName {
			b.WriteString(".byMeasurement()")
		}
	default:
		panic("unknown node kind " + n.K)
	}
	return b.String()
}

// Key is a canonical text of the node (distinct-case accounting, sampling).
func (n Node) Key() string {
	t := n.Tick()
	if t == "" {
		t = "|tap"
	}
	if n.Bare {
		t += "(bare)"
	}
	return fmt.Sprintf("%d%s", n.Parent, t)
}

// Source describes the source of a pipeline: stream|from().groupBy(..) or
// batch|query(..).groupBy(..) (fed through the batch collectors).
type Source struct {
	Batch  bool
	Dims   []string // groupBy dimensions of the source
	ByName bool     // groupByMeasurement()
	Trunc  int      // stream only: from().truncate(<Trunc>s)
}

// ZeroResidue is (model epoch - Go's zero time) mod d, in model units: Go aligns
// times (Truncate, Round) on the grid of multiples of d since its ZERO time, so
// model time k is on the d grid iff (k + ZeroResidue(d)) mod d = 0.  Computed
// with Go's time package only, independently of the code under test.
func ZeroResidue(d int) int {
	if d == 0 {
		return 0
	}
	unit := int64(rt.DefaultTime.Unit / time.Second)
	secs := rt.DefaultTime.Epoch.Unix() - (time.Time{}).Unix()
	return int((secs / unit) % int64(d))
}

func (s Source) Enc() rt.M {
	d := append([]string(nil), s.Dims...)
	sort.Strings(d)
	return rt.M{"batch": s.Batch, "dims": sl(d), "byName": s.ByName, "trunc": s.Trunc, "tzr": ZeroResidue(s.Trunc)}
}

// Pipe is a pipeline: a source and a tree of nodes in topological order.
type Pipe struct {
	Src   Source
	Nodes []Node
}

// Script renders the TICKscript: every node is followed by its sink
// |log().prefix('s<i>'); children hang under the sink of their parent (the
// log node forwards exactly what it received).
func (p Pipe) Script() string {
	var b strings.Builder
	if p.Src.Batch {
		b.WriteString("var n0 = batch\n    |query('SELECT * FROM \"db\".\"rp\".\"m\"').period(1h).every(1h)")
		if len(p.Src.Dims) > 0 {
			fmt.Fprintf(&b, ".groupBy(%s)", q(p.Src.Dims))
		}
		if p.Src.ByName {
			b.WriteString(".groupByMeasurement()")
		}
	} else {
		b.WriteString("var n0 = stream\n    |from()")
		if len(p.Src.Dims) > 0 {
			fmt.Fprintf(&b, ".groupBy(%s)", q(p.Src.Dims))
		}
		if p.Src.ByName {
			b.WriteString(".groupByMeasurement()")
		}
		if p.Src.Trunc != 0 {
			fmt.Fprintf(&b, ".truncate(%s)", dur(p.Src.Trunc))
		}
	}
	b.WriteString("\n    |log().prefix('s0')\n")
	for i, n := range p.Nodes {
		if n.Bare {
			fmt.Fprintf(&b, "var n%d = n%d\n    %s\n", i+1, n.Parent, n.Tick())
		} else {
			fmt.Fprintf(&b, "var n%d = n%d\n    %s|log().prefix('s%d')\n", i+1, n.Parent, n.Tick(), i+1)
		}
	}
	return b.String()
}

func (p Pipe) Key() string {
	ks := make([]string, len(p.Nodes))
	for i, n := range p.Nodes {
		ks[i] = n.Key()
	}
	return fmt.Sprintf("%v/%v/%v/%d:%s", p.Src.Batch, p.Src.Dims, p.Src.ByName, p.Src.Trunc, strings.Join(ks, ";"))
}

func (p Pipe) EncNodes() []any {
	out := make([]any, len(p.Nodes))
	for i, n := range p.Nodes {
		out[i] = n.Enc()
	}
	return out
}

// IsFork reports whether some node has two children (a shared message).
func (p Pipe) IsFork() bool {
	seen := map[int]bool{}
	for _, n := range p.Nodes {
		if seen[n.Parent] {
			return true
		}
		seen[n.Parent] = true
	}
	return false
}
