package c10

import (
	"encoding/json"
	"fmt"
	"os"
	"strings"
	"time"

	imodels "github.com/influxdata/influxdb/models"
	"github.com/influxdata/kapacitor/edge"
	"github.com/influxdata/kapacitor/models"

	"kapverif/rt"
)

// Probe (kvh c10probe -out DIR <script-file> <data-file>) runs one TICKscript on
// hand-written data and prints what every log() sink saw: the tool used for
// triage.  Data file: line protocol with the time in model seconds; for batch
// scripts a line "BATCH <name> <tmax> [tag=value,...]" starts a new batch.
func Probe(r *rt.Run) error {
	if len(r.Args) < 2 {
		return fmt.Errorf("usage: c10probe <script-file> <data-file>")
	}
	sb, err := os.ReadFile(r.Args[0])
	if err != nil {
		return err
	}
	db, err := os.ReadFile(r.Args[1])
	if err != nil {
		return err
	}
	script := string(sb)
	env, err := rt.NewEnv(rt.EnvOpts{})
	if err != nil {
		return err
	}
	defer env.Close()
	var res *rt.PipeResult
	parse := func(ln string) (imodels.Point, error) {
		ps, err := imodels.ParsePointsWithPrecision([]byte(ln), time.Unix(0, 0), "s")
		if err != nil {
			return nil, err
		}
		p := ps[0]
		k := int(p.Time().Unix())
		fs, _ := p.Fields()
		return rt.MustPoint(string(p.Name()), p.Tags().Map(), fs, rt.DefaultTime.T(k)), nil
	}
	if strings.Contains(script, "batch") && !strings.Contains(script, "stream") {
		var bs []edge.BufferedBatchMessage
		var begin edge.BeginBatchMessage
		var bps []edge.BatchPointMessage
		flush := func() {
			if begin != nil {
				begin.SetSizeHint(len(bps))
				bs = append(bs, edge.NewBufferedBatchMessage(begin, bps, edge.NewEndBatchMessage()))
			}
			begin, bps = nil, nil
		}
		for _, ln := range strings.Split(string(db), "\n") {
			ln = strings.TrimSpace(ln)
			if ln == "" || strings.HasPrefix(ln, "#") {
				continue
			}
			if strings.HasPrefix(ln, "BATCH") {
				flush()
				f := strings.Fields(ln)
				var tmax int
				fmt.Sscan(f[2], &tmax)
				tags := models.Tags{}
				if len(f) > 3 {
					for _, kv := range strings.Split(f[3], ",") {
						x := strings.SplitN(kv, "=", 2)
						tags[x[0]] = x[1]
					}
				}
				begin = edge.NewBeginBatchMessage(f[1], tags, false, rt.DefaultTime.T(tmax), 0)
				continue
			}
			p, err := parse(ln)
			if err != nil {
				return err
			}
			fs, _ := p.Fields()
			bps = append(bps, edge.NewBatchPointMessage(models.Fields(fs), models.Tags(p.Tags().Map()), p.Time()))
		}
		flush()
		res, err = rt.RunBatchTask(env, script, [][]edge.BufferedBatchMessage{bs})
	} else {
		var pts []imodels.Point
		for _, ln := range strings.Split(string(db), "\n") {
			ln = strings.TrimSpace(ln)
			if ln == "" || strings.HasPrefix(ln, "#") {
				continue
			}
			p, err := parse(ln)
			if err != nil {
				return err
			}
			pts = append(pts, p)
		}
		res, err = runStream(env, script, pts, "s0")
	}
	if err != nil {
		return err
	}
	for _, it := range res.Items {
		b, _ := json.Marshal(encItem(it))
		fmt.Printf("%s %s\n", it.Sink, b)
	}
	for _, e := range res.Errors {
		fmt.Printf("ERROR %s: %s: %s\n", e.Ctx, e.Msg, e.Err)
	}
	fmt.Printf("STOPERR %q\n", res.StopErr)
	r.Finish("probe", false)
	return nil
}
