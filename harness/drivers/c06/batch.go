package c06

import (
	"fmt"

	"github.com/influxdata/kapacitor/edge"
	"github.com/influxdata/kapacitor/models"

	"kapverif/rt"
)

// batch edges: two groups' batches (group per batch: tags a=g / a=h, dimension a) are fed alone and
// interleaved through the real batch task (BatchCollectors); per group the outputs must be the same.
var batchPipes = []pipe{
	{name: "bStateCount", script: `|stateCount(lambda: "x" > 1)`},
	{name: "bStateDuration", script: `|stateDuration(lambda: "x" > 1).unit(1s)`},
	{name: "bChangeDetect", script: `|changeDetect('x')`},
	{name: "bDerivative", script: `|derivative('x').unit(1s)`},
	{name: "bSample", script: `|sample(2)`},
	{name: "bWhereCount", script: `|where(lambda: count() > 2)`},
	{name: "bEvalCount", script: `|eval(lambda: count()).as('c').keep('c', 'x')`},
	{name: "bSum", script: `|sum('x')`},
	{name: "bLast", script: `|last('x')`},
	{name: "bCumSum", script: `|cumulativeSum('x')`},
	{name: "bAlertSCO", script: `|alert().id('{{ .Group }}').crit(lambda: "x" > 2).warn(lambda: "x" > 1).stateChangesOnly().topic('%T')`, alert: true},
	{name: "bAlertCount", script: `|alert().id('{{ .Group }}').crit(lambda: count() > 3).topic('%T')`, alert: true},
}

type bat struct {
	grp  int
	tmax int
	pts  [][2]int // x, t
}

// batchByName: the two groups differ in their MEASUREMENT only (m / n, both a=g) and the query groups by measurement.
var batchByName bool

func mkBatch(b bat) edge.BufferedBatchMessage {
	name, a := "m", []string{"g", "h"}[b.grp]
	if batchByName {
		name, a = []string{"m", "n"}[b.grp], "g"
	}
	tags := models.Tags{"a": a, "who": fmt.Sprintf("s%d", b.grp)}
	pts := make([]edge.BatchPointMessage, len(b.pts))
	for i, p := range b.pts {
		pts[i] = edge.NewBatchPointMessage(models.Fields{"x": int64(p[0])}, tags, rt.DefaultTime.T(p[1]))
	}
	begin := edge.NewBeginBatchMessage(name, models.Tags{"a": tags["a"]}, batchByName, rt.DefaultTime.T(b.tmax), len(pts))
	begin.SetDimensions(models.Dimensions{ByName: batchByName, TagNames: []string{"a"}})
	return edge.NewBufferedBatchMessage(begin, pts, edge.NewEndBatchMessage())
}

func runBatchOnce(env *rt.Env, pp pipe, bs []bat, topic string) ([2][]any, error) {
	var out [2][]any
	script := "batch|query('SELECT x FROM db.rp.m').period(10s).every(10s).groupBy('a')\n    " + replaceTopic(pp.script, topic) + "\n    |log().prefix('out')\n"
	if batchByName {
		script = "batch|query('SELECT x FROM db.rp./m|n/').period(10s).every(10s).groupBy('a').groupByMeasurement()\n    " + replaceTopic(pp.script, topic) + "\n    |log().prefix('out')\n"
	}
	var rec *rt.RecHandler
	if pp.alert {
		rec = rt.NewRecHandler(topic)
		env.Alert.RegisterAnonHandler(topic, rec)
	}
	msgs := make([]edge.BufferedBatchMessage, len(bs))
	for i, b := range bs {
		msgs[i] = mkBatch(b)
	}
	res, err := rt.RunBatchTask(env, script, [][]edge.BufferedBatchMessage{msgs})
	if pp.alert {
		env.Alert.DeregisterAnonHandler(topic, rec)
		env.Alert.DeleteTopic(topic)
	}
	if err != nil {
		return out, fmt.Errorf("%s: %w\n%s", pp.name, err, script)
	}
	which := func(tags map[string]string) int {
		if batchByName {
			switch tags["who"] {
			case "s0":
				return 0
			case "s1":
				return 1
			}
			return -1
		}
		switch tags["a"] {
		case "g":
			return 0
		case "h":
			return 1
		}
		return -1
	}
	byNameOf := func(name string, gi int) int {
		if batchByName && gi < 0 {
			switch name {
			case "m":
				return 0
			case "n":
				return 1
			}
		}
		return gi
	}
	for _, it := range res.BySink("out") {
		var m rt.M
		gi := -1
		if it.Batch != nil {
			m = rt.EncBatch(it.Batch, rt.DefaultTime, 1000)
			gi = byNameOf(it.Batch.Name(), which(it.Batch.Tags()))
			for _, bp := range it.Batch.Points() {
				if w := which(bp.Tags()); w >= 0 && w != gi {
					m["inconsistent"] = true
				}
			}
		} else {
			m = rt.EncPoint(it.Point, rt.DefaultTime, 1000)
			gi = byNameOf(it.Point.Name(), which(it.Point.Tags()))
		}
		delete(m, "group")
		if gi < 0 {
			gi = 0
			m["unattributed"] = true
		}
		out[gi] = append(out[gi], m)
	}
	if pp.alert {
		for _, e := range rec.Snapshot() {
			gi := byNameOf(e.Data.Name, which(e.Data.Tags))
			m := rt.M{"alert": true, "lvl": int(e.State.Level), "prev": int(e.PreviousState().Level), "t": rt.DefaultTime.K(e.State.Time)}
			if gi < 0 {
				gi = 0
				m["unattributed"] = true
			}
			out[gi] = append(out[gi], m)
		}
	}
	return out, nil
}

func replaceTopic(s, topic string) string {
	out := ""
	for i := 0; i < len(s); i++ {
		if i+1 < len(s) && s[i] == '%' && s[i+1] == 'T' {
			out += topic
			i++
			continue
		}
		out += string(s[i])
	}
	return out
}

func encBats(bs []bat) []any {
	out := []any{}
	for _, b := range bs {
		pts := []any{}
		for _, p := range b.pts {
			pts = append(pts, []any{p[0], p[1]})
		}
		out = append(out, []any{b.grp, b.tmax, pts})
	}
	return out
}

func runBatches(r *rt.Run, env *rt.Env, t *rt.Trace) error {
	progs := [][2][]bat{
		{
			{{0, 10, [][2]int{{1, 1}, {3, 4}, {3, 9}}}, {0, 20, [][2]int{{3, 11}, {0, 15}, {2, 19}}}, {0, 30, [][2]int{{2, 22}, {4, 29}}}},
			{{1, 10, [][2]int{{3, 2}, {0, 5}}}, {1, 20, [][2]int{{0, 12}, {3, 13}, {3, 14}, {1, 18}}}, {1, 30, [][2]int{{1, 21}}}},
		},
	}
	n := 2
	if r.Thorough() {
		n = 10
	}
	for i := 0; i < n; i++ {
		var p [2][]bat
		for g := 0; g < 2; g++ {
			for b := 1; b <= 2+r.Rand.Intn(2); b++ {
				bt := bat{grp: g, tmax: b * 10}
				tm := (b-1)*10 + 1
				for k := 1 + r.Rand.Intn(4); k > 0 && tm < b*10; k-- {
					bt.pts = append(bt.pts, [2]int{r.Rand.Intn(5), tm})
					tm += 1 + r.Rand.Intn(3)
				}
				p[g] = append(p[g], bt)
			}
		}
		progs = append(progs, p)
	}
	topicNo := 0
	// second pass: groups that differ in the measurement only, with nodes that re-tag batches
	byNamePipes := []pipe{
		{name: "nDefaultTagSum", script: `|default().tag('t', 'v')|sum('x')|stateCount(lambda: "sum" > 2)`},
		{name: "nDefaultTagStateCount", script: `|default().tag('t', 'v')|stateCount(lambda: "x" > 1)`},
		{name: "nDeleteTagCumSum", script: `|delete().tag('zz')|cumulativeSum('x')`},
		{name: "nEvalTagsWhereCount", script: `|eval(lambda: 'k').as('t').tags('t').keep('x')|where(lambda: count() > 2)`},
		{name: "nStateCount", script: `|stateCount(lambda: "x" > 1)`},
		{name: "nSumCumSum", script: `|sum('x')|cumulativeSum('sum')`},
		{name: "nAlertLevelTag", script: `|alert().id('{{ .Group }}').crit(lambda: count() > 3).levelTag('lvl').topic('%T')|stateCount(lambda: "x" > 1)`, alert: true},
	}
	all := append(append([]pipe(nil), batchPipes...), byNamePipes...)
	for ppi, pp := range all {
		batchByName = ppi >= len(batchPipes)
		for pi, prog := range progs {
			topicNo++
			topic := fmt.Sprintf("TB%d", topicNo)
			t.Reset(rt.M{"pipeline": pp.name, "grouping": "batch"})
			for grp := 0; grp < 2; grp++ {
				out, err := runBatchOnce(env, pp, prog[grp], topic)
				if err != nil {
					return err
				}
				t.Event("Solo", rt.M{"grp": grp, "inputs": encBats(prog[grp]), "out": out[grp], "foreign": len(out[1-grp])})
			}
			// interleavings of the two batch sequences ordered by tmax (ties both ways, limited)
			var merges [][]bat
			var rec func(i, j int, cur []bat)
			rec = func(i, j int, cur []bat) {
				if len(merges) >= 8 {
					return
				}
				a, b := prog[0], prog[1]
				if i == len(a) && j == len(b) {
					merges = append(merges, append([]bat(nil), cur...))
					return
				}
				if i < len(a) && (j == len(b) || a[i].tmax <= b[j].tmax) {
					rec(i+1, j, append(cur, a[i]))
				}
				if j < len(b) && (i == len(a) || b[j].tmax <= a[i].tmax) {
					rec(i, j+1, append(cur, b[j]))
				}
			}
			rec(0, 0, nil)
			for _, m := range merges {
				out, err := runBatchOnce(env, pp, m, topic)
				if err != nil {
					return err
				}
				t.Event("Mixed", rt.M{"order": encBats(m), "out0": out[0], "out1": out[1]})
			}
			t.Distinct(fmt.Sprintf("batch/%s/%d", pp.name, pi))
		}
	}
	batchByName = false
	return nil
}
