// Package c06: group identity and isolation (DESIGN.md C06, spec/GroupDemux).
// For every grouping-aware pipeline of a catalogue the real task is run on
// group g alone, on group h alone, and on interleavings of both; per group the
// output must be the same sequence.  Tag values include ',', '=', '\', space.
package c06

import (
	"fmt"
	"sort"
	"strings"

	imodels "github.com/influxdata/influxdb/models"
	"github.com/influxdata/kapacitor/alert"

	"kapverif/rt"
)

func init() { rt.Register("c06", Run) }

// pipe is one catalogue entry; %G is replaced by the groupBy clause.
type pipe struct {
	name   string
	script string // after `stream|from().measurement('m')%G`
	alert  bool   // also record alert events on topic T<name>
	rewA   string // the pipeline rewrites group tag a by appending this suffix (attribution of group-tag-only outputs)
	kf     string // known-finding key expected (documentation only)
	full   string // whole script instead of `from + script` (%F = the grouped from())
}

var catalogue = []pipe{
	{name: "where", script: `|where(lambda: "x" > 1)`},
	{name: "whereCount", script: `|where(lambda: count() > 1)`},
	{name: "eval", script: `|eval(lambda: "x" + 1).as('y').keep('x', 'y', 'k')`},
	{name: "evalSigma", script: `|eval(lambda: count() * 10).as('c').keep('c', 'k')`},
	{name: "whereNestedCount", script: `|where(lambda: float(count()) > 1.0)`},
	{name: "evalIfCount", script: `|eval(lambda: if(count() > 1, 1, 0)).as('c').keep('c', 'k')`},
	{name: "evalNestedSpread", script: `|eval(lambda: abs(spread("x")) + max(count(), 0)).as('c').keep('c', 'k')`},
	{name: "stateCountNested", script: `|stateCount(lambda: int(count()) > 1)`},
	{name: "stateCountDelete", script: `|stateCount(lambda: "x" > 1)|delete().tag('a')`},
	{name: "cumSumDeleteB", script: `|cumulativeSum('x')|delete().tag('b')`},
	{name: "rewriteTagWindow", script: `|eval(lambda: "a" + 'x').as('a').tags('a').keep('x', 'k')|window().period(2s).every(1s)`, rewA: "x"},
	{name: "rewriteTagCount", script: `|eval(lambda: "a" + 'x').as('a').tags('a').keep('x', 'k')|window().period(3s).every(2s)|count('x')`, rewA: "x"},
	{name: "defaultTagWindow", script: `|default().tag('b', 'dflt')|window().periodCount(2).everyCount(1)`},
	{name: "derivative", script: `|derivative('x').unit(1s)`},
	{name: "changeDetect", script: `|changeDetect('x')`},
	{name: "stateCount", script: `|stateCount(lambda: "x" > 1)`},
	{name: "stateDuration", script: `|stateDuration(lambda: "x" > 1).unit(1s)`},
	{name: "sample", script: `|sample(2)`},
	{name: "windowCount", script: `|window().period(3s).every(2s)|count('x')`},
	{name: "windowRaw", script: `|window().period(2s).every(1s)`},
	{name: "countWindowSum", script: `|window().periodCount(2).everyCount(1)|sum('x')`},
	{name: "cumulativeSum", script: `|cumulativeSum('x')`},
	{name: "difference", script: `|difference('x')`},
	{name: "movingAverage", script: `|movingAverage('x', 2)`},
	{name: "elapsed", script: `|elapsed('x', 1s)`},
	{name: "last", script: `|window().period(2s).every(2s)|last('x')`},
	// two-parent nodes fed by two branches of the same grouped stream: per group, the result must not depend on other groups
	{name: "joinSelf", full: "var l = %F\n    |eval(lambda: \"x\" + 1).as('y')\nvar r = %F\n    |eval(lambda: \"x\" * 2).as('z')\nl\n    |join(r)\n        .as('l', 'r')\n        .tolerance(1s)"},
	{name: "joinSelfCount", full: "var l = %F\nvar r = %F\n    |where(lambda: \"x\" >= 0)\nl\n    |join(r)\n        .as('l', 'r')\n    |stateCount(lambda: \"l.x\" > 1)"},
	// (a union of two branches is not in the catalogue: the order of equal-time points of different parents is not fixed, C12)
	// windows that are regularly EMPTY (period < every): aggregates defined on empty input emit for them
	{name: "sparseWindowSum", script: `|window().period(1s).every(2s)|sum('x')`},
	{name: "sparseWindowCount", script: `|window().period(1s).every(2s)|count('x')`},
	{name: "sparseWindowSumAlign", script: `|window().period(1s).every(3s).align()|sum('x').as('s')|eval(lambda: "s" * 2).as('d').keep()`},
	{name: "alertSCO", script: `|alert().id('{{ .Group }}').crit(lambda: "x" > 2).warn(lambda: "x" > 1).stateChangesOnly().topic('%T').levelField('l')`, alert: true},
	{name: "alertNestedCount", script: `|alert().id('{{ .Group }}').crit(lambda: float(count()) > 2.0).topic('%T').levelField('l')`, alert: true},
	{name: "alertCount", script: `|alert().id('{{ .Group }}').crit(lambda: count() > 2).topic('%T').levelField('l')`, alert: true},
	{name: "alertReset", script: `|alert().id('{{ .Group }}').crit(lambda: "x" > 2).critReset(lambda: count() > 3).topic('%T')`, alert: true},
	{name: "alertHistory", script: `|alert().id('{{ .Group }}').crit(lambda: "x" > 1).flapping(0.3, 0.6).history(4).topic('%T')`, alert: true},
}

// in is one input point: group key (index into the group's tag values), value, time.
type in struct {
	grp int
	x   int
	t   int
	i   int // position within its own series (set by number())
}

// number sets the per-series positions.
func number(prog [2][]in) [2][]in {
	for g := 0; g < 2; g++ {
		for i := range prog[g] {
			prog[g][i].i = i
		}
	}
	return prog
}

type grouping struct {
	alt    []map[string]string // extra tags of group 1 that alternate per point (the "group" is then several groups of one series)
	name   string
	clause string               // groupBy clause appended to from()
	tags   [2]map[string]string // the two groups' tags
	meas   [2]string
	extra  bool // add a non-grouped tag that varies: must not split the group
	flt1   bool // the second series carries field x as a float (the first as an integer): field kinds differ between groups
}

var groupings = []grouping{
	{name: "plain", clause: `.groupBy('a')`, tags: [2]map[string]string{{"a": "g"}, {"a": "h"}}, meas: [2]string{"m", "m"}},
	{name: "comma", clause: `.groupBy('a', 'b')`, tags: [2]map[string]string{{"a": "x,b=y", "b": "z"}, {"a": "x", "b": "y,b=z"}}, meas: [2]string{"m", "m"}},
	{name: "equals", clause: `.groupBy(*)`, tags: [2]map[string]string{{"a=": "x"}, {"a": "=x"}}, meas: [2]string{"m", "m"}},
	{name: "star", clause: `.groupBy(*)`, tags: [2]map[string]string{{"a": "x,b=y"}, {"a": "x", "b": "y"}}, meas: [2]string{"m", "m"}},
	{name: "space", clause: `.groupBy('a')`, tags: [2]map[string]string{{"a": "g h"}, {"a": "g"}}, meas: [2]string{"m", "m"}},
	{name: "backslash", clause: `.groupBy('a', 'b')`, tags: [2]map[string]string{{"a": `x\z`, "b": "y"}, {"a": "x", "b": `z\y`}}, meas: [2]string{"m", "m"}},
	{name: "extraTag", clause: `.groupBy('a')`, tags: [2]map[string]string{{"a": "g"}, {"a": "h"}}, meas: [2]string{"m", "m"}, extra: true},
	{name: "twoDims", clause: `.groupBy('a', 'b')`, tags: [2]map[string]string{{"a": "x", "b": "1"}, {"a": "y", "b": "1"}}, meas: [2]string{"m", "m"}},
	{name: "starExclude", clause: `|groupBy(*).exclude('c', 'who', 'z')`, tags: [2]map[string]string{{"a": "x", "c": "1"}, {"a": "x"}}, meas: [2]string{"m", "m"},
		alt: []map[string]string{{"p": "1"}, {"p": "2"}}},
	// exactly ONE dimension whose value contains the id's delimiters, next to a group that really has two dimensions (the
	// attribution tag is excluded, so that the first group has a single dimension)
	{name: "starOneDim", clause: `|groupBy(*).exclude('who')`, tags: [2]map[string]string{{"a": "x,b=y"}, {"a": "x", "b": "y"}}, meas: [2]string{"m", "m"}},
	// a tag KEY that contains the id's delimiters (round-5 seed C06-r5m2: keys written unescaped): {"a=x,b": "y"} must not share
	// an id with {"a": "x", "b": "y"}
	{name: "keyDelims", clause: `|groupBy(*).exclude('who')`, tags: [2]map[string]string{{"a=x,b": "y"}, {"a": "x", "b": "y"}}, meas: [2]string{"m", "m"}},
	{name: "mixedKinds", clause: `.groupBy('a')`, tags: [2]map[string]string{{"a": "g"}, {"a": "h"}}, meas: [2]string{"m", "m"}, flt1: true},
	{name: "byMeasurement", clause: `.groupBy('a').groupByMeasurement()`, tags: [2]map[string]string{{"a": "g"}, {"a": "g"}}, meas: [2]string{"m", "n"}},
}

func mkPoint(g grouping, p in, k int) imodels.Point {
	tags := map[string]string{}
	for a, b := range g.tags[p.grp] {
		tags[a] = b
	}
	if g.extra {
		tags["z"] = fmt.Sprint(p.i % 2)
	}
	if p.grp == 1 && len(g.alt) > 0 {
		for a, b := range g.alt[p.i%len(g.alt)] {
			tags[a] = b
		}
	}
	// attribution tag: which of the two input series a point belongs to (never rewritten by the pipelines)
	tags["who"] = fmt.Sprintf("s%d", p.grp)
	var x any = int64(p.x)
	if g.flt1 && p.grp == 1 {
		x = float64(p.x) + 0.5
	}
	return rt.MustPoint(g.meas[p.grp], tags, map[string]any{"x": x, "k": int64(k)}, rt.DefaultTime.T(p.t))
}

// runOnce executes the pipeline on the given inputs and returns, per group index, the encoded outputs.
func runOnce(env *rt.Env, pp pipe, g grouping, ins []in, ks []int, topic string) ([2][]any, error) {
	var out [2][]any
	from := `stream|from()` + g.clause
	script := from + "\n    " + strings.ReplaceAll(pp.script, "%T", topic) + "\n    |log().prefix('out')\n"
	if pp.full != "" {
		// a pipeline with several sources: %F stands for the grouped from()
		script = strings.ReplaceAll(strings.ReplaceAll(pp.full, "%F", from), "%T", topic) + "\n    |log().prefix('out')\n"
	}
	var rec *rt.RecHandler
	if pp.alert {
		rec = rt.NewRecHandler(topic)
		env.Alert.RegisterAnonHandler(topic, rec)
	}
	pts := make([]imodels.Point, len(ins))
	for i, p := range ins {
		pts[i] = mkPoint(g, p, ks[i])
	}
	res, err := rt.RunStreamTask(env, script, pts)
	if pp.alert {
		env.Alert.DeregisterAnonHandler(topic, rec) // drains the handler queue synchronously
		env.Alert.DeleteTopic(topic)
	}
	if err != nil {
		return out, fmt.Errorf("%s: %w\n%s", pp.name, err, script)
	}
	// which input series does an output belong to: tag who (on the message, else on its first point)
	groupOf := func(name string, tags map[string]string) int {
		switch tags["who"] {
		case "s0":
			return 0
		case "s1":
			return 1
		}
		// messages that carry group tags only (streaming aggregations): by the group-by tag values / measurement
		if _, has := tags["p"]; has {
			return 1 // only series 1 of the starExclude grouping has tag p
		}
		for gi := 0; gi < 2; gi++ {
			if name != "" && name != g.meas[gi] {
				continue
			}
			ok := len(tags) > 0 || len(g.tags[gi]) == 0
			for a, b := range tags {
				if want, has := g.tags[gi][a]; has && a == "a" && pp.rewA != "" {
					if want+pp.rewA != b {
						ok = false
					}
				} else if has && want != b {
					ok = false
				} else if !has && a != "z" && a != "l" && a != "p" {
					ok = false
				}
			}
			if ok {
				return gi
			}
		}
		return -1
	}
	for _, it := range res.BySink("out") {
		var m rt.M
		var gi int
		if it.Point != nil {
			m = rt.EncPoint(it.Point, rt.DefaultTime, 1000)
			gi = groupOf(it.Point.Name(), it.Point.Tags())
		} else {
			m = rt.EncBatch(it.Batch, rt.DefaultTime, 1000)
			gi = groupOf(it.Batch.Name(), it.Batch.Tags())
			if gi < 0 && len(it.Batch.Points()) > 0 {
				gi = groupOf(it.Batch.Name(), it.Batch.Points()[0].Tags())
			}
			// a batch is identified by its tag values: on every dimension its tags must agree with its points'
			for _, d := range it.Batch.Dimensions().TagNames {
				for _, bp := range it.Batch.Points() {
					if v, ok := bp.Tags()[d]; ok && v != it.Batch.Tags()[d] {
						m["inconsistent"] = true
					}
				}
			}
			// all points of one batch belong to one input series
			for _, bp := range it.Batch.Points() {
				if w := groupOf("", bp.Tags()); w >= 0 && gi >= 0 && w != gi {
					m["inconsistent"] = true
				}
			}
		}
		delete(m, "group") // the ID string itself is checked by GroupIdInjective; outputs are attributed by tag values
		stripZ(m)
		if gi < 0 {
			gi = 0
			m["unattributed"] = true
		}
		out[gi] = append(out[gi], m)
	}
	if pp.alert {
		for _, e := range rec.Snapshot() {
			gi := groupOf(e.Data.Name, e.Data.Tags)
			m := rt.M{"alert": true, "lvl": int(e.State.Level), "prev": int(e.PreviousState().Level), "t": rt.DefaultTime.K(e.State.Time), "dur": int(e.State.Duration / rt.DefaultTime.Unit)}
			if gi < 0 {
				gi = 0
				m["unattributed"] = true
			}
			out[gi] = append(out[gi], m)
		}
	}
	_ = alert.OK
	return out, nil
}

// stripZ removes the varying non-group tag and the per-run point counter from an encoded message.
func stripZ(m rt.M) {
	if tags, ok := m["tags"].(rt.M); ok {
		delete(tags, "z")
	}
	if f, ok := m["fields"].(rt.M); ok {
		delete(f, "k")
		// the write index also travels through joins under the parents' prefixes
		delete(f, "l.k")
		delete(f, "r.k")
	}
	if pts, ok := m["points"].([]any); ok {
		for _, p := range pts {
			if pm, ok := p.(rt.M); ok {
				stripZ(pm)
			}
		}
	}
	if d, ok := m["dims"].(rt.M); ok {
		_ = d
	}
}

func seqOf(ins []in, grp int) []in {
	var out []in
	for _, p := range ins {
		if p.grp == grp {
			out = append(out, p)
		}
	}
	return out
}

func encIns(ins []in) []any {
	out := make([]any, len(ins))
	for i, p := range ins {
		out[i] = []any{p.grp, p.x, p.t}
	}
	return out
}

// interleavings of a (group 0) and b (group 1) respecting time order: merge by time with all tie orders
func merges(a, b []in, limit int, rnd func(int) int) [][]in {
	var out [][]in
	var rec func(i, j int, cur []in)
	rec = func(i, j int, cur []in) {
		if len(out) >= limit {
			return
		}
		if i == len(a) && j == len(b) {
			out = append(out, append([]in(nil), cur...))
			return
		}
		// data arrives in time order overall (a stream is time ordered); ties may go either way
		if i < len(a) && (j == len(b) || a[i].t <= b[j].t) {
			rec(i+1, j, append(cur, a[i]))
		}
		if j < len(b) && (i == len(a) || b[j].t <= a[i].t) {
			rec(i, j+1, append(cur, b[j]))
		}
	}
	rec(0, 0, nil)
	return out
}

func Run(r *rt.Run) error {
	env, err := rt.NewEnv(rt.EnvOpts{})
	if err != nil {
		return err
	}
	defer env.Close()
	t := r.NewTrace("trace")
	// value/time programs per group: chosen so that every stateful node changes state
	progs := [][2][]in{
		{{{0, 1, 1, 0}, {0, 3, 2, 0}, {0, 3, 3, 0}, {0, 0, 5, 0}}, {{1, 3, 1, 0}, {1, 0, 2, 0}, {1, 2, 4, 0}, {1, 3, 5, 0}}},
		{{{0, 2, 1, 0}, {0, 2, 1, 0}, {0, 4, 3, 0}}, {{1, 1, 2, 0}, {1, 5, 2, 0}, {1, 0, 3, 0}, {1, 3, 6, 0}}},
	}
	nRand := 2
	mergeLimit := 6
	if r.Thorough() {
		nRand, mergeLimit = 40, 120
	}
	for i := 0; i < nRand; i++ {
		var p [2][]in
		for g := 0; g < 2; g++ {
			tm := 0
			for k := 2 + r.Rand.Intn(4); k > 0; k-- {
				tm += r.Rand.Intn(3)
				p[g] = append(p[g], in{g, r.Rand.Intn(5), tm, 0})
			}
		}
		progs = append(progs, p)
	}
	topicNo := 0
	for _, pp := range catalogue {
		for _, g := range groupings {
			for pi, prog := range progs {
				prog = number(prog)
				topicNo++
				topic := fmt.Sprintf("T%d", topicNo)
				t.Reset(rt.M{"pipeline": pp.name, "grouping": g.name})
				// solo runs
				for grp := 0; grp < 2; grp++ {
					ks := make([]int, len(prog[grp]))
					for i := range ks {
						ks[i] = i
					}
					out, err := runOnce(env, pp, g, prog[grp], ks, topic)
					if err != nil {
						return err
					}
					other := 1 - grp
					t.Event("Solo", rt.M{"grp": grp, "inputs": encIns(prog[grp]), "out": out[grp], "foreign": len(out[other])})
				}
				ms := merges(prog[0], prog[1], mergeLimit, r.Rand.Intn)
				for _, m := range ms {
					ks := make([]int, len(m))
					for i := range ks {
						ks[i] = i
					}
					out, err := runOnce(env, pp, g, m, ks, topic)
					if err != nil {
						return err
					}
					t.Event("Mixed", rt.M{"order": encIns(m), "out0": out[0], "out1": out[1]})
				}
				t.Distinct(fmt.Sprintf("%s/%s/%d", pp.name, g.name, pi))
			}
		}
	}
	if err := runDelete(r, env, t); err != nil {
		return err
	}
	if err := runBatches(r, env, t); err != nil {
		return err
	}
	if err := runHTTPOut(r, env, t); err != nil {
		return err
	}
	names := []string{}
	for _, p := range catalogue {
		names = append(names, p.name)
	}
	sort.Strings(names)
	r.Extra["pipelines"] = names
	r.Extra["groupings"] = len(groupings)
	r.Extra["programs"] = len(progs)
	r.Finish("for each of the grouping-aware pipelines x the groupings of the table (plain, tag values and tag keys with ',', '=', space, backslash, groupBy(*), a varying non-group tag, byMeasurement) x input programs: the real task on group 0 alone, group 1 alone and on time-ordered interleavings of both (all tie orders up to a limit); distinct by (pipeline, grouping, program)", false)
	return nil
}
