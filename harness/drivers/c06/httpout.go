package c06

// httpout.go: per-group bookkeeping of an OUTPUT node across the deletion of another group.  httpOut keeps one row per
// group; when `barrier().idle(D).delete(TRUE)` deletes group A the rows of the groups that stay (B, C) must keep being
// exactly what a run without A shows for them.  A's position among the groups (created first, second, last) varies.
// The barrier's idle timer is wall clock: B and C are kept alive by further points while A falls idle; an attempt in
// which the keep-alive writes were delayed (so that B or C could have been deleted too) is discarded and repeated -
// no verdict depends on wall time; too many discarded attempts in a row is a harness failure (exit 2).

import (
	"encoding/json"
	"fmt"
	"net/http"
	"net/http/httptest"
	"sort"
	"time"

	imodels "github.com/influxdata/influxdb/models"
	"github.com/influxdata/kapacitor"

	"kapverif/rt"
)

const httpOutIdle = 400 * time.Millisecond

type hoPoint struct {
	grp string // tag a
	x   int
	t   int
}

func hoMk(p hoPoint) imodels.Point {
	return rt.MustPoint("m", map[string]string{"a": p.grp}, map[string]any{"x": int64(p.x)}, rt.DefaultTime.T(p.t))
}

// rowsOf fetches the endpoint and returns, per group tag value, the rows served for it (encoded).
func rowsOf(env *rt.Env, task string) (map[string][]any, error) {
	var h func(http.ResponseWriter, *http.Request)
	for _, r := range env.HTTPD.Routes {
		if r.Method == "GET" && r.Pattern == "/tasks/"+task+"/ep" {
			h, _ = r.HandlerFunc.(func(http.ResponseWriter, *http.Request))
		}
	}
	if h == nil {
		return nil, fmt.Errorf("no route for the httpOut endpoint of %s", task)
	}
	rec := httptest.NewRecorder()
	h(rec, httptest.NewRequest("GET", "/kapacitor/v1/tasks/"+task+"/ep", nil))
	var res struct {
		Series []*struct {
			Name    string            `json:"name"`
			Tags    map[string]string `json:"tags"`
			Columns []string          `json:"columns"`
			Values  [][]any           `json:"values"`
		} `json:"series"`
	}
	if err := json.Unmarshal(rec.Body.Bytes(), &res); err != nil {
		return nil, fmt.Errorf("endpoint body %q: %v", rec.Body.String(), err)
	}
	out := map[string][]any{}
	for _, s := range res.Series {
		if s == nil {
			out["<nil>"] = append(out["<nil>"], "nil row")
			continue
		}
		keys := []string{}
		for k := range s.Tags {
			keys = append(keys, k)
		}
		sort.Strings(keys)
		tags := []any{}
		for _, k := range keys {
			tags = append(tags, []any{k, s.Tags[k]})
		}
		cols := []any{}
		for _, c := range s.Columns {
			cols = append(cols, c)
		}
		vals := []any{}
		for _, v := range s.Values {
			row := []any{}
			for _, c := range v {
				row = append(row, fmt.Sprint(c))
			}
			vals = append(vals, row)
		}
		out[s.Tags["a"]] = append(out[s.Tags["a"]], rt.M{"name": s.Name, "tags": tags, "columns": cols, "values": vals})
	}
	return out, nil
}

func runHTTPOut(r *rt.Run, env *rt.Env, t *rt.Trace) error {
	// the sink below httpOut sees a point only after httpOut has dealt with it (it forwards what its group receiver
	// returns): once the sink has logged every point written, the rows are final - an exact wait, no settling time
	script := fmt.Sprintf("stream|from().groupBy('a')\n    |barrier().idle(%dms).delete(TRUE)\n    |httpOut('ep')\n    |log().prefix('ho')\n", httpOutIdle/time.Millisecond)
	settled := func(n int) {
		if !env.Diag.WaitCount("ho", n, 30*time.Second) {
			rt.Fatalf("c06: the sink below httpOut logged %d of %d points within 30s", env.Diag.Count("ho"), n)
		}
	}
	taskNo := 0
	for pos := 0; pos < 3; pos++ {
		var seq []hoPoint // the B/C points of the accepted mixed attempt, in the order written
		var mixed map[string][]any
		ok := false
		reasons := []string{}
		for attempt := 0; attempt < 8 && !ok; attempt++ {
			taskNo++
			id := fmt.Sprintf("ho%d", taskNo)
			seq = nil
			env.Diag.Clear()
			if _, err := env.StartTask(id, script, kapacitor.StreamTask, rt.DefaultDBRP); err != nil {
				return err
			}
			tm := 1
			// creation order: A at position pos among B (g) and C (h)
			order := []string{"g", "h"}
			order = append(order[:pos], append([]string{"del"}, order[pos:]...)...)
			for _, gname := range order {
				p := hoPoint{gname, tm, tm}
				env.Write("db", "rp", hoMk(p))
				if gname != "del" {
					seq = append(seq, p)
				}
				tm++
			}
			env.WaitIngress()
			conclusive := true
			deleted := false
			last := time.Now()
			deadline := time.Now().Add(20 * time.Second)
			for time.Now().Before(deadline) {
				time.Sleep(40 * time.Millisecond)
				// keep B and C alive
				for _, gname := range []string{"g", "h"} {
					p := hoPoint{gname, tm, tm}
					env.Write("db", "rp", hoMk(p))
					seq = append(seq, p)
					tm++
				}
				now := time.Now()
				if now.Sub(last) > httpOutIdle/2 {
					conclusive = false // the keep-alive was late: B or C may have been idle long enough to be deleted
					reasons = append(reasons, fmt.Sprintf("keep-alive late by %v", now.Sub(last)))
					break
				}
				last = now
				env.WaitIngress()
				c, have := cardinality(env, id, "http_out3")
				if !have {
					st, _ := env.TM.ExecutionStats(id)
					rt.Fatalf("c06: no working_cardinality for the httpOut node of %s: %v", id, st.NodeStats)
				}
				if c < 2 {
					conclusive = false
					reasons = append(reasons, fmt.Sprintf("cardinality %d", c))
					break
				}
				if c == 2 && len(seq) > 6 {
					deleted = true
					break
				}
			}
			if conclusive && deleted {
				// two more rounds for B and C after the deletion, then read what the endpoint serves
				for round := 0; round < 2; round++ {
					for _, gname := range []string{"g", "h"} {
						p := hoPoint{gname, 100 + tm, tm}
						env.Write("db", "rp", hoMk(p))
						seq = append(seq, p)
						tm++
					}
				}
				env.WaitIngress()
				settled(len(seq) + 1)
				rows, err := rowsOf(env, id)
				if err != nil {
					return err
				}
				mixed = rows
				if c, _ := cardinality(env, id, "http_out3"); c == 2 && time.Since(last) < httpOutIdle/2 {
					ok = true
				} else {
					reasons = append(reasons, fmt.Sprintf("final cardinality %d, %v after the last keep-alive", c, time.Since(last)))
				}
			} else if conclusive {
				reasons = append(reasons, "the idle group was not deleted within 20s")
			}
			env.TM.StopTask(id)
		}
		if !ok {
			rt.Fatalf("c06: httpOut/delete scenario %d was inconclusive 8 times in a row: %v", pos, reasons)
		}
		// the same B/C points without A
		var solo map[string][]any
		sok := false
		for attempt := 0; attempt < 8 && !sok; attempt++ {
			taskNo++
			id := fmt.Sprintf("ho%d", taskNo)
			env.Diag.Clear()
			if _, err := env.StartTask(id, script, kapacitor.StreamTask, rt.DefaultDBRP); err != nil {
				return err
			}
			start := time.Now()
			for _, p := range seq {
				env.Write("db", "rp", hoMk(p))
			}
			env.WaitIngress()
			settled(len(seq))
			rows, err := rowsOf(env, id)
			if err != nil {
				return err
			}
			solo = rows
			if c, _ := cardinality(env, id, "http_out3"); c == 2 && time.Since(start) < httpOutIdle/2 {
				sok = true
			}
			env.TM.StopTask(id)
		}
		if !sok {
			rt.Fatalf("c06: httpOut solo run %d was inconclusive 8 times in a row", pos)
		}
		ne := func(x []any) []any {
			if x == nil {
				return []any{}
			}
			return x
		}
		t.Reset(rt.M{"pipeline": "httpOutDelete", "grouping": fmt.Sprintf("deleted group created at position %d", pos)})
		t.Event("Solo", rt.M{"grp": 0, "inputs": []any{}, "out": ne(solo["g"]), "foreign": len(solo["del"]) + len(solo["<nil>"])})
		t.Event("Solo", rt.M{"grp": 1, "inputs": []any{}, "out": ne(solo["h"]), "foreign": len(solo["del"]) + len(solo["<nil>"])})
		t.Event("Mixed", rt.M{"order": []any{}, "out0": ne(mixed["g"]), "out1": ne(mixed["h"]), "leftover": len(mixed["del"]) + len(mixed["<nil>"])})
		t.Distinct(fmt.Sprintf("httpOutDelete/%d", pos))
	}
	return nil
}
