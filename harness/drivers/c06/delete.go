package c06

import (
	"fmt"
	"time"

	imodels "github.com/influxdata/influxdb/models"
	"github.com/influxdata/kapacitor"

	"kapverif/rt"
)

// delete-group scenarios: `|barrier().idle(D).delete(TRUE)` upstream of a stateful
// node.  After the group has been idle the barrier node sends a DeleteGroup
// message; every downstream node must then forget the group, so the group's
// next points are processed by a FRESH per-group machine: the output must be
// solo(part1) ++ solo(part2).  The deletion is awaited through the downstream
// node's working_cardinality statistic (no verdict depends on wall time; a
// missed deadline is a harness failure).
var deletePipes = []pipe{
	{name: "delWhereCount", script: `|where(lambda: count() > 1)`},
	{name: "delCumSum", script: `|cumulativeSum('x')`},
	{name: "delStateCount", script: `|stateCount(lambda: "x" > 1)`},
	{name: "delDerivative", script: `|derivative('x').unit(1s)`},
}

func nodeNameOf(p pipe) string {
	switch p.name {
	case "delWhereCount":
		return "where3"
	case "delCumSum":
		return "cumulativeSum3"
	case "delStateCount":
		return "state_count3"
	default:
		return "derivative3"
	}
}

func cardinality(env *rt.Env, task, node string) (int64, bool) {
	st, err := env.TM.ExecutionStats(task)
	if err != nil {
		return 0, false
	}
	ns, ok := st.NodeStats[node]
	if !ok {
		return 0, false
	}
	switch v := ns["working_cardinality"].(type) {
	case int64:
		return v, true
	case int:
		return int64(v), true
	}
	return 0, false
}

func encOut(items []rt.SinkItem) []any {
	out := []any{}
	for _, it := range items {
		m := rt.EncPoint(it.Point, rt.DefaultTime, 1000)
		delete(m, "group")
		stripZ(m)
		out = append(out, m)
	}
	return out
}

func runDelete(r *rt.Run, env *rt.Env, t *rt.Trace) error {
	tags := map[string]string{"a": "g"}
	other := map[string]string{"a": "h"}
	part1 := []in{{0, 1, 1, 0}, {0, 3, 2, 0}, {0, 3, 3, 0}}
	part2 := []in{{0, 3, 10, 0}, {0, 2, 11, 0}, {0, 3, 12, 0}}
	mk := func(p in, k int, tg map[string]string) imodels.Point {
		return rt.MustPoint("m", tg, map[string]any{"x": int64(p.x), "k": int64(k)}, rt.DefaultTime.T(p.t))
	}
	for pi, pp := range deletePipes {
		for _, withOther := range []bool{false, true} {
			script := "stream|from().groupBy('a')\n    |barrier().idle(15ms).delete(TRUE)\n    " + pp.script + "\n    |log().prefix('out')\n"
			t.Reset(rt.M{"pipeline": pp.name, "grouping": "delete"})
			// solo runs of the two parts (fresh task each)
			for part, ins := range [][]in{part1, part2} {
				pts := []imodels.Point{}
				for k, p := range ins {
					pts = append(pts, mk(p, k, tags))
				}
				res, err := rt.RunStreamTask(env, script, pts)
				if err != nil {
					return err
				}
				t.Event("SoloPart", rt.M{"part": part + 1, "inputs": encIns(ins), "out": encOut(res.BySink("out"))})
			}
			// one task: part1, wait for the group to be deleted downstream, part2
			id := fmt.Sprintf("del%d_%v", pi, withOther)
			env.Diag.Clear()
			if _, err := env.StartTask(id, script, kapacitor.StreamTask, rt.DefaultDBRP); err != nil {
				return err
			}
			for k, p := range part1 {
				env.Write("db", "rp", mk(p, k, tags))
			}
			if withOther {
				// another group keeps flowing before the deletion (it must not matter)
				env.Write("db", "rp", mk(in{1, 5, 3, 0}, 0, other))
			}
			env.WaitIngress()
			node := nodeNameOf(pp)
			// wait until the downstream node has seen the group(s) and then dropped them all
			seen := false
			deadline := time.Now().Add(60 * time.Second)
			for {
				c, ok := cardinality(env, id, node)
				if !ok {
					st, _ := env.TM.ExecutionStats(id)
					rt.Fatalf("c06: no working_cardinality for node %s of %s: %v", node, id, st.NodeStats)
				}
				if c > 0 {
					seen = true
				}
				if seen && c == 0 {
					break
				}
				if time.Now().After(deadline) {
					rt.Fatalf("c06: group was not deleted downstream within 60s (cardinality %d)", c)
				}
				time.Sleep(2 * time.Millisecond)
			}
			for k, p := range part2 {
				env.Write("db", "rp", mk(p, k, tags))
			}
			env.WaitIngress()
			env.TM.StopTask(id)
			var own []rt.SinkItem
			for _, it := range env.Diag.SinkItems("out") {
				if it.Point.Tags()["a"] == "g" {
					own = append(own, it)
				}
			}
			t.Event("DeleteRun", rt.M{"other": withOther, "out": encOut(own)})
			t.Distinct(fmt.Sprintf("delete/%s/%v", pp.name, withOther))
		}
	}
	return nil
}
