package c08

// Name classes.  The specification talks about two topics and the alert IDs "a" / "ab";
// the drivers map them to real names drawn from these classes, so that every storage
// path (bucket per topic, key per ID in the V2 store; object ID, index key and JSON map
// key in the V1 store and its glob-pattern List; the V1 -> V2 migration) is exercised
// with path separators, glob metacharacters (also a malformed pattern), spaces,
// non-ASCII text, dot names, quotes, backslashes and per-cent escapes.  In every class
// the first name is a proper prefix of the second (key-ordered storage).
// Observations are mapped back to the model names; a name the driver does not know is
// logged as "?<name>" and rejected by the trace specifications.
type nameClass struct {
	Label  string
	Topics [2]string // svc / migration: real names of the two topics
	IDs    [2]string // real alert IDs for "a", "ab"
}

var nameClasses = []nameClass{
	{"plain", [2]string{"S", "S_high"}, [2]string{"a", "ab"}},
	{"slash", [2]string{"dc1/cpu", "dc1/cpu/high"}, [2]string{"h/a", "h/a/b"}},
	{"glob", [2]string{"cpu*", "cpu*?[x]"}, [2]string{"*", "*?[a-"}},
	{"space-unicode", [2]string{"t ü", "t ü ✓ λ"}, [2]string{"a b", "a b ü"}},
	{"dots-blank", [2]string{".", ".."}, [2]string{" ", " ."}},
	{"quote-escape", [2]string{`a\b`, `a\b%2F'q`}, [2]string{`"q"`, `"q" %2F`}},
}

var modelIDs = [2]string{"a", "ab"}

func (n nameClass) realID(model string) string {
	for i, m := range modelIDs {
		if m == model {
			return n.IDs[i]
		}
	}
	return model
}

func (n nameClass) modelID(real string) string {
	for i, r := range n.IDs {
		if r == real {
			return modelIDs[i]
		}
	}
	return "?" + real
}

// Event times.  "up": the k-th point / operation carries time k.  "zig": times
// 1,0,3,2,5,4,...: every second event is EARLIER than its predecessor, and both orders
// occur between consecutive events from length 3 on.  The map is an involution, so the
// index is recovered from the time the same way.
func timeIndex(zig bool, k int) int {
	if zig && k >= 0 {
		return k ^ 1
	}
	return k
}

func timesLabel(zig bool) string {
	if zig {
		return "zig"
	}
	return "up"
}
