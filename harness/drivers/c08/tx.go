package c08

import (
	"fmt"
	"os"
	"time"

	"github.com/influxdata/kapacitor/alert"
	alertservice "github.com/influxdata/kapacitor/services/alert"
	"github.com/influxdata/kapacitor/services/storage"

	"kapverif/rt"
)

// c08tx: concurrent transactions on the ONE topic store instance the alert service
// shares among all task goroutines (spec/AlertPersist/TopicStoreTx.tla).  A restore of a
// topic (read-only tx: begin, derive the topic's bucket, List, end) and a persist / clear
// of an event (read-write tx: begin, derive, Put / Delete, commit) or a second restore
// are stepped through every interleaving of their four steps on the real storage.Bolt
// store (BeginReadOnlyTx / BeginTx, as restoreTopic / persistEventState do inside View /
// Update); then a fresh alert service is opened on the file (restart) and reports both
// topics.  Sequential replay in one goroutine: the file is pre-grown so that no commit
// has to re-map it while a read transaction is open (Bolt would wait for the reader).

func init() { rt.Register("c08tx", RunTx) }

type txProc struct {
	Kind  string // read | put | del
	Topic string // anon | named
	ID    string
	Lvl   int
}

func (p txProc) fields() []any { return []any{p.Kind, p.Topic, p.ID, p.Lvl} }

func esJSON(lvl, k int) []byte {
	b, err := alertservice.EventState{Level: alert.Level(lvl), Message: fmt.Sprintf("m%d", k), Time: rt.DefaultTime.T(k)}.MarshalJSON()
	if err != nil {
		rt.Fatalf("c08tx: %v", err)
	}
	return b
}

func doTx(seed []v1Entry, ps [2]txProc, sched []int, names int, t *rt.Trace) {
	nc := nameClasses[names]
	real := map[string]string{"anon": nc.Topics[0], "named": nc.Topics[1]}
	dir := tmpDir()
	defer os.RemoveAll(dir)
	path := join(dir, "k.db")
	st, err := rt.NewBoltStore(path, true, rt.NewDiag())
	if err != nil {
		rt.Fatalf("c08tx: %v", err)
	}
	// pre-grow the file (and the mmap), then free the pages again
	pad := st.Store("pad")
	if err := pad.Update(func(tx storage.Tx) error { return tx.Put("pad", make([]byte, 1<<19)) }); err != nil {
		rt.Fatalf("c08tx: %v", err)
	}
	if err := pad.Update(func(tx storage.Tx) error { return tx.Delete("pad") }); err != nil {
		rt.Fatalf("c08tx: %v", err)
	}
	store := st.Store(topicNS) // the one shared instance, as Service.topicsStore
	for k, e := range seed {
		e := e
		if err := store.Update(func(tx storage.Tx) error {
			return tx.Bucket([]byte(real[e.Topic])).Put(nc.realID(e.ID), esJSON(e.Lvl, k))
		}); err != nil {
			rt.Fatalf("c08tx: seed: %v", err)
		}
	}
	op, ok := store.(storage.TxOperator)
	if !ok {
		rt.Fatalf("c08tx: the topic store is not a storage.TxOperator")
	}
	t.Reset(rt.M{"kind": "tx", "names": names, "seed": migFields(seed), "p1": ps[0].fields(), "p2": ps[1].fields(), "sched": sched})
	var rtx [2]storage.ReadOnlyTx
	var wtx [2]storage.Tx
	var rh [2]storage.ReadOnlyTx
	var wh [2]storage.Tx
	pc := [2]int{}
	done := make(chan struct{})
	go func() {
		defer close(done)
		for _, i := range sched {
			p := ps[i]
			f := rt.M{"p": i + 1}
			switch pc[i] {
			case 0:
				f["step"] = "begin"
				var err error
				if p.Kind == "read" {
					rtx[i], err = op.BeginReadOnlyTx()
				} else {
					wtx[i], err = op.BeginTx()
				}
				if err != nil {
					rt.Fatalf("c08tx: begin: %v", err)
				}
			case 1:
				f["step"] = "bucket"
				if p.Kind == "read" {
					rh[i] = rtx[i].Bucket([]byte(real[p.Topic]))
				} else {
					wh[i] = wtx[i].Bucket([]byte(real[p.Topic]))
				}
			case 2:
				f["step"] = "access"
				switch p.Kind {
				case "read":
					kvs, err := rh[i].List("")
					if err != nil {
						rt.Fatalf("c08tx: list: %v", err)
					}
					res := []any{}
					for _, kv := range kvs {
						var es alertservice.EventState
						if e := es.UnmarshalJSON(kv.Value); e != nil {
							rt.Fatalf("c08tx: stored state: %v", e)
						}
						res = append(res, []any{nc.modelID(kv.Key), int(es.Level)})
					}
					f["res"] = res
				case "put":
					if err := wh[i].Put(nc.realID(p.ID), esJSON(p.Lvl, 9)); err != nil {
						rt.Fatalf("c08tx: put: %v", err)
					}
				case "del":
					if err := wh[i].Delete(nc.realID(p.ID)); err != nil {
						rt.Fatalf("c08tx: delete: %v", err)
					}
				}
			case 3:
				f["step"] = "end"
				var err error
				if p.Kind == "read" {
					err = rtx[i].Rollback()
				} else {
					err = wtx[i].Commit()
				}
				if err != nil {
					rt.Fatalf("c08tx: end: %v", err)
				}
			}
			pc[i]++
			t.Event("Step", f)
		}
	}()
	select {
	case <-done:
	case <-time.After(deadlineScale * 20 * time.Second):
		rt.Fatalf("c08tx: interleaving %v of %v did not finish (a commit waiting for the open read transaction?)", sched, ps)
	}
	if err := st.CloseBolt(); err != nil {
		rt.Fatalf("c08tx: %v", err)
	}
	// restart: what a fresh alert service reports for the two topics
	w := openSvc(path, names, false)
	t.Event("Restart", rt.M{"state": w.state()})
	w.as.Close()
	w.store.Close()
	t.Distinct(fmt.Sprintf("%v/%v/%v/%d", seed, ps, sched, names))
}

// RunTx: process 1 is always a restore of topic "anon"; process 2 is a restore of the other
// topic, or a put / delete on either topic; all 70 interleavings of the 4 + 4 steps; two
// store contents; the name class rotates.
func RunTx(r *rt.Run) error {
	t := r.NewTrace("tx")
	var scheds [][]int
	var gen func(cur []int, a, b int)
	gen = func(cur []int, a, b int) {
		if a == 4 && b == 4 {
			scheds = append(scheds, append([]int(nil), cur...))
			return
		}
		if a < 4 {
			gen(append(cur, 0), a+1, b)
		}
		if b < 4 {
			gen(append(cur, 1), a, b+1)
		}
	}
	gen(nil, 0, 0)
	seeds := [][]v1Entry{
		{{"anon", "a", 2}, {"named", "ab", 2}},
		{{"anon", "a", 2}, {"anon", "ab", 2}, {"named", "a", 2}},
	}
	p1 := txProc{"read", "anon", "", 0}
	p2s := []txProc{
		{"read", "named", "", 0},
		{"put", "named", "a", 3}, {"put", "named", "ab", 1}, {"del", "named", "ab", 0}, {"del", "named", "a", 0},
		{"put", "anon", "ab", 3}, {"put", "anon", "a", 1}, {"del", "anon", "a", 0},
	}
	if !r.Thorough() {
		seeds = seeds[:1]
	}
	n := 0
	for _, seed := range seeds {
		for _, p2 := range p2s {
			for _, sc := range scheds {
				doTx(seed, [2]txProc{p1, p2}, sc, n%len(nameClasses), t)
				n++
			}
		}
	}
	r.Extra["tx_interleavings_per_pair"] = len(scheds)
	r.Extra["tx_process_pairs"] = len(p2s)
	r.Extra["tx_store_contents"] = len(seeds)
	r.Finish("shared topic store: a restore (read-only tx) of one topic against a restore of the other topic or a put/delete on either topic, all 70 interleavings of begin/bucket/access/end on the real storage.Bolt instance, then a restart of the alert service on the file; topic and ID names rotate over the 6 name classes; distinct by (content, process pair, schedule)", true)
	return nil
}
