package c08

import (
	"bufio"
	"encoding/json"
	"fmt"
	"os"
	"runtime"
	"runtime/debug"
	"runtime/pprof"
	"strings"
	"sync"

	"github.com/influxdata/kapacitor/server/vars"

	"kapverif/rt"
)

func init() {
	rt.Register("c08", Run)
}

var cfgs = []Cfg{
	{Anon: true, Named: false, SCO: false},
	{Anon: true, Named: false, SCO: true},
	{Anon: false, Named: true, SCO: false},
	{Anon: false, Named: true, SCO: true},
	{Anon: true, Named: true, SCO: false},
	{Anon: true, Named: true, SCO: true},
}

type job struct {
	kind string // node | svc
	cfg  Cfg
	hist []Pt
	ops  []SOp
	// node: also restart the task in-process after every point
	taskRestarts bool
	// node: crash the second run at every one of its boundaries as well
	doubleCrash bool
	// svc: only the crash points around the last operation
	lastOnly bool
	// svc: event time pattern and name class (node: in cfg)
	zig   bool
	names int
}

// curJobs: lineage -> description of the job in progress (for harness error messages)
var curJobs sync.Map

func jobOf(lineage int64) string {
	if v, ok := curJobs.Load(lineage); ok {
		return v.(string)
	}
	return "?"
}

type result struct {
	traces [][]rt.M
	resets []rt.M
	keys   []string
}

// histories enumerates every history of length 1..maxLen over ids x levels.  The two IDs
// are NOT interchangeable ("a" is a proper prefix of "ab": key-ordered storage can confuse
// them in one direction only), so histories shorter than symLen are enumerated in full;
// from symLen on only those whose first ID is ids[0] (budget).
func histories(maxLen int, ids []string, levels []int, symLen int) [][]Pt {
	var out [][]Pt
	var rec func(cur []Pt)
	rec = func(cur []Pt) {
		if len(cur) > 0 && (len(cur) < symLen || cur[0].ID == ids[0]) {
			out = append(out, append([]Pt(nil), cur...))
		}
		if len(cur) == maxLen {
			return
		}
		for _, id := range ids {
			for _, l := range levels {
				rec(append(cur, Pt{id, l}))
			}
		}
	}
	rec(nil)
	return out
}

// opHistories enumerates every service operation history of length 1..maxLen (no symmetry
// reduction: neither the two IDs nor the two topic names are interchangeable, the shorter
// is a proper prefix of the longer).
func opHistories(maxLen int, ids []string, levels []int) [][]SOp {
	topics := []string{"anon", "named"}
	var out [][]SOp
	var rec func(cur []SOp)
	rec = func(cur []SOp) {
		if len(cur) > 0 {
			out = append(out, append([]SOp(nil), cur...))
		}
		if len(cur) == maxLen {
			return
		}
		for _, tp := range topics {
			for _, id := range ids {
				for _, l := range levels {
					rec(append(cur, SOp{"collect", tp, id, l}))
				}
			}
			rec(append(cur, SOp{"close", tp, "", 0}))
			rec(append(cur, SOp{"delete", tp, "", 0}))
		}
	}
	rec(nil)
	return out
}

func histKey(c Cfg, h []Pt) string {
	s := fmt.Sprintf("%v%v%v%v%d%v", c.Anon, c.Named, c.SCO, c.Zig, c.Names, c.IDTag)
	for _, p := range h {
		s += fmt.Sprintf(",%s%d", p.ID, p.Lvl)
	}
	return s
}

func doJob(j job, lineage int64) result {
	var res result
	switch j.kind {
	case "node":
		r := doRun1(j.cfg, j.hist, lineage, true)
		reset := func(kind string) rt.M {
			f := j.cfg.fields()
			f["kind"] = kind
			f["hist"] = histFields(j.hist)
			return f
		}
		depth := 1
		if j.doubleCrash {
			depth = 2
		}
		for i, tr := range crashTraces(r, r, depth, lineage) {
			res.resets = append(res.resets, reset("crash"))
			res.traces = append(res.traces, tr)
			res.keys = append(res.keys, fmt.Sprintf("%s@%d", histKey(j.cfg, j.hist), i))
		}
		if j.taskRestarts {
			for at := 0; at < len(j.hist); at++ {
				res.resets = append(res.resets, reset("taskrestart"))
				res.traces = append(res.traces, doTaskRestart(r, at, lineage))
				res.keys = append(res.keys, fmt.Sprintf("%s@tr%d", histKey(j.cfg, j.hist), at))
			}
		}
		r.cleanup()
	case "svc":
		for i, tr := range doSvc(j.ops, j.lastOnly, j.names, j.zig) {
			res.resets = append(res.resets, rt.M{"kind": "svc", "hasAnon": true, "hasNamed": true, "sco": false, "hist": opsFields(j.ops),
				"times": timesLabel(j.zig), "names": j.names, "lastOnly": j.lastOnly})
			res.traces = append(res.traces, tr)
			res.keys = append(res.keys, fmt.Sprintf("svc%v/%v/%d@%d", j.ops, j.zig, j.names, i))
		}
	}
	return res
}

func Run(r *rt.Run) error {
	if pf := os.Getenv("C08_PROF"); pf != "" {
		f, _ := os.Create(pf)
		pprof.StartCPUProfile(f)
		defer pprof.StopCPUProfile()
	}
	installHooks()
	// Every AlertNode owns sync.Pools; a used Pool (and through it the whole executing
	// task with its edge buffers) stays reachable for two GC cycles.  With a lazy GC the
	// heap of this many-restarts driver grows geometrically, so collect eagerly.
	debug.SetGCPercent(gcPercent())
	debug.SetMemoryLimit(1 << 30)
	t := r.NewTrace("trace000")
	maxLen, svcLen, trLen, nRandom, nRandomSvc := 3, 3, 2, 0, 0
	dblBoth, dblAll := 2, 0 // double crashes: history length bound for both-topic / all configurations
	if r.Thorough() {
		maxLen, svcLen, trLen, nRandom, nRandomSvc = 4, 3, 3, 100, 600
		dblBoth, dblAll = 3, 2
	}
	ids := []string{"a", "ab"} // "a" is a proper prefix of "ab"
	levels := []int{0, 1, 2, 3}
	var jobs []job
	// two showcase histories first (they become the evidence samples; both recur in the enumeration)
	jobs = append(jobs,
		job{kind: "node", cfg: Cfg{Anon: true, Named: true, SCO: true, IDTag: true}, hist: []Pt{{"a", 2}, {"a", 2}}},
		job{kind: "svc", ops: []SOp{{"collect", "named", "ab", 2}, {"collect", "named", "ab", 3}, {"collect", "named", "a", 0}}, zig: true, names: 1})
	addNode := func(hs [][]Pt, minLen int) {
		for _, h := range hs {
			if len(h) < minLen {
				continue
			}
			for _, c := range cfgs {
				c.Names = len(jobs) % len(nameClasses)        // alert ID name class: rotates over the enumeration
				c.IDTag = (len(jobs)/len(nameClasses))%2 == 1 // id template from a non-group tag: alternates
				both := c.Anon && c.Named
				// the longest double-crash histories only where the two topics can disagree
				// and the disagreement matters (stateChangesOnly)
				dbl := (both && (len(h) < dblBoth || (len(h) == dblBoth && c.SCO))) || len(h) <= dblAll
				jobs = append(jobs, job{kind: "node", cfg: c, hist: h, taskRestarts: len(h) <= trLen, doubleCrash: dbl})
			}
		}
	}
	// all four levels up to length 2 (quick) / 3 (thorough); the longest histories of a tier
	// run over {OK, WARNING, CRITICAL} (persistence only distinguishes OK from non-OK and
	// equal from different levels)
	addNode(histories(maxLen-1, ids, levels, 3), 1)
	addNode(histories(maxLen, ids, []int{0, 2, 3}, 3), maxLen)
	// out-of-order event times: every history up to length 2 again with times 1,0 (the second
	// event of an ID is EARLIER than the first; what is recorded is the last event collected,
	// whatever its time)
	for _, h := range histories(2, ids, levels, 3) {
		for _, c := range cfgs {
			c.Zig, c.Names, c.IDTag = true, len(jobs)%len(nameClasses), (len(jobs)/len(nameClasses))%2 == 1
			jobs = append(jobs, job{kind: "node", cfg: c, hist: h})
		}
	}
	nExh := len(jobs) - 2
	// seeded random longer histories (a level changes with probability 1/2 so that
	// stateChangesOnly sees both repeats and changes)
	for i := 0; i < nRandom; i++ {
		n := 5 + r.Rand.Intn(4)
		h := make([]Pt, n)
		lv := map[string]int{}
		for k := range h {
			id := ids[r.Rand.Intn(2)]
			if r.Rand.Intn(2) == 0 {
				lv[id] = r.Rand.Intn(4)
			}
			h[k] = Pt{id, lv[id]}
		}
		c := cfgs[r.Rand.Intn(len(cfgs))]
		c.Zig, c.Names, c.IDTag = r.Rand.Intn(2) == 0, r.Rand.Intn(len(nameClasses)), r.Rand.Intn(2) == 0
		jobs = append(jobs, job{kind: "node", cfg: c, hist: h, taskRestarts: true})
	}
	nSvc := 0
	// names < 0: the name class rotates over the enumeration
	addSvc := func(hs [][]SOp, lastOnlyLen int, zig bool, names int) {
		for _, ops := range hs {
			nm := names
			if nm < 0 {
				nm = len(jobs) % len(nameClasses)
			}
			jobs = append(jobs, job{kind: "svc", ops: ops, lastOnly: lastOnlyLen > 0 && len(ops) >= lastOnlyLen, zig: zig, names: nm})
			nSvc++
		}
	}
	// operations over {OK, CRITICAL} up to length 3; quick crashes the length-3 histories only
	// around their last operation (the earlier boundaries are those of their prefixes, with
	// one operation less applied after the restart)
	lastOnly3, lastOnly2 := 3, 2
	if r.Thorough() {
		lastOnly3, lastOnly2 = 0, 0
	}
	addSvc(opHistories(3, ids, []int{0, 3}), lastOnly3, false, -1)
	// out-of-order event times over all four levels (two different non-OK levels are needed
	// to see a stale record) up to length 2
	addSvc(opHistories(2, ids, levels), 0, true, -1)
	// every name class on every history up to length 2
	for nm := 1; nm < len(nameClasses); nm++ {
		addSvc(opHistories(2, ids, []int{0, 3}), lastOnly2, false, nm)
	}
	if r.Thorough() {
		addSvc(opHistories(2, ids, []int{1, 2}), 0, false, -1)
		addSvc(opHistories(3, ids, []int{0, 3}), 3, true, -1)
	}
	for i := 0; i < nRandomSvc; i++ {
		n := 5 + r.Rand.Intn(5)
		ops := make([]SOp, n)
		for k := range ops {
			tp := []string{"anon", "named"}[r.Rand.Intn(2)]
			switch x := r.Rand.Intn(8); {
			case x == 0:
				ops[k] = SOp{"close", tp, "", 0}
			case x == 1:
				ops[k] = SOp{"delete", tp, "", 0}
			default:
				ops[k] = SOp{"collect", tp, ids[r.Rand.Intn(2)], r.Rand.Intn(4)}
			}
		}
		jobs = append(jobs, job{kind: "svc", ops: ops, zig: r.Rand.Intn(2) == 0, names: r.Rand.Intn(len(nameClasses))})
	}
	// replay mode: only the history of a saved violation (kvh c08 ... replay=<segment.ndjson>)
	for _, a := range r.Args {
		if strings.HasPrefix(a, "replay=") {
			j, err := jobFromSegment(strings.TrimPrefix(a, "replay="))
			if err != nil {
				return err
			}
			jobs = []job{j}
			nRandom = 1 // not an exhaustive run
		}
	}
	if os.Getenv("C08_DOUBLE") != "" {
		for i := range jobs {
			jobs[i].doubleCrash = true
		}
	}
	if mj := os.Getenv("C08_MAXJOBS"); mj != "" {
		var n int
		fmt.Sscan(mj, &n)
		if n < len(jobs) {
			jobs = jobs[:n]
		}
	}
	workers := runtime.NumCPU() / 2
	if workers < 1 {
		workers = 1
	}
	if workers > 8 {
		workers = 8
	}
	// workers run ahead; the writer emits the traces in job order (deterministic file
	// for a given seed) and drops them, so memory stays bounded
	done := make([]chan result, len(jobs))
	for i := range done {
		done[i] = make(chan result, 1)
	}
	var wg sync.WaitGroup
	next := make(chan int)
	inflight := make(chan struct{}, 4*workers) // back-pressure: the writer is never more than this many jobs behind
	for wk := 0; wk < workers; wk++ {
		wg.Add(1)
		go func(wk int) {
			defer wg.Done()
			for i := range next {
				inflight <- struct{}{}
				curJobs.Store(int64(wk+1), fmt.Sprintf("job %d: %+v", i, jobs[i]))
				done[i] <- doJob(jobs[i], int64(wk+1))
			}
		}(wk)
	}
	go func() {
		for i := range jobs {
			next <- i
		}
		close(next)
	}()
	restarts := map[string]int{}
	const linesPerFile = 25000
	fileNo := 0
	for i := range jobs {
		res := <-done[i]
		<-inflight
		for i, tr := range res.traces {
			if t.Events > linesPerFile {
				fileNo++
				t = r.NewTrace(fmt.Sprintf("trace%03d", fileNo))
			}
			t.Reset(res.resets[i])
			ntx, before := 0, true
			for _, e := range tr {
				t.Event(e["ev"].(string), e)
				switch e["ev"] {
				case "Crash", "TaskRestart":
					before = false
				case "Tx":
					if before {
						ntx++
					}
				}
			}
			if ntx > 0 {
				t.Distinct(res.keys[i])
			}
			restarts[res.resets[i]["kind"].(string)]++
		}
	}
	wg.Wait()
	if hp := os.Getenv("C08_HEAP"); hp != "" {
		runtime.GC()
		f, _ := os.Create(hp)
		pprof.WriteHeapProfile(f)
		f.Close()
		fmt.Fprintf(os.Stderr, "goroutines at end: %d\n", runtime.NumGoroutine())
		if sd, err := vars.GetStatsData(); err == nil {
			cnt := map[string]int{}
			for _, d := range sd {
				cnt[d.Name+fmt.Sprint(d.Tags["node"], d.Tags["parent"], d.Tags["child"])]++
			}
			fmt.Fprintf(os.Stderr, "stats left: %v\n", cnt)
		}
		g, _ := os.Create(hp + ".goroutines")
		pprof.Lookup("goroutine").WriteTo(g, 1)
		g.Close()
	}
	r.Extra["max_history_len"] = maxLen
	r.Extra["exhaustive_node_histories_x_cfgs"] = nExh
	r.Extra["random_node_histories"] = nRandom
	r.Extra["svc_histories"] = nSvc
	r.Extra["svc_max_len"] = svcLen
	r.Extra["task_restart_max_len"] = trLen
	r.Extra["double_crash_max_len_both_topics"] = dblBoth
	r.Extra["double_crash_max_len_all_cfgs"] = dblAll
	r.Extra["random_svc_histories"] = nRandomSvc
	r.Extra["crash_restarts_node"] = restarts["crash"]
	r.Extra["task_restarts_node"] = restarts["taskrestart"]
	r.Extra["crash_restarts_svc"] = restarts["svc"]
	r.Finish("node: every level history up to the length bound over 2 alert IDs (a, ab: one a proper prefix of the other) x 4 levels, the longest length of the tier over 3 levels, length 3 and more only with first ID a x {anonymous, named, both topics} x stateChangesOnly on/off on a real AlertNode task, restarted (fresh service + TaskMaster) on the storage as it stood before and after every topic-store commit and at every point boundary with the remaining points fed again, plus the histories up to length 2 with out-of-order event times (1,0), the .id() template alternating between the group-by tag and a non-group tag (one ID per group), alert ID names rotating over 6 name classes (plain, /, glob metacharacters, space+unicode, dots/blank, quotes/escapes), plus an in-process task restart after every point and (shorter histories) a second crash at every boundary of the second run; svc: every history of Collect/CloseTopic/DeleteTopic on two topics (S, S_high) x IDs a, ab up to the bound, without symmetry reduction, with a restart at every commit boundary (quick: for length 3 only around the last operation), topic and ID names from the 6 name classes (rotating; every class on every history up to length 2), and out-of-order event times on every history up to length 2 over 4 levels; thorough adds seeded random longer histories; non-trivial = at least one topic-store transaction was committed before the crash / task restart (the restart is not on a pristine store); distinct by (configuration, history, crash point)", nRandom == 0)
	return nil
}

func gcPercent() int {
	if v := os.Getenv("C08_GOGC"); v != "" {
		var n int
		fmt.Sscan(v, &n)
		return n
	}
	return 100
}

// jobFromSegment rebuilds the job (configuration + history) from the Reset line of a saved trace segment.
func jobFromSegment(path string) (job, error) {
	f, err := os.Open(path)
	if err != nil {
		return job{}, err
	}
	defer f.Close()
	sc := bufio.NewScanner(f)
	sc.Buffer(make([]byte, 1<<20), 1<<26)
	if !sc.Scan() {
		return job{}, fmt.Errorf("empty segment %s", path)
	}
	var reset struct {
		Kind     string `json:"kind"`
		HasAnon  bool   `json:"hasAnon"`
		HasNamed bool   `json:"hasNamed"`
		SCO      bool   `json:"sco"`
		Times    string `json:"times"`
		Names    int    `json:"names"`
		IDTag    bool   `json:"idtag"`
		LastOnly bool   `json:"lastOnly"`
		Hist     [][]any
	}
	if err := json.Unmarshal(sc.Bytes(), &reset); err != nil {
		return job{}, fmt.Errorf("segment %s: %v", path, err)
	}
	if reset.Kind == "svc" {
		j := job{kind: "svc", zig: reset.Times == "zig", names: reset.Names, lastOnly: reset.LastOnly}
		for _, o := range reset.Hist {
			j.ops = append(j.ops, SOp{o[0].(string), o[1].(string), o[2].(string), int(o[3].(float64))})
		}
		return j, nil
	}
	j := job{kind: "node", cfg: Cfg{Anon: reset.HasAnon, Named: reset.HasNamed, SCO: reset.SCO, Zig: reset.Times == "zig", Names: reset.Names, IDTag: reset.IDTag}, taskRestarts: true}
	for _, p := range reset.Hist {
		j.hist = append(j.hist, Pt{p[0].(string), int(p[1].(float64))})
	}
	return j, nil
}
