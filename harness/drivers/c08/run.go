package c08

import (
	"fmt"
	"os"
	"runtime"
	"runtime/debug"
	"runtime/pprof"
	"sync"

	"kapverif/rt"
)

func init() {
	rt.Register("c08", Run)
}

var cfgs = []Cfg{
	{Anon: true, Named: false, SCO: false},
	{Anon: true, Named: false, SCO: true},
	{Anon: false, Named: true, SCO: false},
	{Anon: false, Named: true, SCO: true},
	{Anon: true, Named: true, SCO: false},
	{Anon: true, Named: true, SCO: true},
}

type job struct {
	cfg  Cfg
	hist []Pt
	kind string
}

type result struct {
	traces [][]rt.M
	resets []rt.M
	keys   []string
}

// histories enumerates every history of length 1..maxLen over ids x levels, up to
// renaming of IDs (the first ID used is "a").
func histories(maxLen int, ids []string, levels []int) [][]Pt {
	var out [][]Pt
	var rec func(cur []Pt, used int)
	rec = func(cur []Pt, used int) {
		if len(cur) > 0 {
			out = append(out, append([]Pt(nil), cur...))
		}
		if len(cur) == maxLen {
			return
		}
		for i := 0; i < len(ids) && i <= used; i++ {
			nu := used
			if i == used {
				nu = used + 1
			}
			for _, l := range levels {
				rec(append(cur, Pt{ids[i], l}), nu)
			}
		}
	}
	rec(nil, 0)
	return out
}

func histKey(c Cfg, h []Pt) string {
	s := fmt.Sprintf("%v%v%v", c.Anon, c.Named, c.SCO)
	for _, p := range h {
		s += fmt.Sprintf(",%s%d", p.ID, p.Lvl)
	}
	return s
}

func doJob(j job, lineage int64) result {
	var res result
	switch j.kind {
	case "crash":
		r := doRun1(j.cfg, j.hist, lineage)
		for i, cp := range r.points {
			tr := doRun2(r, cp, lineage)
			f := j.cfg.fields()
			f["kind"] = "crash"
			f["hist"] = histFields(j.hist)
			res.resets = append(res.resets, f)
			res.traces = append(res.traces, tr)
			res.keys = append(res.keys, fmt.Sprintf("%s@%d", histKey(j.cfg, j.hist), i))
		}
		r.cleanup()
	}
	return res
}

func Run(r *rt.Run) error {
	if pf := os.Getenv("C08_PROF"); pf != "" {
		f, _ := os.Create(pf)
		pprof.StartCPUProfile(f)
		defer pprof.StopCPUProfile()
	}
	installHooks()
	debug.SetGCPercent(400)
	t := r.NewTrace("trace")
	maxLen := 3
	if r.Thorough() {
		maxLen = 4
	}
	var jobs []job
	for _, h := range histories(maxLen, []string{"a", "b"}, []int{0, 1, 2, 3}) {
		for _, c := range cfgs {
			jobs = append(jobs, job{cfg: c, hist: h, kind: "crash"})
		}
	}
	workers := runtime.NumCPU() / 2
	if workers < 1 {
		workers = 1
	}
	if workers > 8 {
		workers = 8
	}
	results := make([]result, len(jobs))
	var wg sync.WaitGroup
	next := make(chan int)
	for wk := 0; wk < workers; wk++ {
		wg.Add(1)
		go func(wk int) {
			defer wg.Done()
			for i := range next {
				results[i] = doJob(jobs[i], int64(wk+1))
			}
		}(wk)
	}
	for i := range jobs {
		next <- i
	}
	close(next)
	wg.Wait()
	restarts := 0
	for _, res := range results {
		for i, tr := range res.traces {
			t.Reset(res.resets[i])
			for _, e := range tr {
				t.Event(e["ev"].(string), e)
			}
			t.Distinct(res.keys[i])
			restarts++
		}
	}
	r.Extra["max_history_len"] = maxLen
	r.Extra["restarts"] = restarts
	r.Extra["run1_histories"] = len(jobs)
	r.Finish("every level history up to the length bound over 2 alert IDs x 4 levels (up to renaming of IDs) x {anonymous, named, both topics} x stateChangesOnly on/off; for each, a restart of the real service and task on the storage as it stood before and after every topic-store commit and at every point boundary, with the remaining points fed again; distinct by (configuration, history, crash point)", true)
	return nil
}
