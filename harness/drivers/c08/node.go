package c08

import (
	"fmt"
	"os"

	"kapverif/rt"
)

// crashPoint is one moment of run 1 at which the storage was copied.
type crashPoint struct {
	at     string // before | after | idle
	prefix int    // number of run-1 log events that happened before the crash
	pre    rt.M   // for "before": what was observable when the commit was about to start
	file   string // the snapshot
	resume int    // index of the first point of the remaining data
	k      int    // point being processed (or just completed, for idle)
	txIdx  int    // index of the commit within the point (before/after), -1 for idle
}

// run1 is the uninterrupted run of one history with all its snapshots.
type run1 struct {
	cfg    Cfg
	hist   []Pt
	log    []rt.M
	points []crashPoint
	final  rt.M
	told   rt.M
	dir    string
}

func ev(name string, f rt.M) rt.M {
	m := rt.M{"ev": name}
	for k, v := range f {
		m[k] = v
	}
	return m
}

func txFields(r *txRec, pre rt.M) rt.M {
	m := rt.M{"topic": r.Topic, "id": r.ID, "op": r.Op, "lvl": r.Lvl}
	for k, v := range pre {
		m[k] = v
	}
	return m
}

// runPoints feeds hist[from:] into w, appending Point/Tx/Done events to *log.
// onCommit (optional) is told about every commit: phase begin/end, the number of log events so far.
func runPoints(w *world, hist []Pt, from int, log *[]rt.M, snapshot func(phase string, k, txIdx int, pre rt.M)) {
	var pre rt.M
	cur, txIdx := 0, 0
	w.onTx = func(phase string, r *txRec) {
		if phase == "begin" {
			// the in-memory update (and the hand-over to the handlers) of this collect has
			// happened, the commit has not started: record what is observable right now
			w.quiesce()
			pre = rt.M{"state": w.state(), "told": w.told()}
			if snapshot != nil {
				snapshot("before", cur, txIdx, pre)
			}
			return
		}
		*log = append(*log, ev("Tx", txFields(r, pre)))
		if snapshot != nil {
			snapshot("after", cur, txIdx, nil)
		}
		txIdx++
	}
	for k := from; k < len(hist); k++ {
		cur, txIdx = k, 0
		*log = append(*log, ev("Point", rt.M{"k": k, "id": hist[k].ID, "lvl": hist[k].Lvl}))
		w.feed(k, hist[k])
		*log = append(*log, ev("Done", rt.M{"k": k, "state": w.state(), "told": w.told()}))
		if snapshot != nil {
			snapshot("idle", k, -1, nil)
		}
	}
	w.onTx = nil
}

// doRun1 executes the uninterrupted run and takes a snapshot at every boundary.
func doRun1(c Cfg, hist []Pt, lineage int64) *run1 {
	r := &run1{cfg: c, hist: hist, dir: tmpDir()}
	w, err := openWorld(join(r.dir, "run1.db"), c, lineage)
	if err != nil {
		rt.Fatalf("c08: open: %v", err)
	}
	w.registerNamed()
	w.startTask()
	nsnap := 0
	snap := func(phase string, k, txIdx int, pre rt.M) {
		f := join(r.dir, fmt.Sprintf("s%d.db", nsnap))
		nsnap++
		if err := w.snap.Snapshot(f); err != nil {
			rt.Fatalf("c08: snapshot: %v", err)
		}
		cp := crashPoint{at: phase, prefix: len(r.log), pre: pre, file: f, resume: k, k: k, txIdx: txIdx}
		if phase == "idle" {
			cp.resume = k + 1
		}
		r.points = append(r.points, cp)
	}
	// the state before any point is a crash point as well
	r.log = append(r.log, ev("Start", rt.M{"state": w.state()}))
	snap("idle", -1, -1, nil)
	runPoints(w, hist, 0, &r.log, snap)
	r.final = w.state()
	r.told = w.told()
	w.close(true)
	// "after the last commit of point k" is the idle boundary after k: the point has
	// completed all its commits, so it is not part of the remaining data
	for i := range r.points {
		cp := &r.points[i]
		if cp.at == "after" && i+1 < len(r.points) && r.points[i+1].at == "idle" {
			cp.resume = cp.k + 1
		}
	}
	return r
}

// doRun2 restarts on the snapshot of cp, feeds the remaining data and returns the
// complete two-run trace.
func doRun2(r *run1, cp crashPoint, lineage int64) []rt.M {
	tr := append([]rt.M(nil), r.log[:cp.prefix]...)
	if cp.at == "before" {
		tr = append(tr, ev("Pre", cp.pre))
	}
	tr = append(tr, ev("Crash", rt.M{"at": cp.at, "k": cp.k, "resume": cp.resume}))
	w, err := openWorld(cp.file, r.cfg, lineage)
	if err != nil {
		rt.Fatalf("c08: reopen on snapshot: %v", err)
	}
	// what the API reports after the restart, before any task runs
	tr = append(tr, ev("Restart", rt.M{"state": w.state()}))
	w.registerNamed()
	w.startTask()
	runPoints(w, r.hist, cp.resume, &tr, nil)
	tr = append(tr, ev("End", rt.M{"final2": w.state(), "told2": w.told(), "final1": r.final, "told1": r.told}))
	w.close(true)
	return tr
}

func (r *run1) cleanup() { os.RemoveAll(r.dir) }

func histFields(hist []Pt) []any {
	out := []any{}
	for _, p := range hist {
		out = append(out, []any{p.ID, p.Lvl})
	}
	return out
}
