package c08

import (
	"fmt"
	"os"

	"kapverif/rt"
)

// crashPoint is one moment of run 1 at which the storage was copied.
type crashPoint struct {
	at     string // before | after | idle
	prefix int    // number of run-1 log events that happened before the crash
	pre    rt.M   // for "before": what was observable when the commit was about to start
	file   string // the snapshot
	resume int    // index of the first point of the remaining data
	k      int    // point being processed (or just completed, for idle)
	ntx    int    // number of commits completed before the crash
}

// run1 is the uninterrupted run of one history with all its snapshots.
type run1 struct {
	cfg    Cfg
	hist   []Pt
	log    []rt.M
	points []crashPoint
	final  rt.M
	told   rt.M
	dir    string // snapshots of this run
	top    string // scratch directory of the whole job (first run only)
}

func ev(name string, f rt.M) rt.M {
	m := rt.M{"ev": name}
	for k, v := range f {
		m[k] = v
	}
	return m
}

func toldLens(told rt.M) map[string]int {
	out := map[string]int{}
	for t, v := range told {
		out[t] = len(v.([]any))
	}
	return out
}

// runPoints feeds hist[from:] into w, appending Point/Tx/Done events to *log.
// snapshot (optional) is called at every boundary: before / after each commit and
// after each point.
//
// A Tx event is one committed transaction of the topic store:
//
//	topic,id,op,lvl  what was written (bucket, key, put|del, stored level)
//	state,told       what the service API and the handlers showed when the commit was
//	                 about to start (the in-memory update precedes the commit)
//	src              "collect" if the topic's handlers were handed an event since the
//	                 previous boundary, else "update" (Service.UpdateEvent)
func runPoints(w *world, hist []Pt, from int, log *[]rt.M, snapshot func(phase string, k int, pre rt.M)) {
	var pre rt.M
	cur := 0
	lens := toldLens(w.told())
	w.onTx = func(phase string, r *txRec) {
		if phase == "begin" {
			w.quiesce()
			pre = rt.M{"state": w.state(), "told": w.told()}
			if snapshot != nil {
				snapshot("before", cur, pre)
			}
			return
		}
		f := rt.M{"topic": r.Topic, "id": r.ID, "op": r.Op, "lvl": r.Lvl, "state": pre["state"], "told": pre["told"], "src": "update"}
		nl := toldLens(pre["told"].(rt.M))
		if nl[r.Topic] > lens[r.Topic] {
			f["src"] = "collect"
		}
		if r.Op == "none" {
			f["src"] = "none"
		}
		lens = nl
		*log = append(*log, ev("Tx", f))
		if snapshot != nil {
			snapshot("after", cur, nil)
		}
	}
	for k := from; k < len(hist); k++ {
		cur = k
		*log = append(*log, ev("Point", rt.M{"k": k, "id": hist[k].ID, "lvl": hist[k].Lvl, "t": timeIndex(w.cfg.Zig, k)}))
		w.feed(k, hist[k])
		told := w.told()
		lens = toldLens(told)
		*log = append(*log, ev("Done", rt.M{"k": k, "state": w.state(), "told": told}))
		if snapshot != nil {
			snapshot("idle", k, nil)
		}
	}
	w.onTx = nil
}

// runFrom executes one process lifetime on the store at file (created if missing): the
// service and the task are started, hist[from:] is fed, and (if snapshots) the store is
// copied at every boundary.  first: the very first lifetime (logs Start), otherwise the
// lifetime after a crash (logs Restart = what the API reports before any task runs).
func runFrom(c Cfg, hist []Pt, file string, from int, first, snapshots bool, lineage int64) *run1 {
	r := &run1{cfg: c, hist: hist, dir: file + ".snaps"}
	w, err := openWorld(file, c, lineage)
	if err != nil {
		rt.Fatalf("c08: open %s: %v", file, err)
	}
	if first {
		r.log = append(r.log, ev("Start", rt.M{"state": w.state(), "told": w.told()}))
	} else {
		r.log = append(r.log, ev("Restart", rt.M{"state": w.state()}))
	}
	w.registerNamed(first)
	w.startTask()
	ntx := 0
	var snap func(phase string, k int, pre rt.M)
	if snapshots {
		if err := os.MkdirAll(r.dir, 0o755); err != nil {
			rt.Fatalf("c08: %v", err)
		}
		snap = func(phase string, k int, pre rt.M) {
			if phase == "after" {
				ntx++
			}
			// the storage only changes at commits: one copy per number of completed commits
			f := join(r.dir, fmt.Sprintf("s%d.db", ntx))
			if _, err := os.Stat(f); err != nil {
				if err := w.snap.Snapshot(f); err != nil {
					rt.Fatalf("c08: snapshot: %v", err)
				}
			}
			cp := crashPoint{at: phase, prefix: len(r.log), pre: pre, file: f, resume: k, k: k, ntx: ntx}
			if phase == "idle" {
				cp.resume = k + 1
			}
			r.points = append(r.points, cp)
		}
		snap("idle", from-1, nil) // the state before any (further) point is a crash point as well
	}
	runPoints(w, hist, from, &r.log, snap)
	r.final = w.state()
	r.told = w.told()
	w.stopTask()
	w.close(true)
	// "after the last commit of point k" is the idle boundary after k: the point has
	// completed all its commits, so it is not part of the remaining data
	for i := range r.points {
		cp := &r.points[i]
		if cp.at == "after" && i+1 < len(r.points) && r.points[i+1].at == "idle" {
			cp.resume = cp.k + 1
		}
	}
	return r
}

// doRun1 executes the uninterrupted run and takes a snapshot at every boundary.
func doRun1(c Cfg, hist []Pt, lineage int64, snapshots bool) *run1 {
	dir := tmpDir()
	r := runFrom(c, hist, join(dir, "run1.db"), 0, true, snapshots, lineage)
	r.top = dir
	return r
}

func crashEvents(r *run1, cp crashPoint) []rt.M {
	tr := append([]rt.M(nil), r.log[:cp.prefix]...)
	if cp.at == "before" {
		tr = append(tr, ev("Pre", cp.pre))
	}
	return append(tr, ev("Crash", rt.M{"at": cp.at, "k": cp.k, "resume": cp.resume}))
}

// crashTraces returns, for every crash point of r, the complete history "r up to the
// crash; restart on that storage; remaining data".  Crash points with the same storage
// content (same number of completed commits) and the same remaining data have the same
// continuation: it is executed once (on its own copy of the snapshot) and shared.
// depth > 1: the continuation is itself crashed at every one of its boundaries.
func crashTraces(top *run1, r *run1, depth int, lineage int64) [][]rt.M {
	type cont struct {
		run   *run1
		tails [][]rt.M // continuations of run (after its own Restart line is part of run.log)
	}
	conts := map[[2]int]*cont{}
	var out [][]rt.M
	for _, cp := range r.points {
		key := [2]int{cp.ntx, cp.resume}
		c, ok := conts[key]
		if !ok {
			file := fmt.Sprintf("%s.r%d", cp.file, cp.resume)
			copyFile(cp.file, file)
			c = &cont{run: runFrom(r.cfg, r.hist, file, cp.resume, false, depth > 1, lineage)}
			end := ev("End", rt.M{"final2": c.run.final, "told2": c.run.told, "final1": top.final, "told1": top.told})
			c.tails = append(c.tails, append(append([]rt.M(nil), c.run.log...), end))
			if depth > 1 {
				c.tails = append(c.tails, crashTraces(top, c.run, depth-1, lineage)...)
			}
			conts[key] = c
		}
		head := crashEvents(r, cp)
		for _, tail := range c.tails {
			out = append(out, append(append([]rt.M(nil), head...), tail...))
		}
	}
	return out
}

func copyFile(src, dst string) {
	b, err := os.ReadFile(src)
	if err == nil {
		err = os.WriteFile(dst, b, 0o600)
	}
	if err != nil {
		rt.Fatalf("c08: copy snapshot: %v", err)
	}
}

// doTaskRestart: no crash; the task is stopped and started again in the same
// process after point `at` (CloseTopic, RestoreTopic, restoreClosedTopic on the next
// collect, restoreEvent for every ID).
func doTaskRestart(r *run1, at int, lineage int64) []rt.M {
	dir := tmpDir()
	defer os.RemoveAll(dir)
	w, err := openWorld(join(dir, "run.db"), r.cfg, lineage)
	if err != nil {
		rt.Fatalf("c08: open: %v", err)
	}
	w.registerNamed(true)
	w.startTask()
	tr := []rt.M{ev("Start", rt.M{"state": w.state(), "told": w.told()})}
	runPoints(w, r.hist[:at+1], 0, &tr, nil)
	w.stopTask()
	stopped := w.state()
	w.startTask()
	tr = append(tr, ev("TaskRestart", rt.M{"k": at, "stopped": stopped, "state": w.state(), "told": w.told()}))
	runPoints(w, r.hist, at+1, &tr, nil)
	tr = append(tr, ev("End", rt.M{"final2": w.state(), "told2": w.told(), "final1": r.final, "told1": r.told}))
	w.stopTask()
	w.close(true)
	return tr
}

func (r *run1) cleanup() { os.RemoveAll(r.top) }

func histFields(hist []Pt) []any {
	out := []any{}
	for _, p := range hist {
		out = append(out, []any{p.ID, p.Lvl})
	}
	return out
}
