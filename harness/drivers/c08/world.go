// Package c08 binds spec/AlertPersist to the real code (DESIGN.md C08):
// a real AlertNode task on a real alert service with PersistTopics=true over a
// harness-owned Bolt store; the store is snapshotted before and after every
// commit of namespace topic_states_store, a fresh service + TaskMaster is
// restarted on every snapshot, the remaining points are fed again, and the
// whole two-run history is recorded for TLC.
package c08

import (
	"fmt"
	"os"
	"path/filepath"
	"strings"
	"sync"
	"sync/atomic"
	"time"

	imodels "github.com/influxdata/influxdb/models"
	"github.com/influxdata/kapacitor"
	"github.com/influxdata/kapacitor/alert"
	alertservice "github.com/influxdata/kapacitor/services/alert"

	"kapverif/rt"
)

const topicNS = alertservice.TopicStatesNameSpace

// Every wait in this driver is on an exact condition (timer stop, handler enq == done,
// a completed View); the deadlines only turn a hang into exit 2.  They are generous
// because the machine may be heavily oversubscribed.
const deadlineScale = 6

// Cfg is the alert node configuration in model terms.
type Cfg struct {
	Anon, Named, SCO bool
	// not part of the model: event time pattern and name class of the alert IDs (names.go)
	Zig   bool
	Names int
	// IDTag: the .id() template reads the alert ID from a tag that is NOT a group-by
	// dimension (groupBy('g'), id from tag "id", one ID per group) instead of from the
	// group-by tag itself
	IDTag bool
}

// (keys sort after "ev" so that every Reset line starts with {"ev":"Reset" - verifylib splits on that)
func (c Cfg) fields() rt.M {
	return rt.M{"hasAnon": c.Anon, "hasNamed": c.Named, "sco": c.SCO, "times": timesLabel(c.Zig), "names": c.Names, "idtag": c.IDTag}
}

// Pt is one data point: alert ID (= group) and the level its value maps to.
type Pt struct {
	ID  string
	Lvl int
}

// handler quiescence counters fed by alert.VerifHook, per real topic name
type tctx struct{ enq, done atomic.Int64 }

var ctxs sync.Map // real topic name -> *tctx

func installHooks() {
	alert.VerifHook = func(point string, args ...string) {
		switch point {
		case "handler.enq":
			if c, ok := ctxs.Load(args[0]); ok {
				c.(*tctx).enq.Add(1)
			}
		case "handler.done":
			if c, ok := ctxs.Load(args[0]); ok {
				c.(*tctx).done.Add(1)
			}
		}
	}
}

var worldNo atomic.Int64

// world is one process lifetime: store + alert service + TaskMaster (+ task).
type world struct {
	n        int64
	lineage  int64
	cfg      Cfg
	store    *rt.BoltStore
	snap     *rt.SnapStore
	env      *rt.StoreEnv
	ctx      *tctx
	taskID   string
	anonT    string // real anonymous topic name
	namedT   string // real named topic name
	script   string
	timerIdx int
	fed      int
	onTx     func(phase string, op *txRec) // set by the run while it wants to observe commits
}

// txRec is one committed topic-store transaction in model terms.
type txRec struct {
	Topic string // anon | named | ?<real>
	ID    string
	Op    string // put | del | delbucket
	Lvl   int
}

// openWorld opens the store at path (created if missing) and the services on it.
// lineage: topic names must be the same in the pre-crash and post-crash world.
func openWorld(path string, c Cfg, lineage int64) (*world, error) {
	w := &world{n: worldNo.Add(1), cfg: c, ctx: &tctx{}, lineage: lineage}
	d := rt.NewDiag()
	st, err := rt.NewBoltStore(path, true, d)
	if err != nil {
		return nil, err
	}
	w.store = st
	w.snap = rt.NewSnapStore(st)
	w.snap.OnUpdate = w.onUpdate
	w.taskID = fmt.Sprintf("t%d", lineage)
	// the named topic is a proper prefix of the anonymous topic name "main:t<n>:alert2"
	w.namedT = fmt.Sprintf("main:t%d", lineage)
	w.anonT = fmt.Sprintf("main:%s:alert2", w.taskID)
	ctxs.Store(w.anonT, w.ctx)
	ctxs.Store(w.namedT, w.ctx)
	env, err := rt.NewStoreEnv(w.snap, true, d, alert.MinimumEventBufferSize)
	if err != nil {
		st.Close()
		return nil, err
	}
	w.env = env
	var sb strings.Builder
	if c.IDTag {
		// one alert ID per group, rendered from a tag that is constant within the group but
		// is not a group-by dimension: NewGroup must look the saved state up under the ID the
		// events are published with (all the point's tags), not one rendered from the group tags
		sb.WriteString("stream\n |from().measurement('m').groupBy('g')\n |alert()\n  .id('{{ index .Tags \"id\" }}')\n")
	} else {
		sb.WriteString("stream\n |from().measurement('m').groupBy('id')\n |alert()\n  .id('{{ index .Tags \"id\" }}')\n")
	}
	sb.WriteString("  .info(lambda: \"v\" == 1)\n  .warn(lambda: \"v\" == 2)\n  .crit(lambda: \"v\" == 3)\n")
	if c.SCO {
		sb.WriteString("  .stateChangesOnly()\n")
	}
	if c.Named {
		fmt.Fprintf(&sb, "  .topic('%s')\n", w.namedT)
	}
	if c.Anon {
		sb.WriteString("  .talk()\n")
	}
	w.script = sb.String()
	return w, nil
}

func (w *world) close(removeFile bool) {
	w.env.Close()
	p := w.store.Path()
	w.store.Close()
	ctxs.Delete(w.anonT)
	ctxs.Delete(w.namedT)
	if removeFile {
		os.Remove(p)
	}
}

func (w *world) model(topic string) string {
	switch topic {
	case w.anonT:
		return "anon"
	case w.namedT:
		return "named"
	}
	return "?" + topic
}

func (w *world) onUpdate(ns, phase string, ops []rt.TxOp, err error) {
	if ns != topicNS || w.onTx == nil {
		return
	}
	if phase == "begin" {
		w.onTx("begin", nil)
		return
	}
	if err != nil {
		rt.Fatalf("c08: topic store update failed: %v", err)
	}
	if len(ops) == 0 {
		// a transaction that wrote nothing (delete of a key in a bucket that does not exist)
		w.onTx("end", &txRec{Topic: "", Op: "none"})
		return
	}
	if len(ops) != 1 {
		rt.Fatalf("c08: unexpected topic store transaction with %d writes: %+v", len(ops), ops)
	}
	o := ops[0]
	r := &txRec{Op: o.Op}
	switch {
	case len(o.Bucket) == 1:
		r.Topic, r.ID = w.model(o.Bucket[0]), nameClasses[w.cfg.Names].modelID(o.Key)
		if o.Op == "put" {
			var es alertservice.EventState
			if e := es.UnmarshalJSON(o.Value); e != nil {
				rt.Fatalf("c08: cannot decode stored event state: %v", e)
			}
			r.Lvl = int(es.Level)
		}
	case len(o.Bucket) == 0 && o.Op == "del":
		r.Topic, r.Op = w.model(o.Key), "delbucket"
	default:
		rt.Fatalf("c08: unexpected topic store write %+v", o)
	}
	w.onTx("end", r)
}

// registerNamed gives the named topic its handler: a handler spec (kind "talk" = recorder)
// registered through the service API in the first process lifetime.  The spec is
// persisted in the same Bolt file (namespace alert_store), so after a restart on a copy
// of the store the service itself must load it again (loadSavedHandlerSpecs) - nothing
// is registered by the harness in later lifetimes.
func (w *world) registerNamed(first bool) {
	if !w.cfg.Named || !first {
		return
	}
	spec := alertservice.HandlerSpec{ID: "h", Topic: w.namedT, Kind: "talk"}
	if err := w.env.Alert.RegisterHandlerSpec(spec); err != nil {
		rt.Fatalf("c08: RegisterHandlerSpec: %v", err)
	}
}

// Parsed task definitions are reused across the worlds of one lineage (the definition
// is configuration only; evaluating the TICKscript is by far the most expensive step).
var taskCache sync.Map // task id + script -> *kapacitor.Task

func (w *world) startTask() {
	var t *kapacitor.Task
	if c, ok := taskCache.Load(w.taskID + "\n" + w.script); ok {
		t = c.(*kapacitor.Task)
	} else {
		var err error
		t, err = w.env.TM.NewTask(w.taskID, w.script, kapacitor.StreamTask, rt.DefaultDBRP, 0, nil)
		if err != nil {
			rt.Fatalf("c08: NewTask: %v\n%s", err, w.script)
		}
		taskCache.Store(w.taskID+"\n"+w.script, t)
	}
	views := w.snap.Views.Load()
	if _, err := w.env.TM.StartTask(t); err != nil {
		rt.Fatalf("c08: StartTask: %v", err)
	}
	if w.cfg.Anon {
		// runAlert registers its delete hook, registers the handlers and restores the
		// anonymous topic (a View on the store) before it consumes anything.  Wait for
		// that View: before /repo 6afcd32, stopping a task whose alert node had not got
		// that far deadlocked on the TaskMaster lock (see docs/notes/C08.md); it also
		// makes "what the API reports after the task (re)start" well defined.
		deadline := time.Now().Add(deadlineScale * 20 * time.Second)
		for w.snap.Views.Load() == views {
			if time.Now().After(deadline) {
				rt.Fatalf("c08: alert node did not start")
			}
			time.Sleep(20 * time.Microsecond)
		}
	}
	w.timerIdx = w.env.Timing.N() - 1 // the alert node is the last node of the pipeline
	w.fed = 0
}

func (w *world) stopTask() {
	if !w.env.TM.IsExecuting(w.taskID) {
		rt.Fatalf("c08: task %s is not executing", w.taskID)
	}
	if err := w.env.TM.StopTask(w.taskID); err != nil {
		rt.Fatalf("c08: StopTask: %v", err)
	}
	w.quiesce()
}

func (w *world) quiesce() {
	deadline := time.Now().Add(deadlineScale * 20 * time.Second)
	for i := 0; ; i++ {
		// read done FIRST, then enq (the two counters cannot be read atomically; enq-then-done can
		// report quiescence while a nested enqueue is still unhandled, see drivers/c09 quiesce)
		if d := w.ctx.done.Load(); d == w.ctx.enq.Load() {
			return
		}
		if i > 200 {
			time.Sleep(20 * time.Microsecond)
		}
		if time.Now().After(deadline) {
			rt.Fatalf("c08: handlers did not quiesce (enq=%d done=%d)", w.ctx.enq.Load(), w.ctx.done.Load())
		}
	}
}

// feed writes point k and returns when the alert node has completely processed it
// (all collects and commits done) and every handler has seen what was enqueued.
func (w *world) feed(k int, p Pt) {
	mp := rt.MustPoint("m", map[string]string{"id": nameClasses[w.cfg.Names].realID(p.ID), "g": "g-" + p.ID}, map[string]any{"v": int64(p.Lvl)},
		rt.DefaultTime.T(timeIndex(w.cfg.Zig, k)))
	if err := w.env.TM.WritePoints("db", "rp", imodels.ConsistencyLevelAll, []imodels.Point{mp}); err != nil {
		rt.Fatalf("c08: WritePoints: %v", err)
	}
	w.fed++
	if !w.env.Timing.WaitStops(w.timerIdx, w.fed, deadlineScale*30*time.Second) {
		rt.Fatalf("c08: alert node did not finish point %d (stops=%d want %d) in %s", k, w.env.Timing.Stops(w.timerIdx), w.fed, jobOf(w.lineage))
	}
	w.quiesce()
	if errs := w.env.Diag.Errors(); len(errs) > 0 {
		rt.Fatalf("c08: the pipeline reported errors: %+v", errs)
	}
}

func (w *world) topics() []string {
	var ts []string
	if w.cfg.Anon {
		ts = append(ts, "anon")
	}
	if w.cfg.Named {
		ts = append(ts, "named")
	}
	return ts
}

func (w *world) real(t string) string {
	if t == "anon" {
		return w.anonT
	}
	return w.namedT
}

// stateOf reports the topic through the service API: [id, level] for every event the
// topic knows (EventStates(OK)), sorted by id; a topic the service does not know is [].
func stateOf(as *alertservice.Service, real string, nc nameClass) []any {
	out := []any{}
	ts, ok, _ := as.TopicState(real)
	if !ok {
		return out
	}
	es, err := as.EventStates(real, alert.OK)
	if err != nil {
		rt.Fatalf("c08: EventStates(%s): %v", real, err)
	}
	max := 0
	for _, id := range rt.SortedKeys(es) {
		l := int(es[id].Level)
		out = append(out, []any{nc.modelID(id), l})
		if l > max {
			max = l
		}
	}
	// the topic level must be the maximum (C09's invariant; cheap cross-check of the restored sorted list)
	if int(ts.Level) != max {
		out = append(out, []any{"#topiclevel", int(ts.Level)})
	}
	// EventStates(min) must be the filter of EventStates(OK) (restored sorted list is really sorted)
	for m := 1; m <= 3; m++ {
		f, _ := as.EventStates(real, alert.Level(m))
		want := 0
		for _, e := range es {
			if int(e.Level) >= m {
				want++
			}
		}
		if len(f) != want {
			out = append(out, []any{"#eventstates", m})
		}
	}
	return out
}

func (w *world) state() rt.M {
	out := rt.M{}
	for _, t := range w.topics() {
		out[t] = stateOf(w.env.Alert, w.real(t), nameClasses[w.cfg.Names])
	}
	return out
}

// encEvents: [model id, level, index of the point the event belongs to (from its time)]
func encEvents(evs []alert.Event, c Cfg) []any {
	out := []any{}
	for _, e := range evs {
		k, ok := rt.DefaultTime.KOK(e.State.Time)
		if !ok {
			k = -1
		}
		out = append(out, []any{nameClasses[c.Names].modelID(e.State.ID), int(e.State.Level), timeIndex(c.Zig, k)})
	}
	return out
}

// told reports, per topic, every event its handlers have been handed in this world.
func (w *world) told() rt.M {
	out := rt.M{}
	if w.cfg.Anon {
		out["anon"] = encEvents(w.env.NodeTalk.All(), w.cfg)
	}
	if w.cfg.Named {
		out["named"] = encEvents(w.env.SpecTalk.All(), w.cfg)
	}
	return out
}

func tmpDir() string {
	base := "/dev/shm"
	if st, err := os.Stat(base); err != nil || !st.IsDir() {
		base = os.TempDir()
	}
	d, err := os.MkdirTemp(base, "kvh-c08-")
	if err != nil {
		rt.Fatalf("c08: %v", err)
	}
	return d
}

func join(dir, name string) string { return filepath.Join(dir, name) }
