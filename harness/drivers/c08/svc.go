package c08

import (
	"fmt"
	"os"

	"github.com/influxdata/kapacitor/alert"
	alertservice "github.com/influxdata/kapacitor/services/alert"
	"github.com/influxdata/kapacitor/services/httppost"

	"kapverif/rt"
)

// Service-level histories: Collect / CloseTopic / DeleteTopic on two topics of a real
// alert service with PersistTopics=true (no task), crash + restart at every commit
// boundary, the remaining operations applied after the restart.

type SOp struct {
	Op    string // collect | close | delete
	Topic string // anon | named  (just two topic names in this mode)
	ID    string
	Lvl   int
}

func (o SOp) fields(k int) rt.M {
	return rt.M{"k": k, "op": o.Op, "topic": o.Topic, "id": o.ID, "lvl": o.Lvl}
}

type svcWorld struct {
	nc    nameClass
	zig   bool
	store *rt.BoltStore
	snap  *rt.SnapStore
	as    *alertservice.Service
	names map[string]string // model topic -> real topic
	onTx  func(phase string, r *txRec)
}

func openSvc(path string, names int, zig bool) *svcWorld {
	// the first real topic name is a proper prefix of the second (bucket names in a key-ordered store)
	nc := nameClasses[names]
	w := &svcWorld{nc: nc, zig: zig, names: map[string]string{"anon": nc.Topics[0], "named": nc.Topics[1]}}
	d := rt.NewDiag()
	st, err := rt.NewBoltStore(path, true, d)
	if err != nil {
		rt.Fatalf("c08svc: open store: %v", err)
	}
	w.store, w.snap = st, rt.NewSnapStore(st)
	w.snap.OnUpdate = func(ns, phase string, ops []rt.TxOp, err error) {
		if ns != topicNS || w.onTx == nil {
			return
		}
		if phase == "begin" {
			w.onTx("begin", nil)
			return
		}
		if err != nil || len(ops) > 1 {
			rt.Fatalf("c08svc: unexpected topic store transaction: err=%v ops=%+v", err, ops)
		}
		if len(ops) == 0 {
			// a transaction that committed without writing anything
			w.onTx("end", &txRec{Op: "none"})
			return
		}
		o := ops[0]
		r := &txRec{Op: o.Op}
		switch {
		case len(o.Bucket) == 1:
			r.Topic, r.ID = w.model(o.Bucket[0]), w.nc.modelID(o.Key)
			if o.Op == "put" {
				var es alertservice.EventState
				if e := es.UnmarshalJSON(o.Value); e != nil {
					rt.Fatalf("c08svc: cannot decode stored event state: %v", e)
				}
				r.Lvl = int(es.Level)
			}
		case len(o.Bucket) == 0 && o.Op == "del":
			r.Topic, r.Op = w.model(o.Key), "delbucket"
		default:
			rt.Fatalf("c08svc: unexpected topic store write %+v", o)
		}
		w.onTx("end", r)
	}
	s := alertservice.NewService(rt.AlertDiag{D: d}, nil, alert.MinimumEventBufferSize)
	s.PersistTopics = true
	s.StorageService = w.snap
	s.HTTPDService = &rt.FakeHTTPD{}
	hp, _ := httppost.NewService(nil, rt.HTTPPostDiag{D: d})
	s.HTTPPostService = hp
	if err := s.Open(); err != nil {
		rt.Fatalf("c08svc: alert service open: %v", err)
	}
	w.as = s
	return w
}

func (w *svcWorld) model(real string) string {
	for m, r := range w.names {
		if r == real {
			return m
		}
	}
	return "?" + real
}

func (w *svcWorld) close() {
	w.as.Close()
	p := w.store.Path()
	w.store.Close()
	os.Remove(p)
}

func (w *svcWorld) state() rt.M {
	return rt.M{"anon": stateOf(w.as, w.names["anon"], w.nc), "named": stateOf(w.as, w.names["named"], w.nc)}
}

func (w *svcWorld) apply(k int, o SOp) {
	real := w.names[o.Topic]
	var err error
	switch o.Op {
	case "collect":
		err = w.as.Collect(alert.Event{Topic: real, State: alert.EventState{ID: w.nc.realID(o.ID), Level: alert.Level(o.Lvl),
			Time: rt.DefaultTime.T(timeIndex(w.zig, k)), Message: fmt.Sprintf("m%d", k)}})
	case "close":
		err = w.as.CloseTopic(real)
	case "delete":
		err = w.as.DeleteTopic(real)
	}
	if err != nil {
		rt.Fatalf("c08svc: %s: %v", o.Op, err)
	}
}

// runOps applies ops[from:], logging Op/Tx/Done.
func (w *svcWorld) runOps(ops []SOp, from int, log *[]rt.M, snapshot func(phase string, k int, pre rt.M)) {
	var pre rt.M
	cur := 0
	w.onTx = func(phase string, r *txRec) {
		if phase == "begin" {
			pre = rt.M{"state": w.state()}
			if snapshot != nil {
				snapshot("before", cur, pre)
			}
			return
		}
		src := "collect"
		if r.Op == "none" {
			src = "none"
		}
		*log = append(*log, ev("Tx", rt.M{"topic": r.Topic, "id": r.ID, "op": r.Op, "lvl": r.Lvl, "state": pre["state"], "src": src}))
		if snapshot != nil {
			snapshot("after", cur, nil)
		}
	}
	for k := from; k < len(ops); k++ {
		cur = k
		of := ops[k].fields(k)
		of["t"] = timeIndex(w.zig, k)
		*log = append(*log, ev("Op", of))
		w.apply(k, ops[k])
		*log = append(*log, ev("Done", rt.M{"k": k, "state": w.state()}))
		if snapshot != nil {
			snapshot("idle", k, nil)
		}
	}
	w.onTx = nil
}

// doSvc runs one operation history with a restart at every boundary; returns one trace per crash point.
func doSvc(ops []SOp, lastOnly bool, names int, zig bool) [][]rt.M {
	dir := tmpDir()
	defer os.RemoveAll(dir)
	w := openSvc(join(dir, "run1.db"), names, zig)
	var log []rt.M
	var points []crashPoint
	ntx := 0
	snap := func(phase string, k int, pre rt.M) {
		if phase == "after" {
			ntx++
		}
		f := join(dir, fmt.Sprintf("s%d.db", ntx))
		if _, err := os.Stat(f); err != nil {
			if err := w.snap.Snapshot(f); err != nil {
				rt.Fatalf("c08svc: snapshot: %v", err)
			}
		}
		// an operation cut short by the crash is not applied again: the remaining
		// operations are the later ones
		points = append(points, crashPoint{at: phase, prefix: len(log), pre: pre, file: f, resume: k + 1, k: k, ntx: ntx})
	}
	log = append(log, ev("Start", rt.M{"state": w.state()}))
	snap("idle", -1, nil)
	w.runOps(ops, 0, &log, snap)
	w.close()
	var out [][]rt.M
	tails := map[[2]int][]rt.M{}
	for _, cp := range points {
		if lastOnly && !(cp.k == len(ops)-1 || (cp.at == "idle" && cp.k == len(ops)-2)) {
			continue
		}
		tr := append([]rt.M(nil), log[:cp.prefix]...)
		if cp.at == "before" {
			tr = append(tr, ev("Pre", cp.pre))
		}
		tr = append(tr, ev("Crash", rt.M{"at": cp.at, "k": cp.k, "resume": cp.resume}))
		key := [2]int{cp.ntx, cp.resume}
		tail, ok := tails[key]
		if !ok {
			file := fmt.Sprintf("%s.r%d", cp.file, cp.resume)
			copyFile(cp.file, file)
			w2 := openSvc(file, names, zig)
			tail = append(tail, ev("Restart", rt.M{"state": w2.state()}))
			w2.runOps(ops, cp.resume, &tail, nil)
			tail = append(tail, ev("End", rt.M{"final2": w2.state()}))
			w2.close()
			tails[key] = tail
		}
		out = append(out, append(tr, tail...))
	}
	return out
}

func opsFields(ops []SOp) []any {
	out := []any{}
	for _, o := range ops {
		out = append(out, []any{o.Op, o.Topic, o.ID, o.Lvl})
	}
	return out
}
