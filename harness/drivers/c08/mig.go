package c08

import (
	"fmt"
	"os"
	"regexp"
	"sort"

	"github.com/influxdata/kapacitor/alert"
	alertservice "github.com/influxdata/kapacitor/services/alert"
	"github.com/influxdata/kapacitor/services/httppost"

	"kapverif/rt"
)

// c08mig: crash + restart inside the one-time V1 -> V2 topic store migration
// (services/alert/migrate_topic_store.go), which runs in Service.Open.  A V1 store is
// written through the V1 DAO; Open runs on a SnapStore that observes every commit of
// every namespace (and the backup file the migration creates next to the database);
// for every boundary the database file *and the backup file as it stood* are copied to
// a fresh directory and a fresh service is opened there.

func init() { rt.Register("c08mig", RunMig) }

type v1Entry struct {
	Topic, ID string
	Lvl       int
}

func migFields(es []v1Entry) []any {
	out := []any{}
	for _, e := range es {
		out = append(out, []any{e.Topic, e.ID, e.Lvl})
	}
	return out
}

// model topic names of the migration traces
var migTopics = [2]string{"A", "AB"}

func migRealTopic(nc nameClass, model string) string {
	if model == migTopics[0] {
		return nc.Topics[0]
	}
	return nc.Topics[1]
}

func writeV1(path string, es []v1Entry, nc nameClass) {
	st, err := rt.NewBoltStore(path, true, rt.NewDiag())
	if err != nil {
		rt.Fatalf("c08mig: %v", err)
	}
	dao, err := alertservice.NewTopicStateKV(st.Store(alertservice.AlertNameSpace))
	if err != nil {
		rt.Fatalf("c08mig: %v", err)
	}
	byTopic := map[string]map[string]alertservice.EventState{}
	for _, e := range es {
		tp := migRealTopic(nc, e.Topic)
		if byTopic[tp] == nil {
			byTopic[tp] = map[string]alertservice.EventState{}
		}
		byTopic[tp][nc.realID(e.ID)] = alertservice.EventState{Level: alert.Level(e.Lvl), Message: "m", Time: rt.DefaultTime.T(1)}
	}
	for _, tp := range rt.SortedKeys(byTopic) {
		if err := dao.Put(alertservice.TopicState{Topic: tp, EventStates: byTopic[tp]}); err != nil {
			rt.Fatalf("c08mig: put v1 topic: %v", err)
		}
	}
	if err := st.CloseBolt(); err != nil {
		rt.Fatalf("c08mig: %v", err)
	}
}

// openOn opens an alert service on the database at path.  Returns the service (nil on
// failure), the stores to close, and the error text.
func openOn(path string, onUpdate func(ns, phase string, ops []rt.TxOp, err error)) (*alertservice.Service, *rt.SnapStore, string) {
	d := rt.NewDiag()
	st, err := rt.NewBoltStore(path, true, d)
	if err != nil {
		rt.Fatalf("c08mig: open store: %v", err)
	}
	snap := rt.NewSnapStore(st)
	snap.OnUpdate = onUpdate
	s := alertservice.NewService(rt.AlertDiag{D: d}, nil, alert.MinimumEventBufferSize)
	s.PersistTopics = true
	s.StorageService = snap
	s.HTTPDService = &rt.FakeHTTPD{}
	hp, _ := httppost.NewService(nil, rt.HTTPPostDiag{D: d})
	s.HTTPPostService = hp
	if err := s.Open(); err != nil {
		st.DB.Close() // the failure path of the migration may have closed it already
		return nil, snap, pathRE.ReplaceAllString(err.Error(), "<dir>/")
	}
	return s, snap, ""
}

// scratch paths differ from run to run: keep error texts deterministic
var pathRE = regexp.MustCompile(`/[^ "]*kvh-c08-[0-9]+/`)

func migState(s *alertservice.Service, nc nameClass) rt.M {
	out := rt.M{}
	for _, tp := range migTopics {
		out[tp] = stateOf(s, migRealTopic(nc, tp), nc)
	}
	return out
}

func exists(p string) bool { _, err := os.Stat(p); return err == nil }

func doMig(es []v1Entry, names int, t *rt.Trace) {
	nc := nameClasses[names]
	dir := tmpDir()
	defer os.RemoveAll(dir)
	path := join(dir, "k.db")
	writeV1(path, es, nc)
	orig := join(dir, "orig.db")
	copyFile(path, orig)
	bakPath := path + alertservice.TopicStoreBackupSuffix

	type boundary struct {
		ns, phase string
		bak       bool
		file      string
		nops      int
	}
	var bs []boundary
	var snapRef *rt.SnapStore
	hook := func(ns, phase string, ops []rt.TxOp, err error) {
		f := join(dir, fmt.Sprintf("s%d.db", len(bs)))
		if e := snapRef.Snapshot(f); e != nil {
			rt.Fatalf("c08mig: snapshot: %v", e)
		}
		ph := "before"
		if phase == "end" {
			ph = "after"
		}
		bs = append(bs, boundary{ns: ns, phase: ph, bak: exists(bakPath), file: f, nops: len(ops)})
	}
	// the hook needs the store before Open returns it
	d := rt.NewDiag()
	st, err := rt.NewBoltStore(path, true, d)
	if err != nil {
		rt.Fatalf("c08mig: %v", err)
	}
	snapRef = rt.NewSnapStore(st)
	snapRef.OnUpdate = hook
	s := alertservice.NewService(rt.AlertDiag{D: d}, nil, alert.MinimumEventBufferSize)
	s.PersistTopics = true
	s.StorageService = snapRef
	s.HTTPDService = &rt.FakeHTTPD{}
	hp, _ := httppost.NewService(nil, rt.HTTPPostDiag{D: d})
	s.HTTPPostService = hp
	if err := s.Open(); err != nil {
		rt.Fatalf("c08mig: uninterrupted open failed: %v", err)
	}
	snapRef.OnUpdate = nil
	final := migState(s, nc)
	bakAfter := exists(bakPath)
	s.Close()
	st.Close()

	for i, b := range bs {
		t.Reset(rt.M{"kind": "mig", "v1": migFields(es), "names": names})
		t.Event("Open", rt.M{"state": final, "bakLeft": bakAfter, "commits": len(bs) / 2})
		t.Event("CrashAt", rt.M{"i": i, "ns": b.ns, "phase": b.phase, "bak": b.bak, "writes": b.nops})
		d2 := join(dir, fmt.Sprintf("r%d", i))
		os.MkdirAll(d2, 0o755)
		p2 := join(d2, "k.db")
		copyFile(b.file, p2)
		if b.bak {
			copyFile(orig, p2+alertservice.TopicStoreBackupSuffix) // the backup is a copy of the pre-migration database
		}
		s2, snap2, errText := openOn(p2, nil)
		if s2 == nil {
			t.Event("Reopen", rt.M{"ok": false, "err": errText, "state": rt.M{"A": []any{}, "AB": []any{}}, "bakLeft": exists(p2 + alertservice.TopicStoreBackupSuffix)})
		} else {
			t.Event("Reopen", rt.M{"ok": true, "err": "", "state": migState(s2, nc), "bakLeft": exists(p2 + alertservice.TopicStoreBackupSuffix)})
			s2.Close()
			snap2.Close()
			// and once more (a second restart must not migrate again or lose anything)
			s3, snap3, errText3 := openOn(p2, nil)
			if s3 == nil {
				t.Event("Reopen", rt.M{"ok": false, "err": errText3, "state": rt.M{"A": []any{}, "AB": []any{}}, "bakLeft": exists(p2 + alertservice.TopicStoreBackupSuffix)})
			} else {
				t.Event("Reopen", rt.M{"ok": true, "err": "", "state": migState(s3, nc), "bakLeft": exists(p2 + alertservice.TopicStoreBackupSuffix)})
				s3.Close()
				snap3.Close()
			}
		}
		t.Distinct(fmt.Sprintf("%v/%d@%d", es, names, i))
	}
}

// RunMig enumerates V1 contents: every set of at most maxN entries over 2 topics x 2 IDs x 4 levels
// with distinct (topic, ID), up to renaming, plus the empty store.
func RunMig(r *rt.Run) error {
	t := r.NewTrace("mig")
	keys := [][2]string{{"A", "a"}, {"A", "ab"}, {"AB", "a"}, {"AB", "ab"}}
	maxN := 2
	if r.Thorough() {
		maxN = 4
	}
	var all [][]v1Entry
	var rec func(ki int, cur []v1Entry)
	rec = func(ki int, cur []v1Entry) {
		if ki == len(keys) {
			all = append(all, append([]v1Entry(nil), cur...))
			return
		}
		rec(ki+1, cur)
		if len(cur) < maxN {
			for l := 0; l < 4; l++ {
				rec(ki+1, append(cur, v1Entry{keys[ki][0], keys[ki][1], l}))
			}
		}
	}
	rec(0, nil)
	sort.SliceStable(all, func(i, j int) bool { return len(all[i]) > len(all[j]) })
	// every V1 content under every name class (plain, "/", glob metacharacters, space +
	// unicode, dots / blank, quotes / escapes): V1 object IDs go through IndexedStore keys,
	// the id index and the glob-pattern List of the migration
	for nm := range nameClasses {
		for _, es := range all {
			if nm > 0 && len(es) > 2 {
				continue // thorough: the larger contents only with plain names
			}
			doMig(es, nm, t)
		}
	}
	r.Extra["name_classes"] = len(nameClasses)
	r.Extra["v1_contents"] = len(all)
	r.Extra["max_entries"] = maxN
	r.Finish("V1 topic stores (sets of (topic, ID, level) over topics A, AB x IDs a, ab x 4 levels, real names from 6 name classes) migrated by Service.Open on an observed store; for every commit boundary of every namespace during Open the database and the migration's backup file as they stood are copied and a fresh service is opened on the copy, twice; distinct by (V1 content, boundary)", true)
	return nil
}
