package c20

import (
	"fmt"
	"path"
	"runtime"
	"strings"
	"sync"

	"github.com/influxdata/kapacitor/auth"

	"kapverif/rt"
)

func init() {
	rt.Register("c20", Run)
	rt.Register("c20http", RunHTTP)
}

type bounds struct {
	maxGranted, adminMaxGranted, parts, maxDbLen, maxApiLen, nRandom int
}

func boundsFor(r *rt.Run) bounds {
	b := bounds{maxGranted: 3, adminMaxGranted: 1, parts: 4, maxDbLen: 4, maxApiLen: 4, nRandom: 300}
	if r.Thorough() {
		b = bounds{maxGranted: 7, adminMaxGranted: 1, parts: 16, maxDbLen: 5, maxApiLen: 5, nRandom: 6000}
	}
	return b
}

// decide asks the real code for every privilege and packs the answers into the
// bitmask layout of auth.Privilege (none=1 read=2 write=4 delete=8 all=16).
func decide(u auth.User, resource string) int {
	m := 0
	for _, p := range privOrder {
		if u.AuthorizeAction(auth.Action{Resource: resource, Privilege: p}) == nil {
			m |= int(p)
		}
	}
	return m
}

func userOf(admin bool, paths [][]string, masks []int) auth.User {
	privs := map[string][]auth.Privilege{}
	for j, m := range masks {
		if m >= 0 {
			privs[render(paths[j])] = privsOfMask(m)
		}
	}
	return auth.NewUser("u", nil, admin, privs)
}

type sample = rt.M

// Run: B1 over the decision tables.  Every grant table of the universe (rank
// order, split by rank modulo the number of parts = trace files), every request resource of up to
// maxSegs segments over names + ".", "..", "" (absolute) plus a few relative
// ones, every privilege; then single-carrier tables with every one of the 32
// privilege bitmasks; auth.APIResource and auth.DatabaseResource over all short
// strings; seeded random deeper tables.
func Run(r *rt.Run) error {
	b := boundsFor(r)
	abs := absPathSeq()
	reqStr := make([]string, 0, len(abs)+len(relPaths))
	for _, p := range abs {
		reqStr = append(reqStr, render(p))
	}
	for _, p := range relPaths {
		reqStr = append(reqStr, renderRel(p))
	}
	nreq := len(reqStr)
	np, nopt := len(grantPaths), len(optMasks)
	total := pow(nopt+1, np)

	type partOut struct {
		t                            *rt.Trace
		tabs, nodes, keys, decisions int
		nontrivial                   int
		samples                      []sample
	}
	outs := make([]*partOut, b.parts)
	var wg sync.WaitGroup
	sem := make(chan struct{}, runtime.GOMAXPROCS(0))
	for k := 1; k <= b.parts; k++ {
		t, err := rt.NewTrace(fmt.Sprintf("%s/direct-%02d.ndjson", r.OutDir, k))
		if err != nil {
			return err
		}
		po := &partOut{t: t}
		outs[k-1] = po
		wg.Add(1)
		go func(k int, po *partOut) {
			defer wg.Done()
			sem <- struct{}{}
			defer func() { <-sem }()
			t := po.t
			t.Reset(rt.M{"part": k, "parts": b.parts, "tier": r.Tier})
			// universe binding + the real path.Clean on every request resource
			cl := make([]string, len(abs))
			for i, p := range abs {
				cl[i] = path.Clean(render(p))
			}
			relStr := make([]string, len(relPaths))
			for i, p := range relPaths {
				relStr[i] = renderRel(p)
			}
			t.Event("Paths", rt.M{"paths": abs, "strs": reqStr[:len(abs)], "clean": cl, "rel": relPaths, "relstrs": relStr})
			table := func(ev string, admin bool, masks []int, extra rt.M) {
				u := userOf(admin, grantPaths, masks)
				dec := make([]int, nreq)
				for i, s := range reqStr {
					dec[i] = decide(u, s)
				}
				f := rt.M{"admin": admin, "g": masks, "dec": dec}
				for kk, v := range extra {
					f[kk] = v
				}
				t.Event(ev, f)
				po.decisions += nreq * len(privOrder)
				if !admin {
					ng := 0
					for _, m := range masks {
						if m >= 0 {
							ng++
						}
					}
					if ng > 0 {
						po.nontrivial += len(abs) * (len(privOrder) - 1)
					}
				}
				if len(po.samples) < 1 && !admin && k == 1 && po.tabs == 300 {
					i := (po.tabs * 7) % len(abs)
					po.samples = append(po.samples, sample{"grants": grantsOf(grantPaths, masks), "resource": reqStr[i], "cleaned": cl[i], "allowed": privNames(dec[i])})
				}
			}
			for _, admin := range []bool{false, true} {
				maxg := b.maxGranted
				if admin {
					maxg = b.adminMaxGranted
				}
				for rank := k - 1; rank < total; rank += b.parts {
					codes := codesOfRank(rank, np, nopt)
					if granted(codes) > maxg {
						continue
					}
					table("Tab", admin, masksOfCodes(codes), nil)
					po.tabs++
				}
			}
			if k == 1 {
				// node universe: one carrier, every privilege bitmask (incl. 0 and mixed sets with "all")
				for j := 0; j < np; j++ {
					for m := 0; m < 32; m++ {
						masks := make([]int, np)
						for q := range masks {
							masks[q] = -1
						}
						masks[j] = m
						table("Node", false, masks, rt.M{"at": j + 1, "mask": m})
						po.nodes++
					}
				}
				// grants given with path tricks: NewUser normalises the keys of the table
				for i, key := range append(append([][]string{}, abs...), relPaths...) {
					ks := reqStr[i]
					u := auth.NewUser("u", nil, false, map[string][]auth.Privilege{ks: {auth.ReadPrivilege}})
					stored := []string{}
					for r := range u.Privileges() {
						stored = append(stored, r)
					}
					dec := make([]int, nreq)
					for q, s := range reqStr {
						dec[q] = decide(u, s)
					}
					t.Event("Key", rt.M{"i": i + 1, "abs": i < len(abs), "key": key, "keystr": ks, "stored": stored, "dec": dec})
					po.keys++
					po.decisions += nreq * len(privOrder)
					po.nontrivial += len(abs)
				}
				// resource names
				in := stringsUpTo(apiAlphabet, b.maxApiLen)
				strs, out := make([]string, len(in)), make([]string, len(in))
				for i, cs := range in {
					strs[i] = concat(cs)
					out[i] = auth.APIResource(strs[i])
				}
				t.Event("ApiRes", rt.M{"in": in, "strs": strs, "out": out})
				dbn := stringsUpTo(dbAlphabet, b.maxDbLen)
				dstrs, dout, dsegs := make([]string, len(dbn)), make([]string, len(dbn)), make([][]string, len(dbn))
				for i, cs := range dbn {
					dstrs[i] = concat(cs)
					dout[i] = auth.DatabaseResource(dstrs[i])
					dsegs[i] = strings.Split(strings.TrimPrefix(dout[i], "/"), "/")
				}
				t.Event("DbRes", rt.M{"names": dbn, "strs": dstrs, "out": dout, "outsegs": dsegs})
				po.decisions += len(in) + len(dbn)
				po.nontrivial += len(in) + len(dbn)
				po.samples = append(po.samples,
					sample{"DatabaseResource": rt.M{"/_": auth.DatabaseResource("/_"), "_/": auth.DatabaseResource("_/"), "x_x": auth.DatabaseResource("x_x"), "x/x": auth.DatabaseResource("x/x")},
						"APIResource": rt.M{"/x/.//xx/": auth.APIResource("/x/.//xx/"), "/x/../../x": auth.APIResource("/x/../../x")}})
				// seeded random deeper universe
				randomTables(r, t, b.nRandom)
				po.decisions += b.nRandom * 40 * len(privOrder)
				po.nontrivial += b.nRandom
			}
		}(k, po)
	}
	wg.Wait()
	m := &rt.Meta{Property: "C20", Tier: r.Tier, Seed: r.Seed, Exhaustive: true}
	tabs, nodes, keys := 0, 0, 0
	for _, po := range outs {
		if err := po.t.Close(); err != nil {
			return err
		}
		m.TraceFiles = append(m.TraceFiles, po.t.Path())
		tabs += po.tabs
		nodes += po.nodes
		keys += po.keys
		m.Events += po.decisions
		m.Distinct += po.nontrivial
		for _, s := range po.samples {
			if len(m.Samples) < 2 {
				m.Samples = append(m.Samples, []rt.M{s})
			}
		}
	}
	m.Traces = tabs + nodes + keys + b.nRandom
	m.Rule = fmt.Sprintf("auth.User.AuthorizeAction on every grant table over %d clean paths (depth<=2 over names x, xx) x {no grant,{none},{read},{write,delete},{all}} with at most %d carriers, every absolute resource of <=%d segments over {x,xx,.,..,''} (%d) plus %d relative ones, all 5 privileges; single-carrier tables with all 32 privilege bitmasks; one-grant tables whose key is every resource string of the universe (NewUser must normalise it); APIResource/DatabaseResource on every string of <=%d/%d characters; %d seeded random deeper tables. Cases are distinct by construction (enumeration without repetition); non-trivial = non-admin user, non-empty table, absolute resource, privilege other than none",
		np, b.maxGranted, maxSegs, len(abs), len(relPaths), b.maxApiLen, b.maxDbLen, b.nRandom)
	m.Extra = map[string]any{
		"grant_tables": tabs, "node_tables": nodes, "dirty_key_tables": keys, "request_resources": nreq, "random_tables": b.nRandom,
		"decisions_logged": m.Events, "trace_parts": b.parts, "max_granted": b.maxGranted,
	}
	return rt.WriteMeta(r.OutDir, m)
}

func grantsOf(paths [][]string, masks []int) rt.M {
	g := rt.M{}
	for j, m := range masks {
		if m >= 0 {
			g[render(paths[j])] = privNames(m)
		}
	}
	return g
}

func privNames(m int) []string {
	out := []string{}
	for _, p := range privOrder {
		if m&int(p) != 0 {
			out = append(out, p.String())
		}
	}
	return out
}

// randomTables: beyond the exhaustive bound - three names, grants up to depth 4
// with arbitrary bitmasks, resources of up to 7 segments.  One line per table.
func randomTables(r *rt.Run, t *rt.Trace, n int) {
	rnames := []string{"x", "xx", "y"}
	segs := append(append([]string{}, rnames...), ".", "..", "")
	for it := 0; it < n; it++ {
		ng := 1 + r.Rand.Intn(5)
		gp := make([][]string, 0, ng)
		gm := make([]int, 0, ng)
		seen := map[string]bool{}
		for len(gp) < ng {
			d := r.Rand.Intn(5)
			p := make([]string, d)
			for i := range p {
				p[i] = rnames[r.Rand.Intn(len(rnames))]
			}
			if seen[render(p)] {
				continue
			}
			seen[render(p)] = true
			gp = append(gp, p)
			gm = append(gm, r.Rand.Intn(32))
		}
		u := userOf(false, gp, gm)
		nq := 40
		reqs := make([][]string, nq)
		strs := make([]string, nq)
		dec := make([]int, nq)
		for i := 0; i < nq; i++ {
			d := r.Rand.Intn(8)
			p := make([]string, d)
			for j := range p {
				// bias towards names so that deep grants are reached
				if r.Rand.Intn(3) > 0 {
					p[j] = rnames[r.Rand.Intn(len(rnames))]
				} else {
					p[j] = segs[r.Rand.Intn(len(segs))]
				}
			}
			reqs[i], strs[i] = p, render(p)
			dec[i] = decide(u, strs[i])
		}
		t.Event("Rand", rt.M{"gp": gp, "gm": gm, "reqs": reqs, "strs": strs, "dec": dec})
	}
}
