// Package c20 drives the real authorisation code (auth.User.AuthorizeAction,
// auth.APIResource, auth.DatabaseResource and the httpd.Handler filter chain)
// over the universe of spec/Auth (DESIGN.md C20).  The universe below mirrors
// spec/Auth/AuthMC.tla; the trace specification re-derives it from its own
// constants and rejects the trace if the two differ.
package c20

import "github.com/influxdata/kapacitor/auth"

// ---- walk universe (Auth_quick.cfg / Auth_thorough.cfg) ----

var names = []string{"x", "xx"} // one name is a string prefix of the other on purpose
var maxSegs = 4

// clean paths that may carry a grant, as segment lists (GrantPathOrder)
var grantPaths = [][]string{{}, {"x"}, {"xx"}, {"x", "x"}, {"x", "xx"}, {"xx", "x"}, {"xx", "xx"}}

// privilege sets a carrier may hold (OptOrder), as auth.Privilege bitmasks:
// {none} {read} {write,delete} {all}
var optMasks = []int{1, 2, 4 | 8, 16}

// relative request resources (RelPathOrder)
var relPaths = [][]string{{}, {"x"}, {"x", "xx"}, {"."}, {"..", "x"}, {"x", "..", "xx"}, {"x", ""}}

var privOrder = []auth.Privilege{auth.NoPrivileges, auth.ReadPrivilege, auth.WritePrivilege, auth.DeletePrivilege, auth.AllPrivileges}

var dbAlphabet = []string{"x", "/", "_"}
var apiAlphabet = []string{"x", "/", "."}

func segOrder() []string { return append(append([]string{}, names...), ".", "..", "") }

// absPathSeq enumerates all segment sequences of length 0..maxSegs in the order
// of Auth!AbsPathSeq: by length, then prefix-major / last-segment-minor.
func absPathSeq() [][]string {
	so := segOrder()
	level := [][]string{{}}
	out := [][]string{{}}
	for n := 1; n <= maxSegs; n++ {
		next := make([][]string, 0, len(level)*len(so))
		for _, p := range level {
			for _, s := range so {
				q := append(append(make([]string, 0, len(p)+1), p...), s)
				next = append(next, q)
			}
		}
		out = append(out, next...)
		level = next
	}
	return out
}

// stringsUpTo enumerates all character sequences of length 0..n over alpha in
// the order of Auth!StringsUpTo.
func stringsUpTo(alpha []string, n int) [][]string {
	level := [][]string{{}}
	out := [][]string{{}}
	for k := 1; k <= n; k++ {
		next := make([][]string, 0, len(level)*len(alpha))
		for _, p := range level {
			for _, s := range alpha {
				next = append(next, append(append(make([]string, 0, len(p)+1), p...), s))
			}
		}
		out = append(out, next...)
		level = next
	}
	return out
}

func render(p []string) string {
	s := "/"
	for i, seg := range p {
		if i > 0 {
			s += "/"
		}
		s += seg
	}
	return s
}

func renderRel(p []string) string {
	s := ""
	for i, seg := range p {
		if i > 0 {
			s += "/"
		}
		s += seg
	}
	return s
}

func concat(cs []string) string {
	s := ""
	for _, c := range cs {
		s += c
	}
	return s
}

func privsOfMask(m int) []auth.Privilege {
	ps := []auth.Privilege{}
	for _, p := range privOrder {
		if m&int(p) != 0 {
			ps = append(ps, p)
		}
	}
	return ps
}

// pow returns b^n.
func pow(b, n int) int {
	r := 1
	for i := 0; i < n; i++ {
		r *= b
	}
	return r
}

// codesOfRank decodes a table rank into per-grant-path option codes
// (0 = no grant, k = optMasks[k-1]); rank = sum code[j] * (nopt+1)^j.
func codesOfRank(rank, npaths, nopt int) []int {
	c := make([]int, npaths)
	for j := 0; j < npaths; j++ {
		c[j] = rank % (nopt + 1)
		rank /= nopt + 1
	}
	return c
}

func granted(codes []int) int {
	n := 0
	for _, c := range codes {
		if c != 0 {
			n++
		}
	}
	return n
}

func masksOfCodes(codes []int) []int {
	g := make([]int, len(codes))
	for j, c := range codes {
		if c == 0 {
			g[j] = -1
		} else {
			g[j] = optMasks[c-1]
		}
	}
	return g
}
