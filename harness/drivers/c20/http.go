package c20

import (
	"expvar"
	"fmt"
	"io"
	"log"
	"net/http"
	"net/http/httptest"
	"net/url"
	"strings"
	"sync"
	"time"

	"github.com/golang-jwt/jwt/v4"
	"github.com/influxdata/influxdb/models"
	"github.com/influxdata/kapacitor/auth"
	"github.com/influxdata/kapacitor/services/httpd"

	"kapverif/rt"
)

// ---- HTTP universe (AuthHttp_*.cfg); mirrors AuthMC.tla ----

var httpMethods = []string{"GET", "POST", "PATCH", "PUT", "DELETE", "HEAD", "OPTIONS", "TRACE", "get"}
var httpPaths = [][]string{
	{"kapacitor", "v1", "t"},
	{"kapacitor", "v1", "t", "x"},
	{"kapacitor", "v1", "t", ""},
	{"kapacitor", "v1", "t", "..", "write"},
	{"kapacitor", "v1", "", "t"},
	{"kapacitor", "v1", "t", ".", "x"},
	{"kapacitor", "v1", "write"},
	{"write"},
	{"..", "write"},
	{"kapacitor", "v1", "ping"},
	{"kapacitor", "v1preview", "t"},
	{"kapacitor", "v1preview", "write"},
	{"kapacitor", "v1", "debug", "vars"},
	{"kapacitor", "v1", "u"},
	{},
	{"kapacitor", "v1", "s", "a"},
	{"kapacitor", "v1", "s", "a", ""},
	{"kapacitor", "v1", "s", ""},
	{"kapacitor", "v1", "s"},
	{"kapacitor", "v1", "s", "a", "..", "b"},
	{"kapacitor", "v1", "s", "b"},
}
var httpCreds = []string{"none", "basic_ok", "basic_badpw", "basic_nouser", "basic_emptyuser", "basic_admin",
	"query_ok", "query_badpw", "query_nopw", "badbasic_query_ok",
	"bearer_ok", "bearer_admin", "bearer_badsig", "bearer_noexp", "bearer_expired", "bearer_nouser",
	"bearer_algnone", "bearer_query_ok", "sub_ok", "sub_bad"}
var httpWriteDbs = [][]string{{"d"}, {"e"}, {"d", "/", "e"}}
var writePathIdx = []int{6, 7, 11} // the paths of httpPaths whose (rewritten) POST route is the write route
var testMethods = []string{"GET", "POST", "PATCH", "PUT", "DELETE", "HEAD"}
var testPatterns = []string{"/t", "/t/x", "/s/"} // "/s/" is a subtree pattern

// grant paths of the HTTP universe (MCHttpGrant); the last one is "the resource of
// database d" and is spelled by the real auth.DatabaseResource.
func httpGrantPaths() []string {
	return []string{"/", "/api", "/api/t", "/api/t/x", "/api/write", "/api/preview", "/api/s", "/api/s/a", "/database", auth.DatabaseResource("d")}
}

type httpReq struct {
	m  string
	p  []string
	c  string
	db []string
}

func httpReqSeq() []httpReq {
	out := []httpReq{}
	for _, m := range httpMethods {
		for _, p := range httpPaths {
			for _, c := range httpCreds {
				out = append(out, httpReq{m, p, c, []string{}})
			}
		}
	}
	for _, pi := range writePathIdx {
		for _, c := range httpCreds {
			for _, db := range httpWriteDbs {
				out = append(out, httpReq{"POST", httpPaths[pi], c, db})
			}
		}
	}
	return out
}

// ---- fakes ----

type fakeAuth struct{ u auth.User }

var adminUser = auth.NewUser("admin", nil, true, nil)

func (f *fakeAuth) Authenticate(username, password string) (auth.User, error) {
	if password != "pw" {
		return auth.User{}, fmt.Errorf("bad password")
	}
	return f.User(username)
}
func (f *fakeAuth) User(username string) (auth.User, error) {
	switch username {
	case "u":
		return f.u, nil
	case "admin":
		return adminUser, nil
	}
	return auth.User{}, fmt.Errorf("unknown user")
}
func (f *fakeAuth) SubscriptionUser(token string) (auth.User, error) {
	if token == "tok" {
		return f.u, nil
	}
	return auth.User{}, fmt.Errorf("invalid subscription token")
}
func (f *fakeAuth) GrantSubscriptionAccess(token, db, rp string) error { return nil }
func (f *fakeAuth) ListSubscriptionTokens() ([]string, error)          { return nil, nil }
func (f *fakeAuth) RevokeSubscriptionAccess(token string) error        { return nil }

type pointsRec struct {
	n  int
	db string
}

func (p *pointsRec) WritePoints(database, rp string, cl models.ConsistencyLevel, pts []models.Point) error {
	p.n++
	p.db = database
	return nil
}

type nopDiag struct{}

func (nopDiag) NewHTTPServerErrorLogger() *log.Logger { return log.New(io.Discard, "", 0) }
func (nopDiag) StartingService()                      {}
func (nopDiag) StoppedService()                       {}
func (nopDiag) ShutdownTimeout()                      {}
func (nopDiag) AuthenticationEnabled(enabled bool)    {}
func (nopDiag) ListeningOn(addr string, proto string) {}
func (nopDiag) WriteBodyReceived(body string)         {}
func (nopDiag) HTTP(host, username string, start time.Time, method, uri, proto string, status int, referer, userAgent, reqID string, duration time.Duration) {
}
func (nopDiag) Error(msg string, err error) {}
func (nopDiag) RecoveryError(msg, err, host, username string, start time.Time, method, uri, proto string, status int, referer, userAgent, reqID string, duration time.Duration) {
}

const secret = "c20-shared-secret"

func token(method jwt.SigningMethod, key interface{}, claims jwt.MapClaims) string {
	s, err := jwt.NewWithClaims(method, claims).SignedString(key)
	if err != nil {
		rt.Fatalf("jwt: %v", err)
	}
	return s
}

// far future / far past expirations: no dependence on the wall clock
const expFuture, expPast = 4102444800, 1000

func credDecor() map[string]func(h http.Header, q url.Values) {
	hs := jwt.SigningMethodHS256
	bearer := func(tok string) func(http.Header, url.Values) {
		return func(h http.Header, q url.Values) { h.Set("Authorization", "Bearer "+tok) }
	}
	basic := func(u, p string) func(http.Header, url.Values) {
		return func(h http.Header, q url.Values) {
			r := &http.Request{Header: h}
			r.SetBasicAuth(u, p)
		}
	}
	query := func(u, p string) func(http.Header, url.Values) {
		return func(h http.Header, q url.Values) {
			q.Set("u", u)
			if p != "" {
				q.Set("p", p)
			}
		}
	}
	both := func(a, b func(http.Header, url.Values)) func(http.Header, url.Values) {
		return func(h http.Header, q url.Values) { a(h, q); b(h, q) }
	}
	return map[string]func(http.Header, url.Values){
		"none":              func(http.Header, url.Values) {},
		"basic_ok":          basic("u", "pw"),
		"basic_badpw":       basic("u", "wrong"),
		"basic_nouser":      basic("nobody", "pw"),
		"basic_emptyuser":   basic("", "pw"),
		"basic_admin":       basic("admin", "pw"),
		"query_ok":          query("u", "pw"),
		"query_badpw":       query("u", "wrong"),
		"query_nopw":        query("u", ""),
		"badbasic_query_ok": both(func(h http.Header, q url.Values) { h.Set("Authorization", "Basic !!!") }, query("u", "pw")),
		"bearer_ok":         bearer(token(hs, []byte(secret), jwt.MapClaims{"username": "u", "exp": expFuture})),
		"bearer_admin":      bearer(token(hs, []byte(secret), jwt.MapClaims{"username": "admin", "exp": expFuture})),
		"bearer_badsig":     bearer(token(hs, []byte("other-secret"), jwt.MapClaims{"username": "u", "exp": expFuture})),
		"bearer_noexp":      bearer(token(hs, []byte(secret), jwt.MapClaims{"username": "u"})),
		"bearer_expired":    bearer(token(hs, []byte(secret), jwt.MapClaims{"username": "u", "exp": expPast})),
		"bearer_nouser":     bearer(token(hs, []byte(secret), jwt.MapClaims{"username": "nobody", "exp": expFuture})),
		"bearer_algnone":    bearer(token(jwt.SigningMethodNone, jwt.UnsafeAllowNoneSignatureType, jwt.MapClaims{"username": "u", "exp": expFuture})),
		"bearer_query_ok":   both(bearer("garbage"), query("u", "pw")),
		"sub_ok":            basic(httpd.SubscriptionUser, "tok"),
		"sub_bad":           basic(httpd.SubscriptionUser, "bad"),
	}
}

// one real handler per configuration, reused for every table (the fake auth
// service hands out the user of the table under test)
type rig struct {
	h        *httpd.Handler
	fa       *fakeAuth
	pw       *pointsRec
	stats    *expvar.Map
	testHits int
	testUser string
}

func newRig(authEnabled, pprof bool) *rig {
	g := &rig{fa: &fakeAuth{}, pw: &pointsRec{}, stats: new(expvar.Map).Init()}
	g.h = httpd.NewHandler(authEnabled, pprof, false, false, false, g.stats, nopDiag{}, secret)
	g.h.AuthService = g.fa
	g.h.PointsWriter = g.pw
	routes := []httpd.Route{}
	for _, m := range testMethods {
		for _, p := range testPatterns {
			routes = append(routes, httpd.Route{Method: m, Pattern: p, HandlerFunc: func(w http.ResponseWriter, r *http.Request, u auth.User) {
				g.testHits++
				g.testUser = u.Name()
				w.WriteHeader(http.StatusOK)
			}})
		}
	}
	if err := g.h.AddRoutes(routes); err != nil {
		rt.Fatalf("AddRoutes: %v", err)
	}
	return g
}

func statInt(m *expvar.Map, key string) int64 {
	if v, ok := m.Get(key).(*expvar.Int); ok {
		return v.Value()
	}
	return 0
}

// do sends one request through the real handler and encodes what happened:
// status*100 + served*10 + who, who = 0 unknown / 1 user u / 2 admin (only
// the harness' own routes see the authenticated user).
func (g *rig) do(rq httpReq, decor map[string]func(http.Header, url.Values)) int {
	q := url.Values{}
	h := http.Header{}
	decor[rq.c](h, q)
	if len(rq.db) > 0 {
		q.Set("db", concat(rq.db))
	}
	target := render(rq.p)
	if enc := q.Encode(); enc != "" {
		target += "?" + enc
	}
	var body io.Reader
	if rq.m == "POST" || rq.m == "PUT" || rq.m == "PATCH" {
		body = strings.NewReader("m v=1\n")
	}
	req := httptest.NewRequest(rq.m, target, body)
	for k, v := range h {
		req.Header[k] = v
	}
	hits0, pts0, ping0 := g.testHits, g.pw.n, statInt(g.stats, "ping_req")
	g.testUser = ""
	rec := httptest.NewRecorder()
	g.h.ServeHTTP(rec, req)
	served, who := 0, 0
	switch {
	case g.testHits > hits0:
		served = 1
		switch g.testUser {
		case "u":
			who = 1
		case "admin", auth.AdminUser.Name():
			who = 2
		}
	case g.pw.n > pts0:
		served = 1
	case statInt(g.stats, "ping_req") > ping0:
		served = 1
	case rec.Code == 200 && strings.Contains(rec.Body.String(), "\"cmdline\""):
		served = 1 // expvar dump
	}
	return rec.Code*100 + served*10 + who
}

type httpCfg struct{ auth, pprof bool }

// RunHTTP: B1 over the HTTP filter chain.  For the main configuration (auth on,
// pprof off) every grant table of the HTTP universe up to the bound; for the
// other configurations the empty table.  Every request of the universe.
func RunHTTP(r *rt.Run) error {
	// quick: at most 2 carriers, one an ancestor of the other (a grant above/below another);
	// thorough: any 2 carriers
	maxGranted, parts, chainOnly := 2, 4, true
	if r.Thorough() {
		maxGranted, parts, chainOnly = 2, 8, false
	}
	gp := httpGrantPaths()
	// ancestor relation between grant resources; the last entry (resource of database d) is below /database
	isAnc := func(a, b int) bool {
		pa, pb := gp[a], gp[b]
		if b == len(gp)-1 {
			pb = "/database/d"
		}
		if a == len(gp)-1 {
			pa = "/database/d"
		}
		return pa == "/" || pa == pb || strings.HasPrefix(pb, pa+"/")
	}
	chain := func(codes []int) bool {
		for i, ci := range codes {
			for j, cj := range codes {
				if i < j && ci != 0 && cj != 0 && !isAnc(i, j) && !isAnc(j, i) {
					return false
				}
			}
		}
		return true
	}
	np, nopt := len(gp), len(optMasks)
	total := pow(nopt+1, np)
	reqs := httpReqSeq()
	cfgs := []httpCfg{{true, false}, {true, true}, {false, false}}
	type partOut struct {
		t                       *rt.Trace
		lines, events, distinct int
		samples                 [][]rt.M
	}
	outs := make([]*partOut, parts)
	var wg sync.WaitGroup
	sem := make(chan struct{}, 4)
	for k := 1; k <= parts; k++ {
		t, err := rt.NewTrace(fmt.Sprintf("%s/http-%02d.ndjson", r.OutDir, k))
		if err != nil {
			return err
		}
		po := &partOut{t: t}
		outs[k-1] = po
		wg.Add(1)
		go func(k int, po *partOut) {
			defer wg.Done()
			sem <- struct{}{}
			defer func() { <-sem }()
			t := po.t
			decor := credDecor()
			t.Reset(rt.M{"part": k, "parts": parts, "tier": r.Tier})
			rl := make([][]any, len(reqs))
			urls := make([]string, len(reqs))
			for i, q := range reqs {
				rl[i] = []any{q.m, q.p, q.c, q.db}
				urls[i] = render(q.p)
			}
			t.Event("HttpReqs", rt.M{"reqs": rl, "urls": urls, "grants": gp})
			for ci, c := range cfgs {
				g := newRig(c.auth, c.pprof)
				for rank := k - 1; rank < total; rank += parts {
					// cheap pre-filter on the number of carriers before decoding
					codes := codesOfRank(rank, np, nopt)
					ng := granted(codes)
					if ng > maxGranted || (ci > 0 && ng > 0) || (chainOnly && !chain(codes)) {
						continue
					}
					masks := masksOfCodes(codes)
					privs := map[string][]auth.Privilege{}
					for j, mk := range masks {
						if mk >= 0 {
							privs[gp[j]] = privsOfMask(mk)
						}
					}
					g.fa.u = auth.NewUser("u", nil, false, privs)
					out := make([]int, len(reqs))
					for i, q := range reqs {
						out[i] = g.do(q, decor)
					}
					t.Event("Http", rt.M{"auth": c.auth, "pprof": c.pprof, "g": masks, "out": out})
					po.lines++
					po.events += len(reqs)
					if ng > 0 {
						po.distinct += len(reqs)
					}
					if len(po.samples) < 2 && ng >= 1 && (po.lines == 3 || po.lines == 12) {
						i := 1 + 20*po.lines
						po.samples = append(po.samples, []rt.M{{"grants": grantsOfStr(gp, masks), "method": reqs[i].m, "path": render(reqs[i].p), "credentials": reqs[i].c, "db": concat(reqs[i].db), "status": out[i] / 100, "served": out[i] / 10 % 10}})
					}
				}
			}
		}(k, po)
	}
	wg.Wait()
	m := &rt.Meta{Property: "C20", Tier: r.Tier, Seed: r.Seed, Exhaustive: true}
	lines := 0
	for _, po := range outs {
		if err := po.t.Close(); err != nil {
			return err
		}
		m.TraceFiles = append(m.TraceFiles, po.t.Path())
		lines += po.lines
		m.Events += po.events
		m.Distinct += po.distinct
		for _, s := range po.samples {
			if len(m.Samples) < 2 {
				m.Samples = append(m.Samples, s)
			}
		}
	}
	m.Traces = lines
	shape := "any two"
	if chainOnly {
		shape = "two only if one is an ancestor of the other"
	}
	m.Rule = fmt.Sprintf("real httpd.Handler (NewHandler + fake AuthService/PointsWriter + harness routes /t, /t/x and the subtree /s/): every request of %d methods x %d paths (canonical, '..', '.', duplicate and trailing slash, items below the subtree route, preview, write with and without base path, ping, debug/vars, unknown, root) x %d kinds of credentials (missing, basic, query, bearer JWT, subscription token; valid and invalid) plus database names on the write routes, for every grant table over %d resources (incl. the subtree collection /api/s and the item /api/s/a below it) with at most %d carriers (%s; auth on) and the empty table for pprof-bypass and auth-off; distinct by construction; non-trivial = table with at least one grant",
		len(httpMethods), len(httpPaths), len(httpCreds), np, maxGranted, shape)
	m.Extra = map[string]any{"http_tables": lines, "http_requests_per_table": len(reqs), "http_trace_parts": parts, "http_max_granted": maxGranted, "http_chain_only": chainOnly}
	return rt.WriteMeta(r.OutDir, m)
}

func grantsOfStr(paths []string, masks []int) rt.M {
	g := rt.M{}
	for j, m := range masks {
		if m >= 0 {
			g[paths[j]] = privNames(m)
		}
	}
	return g
}
