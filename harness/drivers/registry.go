// Package drivers holds one driver per property/module; each registers itself.
package drivers

import "kapverif/rt"

// Registry maps a driver name (kvh <name>) to its entry point.
var Registry = map[string]func(*rt.Run) error{}
