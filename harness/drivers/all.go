package drivers

import (
	"kapverif/drivers/c09"
)

func init() {
	Registry["c09"] = c09.Run
	Registry["c09conc"] = c09.RunConc
}
