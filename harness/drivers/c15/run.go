package c15

import (
	"bytes"
	"encoding/json"
	"fmt"
	"math/rand"
	"os"
	"path/filepath"
	"sync"

	"kapverif/rt"
)

func init() { rt.Register("c15", Run) }

// sweep: every history of length <= depth over ops(ids, kinds), walked depth
// first; with every FailAt(k) variant of every operation at nodes of depth < faultDepth.
type sweep struct {
	name       string
	ids        []string
	kinds      []string
	depth      int
	faultDepth int
}

var allKinds = []string{"Create", "Put", "Replace", "Delete", "Rebuild"}

type unit struct {
	sw    sweep
	first int // index of the first operation of the subtree
}

type worker struct {
	t         *rt.Trace
	dir       string
	file      string
	full      []query
	seenFull  map[string]bool
	ops       []op
	sw        sweep
	edges     int
	faults    int
	fulls     int
	lastFired bool
}

func (w *worker) restore(state []byte) {
	if state == nil {
		os.Remove(w.file)
		return
	}
	if err := os.WriteFile(w.file, state, 0o600); err != nil {
		rt.Fatalf("restore: %v", err)
	}
}

func (w *worker) snapshot() []byte {
	b, err := os.ReadFile(w.file)
	if err != nil {
		rt.Fatalf("snapshot: %v", err)
	}
	return b
}

func resetCfg(ids []string, full []query) rt.M {
	return rt.M{"ids": ids, "glob": globTable(), "grid": gridM(full), "gridb": gridM(basicGrid)}
}

// edge executes one operation on the store file restored to `state`:
// open, apply, observe on the same handle, close, reopen, observe again
// (+ raw dump, + the full grid the first time this content is seen), close.
func (w *worker) edge(state []byte, o op, v, pre, post, failAt int) (string, []byte) {
	w.restore(state)
	e, err := openEnv(w.file, failAt != 0)
	if err != nil {
		rt.Fatalf("open: %v", err)
	}
	if e.fs != nil {
		e.fs.set(failAt)
	}
	res := e.apply(o, v)
	ev := rt.M{"pre": pre, "post": post, "op": o.Kind, "id": o.ID, "a": o.A, "v": v,
		"failAt": failAt, "fired": false, "nw": -1, "res": res}
	w.lastFired = false
	if e.fs != nil {
		ev["fired"], ev["nw"] = e.fs.fired, e.fs.writes
		w.lastFired = e.fs.fired
	}
	ev["get"] = e.get(w.sw.ids)
	ev["lists"] = e.lists(basicGrid)
	e.close()
	// reopen after the (committed or rolled back) transaction
	e, err = openEnv(w.file, false)
	if err != nil {
		rt.Fatalf("reopen: %v", err)
	}
	ev["reopened"] = true
	setReopenObs(ev, e.get(w.sw.ids), e.lists(basicGrid))
	keys, raw := e.dump()
	ev["keys"] = keys
	if !w.seenFull[raw] {
		w.seenFull[raw] = true
		ev["full"] = e.lists(w.full)
		w.fulls++
	} else {
		ev["full"] = []any{}
	}
	e.close()
	w.t.Event("Op", ev)
	return res, w.snapshot()
}

func (w *worker) node(state []byte, depth int, only int) {
	// depth = number of operations already applied; slot of this node = depth+1
	for i, o := range w.ops {
		if only >= 0 && i != only {
			continue
		}
		if depth < w.sw.faultDepth {
			for k := 1; ; k++ {
				w.edge(state, o, depth+1, depth+1, depth+2, k)
				w.faults++
				// the wrapper counted the writes: stop once k is beyond them (that run succeeded)
				if k > 64 {
					rt.Fatalf("fault loop does not terminate for %v", o)
				}
				if !w.lastFired {
					break
				}
			}
			w.edge(state, o, depth+1, depth+1, depth+2, -1) // tx.Commit fails
			w.faults++
		}
		_, child := w.edge(state, o, depth+1, depth+1, depth+2, 0)
		w.edges++
		if depth+1 < w.sw.depth {
			w.node(child, depth+1, -1)
		}
	}
}

// Run: B1 - systematic history trees and seeded random long histories on the real store.
func Run(r *rt.Run) error {
	base := "/dev/shm"
	if st, err := os.Stat(base); err != nil || !st.IsDir() {
		base = os.TempDir()
	}
	tmp, err := os.MkdirTemp(base, "kvh-c15-")
	if err != nil {
		return err
	}
	defer os.RemoveAll(tmp)

	full := fullGrid()
	// a tiny scripted history first: readable evidence samples
	sampleTrace(r, tmp)

	var sweeps []sweep
	nRandom, randLen := 150, 40
	if r.Thorough() {
		sweeps = []sweep{
			{"plain3", []string{"a", "ab", "b"}, allKinds, 4, 2},
			{"dots", []string{".", "..", "a"}, allKinds, 3, 2},
			{"deep2", []string{"a", "ab"}, []string{"Put", "Replace", "Delete", "Rebuild"}, 5, 1},
			{"deepest", []string{"a", "ab"}, []string{"Put", "Delete", "Rebuild"}, 6, 0},
		}
		nRandom, randLen = 1000, 60
	} else {
		sweeps = []sweep{
			{"plain3", []string{"a", "ab", "b"}, allKinds, 3, 2},
			{"plain2", []string{"a", "ab"}, []string{"Put", "Replace", "Delete", "Rebuild"}, 4, 1},
			{"dots", []string{".", "..", "a"}, allKinds, 3, 1},
		}
	}
	if v := os.Getenv("C15_NRANDOM"); v != "" {
		fmt.Sscan(v, &nRandom)
	}

	// units -> a fixed number of trace files, each processed sequentially by one goroutine
	nFiles, rfiles := 8, 2
	if r.Thorough() {
		nFiles, rfiles = 64, 8
	}
	var units []unit
	for _, sw := range sweeps {
		for i := range opsOver(sw.ids, sw.kinds) {
			units = append(units, unit{sw, i})
		}
	}
	traces := make([]*rt.Trace, nFiles)
	for i := range traces {
		traces[i] = r.NewTrace(fmt.Sprintf("tree%02d", i))
	}
	type stat struct{ edges, faults, fulls int }
	stats := make([]stat, nFiles)
	var wg sync.WaitGroup
	sem := make(chan struct{}, 12)
	for f := 0; f < nFiles; f++ {
		wg.Add(1)
		go func(f int) {
			defer wg.Done()
			sem <- struct{}{}
			defer func() { <-sem }()
			dir := filepath.Join(tmp, fmt.Sprintf("w%02d", f))
			os.MkdirAll(dir, 0o755)
			seen := map[string]bool{} // raw store contents whose full grid this file already holds
			for ui := f; ui < len(units); ui += nFiles {
				u := units[ui]
				w := &worker{t: traces[f], dir: dir, file: filepath.Join(dir, "kapacitor.db"), full: full,
					seenFull: seen, ops: opsOver(u.sw.ids, u.sw.kinds), sw: u.sw}
				w.t.Reset(resetCfg(u.sw.ids, full))
				w.node(nil, 0, u.first)
				stats[f].edges += w.edges
				stats[f].faults += w.faults
				stats[f].fulls += w.fulls
				w.t.Distinct(fmt.Sprintf("%s/%d", u.sw.name, u.first))
			}
		}(f)
	}
	wg.Wait()
	tot := stat{}
	for _, s := range stats {
		tot.edges += s.edges
		tot.faults += s.faults
		tot.fulls += s.fulls
	}

	// seeded random long histories over all five IDs on one open handle, with random
	// faults, reopens and full-grid observations
	rtr := make([]*rt.Trace, rfiles)
	seeds := make([]int64, rfiles)
	for i := range rtr {
		rtr[i] = r.NewTrace(fmt.Sprintf("rand%02d", i))
		seeds[i] = r.Rand.Int63()
	}
	rops := make([]int, rfiles)
	for i := 0; i < rfiles; i++ {
		wg.Add(1)
		go func(i int) {
			defer wg.Done()
			rng := rand.New(rand.NewSource(seeds[i]))
			dir := filepath.Join(tmp, fmt.Sprintf("r%02d", i))
			os.MkdirAll(dir, 0o755)
			for n := i; n < nRandom; n += rfiles {
				rops[i] += randomHistory(rtr[i], rng, filepath.Join(dir, "kapacitor.db"), full, randLen)
			}
		}(i)
	}
	wg.Wait()
	nr := 0
	for _, x := range rops {
		nr += x
	}

	var sw []string
	for _, s := range sweeps {
		sw = append(sw, fmt.Sprintf("%s: ids=%v ops=%d depth<=%d faults at depth<%d", s.name, s.ids, len(opsOver(s.ids, s.kinds)), s.depth, s.faultDepth))
	}
	r.Extra["sweeps"] = sw
	r.Extra["tree_edges"] = tot.edges
	r.Extra["fault_runs"] = tot.faults
	r.Extra["full_grid_observations"] = tot.fulls
	r.Extra["full_grid_queries"] = len(full)
	r.Extra["basic_grid_queries"] = len(basicGrid)
	r.Extra["random_histories"] = nRandom
	r.Extra["random_ops"] = nr
	r.Finish("history trees: every sequence of Create/Put/Replace/Delete/Rebuild up to the depth bound over the sweep's IDs x {x,y} executed once per tree edge on a real Bolt file (file content restored per edge, store closed and reopened after every transaction), every FailAt(k) variant of every operation at the shallow nodes through the fault-injecting storage.Interface wrapper; after every operation Get for every ID and a basic grid of List/ReverseList before and after the reopen, the full (index,pattern,offset,limit,reverse) grid on the first visit of each raw store content, and the raw key dump; then seeded random long histories over all five IDs with random faults/reopens; non-trivial = one subtree per first operation, or one random history", true)
	return nil
}

// setReopenObs records the observation taken after the reopen.  ReopenSame is the
// statement "same observations as before the reopen": when the two are identical
// (compared as marshalled JSON) only the flag rsame is logged and the specification
// has nothing further to check; when they differ both are logged and TLC decides.
func setReopenObs(ev rt.M, rget, rlists []any) {
	a, err1 := json.Marshal([]any{ev["get"], ev["lists"]})
	b, err2 := json.Marshal([]any{rget, rlists})
	if err1 != nil || err2 != nil {
		rt.Fatalf("marshal observation: %v %v", err1, err2)
	}
	if bytes.Equal(a, b) {
		ev["rsame"] = true
		return
	}
	ev["rsame"] = false
	ev["rget"], ev["rlists"] = rget, rlists
}

func sampleTrace(r *rt.Run, tmp string) {
	t := r.NewTrace("sample")
	small := []query{{"id", "a*", 0, 1, false}, {"a", "", 1, -1, true}}
	w := &worker{t: t, file: filepath.Join(tmp, "sample.db"), full: small, seenFull: map[string]bool{},
		sw: sweep{name: "sample", ids: []string{"a", "ab"}}}
	t.Reset(resetCfg(w.sw.ids, small))
	var st []byte
	_, st = w.edge(st, op{"Create", "a", "y"}, 1, 1, 2, 0)
	_, st = w.edge(st, op{"Put", "ab", "x"}, 2, 2, 3, 0)
	w.edge(st, op{"Replace", "a", "x"}, 3, 3, 4, 2)
	_, st = w.edge(st, op{"Replace", "a", "x"}, 3, 3, 4, 0)
	w.edge(st, op{"Delete", "ab", ""}, 4, 4, 5, -1)
	w.edge(st, op{"Delete", "ab", ""}, 4, 4, 5, 0)
}

// randomHistory: one linear history (pre = post = 1) on a single open handle.
func randomHistory(t *rt.Trace, rng *rand.Rand, file string, full []query, n int) int {
	os.Remove(file)
	wrapAll := rng.Intn(2) == 0 // half of the histories run entirely through the (counting) wrapper
	t.Reset(resetCfg(allIDs, full))
	e, err := openEnv(file, wrapAll)
	if err != nil {
		rt.Fatalf("open: %v", err)
	}
	ops := opsOver(allIDs, allKinds)
	key := ""
	for k := 1; k <= n; k++ {
		o := ops[rng.Intn(len(ops))]
		if rng.Intn(8) == 0 {
			o = op{"Rebuild", "", ""}
		}
		failAt := 0
		if rng.Intn(4) == 0 {
			failAt = 1 + rng.Intn(4)
			if o.Kind == "Rebuild" {
				failAt = 1 + rng.Intn(24)
			}
			if rng.Intn(5) == 0 {
				failAt = -1 // tx.Commit fails
			}
		}
		if failAt != 0 && e.fs == nil {
			// switch to the wrapper for this operation: reopen wrapped
			e.close()
			if e, err = openEnv(file, true); err != nil {
				rt.Fatalf("open: %v", err)
			}
		}
		if e.fs != nil {
			e.fs.set(failAt)
		}
		res := e.apply(o, k)
		ev := rt.M{"pre": 1, "post": 1, "op": o.Kind, "id": o.ID, "a": o.A, "v": k,
			"failAt": failAt, "fired": false, "nw": -1, "res": res}
		if e.fs != nil {
			ev["fired"], ev["nw"] = e.fs.fired, e.fs.writes
		}
		ev["get"] = e.get(allIDs)
		ev["lists"] = e.lists(basicGrid)
		reopen := rng.Intn(4) == 0
		ev["reopened"] = reopen
		if reopen {
			e.close()
			if e, err = openEnv(file, wrapAll); err != nil {
				rt.Fatalf("reopen: %v", err)
			}
			setReopenObs(ev, e.get(allIDs), e.lists(basicGrid))
		} else if !wrapAll && e.fs != nil {
			e.close()
			if e, err = openEnv(file, false); err != nil {
				rt.Fatalf("reopen: %v", err)
			}
		}
		keys, _ := e.dump()
		ev["keys"] = keys
		if rng.Intn(10) == 0 {
			ev["full"] = e.lists(full)
		} else {
			ev["full"] = []any{}
		}
		t.Event("Op", ev)
		key += fmt.Sprintf("%s%d;", o, failAt)
	}
	e.close()
	t.Distinct(key)
	return n
}
