package c15

import (
	"bytes"
	"encoding/json"
	"fmt"
	"math/rand"
	"os"
	"path/filepath"
	"sync"
	"sync/atomic"

	"kapverif/rt"
)

func init() { rt.Register("c15", Run) }

// sweep: every history of length <= depth over ops(ids, kinds), walked depth
// first; with every FailAt(k) variant of every operation at nodes of depth < faultDepth.
type sweep struct {
	name       string
	ids        []string
	kinds      []string
	depth      int
	faultDepth int
}

var allKinds = []string{"Create", "Put", "Replace", "Delete", "Rebuild"}

type unit struct {
	sw    sweep
	first int // index of the first operation of the subtree
	ts    *txSweep
}

type worker struct {
	t         *rt.Trace
	dir       string
	file      string
	full      []query
	seenFull  map[string]bool
	ops       []op
	sw        sweep
	edges     int
	faults    int
	fulls     int
	lastFired bool
	txs       int
	forceWrap bool     // after a stuck operation: every transaction goes through the tracking wrapper
	gen       int      // store files abandoned so far (a stuck transaction keeps its file locked)
	stuckOps  []string // evidence
}

// diverted: some worker met a stuck operation; later random histories use the tracking wrapper only.
var diverted atomic.Bool

// attempt runs one edge.  If an operation in it does not return (stuck), the store file is
// abandoned (the blocked handle keeps its lock), the worker switches to a fresh file and to
// the tracking wrapper, and the edge is executed again: the wrapper then reports structurally
// whether Update left its transaction open (event field leaked, judged by the specification)
// and rolls it back, so the run continues.  A second stuck attempt is a broken harness.
func (w *worker) attempt(run func()) {
	for try := 0; ; try++ {
		ok := func() (ok bool) {
			defer func() {
				if r := recover(); r != nil {
					s, is := r.(stuck)
					if !is {
						panic(r)
					}
					if try > 0 {
						rt.Fatalf("%s did not return within %v even through the tracking wrapper", s.what, opDeadline)
					}
					w.stuckOps = append(w.stuckOps, s.what)
					w.gen++
					w.file = filepath.Join(w.dir, fmt.Sprintf("kapacitor-%d.db", w.gen))
					w.forceWrap = true
					diverted.Store(true)
				}
			}()
			run()
			return true
		}()
		if ok {
			return
		}
	}
}

// txSweep: multi-operation transactions (store.Update grouping txLen operations).
type txSweep struct {
	name      string
	ids       []string
	kinds     []string
	preambles [][]op
	txLen     int
}

func (w *worker) restore(state []byte) {
	if state == nil {
		os.Remove(w.file)
		return
	}
	if err := os.WriteFile(w.file, state, 0o600); err != nil {
		rt.Fatalf("restore: %v", err)
	}
}

func (w *worker) snapshot() []byte {
	b, err := os.ReadFile(w.file)
	if err != nil {
		rt.Fatalf("snapshot: %v", err)
	}
	return b
}

func resetCfg(ids []string, full []query) rt.M {
	return rt.M{"ids": ids, "glob": globTable(), "grid": gridM(full), "gridb": gridM(basicGrid), "gridt": gridM(txGrid)}
}

// edge executes one operation on the store file restored to `state`:
// open, apply, observe on the same handle, close, reopen, observe again
// (+ raw dump, + the full grid the first time this content is seen), close.
func (w *worker) edge(state []byte, o op, v, pre, post int, f flt) (res string, snap []byte) {
	w.attempt(func() { res, snap = w.edge1(state, o, v, pre, post, f) })
	return
}

func (w *worker) edge1(state []byte, o op, v, pre, post int, f flt) (string, []byte) {
	w.restore(state)
	e, err := openEnv(w.file, f.At != 0 || w.forceWrap || diverted.Load())
	if err != nil {
		rt.Fatalf("open: %v", err)
	}
	if e.fs != nil {
		e.fs.set(f)
	}
	res := e.apply(o, v)
	ev := rt.M{"pre": pre, "post": post, "op": o.Kind, "id": o.ID, "a": o.A, "v": v,
		"failAt": f.At, "fmode": f.mode(), "fired": false, "nw": -1, "leaked": false, "res": res}
	w.lastFired = false
	if e.fs != nil {
		ev["fired"], ev["nw"], ev["leaked"] = e.fs.fired, e.fs.writes, e.fs.leaked
		w.lastFired = e.fs.fired
	}
	w.observe(e, ev)
	w.t.Event("Op", ev)
	return res, w.snapshot()
}

// observe: observations on the handle that ran the transaction, then close, reopen,
// observe again, raw dump, full grid on the first visit of this content; closes the store.
func (w *worker) observe(e *env, ev rt.M) {
	ev["get"] = e.get(w.sw.ids)
	ev["lists"] = e.lists(basicGrid)
	e.close()
	// reopen after the (committed or rolled back) transaction
	e, err := openEnv(w.file, false)
	if err != nil {
		rt.Fatalf("reopen: %v", err)
	}
	ev["reopened"] = true
	setReopenObs(ev, e.get(w.sw.ids), e.lists(basicGrid))
	keys, raw := e.dump()
	ev["keys"] = keys
	if !w.seenFull[raw] {
		w.seenFull[raw] = true
		ev["full"] = e.lists(w.full)
		w.fulls++
	} else {
		ev["full"] = []any{}
	}
	e.close()
}

// txEdge executes one multi-operation transaction on the store file restored to `state`.
func (w *worker) txEdge(state []byte, ops []op, vbase, pre, post int, f flt, amode string) {
	w.attempt(func() { w.txEdge1(state, ops, vbase, pre, post, f, amode) })
}

func (w *worker) txEdge1(state []byte, ops []op, vbase, pre, post int, f flt, amode string) {
	w.restore(state)
	// the wrapper is also used for the aborting variants: it tells whether the transaction was left open
	e, err := openEnv(w.file, f.At != 0 || amode != "" || w.forceWrap || diverted.Load())
	if err != nil {
		rt.Fatalf("open: %v", err)
	}
	if e.fs != nil {
		e.fs.set(f)
	}
	// the transaction's lines are buffered: an attempt that gets stuck logs nothing
	type line struct {
		name string
		m    rt.M
	}
	var buf []line
	res := e.runTx(func(n string, m rt.M) { buf = append(buf, line{n, m}) }, w.sw.ids, ops, vbase, pre, f, amode)
	ev := rt.M{"post": post, "abort": amode != "", "fired": false, "nw": -1, "leaked": false, "res": res}
	w.lastFired = false
	if e.fs != nil {
		ev["fired"], ev["nw"], ev["leaked"] = e.fs.fired, e.fs.writes, e.fs.leaked
		w.lastFired = e.fs.fired
	}
	w.observe(e, ev)
	for _, l := range buf {
		w.t.Event(l.name, l.m)
	}
	w.t.Event("TxEnd", ev)
	w.txs++
}

// txUnit: from each pre-state (built by a preamble of single operations) every transaction
// of txLen operations whose first operation is ops[first]; at the first pre-state also the
// deliberately aborted variant, every FailAt(k) across the transaction's writes and a failing commit.
func (w *worker) txUnit(ts txSweep, first int) {
	for pi, pre := range ts.preambles {
		var state []byte
		for i, o := range pre {
			_, state = w.edge(state, o, i+1, i+1, i+2, flt{})
			w.edges++
		}
		slot := len(pre) + 1
		var rec func(seq []op)
		rec = func(seq []op) {
			if len(seq) < ts.txLen {
				for _, o := range w.ops {
					rec(append(seq[:len(seq):len(seq)], o))
				}
				return
			}
			vb := 10 * (len(pre) + 1)
			w.txEdge(state, seq, vb, slot, slot+1, flt{}, "")
			if pi == 0 {
				w.txEdge(state, seq, vb, slot, slot+1, flt{}, "abort")
				w.txEdge(state, seq, vb, slot, slot+1, flt{}, "panic")
				for _, pm := range []bool{false, true} {
					for k := 1; k <= 64; k++ {
						w.txEdge(state, seq, vb, slot, slot+1, flt{k, pm}, "")
						w.faults++
						if !w.lastFired {
							break
						}
					}
				}
				w.txEdge(state, seq, vb, slot, slot+1, flt{At: -1}, "")
				w.faults += 3
			}
		}
		rec([]op{w.ops[first]})
	}
}

func (w *worker) node(state []byte, depth int, only int) {
	// depth = number of operations already applied; slot of this node = depth+1
	for i, o := range w.ops {
		if only >= 0 && i != only {
			continue
		}
		if depth < w.sw.faultDepth {
			// the k-th write returns an error / panics (the update function panics after k-1 writes)
			for _, pm := range []bool{false, true} {
				for k := 1; ; k++ {
					w.edge(state, o, depth+1, depth+1, depth+2, flt{k, pm})
					w.faults++
					// the wrapper counted the writes: stop once k is beyond them (that run succeeded)
					if k > 64 {
						rt.Fatalf("fault loop does not terminate for %v", o)
					}
					if !w.lastFired {
						break
					}
				}
			}
			w.edge(state, o, depth+1, depth+1, depth+2, flt{At: -1}) // tx.Commit fails
			// the update function panics after its last write, before it returns
			w.txEdge(state, []op{o}, depth+1, depth+1, depth+2, flt{}, "panic")
			w.faults += 2
		}
		_, child := w.edge(state, o, depth+1, depth+1, depth+2, flt{})
		w.edges++
		if depth+1 < w.sw.depth {
			w.node(child, depth+1, -1)
		}
	}
}

// Run: B1 - systematic history trees and seeded random long histories on the real store.
func Run(r *rt.Run) error {
	base := "/dev/shm"
	if st, err := os.Stat(base); err != nil || !st.IsDir() {
		base = os.TempDir()
	}
	tmp, err := os.MkdirTemp(base, "kvh-c15-")
	if err != nil {
		return err
	}
	defer os.RemoveAll(tmp)

	full := fullGrid()
	// a tiny scripted history first: readable evidence samples
	sampleTrace(r, tmp)

	var sweeps []sweep
	var txSweeps []txSweep
	nRandom, randLen := 120, 40
	cr := func(id, a string) op { return op{"Create", id, a} }
	cpd := []string{"Create", "Put", "Delete", "Rebuild"}
	if r.Thorough() {
		sweeps = []sweep{
			{"plain3", []string{"a", "ab", "b"}, allKinds, 4, 2},
			{"empty", []string{"", "..", "a"}, allKinds, 3, 2},
			{"dots4", []string{"", ".", "..", "a"}, allKinds, 2, 1},
			{"deep2", []string{"a", "ab"}, []string{"Put", "Replace", "Delete", "Rebuild"}, 5, 1},
			{"deepest", []string{"a", "ab"}, []string{"Put", "Delete"}, 6, 0},
		}
		txSweeps = []txSweep{
			{"tx2", []string{"", "a", "ab"}, allKinds, [][]op{{}, {cr("a", "x")}, {cr("a", "y")}, {cr("ab", "x")}, {cr("", "y")}, {cr("a", "x"), cr("ab", "x")}}, 2},
			{"tx3", []string{"a", "ab"}, cpd, [][]op{{}, {cr("a", "x")}}, 3},
		}
		nRandom, randLen = 1000, 60
	} else {
		sweeps = []sweep{
			{"plain3", []string{"a", "ab", "b"}, allKinds, 3, 2},
			{"plain2", []string{"a", "ab"}, []string{"Put", "Replace", "Delete", "Rebuild"}, 4, 1},
			{"empty", []string{"", "..", "a"}, allKinds, 3, 1},
			{"dots4", []string{"", ".", "..", "a"}, allKinds, 2, 0},
		}
		txSweeps = []txSweep{
			{"tx2", []string{"a", "ab"}, allKinds, [][]op{{}, {cr("a", "x")}, {cr("a", "y")}, {cr("ab", "x")}, {cr("a", "x"), cr("ab", "x")}}, 2},
			{"tx2e", []string{"", "a"}, cpd, [][]op{{}, {cr("", "x")}}, 2},
		}
	}
	if v := os.Getenv("C15_NRANDOM"); v != "" {
		fmt.Sscan(v, &nRandom)
	}

	// units -> a fixed number of trace files, each processed sequentially by one goroutine
	nFiles, rfiles := 8, 2
	if r.Thorough() {
		nFiles, rfiles = 64, 8
	}
	var units []unit
	for _, sw := range sweeps {
		for i := range opsOver(sw.ids, sw.kinds) {
			units = append(units, unit{sw: sw, first: i})
		}
	}
	for k := range txSweeps {
		ts := &txSweeps[k]
		for i := range opsOver(ts.ids, ts.kinds) {
			units = append(units, unit{sw: sweep{name: ts.name, ids: ts.ids, kinds: ts.kinds}, first: i, ts: ts})
		}
	}
	traces := make([]*rt.Trace, nFiles)
	for i := range traces {
		traces[i] = r.NewTrace(fmt.Sprintf("tree%02d", i))
	}
	type stat struct{ edges, faults, fulls, txs int }
	var stuckMu sync.Mutex
	stuckAll := []string{}
	stats := make([]stat, nFiles)
	var wg sync.WaitGroup
	sem := make(chan struct{}, 12)
	for f := 0; f < nFiles; f++ {
		wg.Add(1)
		go func(f int) {
			defer wg.Done()
			sem <- struct{}{}
			defer func() { <-sem }()
			dir := filepath.Join(tmp, fmt.Sprintf("w%02d", f))
			os.MkdirAll(dir, 0o755)
			seen := map[string]bool{} // raw store contents whose full grid this file already holds
			for ui := f; ui < len(units); ui += nFiles {
				u := units[ui]
				w := &worker{t: traces[f], dir: dir, file: filepath.Join(dir, "kapacitor.db"), full: full,
					seenFull: seen, ops: opsOver(u.sw.ids, u.sw.kinds), sw: u.sw}
				w.t.Reset(resetCfg(u.sw.ids, full))
				if u.ts != nil {
					w.txUnit(*u.ts, u.first)
				} else {
					w.node(nil, 0, u.first)
				}
				stats[f].txs += w.txs
				stuckMu.Lock()
				stuckAll = append(stuckAll, w.stuckOps...)
				stuckMu.Unlock()
				stats[f].edges += w.edges
				stats[f].faults += w.faults
				stats[f].fulls += w.fulls
				w.t.Distinct(fmt.Sprintf("%s/%d", u.sw.name, u.first))
			}
		}(f)
	}
	wg.Wait()
	tot := stat{}
	for _, s := range stats {
		tot.edges += s.edges
		tot.faults += s.faults
		tot.fulls += s.fulls
		tot.txs += s.txs
	}

	// seeded random long histories over all five IDs on one open handle, with random
	// faults, reopens and full-grid observations
	rtr := make([]*rt.Trace, rfiles)
	seeds := make([]int64, rfiles)
	for i := range rtr {
		rtr[i] = r.NewTrace(fmt.Sprintf("rand%02d", i))
		seeds[i] = r.Rand.Int63()
	}
	rops := make([]int, rfiles)
	for i := 0; i < rfiles; i++ {
		wg.Add(1)
		go func(i int) {
			defer wg.Done()
			rng := rand.New(rand.NewSource(seeds[i]))
			dir := filepath.Join(tmp, fmt.Sprintf("r%02d", i))
			os.MkdirAll(dir, 0o755)
			for n := i; n < nRandom; n += rfiles {
				rops[i] += randomHistory(rtr[i], rng, filepath.Join(dir, "kapacitor.db"), full, randLen)
			}
		}(i)
	}
	wg.Wait()
	nr := 0
	for _, x := range rops {
		nr += x
	}

	var sw []string
	for _, s := range sweeps {
		sw = append(sw, fmt.Sprintf("%s: ids=%v ops=%d depth<=%d faults at depth<%d", s.name, s.ids, len(opsOver(s.ids, s.kinds)), s.depth, s.faultDepth))
	}
	for _, s := range txSweeps {
		sw = append(sw, fmt.Sprintf("%s: ids=%v ops=%d transactions of %d operations from %d pre-states (abort / panic-at-end / FailAt(k) as error and as panic / failing-commit variants at the first)", s.name, s.ids, len(opsOver(s.ids, s.kinds)), s.txLen, len(s.preambles)))
	}
	r.Extra["sweeps"] = sw
	r.Extra["transactions"] = tot.txs
	if len(stuckAll) > 8 {
		stuckAll = stuckAll[:8]
	}
	r.Extra["stuck_operations_rerun_through_tracking_wrapper"] = stuckAll
	r.Extra["tree_edges"] = tot.edges
	r.Extra["fault_runs"] = tot.faults
	r.Extra["full_grid_observations"] = tot.fulls
	r.Extra["full_grid_queries"] = len(full)
	r.Extra["basic_grid_queries"] = len(basicGrid)
	r.Extra["random_histories"] = nRandom
	r.Extra["random_ops"] = nr
	r.Finish("history trees: every sequence of Create/Put/Replace/Delete/Rebuild up to the depth bound over the sweep's IDs x {x,y} executed once per tree edge on a real Bolt file (file content restored per edge, store closed and reopened after every transaction), every FailAt(k) variant of every operation at the shallow nodes through the fault-injecting storage.Interface wrapper; after every operation Get for every ID and a basic grid of List/ReverseList before and after the reopen, the full (index,pattern,offset,limit,reverse) grid on the first visit of each raw store content, and the raw key dump; then seeded random long histories over all five IDs with random faults/reopens; non-trivial = one subtree per first operation, or one random history", true)
	return nil
}

// setReopenObs records the observation taken after the reopen.  ReopenSame is the
// statement "same observations as before the reopen": when the two are identical
// (compared as marshalled JSON) only the flag rsame is logged and the specification
// has nothing further to check; when they differ both are logged and TLC decides.
func setReopenObs(ev rt.M, rget, rlists []any) {
	a, err1 := json.Marshal([]any{ev["get"], ev["lists"]})
	b, err2 := json.Marshal([]any{rget, rlists})
	if err1 != nil || err2 != nil {
		rt.Fatalf("marshal observation: %v %v", err1, err2)
	}
	if bytes.Equal(a, b) {
		ev["rsame"] = true
		return
	}
	ev["rsame"] = false
	ev["rget"], ev["rlists"] = rget, rlists
}

func sampleTrace(r *rt.Run, tmp string) {
	t := r.NewTrace("sample")
	small := []query{{"id", "a*", 0, 1, false}, {"a", "", 1, -1, true}}
	w := &worker{t: t, dir: tmp, file: filepath.Join(tmp, "sample.db"), full: small, seenFull: map[string]bool{},
		sw: sweep{name: "sample", ids: []string{"", "a", "ab"}}}
	t.Reset(resetCfg(w.sw.ids, small))
	var st []byte
	_, st = w.edge(st, op{"Create", "a", "y"}, 1, 1, 2, flt{})
	_, st = w.edge(st, op{"Put", "ab", "x"}, 2, 2, 3, flt{})
	w.edge(st, op{"Replace", "a", "x"}, 3, 3, 4, flt{At: 2})
	w.edge(st, op{"Replace", "a", "x"}, 3, 3, 4, flt{At: 3, Panic: true})
	_, st = w.edge(st, op{"Replace", "a", "x"}, 3, 3, 4, flt{})
	w.edge(st, op{"Delete", "ab", ""}, 4, 4, 5, flt{At: -1})
	_, st = w.edge(st, op{"Delete", "ab", ""}, 4, 4, 5, flt{})
	w.txEdge(st, []op{{"Create", "", "y"}, {"Delete", "a", ""}, {"Rebuild", "", ""}}, 50, 5, 6, flt{}, "")
	w.txEdge(st, []op{{"Put", "ab", "x"}, {"Create", "b", "y"}}, 50, 5, 6, flt{At: 5, Panic: true}, "")
	w.txEdge(st, []op{{"Put", "ab", "x"}, {"Create", "a", "y"}}, 50, 5, 6, flt{}, "")
}

// randomHistory: one linear history (pre = post = 1) on a single open handle; one step in
// five is a multi-operation transaction (2-3 operations, sometimes aborted deliberately).
func randomHistory(t *rt.Trace, rng *rand.Rand, file string, full []query, n int) int {
	os.Remove(file)
	wrapAll := rng.Intn(2) == 0 // half of the histories run entirely through the (counting) wrapper
	if diverted.Load() {
		wrapAll = true // a transaction got stuck earlier in this run: only the tracking wrapper is safe
	}
	defer func() {
		if r := recover(); r != nil {
			if s, ok := r.(stuck); ok {
				rt.Fatalf("random history: %s did not return within %v (transaction left open?)", s.what, opDeadline)
			}
			panic(r)
		}
	}()
	t.Reset(resetCfg(allIDs, full))
	e, err := openEnv(file, wrapAll)
	if err != nil {
		rt.Fatalf("open: %v", err)
	}
	ops := opsOver(allIDs, allKinds)
	pick := func() op {
		if rng.Intn(8) == 0 {
			return op{"Rebuild", "", ""}
		}
		return ops[rng.Intn(len(ops))]
	}
	key := ""
	for k := 1; k <= n; k++ {
		var seq []op
		amode := ""
		if rng.Intn(5) == 0 {
			for i := 1 + rng.Intn(3); i > 0; i-- {
				seq = append(seq, pick())
			}
			amode = []string{"", "", "", "", "", "", "abort", "panic"}[rng.Intn(8)]
		}
		o := pick()
		failAt := 0
		if rng.Intn(4) == 0 {
			failAt = 1 + rng.Intn(4)
			if o.Kind == "Rebuild" || seq != nil {
				failAt = 1 + rng.Intn(24)
			}
			if rng.Intn(5) == 0 {
				failAt = -1 // tx.Commit fails
			}
		}
		f := flt{At: failAt, Panic: failAt > 0 && rng.Intn(3) == 0}
		if failAt != 0 && e.fs == nil {
			// switch to the wrapper for this operation: reopen wrapped
			e.close()
			if e, err = openEnv(file, true); err != nil {
				rt.Fatalf("open: %v", err)
			}
		}
		if e.fs != nil {
			e.fs.set(f)
		}
		var ev rt.M
		name := "Op"
		if seq != nil {
			name = "TxEnd"
			res := e.runTx(t.Event, allIDs, seq, 100*k, 1, f, amode)
			ev = rt.M{"post": 1, "abort": amode != "", "fired": false, "nw": -1, "leaked": false, "res": res}
			key += fmt.Sprintf("T%v%v%v;", seq, f, amode)
		} else {
			res := e.apply(o, k)
			ev = rt.M{"pre": 1, "post": 1, "op": o.Kind, "id": o.ID, "a": o.A, "v": k,
				"failAt": failAt, "fmode": f.mode(), "fired": false, "nw": -1, "leaked": false, "res": res}
			key += fmt.Sprintf("%s%v;", o, f)
		}
		if e.fs != nil {
			ev["fired"], ev["nw"], ev["leaked"] = e.fs.fired, e.fs.writes, e.fs.leaked
		}
		ev["get"] = e.get(allIDs)
		ev["lists"] = e.lists(basicGrid)
		reopen := rng.Intn(4) == 0
		ev["reopened"] = reopen
		if reopen {
			e.close()
			if e, err = openEnv(file, wrapAll); err != nil {
				rt.Fatalf("reopen: %v", err)
			}
			setReopenObs(ev, e.get(allIDs), e.lists(basicGrid))
		} else if !wrapAll && e.fs != nil {
			e.close()
			if e, err = openEnv(file, false); err != nil {
				rt.Fatalf("reopen: %v", err)
			}
		}
		keys, _ := e.dump()
		ev["keys"] = keys
		if rng.Intn(10) == 0 {
			ev["full"] = e.lists(full)
		} else {
			ev["full"] = []any{}
		}
		t.Event(name, ev)
	}
	e.close()
	t.Distinct(key)
	return n
}
