// Package c15 drives the real services/storage.IndexedStore over a real Bolt
// file (and over a fault-injecting storage.Interface wrapper) through operation
// histories and records, per operation, the API-level observations the trace
// specification spec/IndexedStore/IndexedStoreTrace.tla validates.
package c15

import (
	"encoding/json"
	"errors"
	"fmt"
	"path"
	"strings"
	"time"

	"github.com/influxdata/kapacitor/services/storage"
	bolt "go.etcd.io/bbolt"

	"kapverif/rt"
)

const (
	bucket = "c15"
	prefix = "p"
)

// obj is the stored object: unique id, secondary index value a, payload version v.
// It is encoded like the real DAOs do, through storage.VersionJSONEncode/Decode.
type obj struct {
	ID string `json:"id"`
	A  string `json:"a"`
	V  int    `json:"v"`
}

func (o *obj) ObjectID() string { return o.ID }
func (o *obj) MarshalBinary() ([]byte, error) {
	return storage.VersionJSONEncode(1, o)
}
func (o *obj) UnmarshalBinary(data []byte) error {
	return storage.VersionJSONDecode(data, func(version int, dec *json.Decoder) error {
		if version != 1 {
			return fmt.Errorf("unexpected version %d", version)
		}
		return dec.Decode(o)
	})
}

func storeConfig() storage.IndexedStoreConfig {
	c := storage.DefaultIndexedStoreConfig(prefix, func() storage.BinaryObject { return new(obj) })
	c.Indexes = append(c.Indexes, storage.Index{
		Name: "a",
		ValueFunc: func(o storage.BinaryObject) (string, error) {
			x, ok := o.(*obj)
			if !ok {
				return "", storage.ImpossibleTypeErr(x, o)
			}
			return x.A, nil
		},
	})
	// unique secondary index: an optional alias, empty for (id "a", a "x"), distinct otherwise
	c.Indexes = append(c.Indexes, storage.Index{
		Name:   "u",
		Unique: true,
		ValueFunc: func(o storage.BinaryObject) (string, error) {
			x, ok := o.(*obj)
			if !ok {
				return "", storage.ImpossibleTypeErr(x, o)
			}
			if x.ID == "a" && x.A == "x" {
				return "", nil
			}
			return x.ID + x.A, nil
		},
	})
	return c
}

// ---- fault injection: fails the k-th write (Put/Delete) of a transaction ----

var errInjected = errors.New("injected write failure")

// flt is one injected fault: the At-th write (Put/Delete) of the transaction returns an
// error or - Panic - panics (the update function panics after At-1 writes; the driver
// recovers it like the HTTP recovery middleware would); At = -1: tx.Commit fails.
type flt struct {
	At    int
	Panic bool
}

func (f flt) mode() string {
	if f.Panic {
		return "panic"
	}
	return "err"
}

type injectedPanic struct{}

type faultStore struct {
	inner      storage.Interface
	op         storage.TxOperator // the same store as a TxOperator (storage.Bolt is one)
	failAt     int                // fail the k-th write; 0: never
	panicMode  bool               // the k-th write panics instead of returning an error
	failCommit bool               // fail tx.Commit
	writes     int                // writes issued by the last Update
	fired      bool
	open       storage.Tx // the underlying transaction of the running Update while neither committed nor rolled back
	leaked     bool       // the last Update ended (returned or panicked) with its transaction still open
}

func (f *faultStore) set(x flt) {
	f.failAt, f.failCommit, f.panicMode = x.At, false, x.Panic
	if x.At < 0 {
		f.failAt, f.failCommit = 0, true
	}
}

func (f *faultStore) View(fn func(storage.ReadOnlyTx) error) error { return f.inner.View(fn) }

// Update runs the repository's own storage.DoUpdate (begin, f, commit, deferred
// rollback) over transactions whose writes and commit can be made to fail or panic.
// If DoUpdate ends - by returning or by a panic passing through - while its transaction
// was neither committed nor rolled back, that is recorded (leaked) and the transaction is
// rolled back here, so that the store stays usable and the driver never blocks on Bolt's
// writer lock: the outcome is judged by the specification, not by a timeout.
func (f *faultStore) Update(fn func(storage.Tx) error) error {
	f.writes, f.fired, f.leaked, f.open = 0, false, false, nil
	if f.op == nil {
		return f.inner.Update(func(tx storage.Tx) error { return fn(&faultTx{Tx: tx, f: f}) })
	}
	defer func() {
		if f.open != nil {
			f.leaked = true
			f.open.Rollback()
			f.open = nil
		}
	}()
	return storage.DoUpdate(faultOperator{f}, fn)
}
func (f *faultStore) Store(b ...[]byte) storage.Interface {
	in := f.inner.Store(b...)
	op, _ := in.(storage.TxOperator)
	return &faultStore{inner: in, op: op, failAt: f.failAt, failCommit: f.failCommit, panicMode: f.panicMode}
}

type faultOperator struct{ f *faultStore }

func (o faultOperator) BeginTx() (storage.Tx, error) {
	tx, err := o.f.op.BeginTx()
	if err != nil {
		return nil, err
	}
	o.f.open = tx
	return &faultTx{Tx: tx, f: o.f}, nil
}
func (o faultOperator) BeginReadOnlyTx() (storage.ReadOnlyTx, error) { return o.f.op.BeginReadOnlyTx() }

type faultTx struct {
	storage.Tx
	f *faultStore
}

func (t *faultTx) hit() bool {
	t.f.writes++
	if t.f.writes == t.f.failAt {
		t.f.fired = true
		if t.f.panicMode {
			panic(injectedPanic{})
		}
		return true
	}
	return false
}
func (t *faultTx) Put(k string, v []byte) error {
	if t.hit() {
		return errInjected
	}
	return t.Tx.Put(k, v)
}
func (t *faultTx) Delete(k string) error {
	if t.hit() {
		return errInjected
	}
	return t.Tx.Delete(k)
}

// Commit: an injected commit failure behaves like a failing bbolt commit, which rolls the
// transaction back itself before it returns the error.
func (t *faultTx) Commit() error {
	t.f.open = nil
	if t.f.failCommit {
		t.f.fired = true
		t.Tx.Rollback()
		return errInjected
	}
	return t.Tx.Commit()
}
func (t *faultTx) Rollback() error {
	t.f.open = nil
	return t.Tx.Rollback()
}
func (t *faultTx) Bucket(name []byte) storage.Tx { return &faultTx{Tx: t.Tx.Bucket(name), f: t.f} }

// ---- one open store ----

type env struct {
	bs *rt.BoltStore
	is *storage.IndexedStore
	fs *faultStore // nil: IndexedStore sits directly on storage.Bolt
}

func openEnv(file string, wrap bool) (*env, error) {
	bs, err := rt.NewBoltStore(file, true, nil)
	if err != nil {
		return nil, err
	}
	e := &env{bs: bs}
	var st storage.Interface = bs.Store(bucket)
	if wrap {
		e.fs = &faultStore{inner: st}
		e.fs.op, _ = st.(storage.TxOperator)
		if e.fs.op == nil {
			bs.CloseBolt()
			return nil, errors.New("storage.Bolt is no longer a TxOperator: adapt the fault wrapper")
		}
		st = e.fs
	}
	e.is, err = storage.NewIndexedStore(st, storeConfig())
	if err != nil {
		bs.CloseBolt()
		return nil, err
	}
	return e, nil
}

func (e *env) close() {
	// bolt's Close waits for open transactions: bound it like an operation
	if res := guarded("close", func() error { return e.bs.CloseBolt() }); res != "ok" {
		rt.Fatalf("close bolt: %v", res)
	}
}

// ---- operations ----

type op struct {
	Kind string // Create | Put | Replace | Delete | Rebuild
	ID   string
	A    string
}

func (o op) String() string { return o.Kind + "(" + o.ID + "," + o.A + ")" }

var errAbort = errors.New("deliberate abort of the transaction")

func resOf(err error) string {
	switch {
	case err == nil:
		return "ok"
	case err == storage.ErrObjectExists:
		return "exists"
	case err == storage.ErrNoObjectExists:
		return "noexist"
	case err == errAbort:
		return "abort"
	default:
		return "err"
	}
}

// applyTx: one operation inside an open read/write transaction.
func (e *env) applyTx(tx storage.Tx, o op, v int) error {
	switch o.Kind {
	case "Create":
		return e.is.CreateTx(tx, &obj{o.ID, o.A, v})
	case "Put":
		return e.is.PutTx(tx, &obj{o.ID, o.A, v})
	case "Replace":
		return e.is.ReplaceTx(tx, &obj{o.ID, o.A, v})
	case "Delete":
		return e.is.DeleteTx(tx, o.ID)
	case "Rebuild":
		return e.is.RebuildTx(tx)
	}
	rt.Fatalf("unknown op %q", o.Kind)
	return nil
}

// runTx: store.Update grouping several operations; after each successful one GetTx of
// every ID and ListTx over the in-transaction grid are observed INSIDE the transaction.
// The function returns the first operation error (rollback), errAbort if abort is set
// (rollback), nil otherwise (commit).  Emits TxBegin and TxOp lines; the caller emits TxEnd.
// amode: "" (return nil: commit), "abort" (return errAbort at the end), "panic" (panic at the end).
func (e *env) runTx(emit func(string, rt.M), ids []string, ops []op, vbase, pre int, f flt, amode string) string {
	emit("TxBegin", rt.M{"pre": pre, "failAt": f.At, "fmode": f.mode(), "n": len(ops)})
	return guarded("transaction", func() error {
		return e.is.Store().Update(func(tx storage.Tx) error {
			for i, o := range ops {
				ev := rt.M{"op": o.Kind, "id": o.ID, "a": o.A, "v": vbase + i}
				logged := false
				err := func() error {
					// a panic inside the operation passes through (no recover here); the line is still logged
					defer func() {
						if !logged {
							ev["res"], ev["fired"] = "panic", e.fs != nil && e.fs.fired
							emit("TxOp", ev)
						}
					}()
					err := e.applyTx(tx, o, vbase+i)
					ev["res"], ev["fired"] = resOf(err), e.fs != nil && e.fs.fired
					if err == nil {
						ev["get"] = e.getTx(tx, ids)
						ev["lists"] = e.listsTx(tx, txGrid)
					}
					emit("TxOp", ev)
					logged = true
					return err
				}()
				if err != nil {
					return err
				}
			}
			switch amode {
			case "abort":
				return errAbort
			case "panic":
				panic(injectedPanic{})
			}
			return nil
		})
	})
}

// stuck is thrown (as a panic in the calling goroutine) by guarded when an operation does
// not return: the harness then diagnoses the cause structurally (see worker.attempt).
type stuck struct{ what string }

// opDeadline only triggers a diagnosis, it never decides a verdict.
const opDeadline = 20 * time.Second

// guarded runs one store operation: an injected panic is recovered here (the caller above
// the store survives it, as kapacitor's HTTP recovery middleware does) and reported as
// result "panic".  An operation that does not return within the deadline most likely waits
// for Bolt's writer lock behind a transaction that was neither committed nor rolled back.
func guarded(what string, f func() error) string {
	done := make(chan string, 1)
	go func() {
		defer func() {
			if r := recover(); r != nil {
				if _, ok := r.(injectedPanic); !ok {
					rt.Fatalf("unexpected panic in %s: %v", what, r)
				}
				done <- "panic"
			}
		}()
		done <- resOf(f())
	}()
	timer := time.NewTimer(opDeadline)
	defer timer.Stop()
	select {
	case res := <-done:
		return res
	case <-timer.C:
		panic(stuck{what})
	}
}

func (e *env) getTx(tx storage.Tx, ids []string) []any {
	out := make([]any, len(ids))
	for i, id := range ids {
		o, err := e.is.GetTx(tx, id)
		switch {
		case err == storage.ErrNoObjectExists:
			out[i] = [][]any{}
		case err != nil:
			out[i] = errM(err)
		default:
			out[i] = [][]any{objM(o)}
		}
	}
	return out
}

func (e *env) listsTx(tx storage.Tx, qs []query) []any {
	out := make([]any, len(qs))
	for i, q := range qs {
		objs, err := e.is.ListTx(tx, q.Idx, q.Pat, q.Off, q.Lim)
		if err != nil {
			out[i] = errM(err)
			continue
		}
		l := make([][]any, len(objs))
		for j, o := range objs {
			l[j] = objM(o)
		}
		out[i] = l
	}
	return out
}

func (e *env) apply(o op, v int) string {
	return guarded(o.String(), func() error {
		switch o.Kind {
		case "Create":
			return e.is.Create(&obj{o.ID, o.A, v})
		case "Put":
			return e.is.Put(&obj{o.ID, o.A, v})
		case "Replace":
			return e.is.Replace(&obj{o.ID, o.A, v})
		case "Delete":
			return e.is.Delete(o.ID)
		case "Rebuild":
			return e.is.Rebuild()
		}
		rt.Fatalf("unknown op %q", o.Kind)
		return nil
	})
}

// ---- observations ----

type query struct {
	Idx string `json:"idx"`
	Pat string `json:"pat"`
	Off int    `json:"off"`
	Lim int    `json:"lim"`
	Rev bool   `json:"rev"`
}

func (q query) m() rt.M {
	return rt.M{"idx": q.Idx, "pat": q.Pat, "off": q.Off, "lim": q.Lim, "rev": q.Rev}
}

// an object is logged as [id, a, v]
func objM(o storage.BinaryObject) []any {
	x := o.(*obj)
	return []any{x.ID, x.A, x.V}
}

func errM(err error) [][]any { return [][]any{{"!error", err.Error(), -1}} }

func (e *env) get(ids []string) []any {
	out := make([]any, len(ids))
	for i, id := range ids {
		o, err := e.is.Get(id)
		switch {
		case err == storage.ErrNoObjectExists:
			out[i] = [][]any{}
		case err != nil:
			out[i] = errM(err)
		default:
			out[i] = [][]any{objM(o)}
		}
	}
	return out
}

func (e *env) list(q query) [][]any {
	var objs []storage.BinaryObject
	var err error
	if q.Rev {
		objs, err = e.is.ReverseList(q.Idx, q.Pat, q.Off, q.Lim)
	} else {
		objs, err = e.is.List(q.Idx, q.Pat, q.Off, q.Lim)
	}
	if err != nil {
		return errM(err)
	}
	out := make([][]any, len(objs))
	for i, o := range objs {
		out[i] = objM(o)
	}
	return out
}

func (e *env) lists(qs []query) []any {
	out := make([]any, len(qs))
	for i, q := range qs {
		out[i] = e.list(q)
	}
	return out
}

// dump: every key of the bucket in Bolt cursor order, with decoded values
// (drift level: compared literally with the model's kv).
// Entries are [key, id, a, v] for data keys and [key, ref, "", -1] for index keys.
func (e *env) dump() ([][]any, string) {
	out := [][]any{}
	var sb strings.Builder
	err := e.bs.DB.View(func(tx *bolt.Tx) error {
		b := tx.Bucket([]byte(bucket))
		if b == nil {
			return nil
		}
		return b.ForEach(func(k, v []byte) error {
			key := string(k)
			sb.WriteString(key)
			sb.WriteByte('=')
			sb.Write(v)
			sb.WriteByte('\n')
			if strings.HasPrefix(key, "/"+prefix+"/data/") {
				var o obj
				if err := o.UnmarshalBinary(v); err != nil {
					out = append(out, []any{key, "!undecodable", string(v), -1})
					return nil
				}
				out = append(out, []any{key, o.ID, o.A, o.V})
			} else {
				out = append(out, []any{key, string(v), "", -1})
			}
			return nil
		})
	})
	if err != nil {
		rt.Fatalf("dump: %v", err)
	}
	return out, sb.String()
}

// ---- alphabets ----

var allIDs = []string{"", ".", "..", "a", "ab", "b"}
var vals = []string{"x", "y"}
var patterns = []string{"a*", "*b", "?", "*", "a", "ab", ".*", "??"}

// globTable is path.Match as Go computes it, logged so that the specification's
// table is checked against the library rather than assumed.
func globTable() rt.M {
	g := rt.M{}
	for _, p := range patterns {
		m := []string{}
		for _, id := range allIDs {
			if ok, _ := path.Match(p, id); ok {
				m = append(m, id)
			}
		}
		g[p] = m
	}
	return g
}

// basicGrid is observed after every operation; it contains limit<0 queries with
// a pattern and with an offset, and paginated forward/reverse queries.
var basicGrid = []query{
	{"id", "", 0, -1, false}, {"a", "", 0, -1, false}, {"u", "", 0, -1, false}, {"id", "", 0, -1, true}, {"a", "", 0, -1, true},
	{"id", "a*", 0, -1, false}, {"a", "", 1, -1, false}, {"id", "*b", 1, 1, false}, {"a", "?", 0, 2, true},
	{"u", "*", 1, 2, true}, {"id", "a", 1, 2, false},
}

// txGrid is observed with ListTx inside multi-operation transactions (there is no ReverseListTx for a storage.Tx).
var txGrid = []query{
	{"id", "", 0, -1, false}, {"a", "", 0, -1, false}, {"u", "", 0, -1, false}, {"id", "a*", 1, -1, false}, {"a", "", 1, 2, false},
}

// fullGrid is observed the first time a raw store content is seen (per unit).
func fullGrid() []query {
	var g []query
	for _, idx := range []string{"id", "a", "u"} {
		for _, pat := range []string{"", "a*", "*b", "?", "*", "??", "ab"} {
			for _, off := range []int{0, 1, 2, 3} {
				for _, lim := range []int{-1, 0, 1, 2, 100} {
					for _, rev := range []bool{false, true} {
						g = append(g, query{idx, pat, off, lim, rev})
					}
				}
			}
		}
	}
	return g
}

func gridM(qs []query) []rt.M {
	out := make([]rt.M, len(qs))
	for i, q := range qs {
		out[i] = q.m()
	}
	return out
}

func opsOver(ids []string, kinds []string) []op {
	var out []op
	for _, k := range kinds {
		switch k {
		case "Create", "Put", "Replace":
			for _, id := range ids {
				for _, a := range vals {
					out = append(out, op{k, id, a})
				}
			}
		case "Delete":
			for _, id := range ids {
				out = append(out, op{k, id, ""})
			}
		case "Rebuild":
			out = append(out, op{k, "", ""})
		}
	}
	return out
}
