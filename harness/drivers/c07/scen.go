package c07

import (
	"fmt"
	"strings"

	"kapverif/rt"
)

const influxOut = `|influxDBOut().database('o').retentionPolicy('rp').flushInterval(1h)`

var pipes = map[string]pipeSpec{
	// influxDBOut with its own write-buffer goroutine; buffer(1) writes every point at once
	"influx1": {Buf: 1, Counted: true, Meas: []string{"m"}, Outs: []outSpec{{"db", "influx", "m"}},
		Script: func(a *attempt) string { return `stream|from().measurement('m')` + influxOut + `.buffer(1)` }},
	// buffer(3): full batches of 3 plus a partial tail that only the final flush writes
	"influx3": {Buf: 3, Counted: true, Meas: []string{"m"}, Outs: []outSpec{{"db", "influx", "m"}},
		Script: func(a *attempt) string { return `stream|from().measurement('m')` + influxOut + `.buffer(3)` }},
	// default-size buffer: nothing is written before the final flush
	"influxbig": {Buf: 1000, Counted: true, Meas: []string{"m"}, Outs: []outSpec{{"db", "influx", "m"}},
		Script: func(a *attempt) string { return `stream|from().measurement('m')` + influxOut }},
	// chain of three processing nodes in front of the output
	"chain": {Buf: 1, Counted: true, Meas: []string{"m"}, Outs: []outSpec{{"db", "influx", "m"}},
		Script: func(a *attempt) string {
			return `stream|from().measurement('m')|default().tag('k','v')|where(lambda: TRUE)` + influxOut + `.buffer(1)`
		}},
	// alert node with a handler of its own (anonymous topic, closed by the node)
	"alert": {Counted: true, Meas: []string{"m"}, Outs: []outSpec{{"h", "alert", "m"}},
		Script: func(a *attempt) string {
			return `stream|from().measurement('m')|alert().crit(lambda: TRUE).talk()`
		}},
	// synchronous sinks
	"log": {Counted: true, Meas: []string{"m"}, Outs: []outSpec{{"s", "log", "m"}},
		Script: func(a *attempt) string { return `stream|from().measurement('m')|log().prefix('s')` }},
	"post": {Counted: true, Meas: []string{"m"}, Outs: []outSpec{{"p", "httppost", "m"}},
		Script: func(a *attempt) string {
			return fmt.Sprintf(`stream|from().measurement('m')|httpPost('%s')`, a.post.URL(a.id))
		}},
	"loopback": {Counted: true, Meas: []string{"m"}, Outs: []outSpec{{"lb", "loopback", "m"}},
		Script: func(a *attempt) string {
			return `stream|from().measurement('m')|kapacitorLoopback().database('db2').retentionPolicy('rp')`
		},
		Second: func(a *attempt) string { return `stream|from().measurement('m')|log().prefix('lb')` }},
	// fork: one parent feeding two outputs
	"fork": {Buf: 1, Counted: true, Meas: []string{"m"}, Outs: []outSpec{{"s", "log", "m"}, {"db", "influx", "m"}},
		Script: func(a *attempt) string {
			return "var f = stream|from().measurement('m')\nf|log().prefix('s')\nf" + influxOut + `.buffer(1)`
		}},
	// union: multi-consumer with one reader goroutine per parent
	"union": {Counted: true, Meas: []string{"m1", "m2"}, Outs: []outSpec{{"u", "log", "*"}},
		Script: func(a *attempt) string {
			return "var a = stream|from().measurement('m1')\nvar b = stream|from().measurement('m2')\na|union(b)|log().prefix('u')"
		}},
	// union feeding an alert node whose id template fails on the poison point (tag t missing)
	"unionalert": {Counted: true, Meas: []string{"m1", "m2"}, Outs: []outSpec{{"h", "alert", "*"}},
		Script: func(a *attempt) string {
			return "var a = stream|from().measurement('m1')\nvar b = stream|from().measurement('m2')\n" +
				`a|union(b)|alert().id('{{ slice (index .Tags "t") 1 }}').crit(lambda: TRUE).talk()`
		}},
	// join: pairs by time; unmatched points are dropped by design -> termination only
	"join": {Counted: false, Meas: []string{"m1", "m2"}, Outs: []outSpec{{"j", "log", "*"}},
		Script: func(a *attempt) string {
			return "var a = stream|from().measurement('m1')\nvar b = stream|from().measurement('m2')\na|join(b).as('a','b').tolerance(2s)|log().prefix('j')"
		}},
	// batch task: query node (own goroutine, ticker every 20ms) -> influxDBOut
	"batch": {Batch: true, Buf: 1, Counted: true, Meas: []string{"m"}, Outs: []outSpec{{"db", "influx", "m"}},
		Script: func(a *attempt) string {
			return `batch|query('SELECT seq FROM "db"."rp"."m"').period(1s).every(20ms)` + influxOut + `.buffer(1)`
		}},
	// UDF node (in-process mirror agent over pipes) in the middle
	"udf": {Counted: true, Meas: []string{"m"}, Outs: []outSpec{{"s", "log", "m"}},
		Script: func(a *attempt) string { return `stream|from().measurement('m')@mirror()|log().prefix('s')` }},
	// fork with a stats() node: its goroutine ends only through its stopF
	"stats": {Counted: true, Meas: []string{"m"}, Outs: []outSpec{{"s", "log", "m"}},
		Script: func(a *attempt) string {
			return "var f = stream|from().measurement('m')\nf|log().prefix('s')\nf|stats(1h)|log().prefix('st')"
		}},
	// failing middle node (alert id template) with a sink behind and in front of it
	"midfail": {Counted: true, Meas: []string{"m"}, Outs: []outSpec{{"pre", "log", "m"}, {"h", "alert", "m"}, {"s", "log", "m"}},
		Script: func(a *attempt) string {
			return `stream|from().measurement('m')|log().prefix('pre')|alert().id('{{ slice (index .Tags "t") 1 }}').crit(lambda: TRUE).talk()|log().prefix('s')`
		}},
}

var allStops = []string{"StopTask", "DeleteTask", "Close", "DrainStopTasks"}

// stalls per pipeline: where the backlog is held when the stop is requested.
//
//	sink:<out>        the output's sink is stalled (gated fake InfluxDB / handler / log sink / HTTP endpoint)
//	run:<node>        the node goroutine has not started running yet (hook node.run)
//	emit:<node>:<k>   the node (for union: one of its reader goroutines) is parked holding its k-th message (hook edge.emit)
//
// The third column is the index of the stalled node in topological order (decides how many points fit in front of it).
type stallSpec struct {
	s   string
	pos int
}

var stallsOf = map[string][]stallSpec{
	"influx1":   {{"sink:db", 3}, {"run:from", 1}, {"run:influxdb_out", 2}, {"emit:from:2", 1}, {"emit:influxdb_out:2", 2}},
	"influx3":   {{"sink:db", 3}, {"run:influxdb_out", 2}, {"emit:influxdb_out:4", 2}},
	"influxbig": {{"sink:db", 3}, {"run:influxdb_out", 2}},
	"chain":     {{"sink:db", 5}, {"run:default", 2}, {"run:where", 3}, {"emit:where:3", 3}, {"run:influxdb_out", 4}},
	"alert":     {{"sink:h", 3}, {"run:alert", 2}, {"emit:alert:2", 2}},
	"log":       {{"sink:s", 3}, {"run:log", 2}, {"emit:log:2", 2}},
	"post":      {{"sink:p", 3}, {"run:http_post", 2}},
	"loopback":  {{"run:kapacitor_loopback", 2}},
	"fork":      {{"sink:db", 3}, {"sink:s", 3}, {"run:log", 2}, {"run:influxdb_out", 2}},
	"union":     {{"sink:u", 5}, {"run:union", 3}, {"emit:union:2", 3}, {"run:log", 4}},
	"join":      {{"sink:j", 5}, {"run:join", 3}},
	"udf":       {{"sink:s", 4}, {"run:mirror", 2}, {"emit:mirror:3", 2}, {"run:log", 3}},
	"batch":     {{"query", 0}, {"sink:db", 3}, {"run:influxdb_out", 2}},
}

var pipeOrder = []string{"influx1", "influx3", "influxbig", "chain", "alert", "log", "post", "loopback", "fork", "union", "join", "udf", "batch"}

// bigN: a backlog of more than one edge buffer that still fits in front of the stall
// (source edge 1000 + 1001 per node in front of the stalled one).
func bigN(pos int) int {
	if pos <= 1 {
		return 1800
	}
	return 2300
}

func scenarios(r *rt.Run) ([]scen, int) {
	var out []scen
	add := func(s scen) { out = append(out, s) }
	small := []int{5, 50}
	for _, p := range pipeOrder {
		sizes := small
		if p == "post" {
			sizes = []int{20}
		}
		if p == "batch" {
			sizes = []int{5} // one batch per 20ms tick of the query node
		}
		for _, api := range allStops {
			for _, n := range sizes {
				// free running: nothing is stalled, the stop races with the pipeline
				add(scen{Pipe: p, N: n, Stop: api, Release: "before"})
				for _, st := range stallsOf[p] {
					add(scen{Pipe: p, N: n, Stop: api, Stall: st.s, Release: "after"})
				}
			}
		}
		// more than one edge buffer in flight
		if p == "post" || p == "batch" {
			continue
		}
		for i, st := range stallsOf[p] {
			if strings.HasPrefix(st.s, "emit:") {
				continue
			}
			apis := allStops
			if !r.Thorough() {
				apis = []string{allStops[i%4], allStops[(i+2)%4]}
			}
			for _, api := range apis {
				if p == "loopback" && apiKind(api) == "task" {
					continue // below, once
				}
				add(scen{Pipe: p, N: bigN(st.pos), Stop: api, Stall: st.s, Release: "after"})
			}
		}
	}
	// loopback with more backlog than the ingest edge holds, stopped with StopTask (known deadlock), and just below that
	add(scen{Pipe: "loopback", N: 2300, Stop: "StopTask", Stall: "run:kapacitor_loopback", Release: "after"})
	add(scen{Pipe: "loopback", N: 900, Stop: "StopTask", Stall: "run:kapacitor_loopback", Release: "after"})
	add(scen{Pipe: "loopback", N: 900, Stop: "DeleteTask", Stall: "run:kapacitor_loopback", Release: "after"})
	// the INGEST side is still blocked on the task when it is stopped: 3500 points for a pipeline that holds ~3004 in
	// front of its stall, so the TaskMaster's forking goroutine is parked in forkPoint -> Collect on the task's full
	// source edge and ~500 acknowledged points wait in the ingest edge; a neighbour task on the same db/rp keeps
	// receiving.  The stop has to wait for that Collect (never close the edge under it), everything collected is
	// processed, the neighbour gets everything
	for _, ov := range []struct{ p, stall string }{{"log", "sink:s"}, {"influx1", "sink:db"}, {"alert", "run:alert"}, {"fork", "sink:db"}} {
		for _, api := range []string{"StopTask", "DeleteTask", "Close", "TSDisable"} {
			add(scen{Pipe: ov.p, N: 3500, Stop: api, Stall: ov.stall, Release: "after", Overflow: true})
		}
	}
	add(scen{Pipe: "log", N: 3500, Stop: "StopTask", Stall: "sink:s", Release: "after", Overflow: true, Waiters: 1})
	// the stop races with goroutines that are already blocked in ExecutingTask.Wait() - services/task_store keeps
	// one per started task: the stop must return, every waiter must return, all with the same error
	for pi, p := range pipeOrder {
		n := 50
		if p == "post" {
			n = 20
		}
		if p == "batch" {
			n = 5
		}
		for ai, api := range allStops {
			add(scen{Pipe: p, N: n, Stop: api, Release: "before", Waiters: 1 + (pi+ai)%2})
			if (pi+ai)%2 == 0 || r.Thorough() {
				st := stallsOf[p][0]
				add(scen{Pipe: p, N: n, Stop: api, Stall: st.s, Release: "after", Waiters: 1})
				add(scen{Pipe: p, N: n, Stop: api, Stall: st.s, Release: "after", Waiters: 2})
			}
		}
	}
	// ... and through the real services/task_store: create+enable over its HTTP handler (the service then sits in
	// et.Wait() itself), disable / delete over its HTTP handler
	for _, p := range []string{"influx1", "alert", "log", "union"} {
		for _, api := range []string{"TSDisable", "TSDelete"} {
			add(scen{Pipe: p, N: 50, Stop: api, Release: "before"})
			add(scen{Pipe: p, N: 50, Stop: api, Stall: stallsOf[p][0].s, Release: "after"})
		}
	}
	// ... also when a node has failed (every waiter gets that node's error)
	add(scen{Pipe: "midfail", N: 50, Stop: "StopTask", Release: "before", Fail: "poison:10", Waiters: 2})
	add(scen{Pipe: "chain", N: 50, Stop: "Close", Stall: "sink:db", Release: "after", Fail: "panic:where:5", Waiters: 2})
	add(scen{Pipe: "fork", N: 2300, Stop: "DeleteTask", Stall: "sink:db", Release: "after", Fail: "panic:log:5", Waiters: 1})
	// a writer that keeps offering points while the daemon shuts down: every acknowledged point counts
	for _, p := range []string{"influx1", "alert", "log", "union", "fork"} {
		for _, api := range []string{"Close", "DrainStopTasks"} {
			add(scen{Pipe: p, N: 50, Stop: api, Release: "before", Racing: 300})
			add(scen{Pipe: p, N: 1200, Stop: api, Stall: stallsOf[p][0].s, Release: "after", Racing: 1500})
		}
	}
	// a node fails in the middle of the pipeline: the rest must terminate, the stop must return, nothing may leak
	fails := []scen{
		// union blocked on its full child edge, both readers holding a message, then the child fails
		{Pipe: "unionalert", N: 2400, Stall: "run:alert", Release: "before", Fail: "poison:1"},
		{Pipe: "unionalert", N: 2400, Stall: "run:alert", Release: "after", Fail: "poison:1"},
		{Pipe: "union", N: 2400, Stall: "run:log", Release: "before", Fail: "panic:log:1"},
		{Pipe: "union", N: 2400, Stall: "run:log", Release: "after", Fail: "panic:log:1"},
		{Pipe: "join", N: 2400, Stall: "run:log", Release: "before", Fail: "panic:log:1"},
		{Pipe: "join", N: 2400, Stall: "run:log", Release: "after", Fail: "panic:log:1"},
		{Pipe: "union", N: 50, Release: "before", Fail: "panic:log:5"},
		// alert node in the middle fails on a poison point (id template); handlers of its own must be closed
		{Pipe: "midfail", N: 50, Release: "before", Fail: "poison:10"},
		{Pipe: "midfail", N: 50, Stall: "run:alert", Release: "after", Fail: "poison:10"},
		{Pipe: "midfail", N: 50, Stall: "sink:h", Release: "after", Fail: "poison:10"},
		// plain processing node fails (panic recovered by node.start)
		{Pipe: "chain", N: 50, Release: "before", Fail: "panic:where:5"},
		{Pipe: "chain", N: 50, Stall: "sink:db", Release: "after", Fail: "panic:where:5"},
		{Pipe: "chain", N: 50, Release: "before", Fail: "runpanic:where"},
		{Pipe: "chain", N: 2300, Stall: "sink:db", Release: "after", Fail: "panic:where:1500"},
		// one branch of a fork fails
		{Pipe: "fork", N: 50, Release: "before", Fail: "panic:log:3"},
		{Pipe: "fork", N: 50, Stall: "sink:db", Release: "after", Fail: "panic:log:3"},
		// the output node itself fails
		{Pipe: "influx1", N: 50, Release: "before", Fail: "panic:influxdb_out:3"},
		{Pipe: "influx3", N: 50, Stall: "sink:db", Release: "after", Fail: "panic:influxdb_out:5"},
		{Pipe: "alert", N: 50, Stall: "sink:h", Release: "after", Fail: "panic:alert:5"},
		{Pipe: "loopback", N: 50, Release: "before", Fail: "panic:kapacitor_loopback:5"},
		// a node panics early and more than one edge buffer of data follows: the panic must still abort the
		// parent edges, otherwise the nodes upstream fill an edge nobody reads and the stop never returns
		{Pipe: "chain", N: 2300, Release: "before", Fail: "panic:where:5"},
		{Pipe: "chain", N: 2300, Release: "before", Fail: "panic:influxdb_out:5"},
		{Pipe: "chain", N: 2300, Release: "before", Fail: "runpanic:where"},
		{Pipe: "log", N: 2300, Release: "before", Fail: "panic:log:5"},
		{Pipe: "alert", N: 2300, Release: "before", Fail: "panic:alert:5"},
		{Pipe: "fork", N: 2300, Release: "before", Fail: "panic:log:5"},
		{Pipe: "union", N: 2400, Release: "before", Fail: "panic:log:5"},
		// one branch of a fork has failed, the sibling branch (later in pipeline order) still holds a backlog
		// behind its stalled sink when the stop is requested: the stop must wait for it all the same
		// (the failure cascades up to the first node while the sibling is stuck behind its sink)
		{Pipe: "fork", N: 2300, Stall: "sink:db", Release: "after", Fail: "panic:log:5"},
		{Pipe: "fork", N: 2300, Stall: "sink:s", Release: "after", Fail: "panic:influxdb_out:5"},
		{Pipe: "fork", N: 50, Stall: "sink:s", Release: "after", Fail: "panic:influxdb_out:3"},
		{Pipe: "fork", N: 50, Stall: "sink:db", Release: "after", Fail: "panic:log:30"},
		// ... and a stats() node later in pipeline order must still be stopped
		{Pipe: "stats", N: 50, Release: "before", Fail: "panic:log:5"},
		{Pipe: "stats", N: 50, Release: "before"},
		// the child of a UDF node fails while the UDF still has output pending
		{Pipe: "udf", N: 50, Release: "before", Fail: "panic:log:5"},
		{Pipe: "udf", N: 2300, Stall: "sink:s", Release: "after", Fail: "panic:log:5"},
		{Pipe: "udf", N: 2300, Stall: "run:log", Release: "before", Fail: "panic:log:1"},
		{Pipe: "udf", N: 2300, Stall: "run:log", Release: "after", Fail: "panic:log:1"},
	}
	for i, f := range fails {
		apis := allStops
		if !r.Thorough() {
			apis = []string{allStops[i%2], allStops[2+i%2]}
		}
		for _, api := range apis {
			f.Stop = api
			add(f)
		}
	}
	attempts := 2
	if r.Thorough() {
		attempts = 4
		// seeded random scenarios: random backlog sizes and stall depths
		for i := 0; i < 800; i++ {
			p := pipeOrder[r.Rand.Intn(len(pipeOrder))]
			if p == "post" || p == "batch" {
				continue
			}
			st := stallsOf[p][r.Rand.Intn(len(stallsOf[p]))]
			api := allStops[r.Rand.Intn(4)]
			n := 1 + r.Rand.Intn(bigN(st.pos))
			if p == "loopback" && apiKind(api) == "task" && n > 900 {
				n = 1 + r.Rand.Intn(900)
			}
			s := st.s
			if strings.HasPrefix(s, "emit:") {
				parts := strings.Split(s, ":")
				k := 1 + r.Rand.Intn(n)
				if p == "union" || p == "join" {
					k = 1 + r.Rand.Intn((n+1)/2) // per reader
				}
				s = fmt.Sprintf("emit:%s:%d", parts[1], k)
			}
			add(scen{Pipe: p, N: n, Stop: api, Stall: s, Release: "after"})
		}
	}
	return out, attempts
}
