package c07

import (
	"encoding/json"
	"fmt"
	"os"
	"os/exec"
	"path/filepath"
	"sort"
	"strings"
	"time"

	"kapverif/rt"
)

func init() {
	rt.Register("c07", Run)
	rt.Register("c07probe", Probe)
}

var stdDeadlines = deadlines{Step: 90 * time.Second, Stop: 120 * time.Second, Leak: 60 * time.Second, Quiet: 3 * time.Second, Settle: time.Second}

// kind of a real node for the specification's topology record
func nodeKind(name string) string {
	switch {
	case strings.HasPrefix(name, "influxdb_out"):
		return "influx"
	case strings.HasPrefix(name, "alert"):
		return "alert"
	case strings.HasPrefix(name, "log"), strings.HasPrefix(name, "http_post"):
		return "sync"
	case strings.HasPrefix(name, "union"), strings.HasPrefix(name, "join"):
		return "union"
	case strings.HasPrefix(name, "kapacitor_loopback"):
		return "loop"
	case strings.HasPrefix(name, "mirror"):
		return "udf"
	case strings.HasPrefix(name, "batch"), strings.HasPrefix(name, "query"):
		return "pass"
	}
	return "pass"
}

// which real node realises an output of the pipeline spec
func (a *attempt) outNode(o outSpec) int {
	want := map[string]string{"influx": "influxdb_out", "alert": "alert", "httppost": "http_post", "loopback": "kapacitor_loopback", "log": "log"}[o.Kind]
	// several log nodes: they are named in script order, the spec lists outputs in script order too
	idx := 0
	for _, p := range a.spec.Outs {
		if p.Name == o.Name {
			break
		}
		if p.Kind == o.Kind {
			idx++
		}
	}
	k := 0
	for i, n := range a.nodes {
		if strings.HasPrefix(n, want) {
			if k == idx {
				return i + 1
			}
			k++
		}
	}
	rt.Fatalf("c07: no node for output %s in %v", o.Name, a.nodes)
	return 0
}

// topo encodes the real pipeline as the topology record of Pipeline.tla:
// kinds (topological order), edges (edge 1 = the task's source edge), outf (which points an output must see).
func (a *attempt) topo() rt.M {
	idx := map[string]int{}
	kinds := []any{}
	for i, n := range a.nodes {
		idx[n] = i + 1
		kinds = append(kinds, nodeKind(n))
	}
	edges := []any{rt.M{"from": 0, "to": 1, "f": "all"}}
	for i, ps := range a.parents {
		for _, p := range ps {
			edges = append(edges, rt.M{"from": idx[p], "to": i + 1, "f": "all"})
		}
	}
	outf := make([]any, len(a.nodes))
	for i := range outf {
		outf[i] = "none"
	}
	outs := rt.M{}
	for _, o := range a.spec.Outs {
		n := a.outNode(o)
		outs[o.Name] = n
		if a.spec.Counted {
			outf[n-1] = "all"
		}
	}
	return rt.M{"kinds": kinds, "edges": edges, "outf": outf, "outs": outs, "nodes": strsAny(a.nodes)}
}

func strsAny(s []string) []any {
	out := make([]any, len(s))
	for i, x := range s {
		out[i] = x
	}
	return out
}

func rangesAny(seqs []int) []any {
	out := []any{}
	for _, r := range ranges(seqs) {
		out = append(out, []any{r[0], r[1]})
	}
	return out
}

func deliveredAny(m map[string][]int) rt.M {
	out := rt.M{}
	for k, v := range m {
		out[k] = rangesAny(v)
	}
	return out
}

func firstLine(s string) string {
	if i := strings.IndexByte(s, '\n'); i >= 0 {
		s = s[:i]
	}
	if len(s) > 200 {
		s = s[:200]
	}
	return s
}

func apiKind(api string) string {
	if api == "StopTask" || api == "DeleteTask" || api == "TSDisable" || api == "TSDelete" {
		return "task"
	}
	return "close"
}

// emit writes the trace of one attempt (one event per observable action of the specification).
func emit(t *rt.Trace, sc scen, a *attempt, o *outcome, attemptNo int) {
	tp := a.topo()
	// (all keys sort after "ev": verifylib cuts traces at lines that START with {"ev":"Reset")
	t.Reset(rt.M{"pipe": sc.Pipe, "topo": tp, "stopApi": sc.Stop, "kind": apiKind(sc.Stop), "stall": sc.Stall, "release": sc.Release,
		"fail": sc.Fail, "n": sc.N, "racing": sc.Racing, "slots": 1000, "try": attemptNo, "waiters": sc.Waiters, "overflow": sc.Overflow,
		"stallKind": a.stallKind, "stallNode": a.stallNode})
	var first, racing []int
	for _, s := range o.Accepted {
		if s <= sc.N {
			first = append(first, s)
		} else {
			racing = append(racing, s)
		}
	}
	if sc.Overflow && apiKind(sc.Stop) == "task" {
		// collected into the task's edge before the stop was requested = the task's; the acknowledged rest was
		// still on the ingest side: StopTask stops feeding the task, it may or may not get the next ones
		var certain, maybe []int
		for _, s := range first {
			if s <= o.Certain {
				certain = append(certain, s)
			} else {
				maybe = append(maybe, s)
			}
		}
		t.Event("Accept", rt.M{"seqs": rangesAny(certain), "maybe": rangesAny(maybe)})
	} else {
		t.Event("Accept", rt.M{"seqs": rangesAny(first)})
	}
	injected := sc.Fail != ""
	failedBefore := injected && sc.Release == "before"
	if failedBefore {
		t.Event("NodeFailed", rt.M{"injected": true})
	}
	t.Event("StopCall", rt.M{"api": sc.Stop})
	if sc.Racing > 0 {
		t.Event("Accept", rt.M{"seqs": rangesAny(racing)})
	}
	if (o.NodeFailed || o.FaultFired) && !failedBefore {
		// not injected = the node failed because of the stop itself
		t.Event("NodeFailed", rt.M{"injected": injected})
	}
	refused := 0
	for _, v := range o.Refused {
		refused += v
	}
	// loopback: the output is the TaskMaster's own ingest; what it took is visible only at the second
	// task's sink once that has been drained, i.e. in the final counts
	at := map[string][]int{}
	for _, os := range a.spec.Outs {
		if os.Kind == "loopback" {
			at[os.Name] = o.Final[os.Name]
		} else {
			at[os.Name] = o.AtReturn[os.Name]
		}
	}
	if o.Returned {
		t.Event("StopReturn", rt.M{"delivered": deliveredAny(at), "refused": refused, "early": o.EarlyReturn, "err": o.StopErr != ""})
		if sc.Waiters > 0 {
			// which error each concurrent caller of ExecutingTask.Wait got (1.. = index of the distinct value)
			ids := []any{}
			seen := []string{}
			back := []any{}
			for w := 0; w < sc.Waiters; w++ {
				back = append(back, o.WaiterBack[w])
				id := 0
				for i, e := range seen {
					if e == o.WaiterErr[w] {
						id = i + 1
					}
				}
				if id == 0 {
					seen = append(seen, o.WaiterErr[w])
					id = len(seen)
				}
				ids = append(ids, id)
			}
			t.Event("Waiters", rt.M{"returned": back, "errIds": ids, "stopErrSame": len(seen) == 1 && seen[0] == o.StopErr})
		}
		leaked := o.Leaked
		if leaked == nil {
			leaked = []string{}
		}
		t.Event("Census", rt.M{"leaked": strsAny(leaked)})
	} else if o.Panicked != "" {
		t.Event("StopPanicked", rt.M{"panic": firstLine(o.Panicked)})
	} else {
		t.Event("StopHung", rt.M{"delivered": deliveredAny(at)})
	}
	end := rt.M{"final": deliveredAny(o.Final)}
	if sc.Overflow && (o.Returned || o.Panicked != "") {
		end["neighbour"] = rangesAny(o.Neighbor) // the task next door was offered the same points and never stopped before the end
		end["acked"] = rangesAny(o.Accepted)
	}
	t.Event("End", end)
}

type counters struct {
	attempts, hung, leaks, failed, early, panicked, waiterStuck int
	lossy                                                       int
	bySig                                                       map[string]int
}

func lost(sc scen, a *attempt, o *outcome) bool {
	if !a.spec.Counted || (o.NodeFailed && sc.Fail != "") {
		return false
	}
	for _, os := range a.spec.Outs {
		got := map[int]bool{}
		src := o.AtReturn[os.Name]
		if os.Kind == "loopback" {
			src = o.Final[os.Name]
		}
		for _, s := range src {
			got[s] = true
		}
		missing := 0
		for _, s := range o.Accepted {
			if sc.Overflow && apiKind(sc.Stop) == "task" && s > o.Certain {
				continue
			}
			if !got[s] {
				missing++
			}
		}
		if os.Kind == "loopback" {
			missing -= o.Refused["lb"]
		}
		if missing > 0 {
			return true
		}
	}
	return false
}

// Run: B3.  Every scenario of the schedule alphabet is forced on the real code with gates, several
// times (Go's select is random: a loss seen once is a loss); one trace per attempt.
//
// The scenarios run in a child process (same binary, env C07_CHILD): a graceful stop that kills the
// process (a panic in a helper goroutine of the code under test cannot be recovered by the harness) is
// an observation like any other - the parent records a ProcessCrashed trace for the scenario that was
// running and continues with the next one in a fresh child.
func Run(r *rt.Run) error {
	if os.Getenv("C07_CHILD") != "" {
		return runChild(r)
	}
	exe, err := os.Executable()
	if err != nil {
		return err
	}
	scens, _ := scenarios(r)
	crashT := r.NewTrace("crashes")
	var metas []*rt.Meta
	from, crashes := 0, 0
	for round := 0; from < len(scens); round++ {
		dir := filepath.Join(r.OutDir, fmt.Sprintf("child-%d", round))
		if err := os.MkdirAll(dir, 0o755); err != nil {
			return err
		}
		errPath := filepath.Join(dir, "stderr.txt")
		errF, err := os.Create(errPath)
		if err != nil {
			return err
		}
		cmd := exec.Command(exe, "c07", "-tier", r.Tier, "-seed", fmt.Sprint(r.Seed), "-out", dir)
		cmd.Env = append(os.Environ(), "C07_CHILD=1", fmt.Sprintf("C07_FROM=%d", from))
		cmd.Stdout, cmd.Stderr = os.Stdout, errF
		runErr := cmd.Run()
		errF.Close()
		if m, err := readMeta(dir); err == nil {
			metas = append(metas, m)
		}
		if runErr == nil {
			break
		}
		stderr, _ := os.ReadFile(errPath)
		if strings.Contains(string(stderr), "HARNESS-ERROR") {
			os.Stderr.Write(tailBytes(stderr, 4000))
			return fmt.Errorf("child driver failed: %v", runErr)
		}
		// the process died: which scenario was running?
		prog, perr := os.ReadFile(filepath.Join(dir, "progress"))
		var idx, att int
		if perr != nil {
			os.Stderr.Write(tailBytes(stderr, 4000))
			return fmt.Errorf("child driver died before its first scenario: %v", runErr)
		}
		fmt.Sscan(string(prog), &idx, &att)
		sc := scens[idx]
		crashes++
		if crashes > 20 {
			return fmt.Errorf("more than 20 process crashes, giving up (last: %s)", sc.key())
		}
		crashT.Reset(rt.M{"pipe": sc.Pipe, "stopApi": sc.Stop, "kind": apiKind(sc.Stop), "stall": sc.Stall, "release": sc.Release,
			"fail": sc.Fail, "n": sc.N, "racing": sc.Racing, "slots": 1000, "try": att, "waiters": 0, "overflow": sc.Overflow, "stallKind": "", "stallNode": "",
			"topo": rt.M{"kinds": []any{"pass"}, "edges": []any{rt.M{"from": 0, "to": 1, "f": "all"}}, "outf": []any{"none"},
				"outs": rt.M{}, "nodes": []any{"?"}}})
		crashT.Event("StopCall", rt.M{"api": sc.Stop})
		crashT.Event("ProcessCrashed", rt.M{"scenario": sc.key(), "panic": crashLine(string(stderr))})
		_ = os.WriteFile(filepath.Join(r.OutDir, fmt.Sprintf("dump-crash-%d.txt", crashes)), tailBytes(stderr, 20000), 0o644)
		from = idx + 1
	}
	// combined meta: the children's traces plus the crash traces
	if err := crashT.Close(); err != nil {
		return err
	}
	m := &rt.Meta{Property: r.Property, Tier: r.Tier, Seed: r.Seed, Extra: map[string]any{}}
	sum := map[string]int{}
	for _, cm := range metas {
		m.Traces += cm.Traces
		m.Events += cm.Events
		m.Distinct += cm.Distinct
		m.Rule = cm.Rule
		if cm.Traces > 0 { // a child killed in its very first scenario leaves an empty trace file
			m.TraceFiles = append(m.TraceFiles, cm.TraceFiles...)
		}
		for _, sm := range cm.Samples {
			if len(m.Samples) < 4 {
				m.Samples = append(m.Samples, sm)
			}
		}
		for k, v := range cm.Extra {
			switch x := v.(type) {
			case float64:
				sum[k] += int(x)
			default:
				m.Extra[k] = v
			}
		}
	}
	for k, v := range sum {
		m.Extra[k] = v
	}
	m.Extra["scenarios"] = len(scens)
	m.Extra["process_crashes"] = crashes
	m.Traces += crashT.Traces
	m.Events += crashT.Events
	if crashT.Traces > 0 {
		m.TraceFiles = append(m.TraceFiles, crashT.Path())
	}
	if len(m.TraceFiles) == 0 {
		return fmt.Errorf("no traces recorded")
	}
	return rt.WriteMeta(r.OutDir, m)
}

func readMeta(dir string) (*rt.Meta, error) {
	b, err := os.ReadFile(filepath.Join(dir, "meta.json"))
	if err != nil {
		return nil, err
	}
	m := &rt.Meta{}
	return m, json.Unmarshal(b, m)
}

func tailBytes(b []byte, n int) []byte {
	if len(b) > n {
		return b[len(b)-n:]
	}
	return b
}

// crashLine: the line that says why the process died ("panic: ..." / "fatal error: ...").
func crashLine(stderr string) string {
	for _, ln := range strings.Split(stderr, "\n") {
		if strings.HasPrefix(ln, "panic:") || strings.HasPrefix(ln, "fatal error:") || strings.Contains(ln, "[signal ") {
			return firstLine(ln)
		}
	}
	return "process died"
}

func runChild(r *rt.Run) error {
	post := newPostSink()
	defer post.Close()
	t := r.NewTrace("trace")
	scens, attempts := scenarios(r)
	from := 0
	fmt.Sscan(os.Getenv("C07_FROM"), &from)
	cnt := counters{bySig: map[string]int{}}
	dumps := 0
	t0 := time.Now()
	finish := func() {
		sigs := []string{}
		for s, c := range cnt.bySig {
			sigs = append(sigs, fmt.Sprintf("%s x%d", s, c))
		}
		sort.Strings(sigs)
		r.Extra["attempts_per_scenario"] = attempts
		r.Extra["attempts"] = cnt.attempts
		r.Extra["attempts_hung"] = cnt.hung
		r.Extra["attempts_stop_panicked"] = cnt.panicked
		r.Extra["attempts_with_leak"] = cnt.leaks
		r.Extra["waiters_never_returned"] = cnt.waiterStuck
		r.Extra["attempts_with_loss"] = cnt.lossy
		r.Extra["attempts_with_node_failure"] = cnt.failed
		r.Extra["stop_returned_with_gate_closed"] = cnt.early
		if len(sigs) > 0 {
			r.Extra["leak_signatures"] = strsAny(sigs)
		}
		r.Extra["driver_wall_s"] = int(time.Since(t0).Seconds())
		r.Finish("real stream tasks (influxDBOut buffer 1/3/default, chain, alert with own handler, log, httpPost, kapacitorLoopback, fork, union, join, UDF; one batch task: query node -> influxDBOut with a query in flight) stopped with StopTask/DeleteTask/TaskMaster.Close/Drain+StopTasks (and disable/delete through the HTTP handlers of the real services/task_store) while a gate (sink, node start, node after its k-th message) holds the backlog at a chosen place, 5..2400 points in flight (edge capacity 1000), with and without a failing node, a racing writer, or 1-2 goroutines already blocked in ExecutingTask.Wait(); each scenario attempted several times (Go select is random); non-trivial = scenario with a held backlog, a failing node or a racing writer, distinct by scenario", false)
	}
	for si := from; si < len(scens); si++ {
		sc := scens[si]
		if cnt.hung >= 13 {
			// a tree on which stop after stop never returns: the evidence is in, every further hang costs seconds
			r.Extra["truncated_after_hung_stops"] = cnt.hung
			break
		}
		n := attempts
		if sc.Pipe == "loopback" && strings.HasPrefix(sc.Stall, "run:") && sc.N > 1000 && apiKind(sc.Stop) == "task" {
			n = 1 // the known deadlock: costs a few seconds per attempt and leaves a dead TaskMaster behind
		}
		for i := 0; i < n; i++ {
			// what is running now, for the parent should this process die; the trace so far must be on disk too
			if err := t.Flush(); err != nil {
				return err
			}
			finishPartial(r, t)
			if err := os.WriteFile(filepath.Join(r.OutDir, "progress"), []byte(fmt.Sprintf("%d %d", si, i)), 0o644); err != nil {
				return err
			}
			ta := time.Now()
			o, a, err := guardedAttempt(sc, post, stdDeadlines)
			if err != nil {
				return fmt.Errorf("scenario %s attempt %d: %v", sc.key(), i, err)
			}
			if os.Getenv("C07_TIMING") != "" {
				fmt.Printf("TIMING %d %s hung=%v leaked=%v lost=%v early=%v\n", time.Since(ta).Milliseconds(), sc.key(), o.Hung, o.Leaked, lost(sc, a, o), o.EarlyReturn)
			}
			emit(t, sc, a, o, i)
			cnt.attempts++
			if o.Hung {
				cnt.hung++
				n = i + 1 // a hung stop leaves a dead TaskMaster behind and costs seconds: once per scenario is enough
			}
			if o.Panicked != "" {
				cnt.panicked++
			}
			for _, b := range o.WaiterBack {
				if !b && o.Returned {
					cnt.waiterStuck++
				}
			}
			if len(o.Leaked) > 0 {
				cnt.leaks++
				for _, s := range o.Leaked {
					cnt.bySig[s]++
				}
			}
			if o.NodeFailed {
				cnt.failed++
			}
			if o.EarlyReturn {
				cnt.early++
			}
			if lost(sc, a, o) {
				cnt.lossy++
			}
			// keep goroutine dumps of the first few anomalies next to the trace (debugging aid)
			if (o.Hung || len(o.Leaked) > 0 || o.WaiterDump != "") && dumps < 6 {
				dumps++
				name := fmt.Sprintf("dump-%d-%s.txt", dumps, strings.NewReplacer("/", "_", ":", "-").Replace(sc.key()))
				_ = os.WriteFile(filepath.Join(filepath.Dir(r.OutDir), name), []byte(o.HungDump+o.LeakDump+o.WaiterDump), 0o644)
			}
		}
		if sc.Stall != "" || sc.Fail != "" || sc.Racing > 0 || sc.Waiters > 0 || sc.Overflow || strings.HasPrefix(sc.Stop, "TS") {
			t.Distinct(sc.key()) // non-trivial: a backlog is held somewhere, a node fails, or a writer races with the stop
		}
	}
	finish()
	return nil
}

// guardedAttempt: the driver itself must never hang.  Every wait inside runAttempt has its own deadline;
// should one be missing, this watchdog ends the run as a broken check (exit 2) with a goroutine dump
// instead of leaving it to an outer timeout.
func guardedAttempt(sc scen, post *postSink, dl deadlines) (*outcome, *attempt, error) {
	type res struct {
		o   *outcome
		a   *attempt
		err error
	}
	c := make(chan res, 1)
	go func() {
		o, a, err := runAttempt(sc, post, dl)
		c <- res{o, a, err}
	}()
	select {
	case r := <-c:
		return r.o, r.a, r.err
	case <-time.After(2*dl.Step + 2*dl.Stop + dl.Leak + time.Minute):
		return nil, nil, fmt.Errorf("attempt did not finish (driver bug or dead machine)\n%s", allStacks())
	}
}

// finishPartial keeps a meta.json that describes the trace written so far, so that a parent can use
// it when this process is killed by the code under test.
func finishPartial(r *rt.Run, t *rt.Trace) {
	m := &rt.Meta{Property: r.Property, Tier: r.Tier, Seed: r.Seed, Traces: t.Traces, Events: t.Events, Distinct: t.NDistinct(),
		TraceFiles: []string{t.Path()}, Samples: t.Samples(), Extra: map[string]any{}}
	_ = rt.WriteMeta(r.OutDir, m)
}

// Probe: ad-hoc exploration (not part of the check).  kvh c07probe -out DIR <pipe> <n> <stop> <stall> <release> <fail> [attempts]
func Probe(r *rt.Run) error {
	post := newPostSink()
	defer post.Close()
	a := r.Args
	if len(a) < 6 {
		return fmt.Errorf("usage: pipe n stop stall release fail [attempts]")
	}
	var n, att int
	fmt.Sscan(a[1], &n)
	att = 1
	if len(a) > 6 {
		fmt.Sscan(a[6], &att)
	}
	dash := func(s string) string {
		if s == "-" {
			return ""
		}
		return s
	}
	sc := scen{Pipe: a[0], N: n, Stop: a[2], Stall: dash(a[3]), Release: a[4], Fail: dash(a[5])}
	if len(a) > 7 {
		fmt.Sscan(a[7], &sc.Racing)
	}
	if len(a) > 8 {
		fmt.Sscan(a[8], &sc.Waiters)
	}
	if len(a) > 9 && a[9] == "overflow" {
		sc.Overflow = true
	}
	t := r.NewTrace("probe")
	for i := 0; i < att; i++ {
		t0 := time.Now()
		o, at, err := runAttempt(sc, post, stdDeadlines)
		if err != nil {
			fmt.Fprintln(os.Stdout, "ERR", err)
			continue
		}
		emit(t, sc, at, o, i)
		fmt.Printf("%s: accepted=%d returned=%v early=%v hung=%v stopErr=%q failed=%v stopMs=%d wall=%v\n", sc.key(), len(o.Accepted), o.Returned, o.EarlyReturn, o.Hung, o.StopErr, o.NodeFailed, o.StopMs, time.Since(t0))
		for k, v := range o.AtReturn {
			fmt.Printf("   out %s: atReturn=%d %v final=%d dup=%d\n", k, len(v), trunc(ranges(v)), len(o.Final[k]), dupCount(o.Final[k]))
		}
		fmt.Printf("   leaked=%v refused=%v waitersBack=%v waiterErrs=%q certain=%d neighbour=%d errors=%v\n", o.Leaked, o.Refused, o.WaiterBack, o.WaiterErr, o.Certain, len(o.Neighbor), o.Errors)
		if o.LeakDump != "" && i == 0 {
			fmt.Println(o.LeakDump)
		}
		if o.HungDump != "" && i == 0 {
			fmt.Println(o.HungDump)
		}
	}
	r.Finish("probe", false)
	return nil
}

func trunc(r [][]int) [][]int {
	if len(r) > 6 {
		return r[:6]
	}
	return r
}
