package c07

import (
	"regexp"
	"runtime"
	"sort"
	"strconv"
	"strings"
)

// Goroutine census: runtime.Stack(all) parsed into (id, state, frames, creator).
// A goroutine "belongs to kapacitor" when the function that created it lives in
// the module under test; goroutines created by the harness (writers, stoppers,
// the http test server) are ignored even when they are inside kapacitor code.

type gor struct {
	ID      int
	State   string   // "chan receive", "select", "runnable", ...
	Frames  []string // function names, innermost first
	Creator string
	Text    string
}

const kapPath = "github.com/influxdata/kapacitor"

var hdrRe = regexp.MustCompile(`^goroutine (\d+) \[([^\]]+)\]:`)

func allStacks() string {
	buf := make([]byte, 1<<20)
	for {
		n := runtime.Stack(buf, true)
		if n < len(buf) {
			return string(buf[:n])
		}
		buf = make([]byte, 2*len(buf))
	}
}

func parseStacks(s string) []gor {
	var out []gor
	for _, blk := range strings.Split(s, "\n\n") {
		lines := strings.Split(strings.TrimSpace(blk), "\n")
		if len(lines) == 0 {
			continue
		}
		m := hdrRe.FindStringSubmatch(lines[0])
		if m == nil {
			continue
		}
		id, _ := strconv.Atoi(m[1])
		st := m[2]
		if i := strings.Index(st, ","); i >= 0 {
			st = st[:i] // drop ", 2 minutes" / ", locked to thread"
		}
		g := gor{ID: id, State: st, Text: blk}
		for _, ln := range lines[1:] {
			if strings.HasPrefix(ln, "\t") {
				continue
			}
			if strings.HasPrefix(ln, "created by ") {
				c := strings.TrimPrefix(ln, "created by ")
				if i := strings.Index(c, " in goroutine"); i >= 0 {
					c = c[:i]
				}
				g.Creator = c
				continue
			}
			// "pkg.func(args...)" -> "pkg.func"
			if i := strings.LastIndex(ln, "("); i > 0 {
				ln = ln[:i]
			}
			g.Frames = append(g.Frames, ln)
		}
		out = append(out, g)
	}
	return out
}

// The in-process UDF agent (package udf/agent) stands for the external UDF process: not the daemon's.
func (g gor) ofKapacitor() bool {
	return strings.HasPrefix(g.Creator, kapPath) && !strings.HasPrefix(g.Creator, kapPath+"/udf/agent.")
}

// Sig is the innermost frame inside the module under test, without the module
// path ("edge.(*multiConsumer).readEdge"): a stable name for "which goroutine".
func (g gor) Sig() string {
	for _, f := range g.Frames {
		if strings.HasPrefix(f, kapPath) {
			s := strings.TrimPrefix(f, kapPath)
			s = strings.TrimPrefix(s, "/")
			s = strings.TrimPrefix(s, ".")
			return s
		}
	}
	return "?" + g.Creator
}

// blocked reports whether the goroutine is parked on a synchronisation object
// (as opposed to running, runnable or inside a syscall, i.e. merely slow).
func (g gor) blocked() bool {
	switch g.State {
	case "chan receive", "chan send", "select", "semacquire", "sync.Cond.Wait", "sync.Mutex.Lock", "sync.RWMutex.Lock",
		"sync.RWMutex.RLock", "sync.WaitGroup.Wait", "chan receive (nil chan)", "chan send (nil chan)", "select (no cases)":
		return true
	}
	return false
}

type census map[int]gor

func takeCensus() census {
	c := census{}
	for _, g := range parseStacks(allStacks()) {
		c[g.ID] = g
	}
	return c
}

// newKap returns goroutines of the module under test that are in c but not in base.
func (c census) newKap(base census) []gor {
	var out []gor
	for id, g := range c {
		if _, old := base[id]; old {
			continue
		}
		if g.ofKapacitor() {
			out = append(out, g)
		}
	}
	sort.Slice(out, func(i, j int) bool { return out[i].ID < out[j].ID })
	return out
}

func sigs(gs []gor) []string {
	var s []string
	for _, g := range gs {
		s = append(s, g.Sig())
	}
	sort.Strings(s)
	return s
}

// fingerprint of a set of goroutines: ids, states and frames; two equal
// fingerprints taken some time apart mean nothing moved in between.
func fingerprint(gs []gor) string {
	var b strings.Builder
	for _, g := range gs {
		b.WriteString(strconv.Itoa(g.ID))
		b.WriteString(g.State)
		b.WriteString(strings.Join(g.Frames, ";"))
		b.WriteString("|")
	}
	return b.String()
}
