package c07

import (
	"bytes"
	"encoding/json"
	"fmt"
	"net/http"
	"net/http/httptest"

	"github.com/influxdata/kapacitor"
	"github.com/influxdata/kapacitor/keyvalue"
	"github.com/influxdata/kapacitor/services/httpd"
	"github.com/influxdata/kapacitor/services/task_store"

	"kapverif/rt"
)

// The real services/task_store on top of the attempt's TaskMaster: tasks are created/enabled, disabled and
// deleted through the service's own HTTP handlers.  startTask keeps a goroutine in ExecutingTask.Wait() for
// every task it starts, so every stop that goes through the service races with a concurrent waiter.

type tsLookup struct{ tm *kapacitor.TaskMaster }

func (l tsLookup) Main() *kapacitor.TaskMaster      { return l.tm }
func (l tsLookup) Get(string) *kapacitor.TaskMaster { return l.tm }
func (l tsLookup) Set(*kapacitor.TaskMaster)        {}
func (l tsLookup) Delete(*kapacitor.TaskMaster)     {}

type tsDiag struct{ d *rt.Diag }

func (tsDiag) StartingTask(string)                              {}
func (tsDiag) StartedTask(string)                               {}
func (tsDiag) FinishedTask(string)                              {}
func (t tsDiag) Error(msg string, err error, ctx ...keyvalue.T) { t.d.Error("task_store: "+msg, err) }
func (tsDiag) Debug(string)                                     {}
func (tsDiag) AlreadyMigrated(string, string)                   {}
func (tsDiag) Migrated(string, string)                          {}

type tsWorld struct {
	ts     *task_store.Service
	routes map[string]func(http.ResponseWriter, *http.Request)
}

func openTaskStore(env *rt.Env) (*tsWorld, error) {
	ts := task_store.NewService(task_store.Config{}, tsDiag{env.Diag})
	ts.StorageService = env.Storage
	ts.HTTPDService = env.HTTPD
	ts.TaskMasterLookup = tsLookup{env.TM}
	env.TM.TaskStore = ts
	if err := ts.Open(); err != nil {
		return nil, fmt.Errorf("task store open: %w", err)
	}
	w := &tsWorld{ts: ts, routes: map[string]func(http.ResponseWriter, *http.Request){}}
	for _, r := range env.HTTPD.Routes {
		if hf, ok := r.HandlerFunc.(func(http.ResponseWriter, *http.Request)); ok {
			w.routes[r.Method+" "+r.Pattern] = hf
		}
	}
	return w, nil
}

func (w *tsWorld) call(method, pattern, path string, body any) (int, string) {
	h, ok := w.routes[method+" "+pattern]
	if !ok {
		rt.Fatalf("c07: task store registered no route %s %s", method, pattern)
	}
	var rd *bytes.Reader
	if body != nil {
		b, _ := json.Marshal(body)
		rd = bytes.NewReader(b)
	} else {
		rd = bytes.NewReader(nil)
	}
	r := httptest.NewRequest(method, httpd.BasePath+path, rd)
	rec := httptest.NewRecorder()
	h(rec, r)
	return rec.Code, rec.Body.String()
}

func (w *tsWorld) createEnabled(id, script string) error {
	code, body := w.call("POST", "/tasks", "/tasks", rt.M{"id": id, "type": "stream", "status": "enabled", "script": script,
		"dbrps": []any{rt.M{"db": "db", "rp": "rp"}}})
	if code/100 != 2 {
		return fmt.Errorf("create task: %d %s", code, body)
	}
	return nil
}

func (w *tsWorld) disable(id string) error {
	code, body := w.call("PATCH", "/tasks/", "/tasks/"+id, rt.M{"status": "disabled"})
	if code/100 != 2 {
		return fmt.Errorf("disable task: %d %s", code, body)
	}
	return nil
}

func (w *tsWorld) del(id string) error {
	code, body := w.call("DELETE", "/tasks/", "/tasks/"+id, nil)
	if code/100 != 2 {
		return fmt.Errorf("delete task: %d %s", code, body)
	}
	return nil
}
