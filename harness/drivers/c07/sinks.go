package c07

import (
	"encoding/json"
	"io"
	"net/http"
	"net/http/httptest"
	"sort"
	"strings"
	"sync"

	"github.com/influxdata/kapacitor/alert"
	"github.com/influxdata/kapacitor/keyvalue"

	"kapverif/rt"
)

// ---- alert handler created by the alert node itself (anonymous topic) ----
// TaskMaster.TalkService is an interface field: a fake service hands the node a
// gated recording handler, so `.talk()` puts OUR handler into the node's own
// handler list (registered on the node's anonymous topic at start, closed by the
// node when it finishes).
type talkService struct {
	mu   sync.Mutex
	next *rt.RecHandler
	made []*rt.RecHandler
}

func (t *talkService) Handler(ctx ...keyvalue.T) alert.Handler {
	t.mu.Lock()
	defer t.mu.Unlock()
	h := t.next
	if h == nil {
		h = rt.NewRecHandler("talk")
	}
	t.next = nil
	t.made = append(t.made, h)
	return h
}

func eventSeqs(evs []alert.Event) []int {
	var out []int
	for _, e := range evs {
		if v, ok := e.Data.Fields["seq"]; ok {
			out = append(out, toInt(v))
		}
	}
	return out
}

func toInt(v any) int {
	switch x := v.(type) {
	case int64:
		return int(x)
	case int:
		return x
	case float64:
		return int(x)
	case json.Number:
		i, _ := x.Int64()
		return int(i)
	}
	return -1
}

// ---- HTTP endpoint for |httpPost() : one test server, one gate per URL path ----
type postSink struct {
	srv   *httptest.Server
	mu    sync.Mutex
	cond  *sync.Cond
	seqs  map[string][]int
	block map[string]bool
	inReq map[string]int
}

func newPostSink() *postSink {
	p := &postSink{seqs: map[string][]int{}, block: map[string]bool{}, inReq: map[string]int{}}
	p.cond = sync.NewCond(&p.mu)
	p.srv = httptest.NewServer(http.HandlerFunc(p.handle))
	return p
}

func (p *postSink) handle(w http.ResponseWriter, r *http.Request) {
	key := strings.TrimPrefix(r.URL.Path, "/")
	body, _ := io.ReadAll(r.Body)
	var res struct {
		Series []struct {
			Columns []string `json:"columns"`
			Values  [][]any  `json:"values"`
		} `json:"series"`
	}
	_ = json.Unmarshal(body, &res)
	var got []int
	for _, s := range res.Series {
		ci := -1
		for i, c := range s.Columns {
			if c == "seq" {
				ci = i
			}
		}
		if ci < 0 {
			continue
		}
		for _, v := range s.Values {
			got = append(got, toInt(v[ci]))
		}
	}
	p.mu.Lock()
	p.inReq[key]++
	p.cond.Broadcast()
	for p.block[key] {
		p.cond.Wait()
	}
	p.inReq[key]--
	p.seqs[key] = append(p.seqs[key], got...)
	p.mu.Unlock()
	w.WriteHeader(200)
}

func (p *postSink) URL(key string) string { return p.srv.URL + "/" + key }
func (p *postSink) Block(key string)      { p.mu.Lock(); p.block[key] = true; p.mu.Unlock() }
func (p *postSink) Release(key string) {
	p.mu.Lock()
	delete(p.block, key)
	p.cond.Broadcast()
	p.mu.Unlock()
}
func (p *postSink) Seqs(key string) []int {
	p.mu.Lock()
	defer p.mu.Unlock()
	return append([]int(nil), p.seqs[key]...)
}
func (p *postSink) Forget(key string) {
	p.mu.Lock()
	delete(p.seqs, key)
	delete(p.block, key)
	delete(p.inReq, key)
	p.cond.Broadcast()
	p.mu.Unlock()
}
func (p *postSink) Close() { p.srv.Close() }

// ---- gate for synchronous log() sinks: Diag.OnItem runs in the node goroutine ----
type logGate struct {
	mu    sync.Mutex
	cond  *sync.Cond
	block map[string]bool
}

func newLogGate() *logGate {
	g := &logGate{block: map[string]bool{}}
	g.cond = sync.NewCond(&g.mu)
	return g
}
func (g *logGate) onItem(it rt.SinkItem) {
	g.mu.Lock()
	for g.block[it.Sink] {
		g.cond.Wait()
	}
	g.mu.Unlock()
}
func (g *logGate) Block(s string) { g.mu.Lock(); g.block[s] = true; g.mu.Unlock() }
func (g *logGate) Release(s string) {
	g.mu.Lock()
	delete(g.block, s)
	g.cond.Broadcast()
	g.mu.Unlock()
}

// ---- compact encoding of a set of sequence numbers: sorted [lo,hi] ranges ----
func ranges(seqs []int) [][]int {
	if len(seqs) == 0 {
		return [][]int{}
	}
	s := append([]int(nil), seqs...)
	sort.Ints(s)
	out := [][]int{}
	lo, hi := s[0], s[0]
	for _, x := range s[1:] {
		if x == hi || x == hi+1 {
			hi = x
			continue
		}
		out = append(out, []int{lo, hi})
		lo, hi = x, x
	}
	return append(out, []int{lo, hi})
}

func dupCount(seqs []int) int {
	seen := map[int]int{}
	d := 0
	for _, x := range seqs {
		seen[x]++
		if seen[x] > 1 {
			d++
		}
	}
	return d
}
