package c07

import (
	"encoding/json"
	"sync"

	imodels "github.com/influxdata/influxdb/models"
	"github.com/influxdata/kapacitor/influxdb"

	"kapverif/rt"
)

// batchSource answers the queries of a batch task's query node: query k (1..n) returns one batch with one
// point carrying seq=k; later queries return nothing.  With hold, query n is kept inside the fake (a query
// in flight) until release.
type batchSource struct {
	mu       sync.Mutex
	cond     *sync.Cond
	n        int
	hold     bool
	issued   int
	inFlight bool
	open     bool
	ret      []int
}

func newBatchSource(n int, hold bool) *batchSource {
	b := &batchSource{n: n, hold: hold}
	b.cond = sync.NewCond(&b.mu)
	return b
}

func (b *batchSource) query(q influxdb.Query) (*influxdb.Response, error) {
	b.mu.Lock()
	defer b.mu.Unlock()
	if b.issued >= b.n {
		return &influxdb.Response{}, nil
	}
	b.issued++
	k := b.issued
	if b.hold && k == b.n {
		b.inFlight = true
		b.cond.Broadcast()
		for !b.open {
			b.cond.Wait()
		}
		b.inFlight = false
	}
	b.ret = append(b.ret, k)
	t := rt.DefaultTime.T(k)
	row := imodels.Row{Name: "m", Columns: []string{"time", "seq"},
		Values: [][]interface{}{{t.Format("2006-01-02T15:04:05.999999999Z07:00"), json.Number(itoa(k))}}}
	return &influxdb.Response{Results: []influxdb.Result{{Series: []imodels.Row{row}}}}, nil
}

// ready: every query but a held one has been answered, and the held one is inside the fake.
func (b *batchSource) ready() bool {
	b.mu.Lock()
	defer b.mu.Unlock()
	if b.hold {
		return b.inFlight && len(b.ret) == b.n-1
	}
	return len(b.ret) == b.n
}
func (b *batchSource) release() {
	b.mu.Lock()
	b.open = true
	b.cond.Broadcast()
	b.mu.Unlock()
}
func (b *batchSource) returned() []int {
	b.mu.Lock()
	defer b.mu.Unlock()
	return append([]int(nil), b.ret...)
}

func itoa(k int) string {
	bs, _ := json.Marshal(k)
	return string(bs)
}
