package c07

import (
	"fmt"
	"os"
	"sort"
	"strconv"
	"strings"
	"sync"
	"time"

	"github.com/influxdata/kapacitor"
	"github.com/influxdata/kapacitor/pipeline"
	"github.com/influxdata/kapacitor/server/vars"

	"kapverif/rt"
)

// One scenario = pipeline x number of points x stop API x where the backlog sits
// when the stop is requested x (optional) fault.  See scen.go for the alphabet.
type scen struct {
	Pipe    string // key into pipes
	N       int    // points offered before the stop
	Stop    string // StopTask | DeleteTask | Close | DrainStopTasks
	Stall   string // "" | sink:<out> | run:<nodePrefix> | emit:<nodePrefix>:<k>
	Release string // before | after   (gate opened before / after the stop was requested)
	Fail    string // "" | poison:<k> | panic:<nodePrefix>:<k> | runpanic:<nodePrefix>
	Racing  int    // >0: a writer goroutine keeps offering this many extra points while the stop runs
	// Overflow: N is MORE than fits in front of the stall: when the stop is requested the TaskMaster's forking
	// goroutine is parked inside forkPoint -> Collect on the task's full source edge (and the rest of the
	// acknowledged points waits in the ingest edge); a neighbour task on the same db/rp keeps receiving
	Overflow bool
	Waiters  int // goroutines already blocked in ExecutingTask.Wait() when the stop is requested (task_store has one per task)
}

func (s scen) key() string {
	k := fmt.Sprintf("%s/n%d/%s/%s/%s/%s/r%d", s.Pipe, s.N, s.Stop, s.Stall, s.Release, s.Fail, s.Racing)
	if s.Overflow {
		k += "/overflow"
	}
	if s.Waiters > 0 {
		k += fmt.Sprintf("/w%d", s.Waiters)
	}
	return k
}

type outSpec struct {
	Name  string // output name in the trace
	Kind  string // influx | alert | log | loopback | httppost | udf
	Route string // measurement it receives ("m", "m1", "m2", "*")
}

type pipeSpec struct {
	Script func(a *attempt) string
	Outs   []outSpec
	Meas   []string // measurements cycled over by the writer
	Second func(a *attempt) string
	// Batch: a batch task (batch|query()...): the source is the query node's own goroutine asking the fake
	// InfluxDB every 20ms; "accepted" = the batches the fake returned to it; stall "query" = a query in flight
	Batch bool
	// Buf: influxDBOut buffer size (the sink sees nothing before a batch is full or the final flush)
	Buf int
	// NoLoss=false: the pipeline does not deliver point-for-point (join); only termination is judged.
	Counted bool
}

type outcome struct {
	Accepted []int // seq numbers acknowledged by WritePoints (nil error), in order
	// Overflow scenarios stopped with StopTask/DeleteTask: the first Certain sequence numbers had been collected
	// into the task's source edge when the stop was requested (they are the task's); the acknowledged rest was
	// still in the forking goroutine's hand or in the ingest edge (the task may get the next one or two, no more)
	Certain     int
	Neighbor    []int            // what the neighbour task's sink had seen after the whole environment was closed
	AtReturn    map[string][]int // per output: seqs delivered when the stop call returned
	Final       map[string][]int // per output: seqs delivered after everything was shut down
	Refused     map[string]int   // loopback: writes refused with a reported error
	StopErr     string
	Returned    bool   // the stop call returned
	Hung        bool   // ... or is provably parked forever (goroutine dump in HungDump)
	Panicked    string // ... or panicked in the calling goroutine
	HungDump    string
	EarlyReturn bool // the stop call returned while the stalling gate was still closed
	Leaked      []string
	LeakDump    string
	NodeFailed  bool
	FaultFired  bool // an injected panic was raised (whether or not the node reported a failure)
	// concurrent callers of ExecutingTask.Wait(): did each return, and with which error
	WaiterBack []bool
	WaiterErr  []string
	WaiterDump string
	Errors     []string
	StopMs     int64
}

type attempt struct {
	sc                   scen
	spec                 pipeSpec
	id                   string
	env                  *rt.Env
	hooks                *taskHooks
	talk                 *talkService
	rec                  *rt.RecHandler
	post                 *postSink
	lg                   *logGate
	nodes                []string
	parents              [][]string
	stallKind, stallNode string
	dl                   deadlines
}

type deadlines struct {
	Step   time.Duration // reaching a gate / forking all points
	Stop   time.Duration // the stop call, after all gates are open
	Leak   time.Duration // goroutines winding down after the stop returned
	Quiet  time.Duration // parked and motionless for this long = will never move again
	Settle time.Duration // bounded wait for a node's failure report / a sink to become busy (never an error)
}

func (a *attempt) nodeByPrefix(p string) string {
	for _, n := range a.nodes {
		if strings.HasPrefix(n, p) {
			return n
		}
	}
	rt.Fatalf("c07: no node with prefix %q in %v (scenario %s)", p, a.nodes, a.sc.key())
	return ""
}

var attemptSeq int

// runAttempt executes one scenario once on the real code.
func runAttempt(sc scen, post *postSink, dl deadlines) (*outcome, *attempt, error) {
	installHooks()
	spec, ok := pipes[sc.Pipe]
	if !ok {
		return nil, nil, fmt.Errorf("unknown pipeline %q", sc.Pipe)
	}
	attemptSeq++
	a := &attempt{sc: sc, spec: spec, id: fmt.Sprintf("c07t%d", attemptSeq), post: post, dl: dl}
	a.lg = newLogGate()
	diag := rt.NewDiag()
	diag.OnItem = a.lg.onItem
	tEnv := time.Now()
	// Bolt file on tmpfs: no fsync to a disk shared with other jobs
	boltDir, err := os.MkdirTemp(shmDir(), "kvh-c07-")
	if err != nil {
		return nil, nil, err
	}
	defer os.RemoveAll(boltDir)
	env, err := rt.NewEnv(rt.EnvOpts{Diag: diag, BoltPath: boltDir + "/kapacitor.db"})
	if d := time.Since(tEnv); d > time.Second && os.Getenv("C07_TIMING") != "" {
		fmt.Printf("SLOW NewEnv %v\n", d)
	}
	if err != nil {
		return nil, nil, err
	}
	a.env = env
	var tsw *tsWorld // the real task store service, for the stop APIs that go through it
	envClosed := false
	// closeEnv shuts the environment down but never waits for ever: on a broken tree the TaskMaster may be
	// unable to close (a node that never ends); the goroutines are then abandoned with the process.
	closeEnv := func(wait time.Duration) bool {
		if envClosed {
			return true
		}
		envClosed = true
		done := make(chan struct{})
		go func() {
			if tsw != nil {
				tsw.ts.Close()
			}
			env.Close()
			close(done)
		}()
		select {
		case <-done:
			return true
		case <-time.After(wait):
			return false
		}
	}
	defer closeEnv(5 * time.Second)
	a.talk = &talkService{}
	a.rec = rt.NewRecHandler("talk")
	a.talk.next = a.rec
	env.TM.TalkService = a.talk
	env.TM.UDFService = udfService{}
	a.hooks = hooksFor(a.id)
	defer dropHooks(a.id)
	defer a.hooks.releaseAll()
	defer post.Forget(a.id)
	defer env.Influx.Release()
	defer a.rec.Release()
	defer func() {
		if q := env.Influx.QueryFn; q != nil {
			env.Influx.QueryFn = nil
		}
	}()

	out := &outcome{AtReturn: map[string][]int{}, Final: map[string][]int{}, Refused: map[string]int{}}

	if spec.Second != nil {
		if _, err := env.StartTask(a.id+"b", spec.Second(a), kapacitor.StreamTask, []kapacitor.DBRP{{Database: "db2", RetentionPolicy: "rp"}}); err != nil {
			return nil, nil, fmt.Errorf("second task: %v", err)
		}
	}
	if sc.Overflow {
		if _, err := env.StartTask(a.id+"nb", `stream|from().measurement('m')|log().prefix('nb')`, kapacitor.StreamTask, rt.DefaultDBRP); err != nil {
			return nil, nil, fmt.Errorf("neighbour task: %v", err)
		}
	}
	if strings.HasPrefix(sc.Stop, "TS") {
		if tsw, err = openTaskStore(env); err != nil {
			return nil, nil, err
		}
	}
	// baseline: everything alive now is not the task's
	base := takeCensus()

	tt := kapacitor.StreamTask
	if spec.Batch {
		tt = kapacitor.BatchTask
	}
	task, err := env.TM.NewTask(a.id, spec.Script(a), tt, rt.DefaultDBRP, 0, nil)
	if err != nil {
		return nil, nil, fmt.Errorf("NewTask: %v\n%s", err, spec.Script(a))
	}
	_ = task.Pipeline.Walk(func(n pipeline.Node) error {
		a.nodes = append(a.nodes, n.Name())
		var ps []string
		for _, p := range n.Parents() {
			ps = append(ps, p.Name())
		}
		a.parents = append(a.parents, ps)
		return nil
	})

	// ---- arm gates and faults
	var stallGate *gate
	stallSink := ""
	switch parts := strings.Split(sc.Stall, ":"); parts[0] {
	case "":
	case "query":
		a.stallKind, a.stallNode = "query", ""
	case "sink":
		stallSink = parts[1]
		a.stallKind, a.stallNode = "sink", parts[1]
		a.blockSink(stallSink)
	case "run":
		stallGate = newGate()
		a.stallKind, a.stallNode = "run", a.nodeByPrefix(parts[1])
		a.hooks.runGate[a.stallNode] = stallGate
	case "emit":
		stallGate = newGate()
		n := a.nodeByPrefix(parts[1])
		a.stallKind, a.stallNode = "emit", n
		k, _ := strconv.Atoi(parts[2])
		a.hooks.emitGate[n], a.hooks.emitAt[n] = stallGate, k
	default:
		return nil, nil, fmt.Errorf("bad stall %q", sc.Stall)
	}
	poisonAt := 0
	switch parts := strings.Split(sc.Fail, ":"); parts[0] {
	case "":
	case "poison":
		poisonAt, _ = strconv.Atoi(parts[1])
	case "panic":
		k, _ := strconv.Atoi(parts[2])
		a.hooks.panicAt[a.nodeByPrefix(parts[1])] = k
	case "runpanic":
		a.hooks.runPanic[a.nodeByPrefix(parts[1])] = true
	default:
		return nil, nil, fmt.Errorf("bad fail %q", sc.Fail)
	}

	var et *kapacitor.ExecutingTask
	if tsw != nil {
		// created and enabled through the service's HTTP handler (which starts it and keeps a goroutine in et.Wait())
		if err := tsw.createEnabled(a.id, spec.Script(a)); err != nil {
			return nil, nil, err
		}
	} else {
		et, err = env.TM.StartTask(task)
		if err != nil {
			return nil, nil, fmt.Errorf("StartTask: %v", err)
		}
	}
	// ---- goroutines that sit in ExecutingTask.Wait() for the whole life of the task, as the task store's does
	type waitRes struct {
		w   int
		err error
	}
	waitC := make(chan waitRes, sc.Waiters)
	for w := 0; w < sc.Waiters; w++ {
		w := w
		go a.waiter(func() { waitC <- waitRes{w, et.Wait()} })
	}
	var accMu sync.Mutex
	var bq *batchSource
	if spec.Batch {
		// every query returns one batch of one point with the next sequence number, N batches in all;
		// with stall "query" the (N+1)-th... no: the N-th query is held inside the fake until released
		bq = newBatchSource(sc.N, sc.Stall == "query")
		env.Influx.QueryFn = bq.query
		if err := et.StartBatching(); err != nil {
			return nil, nil, fmt.Errorf("StartBatching: %v", err)
		}
	}
	// ---- offer the points (one WritePoints call each; acknowledged = nil error)
	write := func(seq int) bool {
		meas := spec.Meas[(seq-1)%len(spec.Meas)]
		tags := map[string]string{"t": "ok"}
		if seq == poisonAt {
			tags = map[string]string{"t": ""} // empty tag value is dropped -> id template fails
		}
		p := rt.MustPoint(meas, tags, map[string]any{"seq": int64(seq)}, rt.DefaultTime.T(seq))
		if err := env.Write("db", "rp", p); err != nil {
			return false
		}
		accMu.Lock()
		out.Accepted = append(out.Accepted, seq)
		accMu.Unlock()
		return true
	}
	writerDone := make(chan struct{})
	go func() {
		defer close(writerDone)
		if spec.Batch {
			return
		}
		for s := 1; s <= sc.N; s++ {
			write(s)
		}
	}()
	select {
	case <-writerDone:
	case <-time.After(dl.Step):
		return nil, nil, fmt.Errorf("writer blocked: %d points do not fit in front of the stall (scenario bug)", sc.N)
	}
	// all points forked into the task's source edge (StopTask/DeleteTask stop feeding the task by design)
	if spec.Batch {
		// all queries answered (the last one is inside the fake when it is the stall)
		if !waitFor(dl.Step, func() bool { return bq.ready() }) {
			return nil, nil, fmt.Errorf("batch source: queries were not issued within %v", dl.Step)
		}
	} else if sc.Overflow {
		// the ingest side is stuck: the forking goroutine sits in forkPoint -> Collect on the task's full source
		// edge (parked, and the edge's collected counter stands still)
		last := int64(-1)
		if !waitFor(dl.Step, func() bool {
			c := sourceCollected(a.id)
			ok := c == last && c > 0 && c < int64(sc.N) && forkerParkedInCollect()
			last = c
			if ok {
				time.Sleep(2 * time.Millisecond)
				ok = sourceCollected(a.id) == c && forkerParkedInCollect()
			}
			return ok
		}) {
			return nil, nil, fmt.Errorf("overflow: the forking goroutine did not park in Collect within %v (collected %d of %d)", dl.Step, sourceCollected(a.id), sc.N)
		}
		out.Certain = int(sourceCollected(a.id))
	} else if !waitFor(dl.Step, func() bool {
		return sourceCollected(a.id) >= int64(sc.N) || (sc.Fail != "" && nodeFailed(diag))
	}) {
		return nil, nil, fmt.Errorf("points were not forked into the task within %v (forked %d of %d)", dl.Step, sourceCollected(a.id), sc.N)
	}
	if stallGate != nil {
		if !stallGate.WaitArrived(dl.Step) {
			return nil, nil, fmt.Errorf("stall gate %s never reached", sc.Stall)
		}
	}
	if stallSink != "" {
		if sc.Fail == "" {
			if !a.waitSinkBusy(stallSink, dl.Step) {
				return nil, nil, fmt.Errorf("sink %s never became busy", stallSink)
			}
		} else {
			a.waitSinkBusy(stallSink, dl.Settle) // the fault may keep the sink idle
		}
	}
	release := func() {
		if bq != nil {
			bq.release()
		}
		if stallGate != nil {
			stallGate.Release()
		}
		if stallSink != "" {
			a.releaseSink(stallSink)
		}
	}
	if sc.Release == "before" {
		release()
		if sc.Fail != "" {
			// The fault is meant to have happened before the stop is requested.  The node's own report
			// ("node failed") is what a healthy tree produces; a tree that mishandles the fault may never
			// report it, which must not stall the driver: go on after a bounded wait, the stop decides.
			if strings.HasPrefix(sc.Fail, "poison") {
				waitFor(dl.Settle, func() bool { return nodeFailed(diag) })
			} else {
				if !waitFor(dl.Step, func() bool { return a.hooks.faultFired() }) {
					return nil, nil, fmt.Errorf("injected fault %s never fired (scenario bug)", sc.Fail)
				}
				waitFor(dl.Settle, func() bool { return nodeFailed(diag) })
			}
		}
	}

	if sc.Waiters > 0 && !spec.Batch && sc.Fail == "" {
		// every waiter is inside node.Wait of the last node before the stop is requested
		if !waitFor(dl.Step, func() bool {
			ws := findFrame(parseStacks(allStacks()), waiterFrame)
			if len(ws) < sc.Waiters {
				return false
			}
			for _, g := range ws {
				if !g.blocked() {
					return false
				}
			}
			return true
		}) {
			return nil, nil, fmt.Errorf("the %d waiters did not park in ExecutingTask.Wait within %v", sc.Waiters, dl.Step)
		}
	}
	// optional racing writer: keeps offering points while the stop runs
	racingDone := make(chan struct{})
	if sc.Racing > 0 {
		go func() {
			defer close(racingDone)
			for s := sc.N + 1; s <= sc.N+sc.Racing; s++ {
				if !write(s) {
					return
				}
			}
		}()
	} else {
		close(racingDone)
	}

	// ---- goroutine census: everything the task started must be gone once the stop call has returned.
	// Leaked = still there, parked on a synchronisation object and motionless over several dumps.
	censusDone := false
	census := func() error {
		censusDone = true
		deadline := time.Now().Add(dl.Leak)
		still := 0
		lastFP := ""
		for {
			left := takeCensus().newKap(base)
			if len(left) == 0 {
				return nil
			}
			parked := true
			for _, g := range left {
				if !g.blocked() {
					parked = false
				}
			}
			fp := fingerprint(left)
			if parked && fp == lastFP {
				still++
			} else {
				still = 0
			}
			lastFP = fp
			if still >= 3 {
				// parked and motionless over several dumps after the task has been stopped: leaked
				out.Leaked = sigs(left)
				var b strings.Builder
				for _, g := range left {
					b.WriteString(g.Text)
					b.WriteString("\n\n")
				}
				out.LeakDump = b.String()
				return nil
			}
			if time.Now().After(deadline) {
				return fmt.Errorf("goroutines still moving %v after the stop returned (machine too slow?): %v", dl.Leak, sigs(left))
			}
			if still == 0 {
				time.Sleep(200 * time.Microsecond) // winding down: poll fast
			} else {
				time.Sleep(dl.Quiet / 3)
			}
		}
	}

	// ---- the stop
	type stopRes struct {
		err      error
		atReturn map[string][]int
		panicked string
	}
	stopped := make(chan stopRes, 1)
	t0 := time.Now()
	go a.stopper(func() {
		var err error
		defer func() {
			if r := recover(); r != nil {
				stopped <- stopRes{nil, a.delivered(), fmt.Sprint(r)}
			}
		}()
		switch sc.Stop {
		case "StopTask":
			err = env.TM.StopTask(a.id)
		case "DeleteTask":
			err = env.TM.DeleteTask(a.id)
		case "Close":
			err = env.TM.Close()
		case "DrainStopTasks":
			env.TM.Drain()
			env.TM.StopTasks()
		case "TSDisable":
			err = tsw.disable(a.id)
		case "TSDelete":
			err = tsw.del(a.id)
		}
		stopped <- stopRes{err, a.delivered(), ""}
	})
	var sr stopRes
	gotReturn := false
	if sc.Release == "after" {
		// Hold the gate until the stop request is parked (it cannot finish while accepted
		// points sit behind a closed gate), then open it.  A stop that returns while the gate
		// is still closed is recorded as such; the verdict is still taken from the counts.
		parked := waitFor(dl.Step, func() bool {
			select {
			case sr = <-stopped:
				gotReturn = true
				return true
			default:
			}
			// parked for good, not just passing through a short wait (a stop that returns within the
			// next couple of milliseconds must be seen as returned with the gate closed)
			if !a.stopperParked() {
				return false
			}
			time.Sleep(2 * time.Millisecond)
			select {
			case sr = <-stopped:
				gotReturn = true
				return true
			default:
			}
			return a.stopperParked()
		})
		if gotReturn {
			// The stop call returned although the gate is still closed.  Whatever the task left parked
			// behind the gate was not waited for: take the census BEFORE the gate is opened.
			out.EarlyReturn = true
			if sr.panicked == "" {
				if err := census(); err != nil {
					return nil, nil, err
				}
			}
		} else if !parked {
			return nil, nil, fmt.Errorf("stop call neither returned nor parked within %v", dl.Step)
		}
		release()
	}
	if !gotReturn {
		// Wait for the stop call with every gate open.  Timing never produces a verdict by itself:
		// "hung" needs the stopper and every goroutine of the module under test to be parked on a
		// synchronisation object, motionless over several dumps (nothing left that could wake them);
		// anything else that exceeds the deadline is a broken check (exit 2).
		deadline := time.Now().Add(dl.Stop)
		still := 0
		lastFP := ""
		tick := time.NewTicker(dl.Quiet / 3)
		defer tick.Stop()
	WAIT:
		for {
			select {
			case sr = <-stopped:
				gotReturn = true
				break WAIT
			case <-tick.C:
				fp, parked, dump := a.motionless()
				if parked && fp == lastFP {
					still++
				} else {
					still = 0
				}
				lastFP = fp
				if still >= 3 {
					out.Hung, out.HungDump = true, dump
					break WAIT
				}
				if time.Now().After(deadline) {
					return nil, nil, fmt.Errorf("stop call did not return within %v but goroutines are still moving (machine too slow?)\n%s", dl.Stop, dump)
				}
			}
		}
	}
	if !gotReturn {
		out.AtReturn = a.delivered()
	} else if sr.panicked != "" {
		out.Panicked = sr.panicked
		out.AtReturn = sr.atReturn
	} else {
		out.Returned = true
		out.AtReturn = sr.atReturn
		if sr.err != nil {
			out.StopErr = sr.err.Error()
		}
	}
	out.StopMs = time.Since(t0).Milliseconds()
	<-racingDone

	// ---- every goroutine that was waiting for the task must get its answer once the task has stopped
	if sc.Waiters > 0 {
		out.WaiterBack = make([]bool, sc.Waiters)
		out.WaiterErr = make([]string, sc.Waiters)
	}
	if sc.Waiters > 0 && out.Returned {
		back := 0
		deadline := time.Now().Add(dl.Leak)
		still := 0
		lastFP := ""
		for back < sc.Waiters {
			select {
			case r := <-waitC:
				out.WaiterBack[r.w] = true
				if r.err != nil {
					out.WaiterErr[r.w] = r.err.Error()
				}
				back++
				continue
			default:
			}
			// not back yet: stuck only if the waiters AND everything of the module under test are parked and
			// motionless over several dumps (nobody left who could ever send on the node's error channel)
			fp, parked, dump := a.motionless()
			if parked && fp == lastFP {
				still++
			} else {
				still = 0
			}
			lastFP = fp
			if still >= 3 {
				out.WaiterDump = dump
				break
			}
			if time.Now().After(deadline) {
				return nil, nil, fmt.Errorf("waiters of ExecutingTask.Wait neither returned nor parked for good within %v (machine too slow?)\n%s", dl.Leak, dump)
			}
			if still == 0 {
				time.Sleep(200 * time.Microsecond)
			} else {
				time.Sleep(dl.Quiet / 3)
			}
		}
	}

	if out.Returned && !censusDone {
		if err := census(); err != nil {
			return nil, nil, err
		}
	}

	// ---- final counts after the whole environment is shut down (late vs lost; loopback)
	if out.Returned || out.Panicked != "" {
		a.hooks.releaseAll()
		env.Influx.Release()
		a.rec.Release()
		if !closeEnv(dl.Stop) {
			return nil, nil, fmt.Errorf("the environment did not close within %v after the stop call had returned", dl.Stop)
		}
		out.Final = a.delivered()
		if sc.Overflow {
			for _, it := range diag.SinkItems("nb") {
				if it.Point != nil {
					out.Neighbor = append(out.Neighbor, toInt(it.Point.Fields()["seq"]))
				}
			}
		}
	} else {
		out.Final = out.AtReturn
		envClosed = true // a hung TaskMaster cannot be closed; the process ends soon anyway
	}
	out.FaultFired = a.hooks.faultFired()
	for _, e := range diag.Errors() {
		if e.Msg == "node failed" {
			out.NodeFailed = true
		}
		if e.Msg == "failed to write point over loopback" {
			out.Refused["lb"]++
		}
		if len(out.Errors) < 6 {
			out.Errors = append(out.Errors, e.Ctx+": "+e.Msg+": "+e.Err)
		}
	}
	if bq != nil {
		bq.release()
		out.Accepted = bq.returned()
	}
	sort.Ints(out.Accepted)
	return out, a, nil
}

// forkerParkedInCollect: the TaskMaster's forking goroutine is blocked in forkPoint -> edge.Collect.
func forkerParkedInCollect() bool {
	for _, g := range parseStacks(allStacks()) {
		fp, col := false, false
		for _, f := range g.Frames {
			if strings.HasSuffix(f, "(*TaskMaster).forkPoint") {
				fp = true
			}
			if strings.HasSuffix(f, "(*channelEdge).Collect") {
				col = true
			}
		}
		if fp && col && g.blocked() {
			return true
		}
	}
	return false
}

// sourceCollected: number of points the TaskMaster has forked into the task's source edge
// (statistic "edges" task=<id> parent=stream child=stream0, value "collected").
func sourceCollected(task string) int64 {
	data, err := vars.GetStatsData()
	if err != nil {
		return -1
	}
	for _, d := range data {
		if d.Name == "edges" && d.Tags["task"] == task && d.Tags["parent"] == "stream" && d.Tags["child"] == "stream0" {
			c, _ := d.Values["collected"].(int64)
			return c
		}
	}
	return -1
}

func shmDir() string {
	if st, err := os.Stat("/dev/shm"); err == nil && st.IsDir() {
		return "/dev/shm"
	}
	return os.TempDir()
}

func nodeFailed(d *rt.Diag) bool {
	for _, e := range d.Errors() {
		if e.Msg == "node failed" {
			return true
		}
	}
	return false
}

func waitFor(d time.Duration, cond func() bool) bool {
	deadline := time.Now().Add(d)
	sleep := 50 * time.Microsecond
	for {
		if cond() {
			return true
		}
		if time.Now().After(deadline) {
			return false
		}
		time.Sleep(sleep)
		if sleep < 5*time.Millisecond {
			sleep *= 2
		}
	}
}

// stopper is a named frame so that the census can find the goroutine that runs the stop call.
//
//go:noinline
func (a *attempt) stopper(f func()) { f() }

const stopperFrame = "kapverif/drivers/c07.(*attempt).stopper"

// waiter is a named frame for the goroutines that call ExecutingTask.Wait().
//
//go:noinline
func (a *attempt) waiter(f func()) { f() }

const waiterFrame = "kapverif/drivers/c07.(*attempt).waiter"

func findFrame(gs []gor, frame string) []gor {
	var out []gor
	for _, g := range gs {
		for _, f := range g.Frames {
			if f == frame {
				out = append(out, g)
				break
			}
		}
	}
	return out
}

func findStopper(gs []gor) (gor, bool) {
	for _, g := range gs {
		for _, f := range g.Frames {
			if f == stopperFrame {
				return g, true
			}
		}
	}
	return gor{}, false
}

// stopperParked: the goroutine executing the stop call is blocked inside the module under test.
func (a *attempt) stopperParked() bool {
	g, ok := findStopper(parseStacks(allStacks()))
	return ok && g.blocked()
}

// motionless: fingerprint of the stopper plus every goroutine of the module under test, and whether
// all of them are parked on a synchronisation object.
func (a *attempt) motionless() (string, bool, string) {
	all := parseStacks(allStacks())
	var rel []gor
	ok := true
	for _, g := range all {
		isStopper := false
		for _, f := range g.Frames {
			if f == stopperFrame || f == waiterFrame {
				isStopper = true // the stopper, or a caller blocked in ExecutingTask.Wait
			}
		}
		if isStopper || g.ofKapacitor() {
			rel = append(rel, g)
			if !g.blocked() {
				ok = false
			}
		}
	}
	var b strings.Builder
	for _, g := range rel {
		b.WriteString(g.Text)
		b.WriteString("\n\n")
	}
	return fingerprint(rel), ok, b.String()
}

// ---- sinks
func (a *attempt) blockSink(o string) {
	switch a.kindOf(o) {
	case "influx":
		a.env.Influx.Block()
	case "alert":
		a.rec.Block()
	case "log":
		a.lg.Block(o)
	case "httppost":
		a.post.Block(a.id)
	default:
		rt.Fatalf("c07: cannot stall sink %s", o)
	}
}
func (a *attempt) releaseSink(o string) {
	switch a.kindOf(o) {
	case "influx":
		a.env.Influx.Release()
	case "alert":
		a.rec.Release()
	case "log":
		a.lg.Release(o)
	case "httppost":
		a.post.Release(a.id)
	}
}
func (a *attempt) kindOf(o string) string {
	for _, s := range a.spec.Outs {
		if s.Name == o {
			return s.Kind
		}
	}
	rt.Fatalf("c07: unknown output %s", o)
	return ""
}

// waitSinkBusy: the sink holds (at least) one delivery behind its closed gate.
func (a *attempt) waitSinkBusy(o string, d time.Duration) bool {
	switch a.kindOf(o) {
	case "influx":
		if a.sc.N < a.spec.Buf {
			return true // nothing reaches the sink before the final flush
		}
		return a.env.Influx.WaitInWrite(1, d)
	case "alert":
		return true // the handler goroutine parks inside Handle on its first event; nothing to wait for
	case "log":
		return a.env.Diag.WaitCount(o, 1, d)
	case "httppost":
		return waitFor(d, func() bool {
			a.post.mu.Lock()
			defer a.post.mu.Unlock()
			return a.post.inReq[a.id] > 0
		})
	}
	return true
}

func (a *attempt) delivered() map[string][]int {
	m := map[string][]int{}
	for _, o := range a.spec.Outs {
		var s []int
		switch o.Kind {
		case "influx":
			for _, p := range a.env.Influx.WrittenPoints() {
				s = append(s, toInt(p.Fields["seq"]))
			}
		case "alert":
			s = eventSeqs(a.rec.Snapshot())
		case "log", "loopback":
			for _, it := range a.env.Diag.SinkItems(o.Name) {
				if it.Point != nil {
					f := it.Point.Fields()
					if v, ok := f["seq"]; ok {
						s = append(s, toInt(v))
					} else if v, ok := f["a.seq"]; ok { // joined pair
						s = append(s, toInt(v))
					}
				}
			}
		case "httppost":
			s = a.post.Seqs(a.id)
		}
		if s == nil {
			s = []int{}
		}
		m[o.Name] = s
	}
	return m
}
