package c07

import (
	"fmt"
	"sync"
	"time"

	"github.com/influxdata/kapacitor"
)

// Scheduling gates and fault injection through the guarded hooks of the root
// package (build tag verif):
//
//	node.run  (task, node)           first statement of every node goroutine
//	edge.emit (task, parent, child)  the receiving goroutine took a message off an edge
//
// The hook variable is process-global: ONE dispatcher, keyed by task id (task
// ids are unique per attempt).

type gate struct {
	arrived chan struct{}
	release chan struct{}
	once    sync.Once
	relOnce sync.Once
}

func newGate() *gate { return &gate{arrived: make(chan struct{}), release: make(chan struct{})} }

func (g *gate) pass() {
	g.once.Do(func() { close(g.arrived) })
	<-g.release
}
func (g *gate) Release() { g.relOnce.Do(func() { close(g.release) }) }

// WaitArrived waits until the gated goroutine is parked at the gate.
func (g *gate) WaitArrived(d time.Duration) bool {
	select {
	case <-g.arrived:
		return true
	case <-time.After(d):
		return false
	}
}

type taskHooks struct {
	mu sync.Mutex
	// runGate[node]: park the node goroutine before it runs.
	runGate map[string]*gate
	// emitGate[child] parks the goroutine receiving for node `child` when it has
	// taken its k-th message (1-based) off an input edge.
	emitGate map[string]*gate
	emitAt   map[string]int
	// panicAt[child] = k: panic in the receiving goroutine at its k-th message
	// (fault injection; only for single-consumer nodes, whose receive loop runs in
	// the node goroutine under node.start's recover).
	panicAt map[string]int
	// runPanic[node]: panic at node start.
	runPanic map[string]bool
	emits    map[string]int
	// fired: an injected panic has been raised
	fired bool
}

func (h *taskHooks) faultFired() bool {
	h.mu.Lock()
	defer h.mu.Unlock()
	return h.fired
}

var (
	hooksMu  sync.RWMutex
	hooksTab = map[string]*taskHooks{}
	hookOnce sync.Once
)

func installHooks() {
	hookOnce.Do(func() {
		kapacitor.VerifHook = dispatch
	})
}

func hooksFor(task string) *taskHooks {
	hooksMu.Lock()
	defer hooksMu.Unlock()
	h := &taskHooks{runGate: map[string]*gate{}, emitGate: map[string]*gate{}, emitAt: map[string]int{},
		panicAt: map[string]int{}, runPanic: map[string]bool{}, emits: map[string]int{}}
	hooksTab[task] = h
	return h
}

func dropHooks(task string) {
	hooksMu.Lock()
	delete(hooksTab, task)
	hooksMu.Unlock()
}

// releaseAll opens every gate of the task (used on every exit path so that no
// goroutine of the code under test stays parked because of the harness).
func (h *taskHooks) releaseAll() {
	h.mu.Lock()
	defer h.mu.Unlock()
	for _, g := range h.runGate {
		g.Release()
	}
	for _, g := range h.emitGate {
		g.Release()
	}
}

func dispatch(point string, args ...string) {
	if len(args) == 0 {
		return
	}
	hooksMu.RLock()
	h := hooksTab[args[0]]
	hooksMu.RUnlock()
	if h == nil {
		return
	}
	switch point {
	case "node.run":
		node := args[1]
		h.mu.Lock()
		g := h.runGate[node]
		p := h.runPanic[node]
		h.mu.Unlock()
		if g != nil {
			g.pass()
		}
		if p {
			h.mu.Lock()
			h.fired = true
			h.mu.Unlock()
			panic(fmt.Sprintf("verif: injected fault at start of node %s", node))
		}
	case "edge.emit":
		child := args[2]
		h.mu.Lock()
		h.emits[child]++
		k := h.emits[child]
		var g *gate
		if h.emitAt[child] == k {
			g = h.emitGate[child]
		}
		p := h.panicAt[child] == k
		h.mu.Unlock()
		if g != nil {
			g.pass()
		}
		if p {
			h.mu.Lock()
			h.fired = true
			h.mu.Unlock()
			panic(fmt.Sprintf("verif: injected fault in node %s at message %d", child, k))
		}
	}
}
