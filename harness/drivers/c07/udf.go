package c07

import (
	"errors"
	"io"
	"sync"

	"github.com/influxdata/kapacitor"
	"github.com/influxdata/kapacitor/udf"
	"github.com/influxdata/kapacitor/udf/agent"
)

// In-process UDF: the real UDFNode + udf.Server on one side of two pipes, the real Go agent with a
// mirror handler (echoes every point) on the other side.  TICKscript: @mirror()

type mirrorHandler struct {
	a *agent.Agent
}

func (*mirrorHandler) Info() (*agent.InfoResponse, error) {
	return &agent.InfoResponse{Wants: agent.EdgeType_STREAM, Provides: agent.EdgeType_STREAM, Options: map[string]*agent.OptionInfo{}}, nil
}
func (*mirrorHandler) Init(*agent.InitRequest) (*agent.InitResponse, error) {
	return &agent.InitResponse{Success: true}, nil
}
func (*mirrorHandler) Snapshot() (*agent.SnapshotResponse, error) {
	return &agent.SnapshotResponse{}, nil
}
func (*mirrorHandler) Restore(*agent.RestoreRequest) (*agent.RestoreResponse, error) {
	return &agent.RestoreResponse{Success: true}, nil
}
func (*mirrorHandler) BeginBatch(*agent.BeginBatch) error {
	return errors.New("batching not supported")
}
func (h *mirrorHandler) Point(p *agent.Point) error {
	h.a.Responses <- &agent.Response{Message: &agent.Response_Point{Point: p}}
	return nil
}
func (*mirrorHandler) EndBatch(*agent.EndBatch) error { return nil }
func (h *mirrorHandler) Stop()                        { close(h.a.Responses) }

type pipeSocket struct {
	mu         sync.Mutex
	toAgentW   *io.PipeWriter
	fromAgentR *io.PipeReader
	closers    []io.Closer
	ag         *agent.Agent
}

func (s *pipeSocket) Open() error {
	toAgentR, toAgentW := io.Pipe()
	fromAgentR, fromAgentW := io.Pipe()
	s.toAgentW, s.fromAgentR = toAgentW, fromAgentR
	s.closers = []io.Closer{toAgentR, toAgentW, fromAgentR, fromAgentW}
	s.ag = agent.New(toAgentR, fromAgentW)
	s.ag.Handler = &mirrorHandler{a: s.ag}
	if err := s.ag.Start(); err != nil {
		return err
	}
	go func() { _ = s.ag.Wait() }()
	return nil
}
func (s *pipeSocket) Close() error {
	s.mu.Lock()
	defer s.mu.Unlock()
	for _, c := range s.closers {
		c.Close()
	}
	return nil
}
func (s *pipeSocket) In() io.WriteCloser { return s.toAgentW }
func (s *pipeSocket) Out() io.Reader     { return s.fromAgentR }

type udfService struct{}

func (udfService) List() []string { return []string{"mirror"} }
func (udfService) Info(name string) (udf.Info, bool) {
	if name != "mirror" {
		return udf.Info{}, false
	}
	return udf.Info{Wants: agent.EdgeType_STREAM, Provides: agent.EdgeType_STREAM, Options: map[string]*agent.OptionInfo{}}, true
}
func (udfService) Create(name, taskID, nodeID string, d udf.Diagnostic, abortCallback func()) (udf.Interface, error) {
	if name != "mirror" {
		return nil, errors.New("unknown udf")
	}
	return kapacitor.NewUDFSocket(taskID, nodeID, &pipeSocket{}, d, 0, abortCallback), nil
}
