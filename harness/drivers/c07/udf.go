package c07

import (
	"errors"
	"io"
	"sync"

	"github.com/influxdata/kapacitor"
	"github.com/influxdata/kapacitor/udf"
	"github.com/influxdata/kapacitor/udf/agent"
)

// In-process UDF: the real UDFNode + udf.Server on one side of two pipes, the real Go agent with a
// mirror handler (echoes every point) on the other side.  TICKscript: @mirror()

type mirrorHandler struct {
	a *agent.Agent
}

func (*mirrorHandler) Info() (*agent.InfoResponse, error) {
	return &agent.InfoResponse{Wants: agent.EdgeType_STREAM, Provides: agent.EdgeType_STREAM, Options: map[string]*agent.OptionInfo{}}, nil
}
func (*mirrorHandler) Init(*agent.InitRequest) (*agent.InitResponse, error) {
	return &agent.InitResponse{Success: true}, nil
}
func (*mirrorHandler) Snapshot() (*agent.SnapshotResponse, error) {
	return &agent.SnapshotResponse{}, nil
}
func (*mirrorHandler) Restore(*agent.RestoreRequest) (*agent.RestoreResponse, error) {
	return &agent.RestoreResponse{Success: true}, nil
}
func (*mirrorHandler) BeginBatch(*agent.BeginBatch) error {
	return errors.New("batching not supported")
}
func (h *mirrorHandler) Point(p *agent.Point) error {
	h.a.Responses <- &agent.Response{Message: &agent.Response_Point{Point: p}}
	return nil
}
func (*mirrorHandler) EndBatch(*agent.EndBatch) error { return nil }
func (h *mirrorHandler) Stop()                        { close(h.a.Responses) }

// bufPipe is an in-memory byte pipe with an unbounded buffer: writes never block (an OS pipe to a
// real UDF process blocks once ~64 KB are unread; with unbuffered pipes the abort path of udf.Server
// can wait for ever for its writer goroutine - noted in docs/notes/C07.md, not part of this check).
type bufPipe struct {
	mu     sync.Mutex
	cond   *sync.Cond
	buf    []byte
	closed bool
}

func newBufPipe() *bufPipe {
	p := &bufPipe{}
	p.cond = sync.NewCond(&p.mu)
	return p
}
func (p *bufPipe) Write(b []byte) (int, error) {
	p.mu.Lock()
	defer p.mu.Unlock()
	if p.closed {
		return 0, io.ErrClosedPipe
	}
	p.buf = append(p.buf, b...)
	p.cond.Broadcast()
	return len(b), nil
}
func (p *bufPipe) Read(b []byte) (int, error) {
	p.mu.Lock()
	defer p.mu.Unlock()
	for len(p.buf) == 0 && !p.closed {
		p.cond.Wait()
	}
	if len(p.buf) == 0 {
		return 0, io.EOF
	}
	n := copy(b, p.buf)
	p.buf = p.buf[n:]
	return n, nil
}
func (p *bufPipe) Close() error {
	p.mu.Lock()
	p.closed = true
	p.cond.Broadcast()
	p.mu.Unlock()
	return nil
}

type pipeSocket struct {
	toAgent, fromAgent *bufPipe
	ag                 *agent.Agent
}

func (s *pipeSocket) Open() error {
	s.toAgent, s.fromAgent = newBufPipe(), newBufPipe()
	s.ag = agent.New(s.toAgent, s.fromAgent)
	s.ag.Handler = &mirrorHandler{a: s.ag}
	if err := s.ag.Start(); err != nil {
		return err
	}
	go func() { _ = s.ag.Wait() }()
	return nil
}
func (s *pipeSocket) Close() error {
	s.toAgent.Close()
	s.fromAgent.Close()
	return nil
}
func (s *pipeSocket) In() io.WriteCloser { return s.toAgent }
func (s *pipeSocket) Out() io.Reader     { return s.fromAgent }

type udfService struct{}

func (udfService) List() []string { return []string{"mirror"} }
func (udfService) Info(name string) (udf.Info, bool) {
	if name != "mirror" {
		return udf.Info{}, false
	}
	return udf.Info{Wants: agent.EdgeType_STREAM, Provides: agent.EdgeType_STREAM, Options: map[string]*agent.OptionInfo{}}, true
}
func (udfService) Create(name, taskID, nodeID string, d udf.Diagnostic, abortCallback func()) (udf.Interface, error) {
	if name != "mirror" {
		return nil, errors.New("unknown udf")
	}
	return kapacitor.NewUDFSocket(taskID, nodeID, &pipeSocket{}, d, 0, abortCallback), nil
}
