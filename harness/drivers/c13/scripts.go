package c13

// scripts.go: the producers of statement-level scripts.
//   sweepMembers : every member (chain method, property method, settable field, UDF
//                  option) of every node kind the grammar reaches, on the shortest path
//   sweepLiterals: every literal spelling of lits.go in every position a literal can
//                  take (var declaration, property argument, lambda operand)
//   handScripts  : comments / layout / var / template / fork-join shapes
//   randomScripts: seeded composition of all of the above

import (
	"fmt"
	"math/rand"
	"reflect"
	"strings"
	"time"

	"github.com/influxdata/kapacitor/tick"
	"github.com/influxdata/kapacitor/tick/ast"
)

type item struct {
	Cls  string // "member" | "lit" | "hand" | "random" | "expr"
	Edge string // stream | batch
	Src  string
	Tag  string              // what the item exercises (kind|member, literal class, shape)
	Vars map[string]tick.Var // predefined vars (templates)
	Want *lit                // literal sweep: the value the spelling must denote
	Alt  string              // another script of the item stream with the same edge (API histories)
	// kernel items
	Toks []tok
	ML   bool
}

// The sweep is deterministic (its own fixed seed, not VERIF_SEED): its items are the set
// the signature catalogue of pipeline/tick and pipeline JSON deviations is complete for.
func (x *gen) sweepMembers(emit func(item)) (kinds, members, unreachable int) {
	saved := x.rnd
	x.rnd = seeded(20260926)
	defer func() { x.rnd = saved }()
	// a member promoted from an embedded struct (the ~60 chaining methods of chainnode, the
	// ~100 alert properties every handler object re-exports) is swept on at most 2 kinds per source
	swept := map[string]int{}
	rs := x.reach()
	for _, k := range x.g.order {
		rc, ok := rs[k.T]
		if !ok {
			unreachable++
			continue
		}
		prefix, src := rc.Text, rc.Src
		kinds++
		for _, m := range k.Members {
			dk := src + "/" + m.Owner + m.Op + m.Name
			if m.Owner != "" && swept[dk] >= 2 {
				continue
			}
			// argument classes: 0 plain first spellings, 1 zero values, 2..3 awkward spellings,
			// 4.. (members with string arguments) strings that look like another literal kind
			variants := 1
			if len(m.In) > 0 {
				variants = 4
				if takesString(m) {
					variants += len(lookalikes)
				}
			}
			got := false
			for v := 0; v < variants; v++ {
				x.rich, x.zero, x.look = v == 2 || v == 3, v == 1, 0
				if v >= 4 {
					x.look = v - 3
				}
				var nodeVars []string
				if strings.HasPrefix(prefix, "var o = ") {
					nodeVars = []string{"o"}
				}
				call, good := x.callText(m, nil, nodeVars)
				if !good {
					break
				}
				var s string
				if m.Op == "." {
					s = prefix + "\n        ." + call
				} else {
					s = prefix + "\n    " + m.Op + call
				}
				if !valid(s, src) {
					continue
				}
				got = true
				emit(item{Cls: "member", Edge: src, Src: s + "\n", Tag: describeMember(k, m)})
			}
			x.rich, x.zero, x.look = false, false, 0
			if got {
				members++
				swept[dk]++
			}
		}
	}
	return
}

func takesString(m member) bool {
	for i, t := range m.In {
		if m.Variadic && i == len(m.In)-1 {
			t = t.Elem()
		}
		if t == stringType || t == ifaceType {
			return true
		}
	}
	return false
}

// eolVariants: the same script as a file with other line endings - CRLF (saved on Windows),
// CR only, and mixed.  Line ends between tokens are white space; line ends INSIDE string
// literals, references, regexes and comments are part of the token: the law is that token
// values are unchanged, byte for byte, by Format.
func eolVariants(it item, emit func(item)) {
	if !strings.Contains(it.Src, "\n") || strings.Contains(it.Src, "\r") {
		return
	}
	mk := func(name, src string) {
		v := it
		v.Cls, v.Src, v.Tag, v.Want = "eol", src, it.Tag+"+"+name, nil
		emit(v)
	}
	mk("crlf", strings.ReplaceAll(it.Src, "\n", "\r\n"))
	mk("cr", strings.ReplaceAll(it.Src, "\n", "\r"))
	// mixed: every second line end is CRLF
	var b strings.Builder
	k := 0
	for _, c := range it.Src {
		if c == '\n' {
			if k%2 == 0 {
				b.WriteString("\r\n")
			} else {
				b.WriteString("\n")
			}
			k++
			continue
		}
		b.WriteRune(c)
	}
	mk("mixed", b.String())
}

func (x *gen) sweepLiterals(emit func(item)) {
	for _, c := range litClasses {
		for i := range c.Lits {
			l := c.Lits[i]
			tag := "lit:" + c.Name
			// 1. var declaration, used where the type allows
			switch c.Name {
			case "string":
				emit(item{Cls: "lit", Edge: "stream", Tag: tag + ":var", Want: &l, Src: "var x = " + l.Text + "\nstream\n    |from()\n        .measurement(x)\n"})
				emit(item{Cls: "lit", Edge: "stream", Tag: tag + ":arg", Want: &l, Src: "stream\n    |from()\n        .measurement(" + l.Text + ")\n"})
				emit(item{Cls: "lit", Edge: "stream", Tag: tag + ":lambda", Want: &l, Src: "stream\n    |from()\n    |where(lambda: \"s\" == " + l.Text + ")\n"})
				emit(item{Cls: "lit", Edge: "stream", Tag: tag + ":list", Want: &l, Src: "stream\n    |from()\n    |groupBy([" + l.Text + ", 'b'])\n"})
				emit(item{Cls: "lit", Edge: "batch", Tag: tag + ":query", Want: &l, Src: "batch\n    |query(" + l.Text + ")\n        .period(10s)\n        .every(10s)\n"})
			case "reference":
				emit(item{Cls: "lit", Edge: "stream", Tag: tag + ":lambda", Want: &l, Src: "stream\n    |from()\n    |where(lambda: " + l.Text + " > 1)\n"})
				emit(item{Cls: "lit", Edge: "stream", Tag: tag + ":fnarg", Want: &l, Src: "stream\n    |from()\n    |eval(lambda: abs(" + l.Text + "))\n        .as('a')\n"})
			case "regex":
				emit(item{Cls: "lit", Edge: "stream", Tag: tag + ":var", Want: &l, Src: "var x = " + l.Text + "\nstream\n    |from()\n    |where(lambda: \"s\" =~ x)\n"})
				emit(item{Cls: "lit", Edge: "stream", Tag: tag + ":lambda", Want: &l, Src: "stream\n    |from()\n    |where(lambda: \"s\" =~ " + l.Text + ")\n"})
				emit(item{Cls: "lit", Edge: "stream", Tag: tag + ":lambda-ne", Want: &l, Src: "stream\n    |from()\n    |where(lambda: \"s\" !~ " + l.Text + " AND TRUE)\n"})
				emit(item{Cls: "lit", Edge: "stream", Tag: tag + ":compact", Want: &l, Src: "stream|from()|where(lambda:\"s\"=~" + l.Text + ")\n"})
			case "duration":
				emit(item{Cls: "lit", Edge: "stream", Tag: tag + ":var", Want: &l, Src: "var x = " + l.Text + "\nstream\n    |from()\n    |window()\n        .period(x)\n        .every(x)\n"})
				emit(item{Cls: "lit", Edge: "stream", Tag: tag + ":arg", Want: &l, Src: "stream\n    |from()\n    |shift(" + l.Text + ")\n"})
				emit(item{Cls: "lit", Edge: "stream", Tag: tag + ":neg", Want: &l, Src: "stream\n    |from()\n    |shift(-" + l.Text + ")\n"})
				emit(item{Cls: "lit", Edge: "stream", Tag: tag + ":lambda", Want: &l, Src: "stream\n    |from()\n    |where(lambda: \"d\" > " + l.Text + ")\n"})
			case "int":
				emit(item{Cls: "lit", Edge: "stream", Tag: tag + ":var", Want: &l, Src: "var x = " + l.Text + "\nstream\n    |from()\n    |sample(x)\n"})
				emit(item{Cls: "lit", Edge: "stream", Tag: tag + ":arg", Want: &l, Src: "stream\n    |from()\n    |window()\n        .periodCount(" + l.Text + ")\n        .everyCount(" + l.Text + ")\n"})
				emit(item{Cls: "lit", Edge: "stream", Tag: tag + ":neg", Want: &l, Src: "stream\n    |from()\n    |where(lambda: \"v\" > -" + l.Text + " AND \"v\" - " + l.Text + " < - " + l.Text + ")\n"})
				emit(item{Cls: "lit", Edge: "stream", Tag: tag + ":lambda", Want: &l, Src: "stream\n    |from()\n    |where(lambda: \"v\" == " + l.Text + ")\n"})
				emit(item{Cls: "lit", Edge: "stream", Tag: tag + ":compact", Want: &l, Src: "stream|from()|where(lambda:\"v\"-" + l.Text + "<" + l.Text + "/" + l.Text + ")\n"})
			case "float":
				emit(item{Cls: "lit", Edge: "stream", Tag: tag + ":var", Want: &l, Src: "var x = " + l.Text + "\nstream\n    |from()\n    |where(lambda: \"v\" > x)\n"})
				emit(item{Cls: "lit", Edge: "stream", Tag: tag + ":arg", Want: &l, Src: "stream\n    |from()\n    |percentile('v', " + l.Text + ")\n"})
				emit(item{Cls: "lit", Edge: "stream", Tag: tag + ":neg", Want: &l, Src: "stream\n    |from()\n    |where(lambda: \"v\" > -" + l.Text + ")\n"})
				emit(item{Cls: "lit", Edge: "stream", Tag: tag + ":lambda", Want: &l, Src: "stream\n    |from()\n    |where(lambda: \"v\" * " + l.Text + " == " + l.Text + ")\n"})
				emit(item{Cls: "lit", Edge: "stream", Tag: tag + ":paren", Want: &l, Src: "stream\n    |from()\n    |where(lambda: (" + l.Text + ") < \"v\")\n"})
			case "bool":
				emit(item{Cls: "lit", Edge: "stream", Tag: tag + ":var", Want: &l, Src: "var x = " + l.Text + "\nstream\n    |from()\n    |where(lambda: x)\n"})
				emit(item{Cls: "lit", Edge: "stream", Tag: tag + ":arg", Want: &l, Src: "stream\n    |from()\n    @udfS()\n        .optB(" + l.Text + ")\n"})
				emit(item{Cls: "lit", Edge: "stream", Tag: tag + ":lambda", Want: &l, Src: "stream\n    |from()\n    |where(lambda: \"b\" == " + l.Text + " OR !" + l.Text + ")\n"})
			}
		}
	}
}

// handScripts: shapes the grammar sweep does not produce by itself.
var handScripts = []item{
	{Tag: "comment:before-statement", Edge: "stream", Src: "// leading comment\nstream\n    |from()\n"},
	{Tag: "comment:two-blocks", Edge: "stream", Src: "// block one\n// line two\n\n// block two\nstream\n    |from()\n"},
	{Tag: "comment:before-chain", Edge: "stream", Src: "stream\n    // about from\n    |from()\n        // about measurement\n        .measurement('m')\n    // about window\n    |window()\n        .period(10s)\n        .every(10s)\n"},
	{Tag: "comment:trailing-same-line", Edge: "stream", Src: "stream // the source\n    |from() // all data\n        .measurement('m') // one measurement\n    |window() // windows\n        .period(10s)\n        .every(10s)\n"},
	{Tag: "comment:eof", Edge: "stream", Src: "stream\n    |from()\n// the end\n"},
	{Tag: "comment:eof-no-newline", Edge: "stream", Src: "stream\n    |from()\n// the end"},
	{Tag: "comment:only-trailing-two", Edge: "stream", Src: "stream\n    |from()\n// the end\n\n// really\n"},
	{Tag: "comment:before-var", Edge: "stream", Src: "// the threshold\nvar thr = 5\n// the data\nvar data = stream\n    |from()\ndata\n    |where(lambda: \"v\" > thr)\n"},
	{Tag: "comment:in-args", Edge: "stream", Src: "stream\n    |from()\n    |eval(\n        // first\n        lambda: \"a\" + 1,\n        // second\n        lambda: \"b\" * 2\n    )\n        .as('x', 'y')\n"},
	{Tag: "comment:in-lambda", Edge: "stream", Src: "stream\n    |from()\n    |where(lambda: \"a\" > 1 AND\n        // second condition\n        \"b\" < 2)\n"},
	{Tag: "comment:before-operator", Edge: "stream", Src: "stream\n    |from()\n    |where(lambda: \"a\" > 1\n        // or else\n        OR \"b\" < 2)\n"},
	{Tag: "comment:in-parens", Edge: "stream", Src: "stream\n    |from()\n    |where(lambda: (\n        // inner\n        \"a\" + 1) * 2 > 3)\n"},
	{Tag: "comment:after-regex", Edge: "stream", Src: "stream\n    |from()\n    |where(lambda: \"h\" =~ /a\\/b/ // a regex\n    )\n"},
	{Tag: "comment:regex-then-comment-line", Edge: "stream", Src: "var r = /a/\n// next\nstream\n    |from()\n    |where(lambda: \"h\" =~ r)\n"},
	{Tag: "comment:after-division", Edge: "stream", Src: "stream\n    |from()\n    |eval(lambda: \"a\" / 2 // halves\n    )\n        .as('h')\n"},
	{Tag: "comment:in-list", Edge: "stream", Src: "stream\n    |from()\n    |groupBy([\n        // tags\n        'a', 'b'])\n"},
	{Tag: "comment:empty", Edge: "stream", Src: "//\nstream\n    //\n    |from()\n"},
	{Tag: "comment:odd-text", Edge: "stream", Src: "// it's a \"test\" /regex/ '''x''' |from() lambda: TRUE\nstream\n    |from()\n"},
	{Tag: "comment:slashes", Edge: "stream", Src: "//// four slashes\n//no space\nstream\n    |from()\n"},
	{Tag: "comment:unary", Edge: "stream", Src: "stream\n    |from()\n    |where(lambda: !\n        // negated\n        \"a\" AND -\n        // minus\n        \"b\" < 0)\n"},
	{Tag: "comment:in-lambda-fn", Edge: "stream", Src: "stream\n    |from()\n    |where(lambda: if(\n        // cond\n        \"a\" > 1,\n        // then\n        TRUE, FALSE))\n"},
	{Tag: "comment:before-lambda", Edge: "stream", Src: "stream\n    |from()\n    |where(\n        // the predicate\n        lambda: \"a\" > 1)\n"},
	{Tag: "comment:dbrp", Edge: "stream", Src: "// which data\ndbrp \"telegraf\".\"autogen\"\n\nstream\n    |from()\n"},
	{Tag: "dbrp:two", Edge: "stream", Src: "dbrp \"a\".\"b\"\ndbrp \"c d\".\"e\\\"f\"\nstream|from()\n"},
	{Tag: "eol:crlf-multiline-strings", Edge: "batch", Src: "// saved on Windows\r\nbatch\r\n    |query('''SELECT mean(\"v\")\r\n  FROM \"db\".\"rp\".\"m\"\r\n  WHERE \"h\" = 'a' ''')\r\n        .period(10s)\r\n        .every(10s)\r\n    |alert()\r\n        .message('line one\r\nline two')\r\n        .details('''<b>\r\n{{ .ID }}\r\n</b>''')\r\n        .crit(lambda: \"mean\" > 1)\r\n"},
	{Tag: "eol:control-chars-in-comments", Edge: "stream", Src: "// tab\there\r\n// cr\rinside\n//\ttab first\nstream\n    // trailing cr\r\n    |from()\n"},
	{Tag: "eol:control-chars-in-tokens", Edge: "stream", Src: "stream\n    |from()\n    |where(lambda: \"a\tb\" =~ /x\ty/ AND \"c\rd\" != 'e\tf\rg' AND \"h\r\ni\" == '''j\r\n\tk''')\n"},
	{Tag: "layout:one-line", Edge: "stream", Src: "stream|from().measurement('m').groupBy('a','b')|window().period(10s).every(5s)|mean('v').as('m')|alert().crit(lambda:\"m\">1).log('/tmp/x')"},
	{Tag: "layout:crlf", Edge: "stream", Src: "stream\r\n    |from()\r\n        .measurement('m')\r\n"},
	{Tag: "layout:tabs", Edge: "stream", Src: "stream\n\t|from()\n\t\t.measurement('m')\n\t|window()\n\t\t.period(10s)\n\t\t.every(10s)\n"},
	{Tag: "layout:blank-lines", Edge: "stream", Src: "\n\nstream\n\n    |from()\n\n\n        .measurement('m')\n\n"},
	{Tag: "layout:multiline-args", Edge: "stream", Src: "stream\n    |from()\n    |eval(lambda: \"a\" + 1,\n          lambda: \"b\" + 2)\n        .as('x',\n            'y')\n"},
	{Tag: "layout:multiline-lambda", Edge: "stream", Src: "stream\n    |from()\n    |where(lambda: \"a\" > 1 AND\n        (\"b\" < 2 OR\n         \"c\" == 3))\n"},
	{Tag: "layout:operator-leading", Edge: "stream", Src: "stream\n    |from()\n    |where(lambda: \"a\" > 1\n        AND \"b\" < 2 AND \"c\" == 3 AND \"d\" != 4 AND \"e\" >= 5)\n"},
	{Tag: "layout:operator-leading-all", Edge: "stream", Src: "stream\n    |from()\n    |where(lambda: \"a\" > 1\n        AND \"b\" < 2\n        AND \"c\" == 3\n        OR \"d\" != 4)\n"},
	{Tag: "layout:multiline-string-in-expr", Edge: "stream", Src: "stream\n    |from()\n    |eval(lambda: ('''two\nlines''' + \"a\") + \"b\" + \"c\" + \"d\")\n        .as('s')\n"},
	{Tag: "layout:multiline-string-in-parens", Edge: "stream", Src: "stream\n    |from()\n    |where(lambda: (('two\nlines' + \"a\") % TRUE == 'abc') AND (\"x\" > 1 OR \"y\" < 2))\n"},
	{Tag: "layout:comment-leading-operator", Edge: "stream", Src: "stream\n    |from()\n    |where(lambda: \"a\" > 1\n        // why b\n        AND \"b\" < 2 AND \"c\" == 3 AND \"d\" != 4)\n"},
	{Tag: "var:all-types", Edge: "stream", Src: "var s = 'str'\nvar i = 5\nvar f = 1.5\nvar d = 10s\nvar b = TRUE\nvar r = /re/\nvar l = lambda: \"v\" > 1\nvar ls = ['a', 'b']\nvar st = [*]\nvar neg = -5\nvar nf = -1.5\nvar nd = -1h\nvar expr = 1 + 2 * 3\nvar sexpr = 'a' + 'b'\nstream\n    |from()\n        .measurement(s)\n        .groupBy(ls)\n    |window()\n        .period(d)\n        .every(d)\n    |where(l)\n    |where(lambda: \"x\" =~ r AND \"y\" > i AND \"z\" < f AND b AND \"w\" > neg AND \"u\" < nf)\n    |shift(nd)\n    |sample(expr)\n"},
	{Tag: "var:lambda-in-lambda", Edge: "stream", Src: "var a = lambda: \"x\" + 1\nvar b = lambda: a * 2\nstream\n    |from()\n    |where(lambda: b > 3 AND (a - 1) < 2)\n"},
	{Tag: "var:node-vars", Edge: "stream", Src: "var data = stream\n    |from()\n        .measurement('m')\nvar w = data\n    |window()\n        .period(10s)\n        .every(10s)\nw\n    |mean('v')\nw\n    |max('v')\ndata\n    |log()\n"},
	{Tag: "var:union-join", Edge: "stream", Src: "var a = stream\n    |from()\n        .measurement('a')\nvar b = stream\n    |from()\n        .measurement('b')\nvar c = stream\n    |from()\n        .measurement('c')\na\n    |union(b, c)\n    |log()\nb\n    |join(c, a)\n        .as('b', 'c', 'a')\n        .tolerance(1s)\n    |log()\n"},
	{Tag: "var:join-two", Edge: "stream", Src: "var l = stream\n    |from()\n        .measurement('l')\nvar r = stream\n    |from()\n        .measurement('r')\nl\n    |join(r)\n        .as('left', 'right')\n        .tolerance(1s)\n    |log()\n"},
	{Tag: "var:join-three", Edge: "stream", Src: "var a = stream\n    |from()\n        .measurement('a')\nvar b = stream\n    |from()\n        .measurement('b')\nvar c = stream\n    |from()\n        .measurement('c')\nb\n    |join(c, a)\n        .as('b', 'c', 'a')\n    |log()\n"},
	{Tag: "var:union-two", Edge: "stream", Src: "var l = stream\n    |from()\n        .measurement('l')\nvar r = stream\n    |from()\n        .measurement('r')\n    |window()\n        .period(10s)\n        .every(10s)\n    |mean('v')\nl\n    |union(r)\n    |log()\n"},
	{Tag: "var:fork", Edge: "stream", Src: "var data = stream\n    |from()\n        .measurement('m')\ndata\n    |where(lambda: \"a\" > 1)\n    |log()\ndata\n    |where(lambda: \"a\" < 1)\n    |httpOut('low')\n"},
	{Tag: "batch:join", Edge: "batch", Src: "var a = batch\n    |query('SELECT v FROM db.rp.a')\n        .period(10s)\n        .every(10s)\nvar b = batch\n    |query('SELECT v FROM db.rp.b')\n        .period(10s)\n        .every(10s)\na\n    |join(b)\n        .as('a', 'b')\n    |log()\n"},
	{Tag: "var:stats", Edge: "stream", Src: "var data = stream\n    |from()\ndata\n    |stats(10s)\n        .align()\n    |log()\ndata\n    |log()\n"},
	{Tag: "var:reassign-chain", Edge: "stream", Src: "var x = stream\n    |from()\n    |window()\n        .period(1m)\n        .every(1m)\nvar y = x|count('v')\ny|log()\n"},
	{Tag: "template:typed-vars", Edge: "stream", Src: "// which measurement\nvar m string\n// how long\nvar p = 10s\nvar thr float\nvar crit lambda\nvar tags list\nvar re regex\nvar n int\nvar flag bool\nvar d duration\nstream\n    |from()\n        .measurement(m)\n        .groupBy(tags)\n        .where(lambda: \"h\" =~ re)\n    |window()\n        .period(p)\n        .every(d)\n    |mean('v')\n    |where(crit)\n    |where(lambda: \"mean\" > thr AND flag)\n    |sample(n)\n",
		Vars: map[string]tick.Var{
			"m": {Value: "cpu", Type: ast.TString}, "thr": {Value: 1.5, Type: ast.TFloat},
			"crit": {Value: mustLambda(`"mean" - (1 - 2) > 0`), Type: ast.TLambda},
			"tags": {Value: []tick.Var{{Value: "a", Type: ast.TString}, {Value: "b c", Type: ast.TString}}, Type: ast.TList},
			"re":   {Value: mustRegex(`a/b`), Type: ast.TRegex}, "n": {Value: int64(3), Type: ast.TInt},
			"flag": {Value: true, Type: ast.TBool}, "d": {Value: 5 * time.Second, Type: ast.TDuration},
		}},
	{Tag: "batch:query", Edge: "batch", Src: "batch\n    |query('''SELECT mean(\"v\") FROM \"db\".\"rp\".\"m\" WHERE \"h\" = 'a' ''')\n        .period(10s)\n        .every(5s)\n        .groupBy(time(1s), 'a', 'b')\n        .offset(1s)\n        .align()\n        .fill(0)\n    |log()\n"},
	{Tag: "batch:query-time-offset", Edge: "batch", Src: "batch\n    |query('SELECT v FROM db.rp.m')\n        .period(10s)\n        .cron('*/5 * * * *')\n        .groupBy(time(10s, -2s), *)\n        .fill('null')\n"},
	{Tag: "udf:options", Edge: "stream", Src: "stream\n    |from()\n    @udfS()\n        .optS('s')\n        .optI(3)\n        .optF(1.5)\n        .optB(TRUE)\n        .optD(10s)\n        .optSI('x', 4)\n        .flag()\n    |log()\n"},
	{Tag: "udf:comment", Edge: "stream", Src: "stream\n    |from()\n    // user code\n    @udfS()\n        // an option\n        .optS('s')\n"},
	{Tag: "alert:handlers", Edge: "stream", Src: "stream\n    |from()\n    |alert()\n        .id('{{ .Name }}/{{ index .Tags \"host\" }}')\n        .message('{{ .ID }} is {{ .Level }}')\n        .details('''<b>{{ .ID }}</b>''')\n        .info(lambda: \"v\" > 1)\n        .warn(lambda: \"v\" > 2)\n        .crit(lambda: \"v\" > 3)\n        .critReset(lambda: \"v\" < 2)\n        .stateChangesOnly(5m)\n        .flapping(0.25, 0.5)\n        .history(5)\n        .levelTag('lvl')\n        .idField('id')\n        .all()\n        .noRecoveries()\n        .topic('t')\n        .log('/tmp/a.log')\n            .mode(0600)\n        .email('a@b', 'c@d')\n        .post('http://x')\n            .header('k', 'v')\n        .tcp('h:1')\n        .exec('cmd', 'a1', 'a2')\n        .slack()\n            .channel('#c')\n            .username('u')\n            .iconEmoji(':x:')\n        .pagerDuty()\n        .victorOps()\n            .routingKey('rk')\n"},
	{Tag: "nodes:many", Edge: "stream", Src: "stream\n    |from()\n        .database('db')\n        .retentionPolicy('rp')\n        .measurement('m')\n        .groupBy(*)\n        .truncate(1s)\n    |default()\n        .field('f', 1.0)\n        .tag('t', 'x')\n    |delete()\n        .field('g')\n    |eval(lambda: \"f\" * 2.0, lambda: string(\"f\"))\n        .as('f2', 'fs')\n        .keep('f', 'f2')\n        .tags('fs')\n    |derivative('f2')\n        .unit(10s)\n        .nonNegative()\n    |stateDuration(lambda: \"f2\" > 1.0)\n        .unit(1m)\n    |stateCount(lambda: \"f2\" > 1.0)\n    |flatten()\n        .on('a', 'b')\n        .delimiter('-')\n        .tolerance(1s)\n    |window()\n        .period(1m)\n        .every(30s)\n        .align()\n        .fillPeriod()\n    |top(3, 'f2', 'a')\n    |httpOut('top')\n    |influxDBOut()\n        .database('out')\n        .retentionPolicy('rp')\n        .measurement('top')\n        .tag('k', 'v')\n        .buffer(10)\n        .flushInterval(1s)\n        .create()\n"},
}

func mustLambda(s string) *ast.LambdaNode {
	l, err := ast.ParseLambda(s)
	if err != nil {
		panic(err)
	}
	return l
}

func (x *gen) hand(emit func(item)) {
	for _, it := range handScripts {
		it.Cls = "hand"
		emit(it)
	}
}

// randomScripts: n seeded compositions.  Each script: optional dbrp, var declarations of
// literal types (later used as identifier arguments), 1-3 branches built by walking the
// grammar from a source with random members and rich arguments, optional union/join of
// branches, comments and layout noise.  Every appended member is validated on the real
// code; rejected ones are dropped.
func (x *gen) randomScripts(n int, emit func(item)) (tried, kept int) {
	r := x.rnd
	for kept < n && tried < 20*n {
		tried++
		x.rich = true
		edge := "stream"
		if r.Intn(4) == 0 {
			edge = "batch"
		}
		var b strings.Builder
		vars := map[string]reflect.Type{}
		if r.Intn(5) == 0 {
			b.WriteString("dbrp \"db\".\"rp\"\n\n")
		}
		// var declarations
		nv := r.Intn(4)
		for i := 0; i < nv; i++ {
			name := fmt.Sprintf("v%d", i)
			types := []reflect.Type{stringType, int64Type, f64Type, durType, boolType, lambdaType, regexType}
			t := types[r.Intn(len(types))]
			a, _ := x.argText(t, nil)
			if r.Intn(3) == 0 {
				b.WriteString("// " + []string{"a variable", "tuning", "see docs: 'quoted' \"x\"", ""}[r.Intn(4)] + "\n")
			}
			b.WriteString("var " + name + " = " + a + "\n")
			if t == int64Type || t == f64Type || t == durType || t == stringType || t == boolType || t == lambdaType || t == regexType {
				vars[name] = t
			}
		}
		script := b.String()
		nb := 1 + r.Intn(3)
		var nodeVars []string
		okAll := true
		for bi := 0; bi < nb && okAll; bi++ {
			cur := edge
			if bi > 0 && len(nodeVars) > 0 && r.Intn(2) == 0 {
				cur = nodeVars[r.Intn(len(nodeVars))]
			}
			var kt reflect.Type
			if cur == edge {
				kt = x.srcType(edge)
			} else {
				kt = x.varKind[cur]
			}
			steps := 1 + r.Intn(6)
			text := cur
			for s := 0; s < steps; s++ {
				k := x.g.kinds[kt]
				if k == nil || len(k.Members) == 0 {
					break
				}
				var m member
				if r.Intn(12) == 0 && kt.Implements(nodeIface) && kt != x.srcType(edge) {
					m = member{Name: []string{"udfS", "udfB"}[r.Intn(2)], Op: "@", Out: udfNodeType}
				} else {
					m = k.Members[r.Intn(len(k.Members))]
				}
				call, good := x.callText(m, vars, nodeVars)
				if !good {
					continue
				}
				cm := ""
				if r.Intn(8) == 0 {
					cm = "\n    // " + []string{"note", "why: because", "TODO /x/", ""}[r.Intn(4)]
				}
				var cand string
				if m.Op == "." {
					cand = text + cm + "\n        ." + call
				} else {
					cand = text + cm + "\n    " + m.Op + call
				}
				if !valid(script+cand+"\n", edge) {
					continue
				}
				text = cand
				if m.Out != nil {
					kt = m.Out
				}
			}
			if text == cur {
				continue
			}
			if r.Intn(2) == 0 || bi < nb-1 {
				name := fmt.Sprintf("n%d", bi)
				cand := script + "var " + name + " = " + text + "\n"
				if valid(cand, edge) && kt.Implements(nodeIface) {
					script = cand
					nodeVars = append(nodeVars, name)
					if x.varKind == nil {
						x.varKind = map[string]reflect.Type{}
					}
					x.varKind[name] = kt
					continue
				}
			}
			cand := script + text + "\n"
			if valid(cand, edge) {
				script = cand
			}
		}
		if r.Intn(6) == 0 {
			script += "// trailing\n"
		}
		if !valid(script, edge) || strings.Count(script, "\n") < 2 {
			continue
		}
		kept++
		emit(item{Cls: "random", Edge: edge, Src: script, Tag: "random"})
	}
	x.rich = false
	return
}

func seeded(seed int64) *rand.Rand { return rand.New(rand.NewSource(seed)) }
