package c13

// lits.go: literal spellings the lexer accepts, with the value each one denotes
// (canonical leaf [kind, value], see canon.go).  The expected values are written down
// by hand from the TICKscript documentation (tick/TICKscript.md: literals) - they are
// the oracle for "same literals" in addition to the round-trip laws.

type lit struct {
	Text string // spelling in a script
	Kind string // canonical kind
	Val  string // canonical value
}

const (
	nsU = 1000
	nsM = 1000 * 1000
	nsS = 1000 * 1000 * 1000
)

var strLits = []lit{
	{`'abc'`, "str", `abc`},
	{`''`, "str", ``},
	{`'a b'`, "str", `a b`},
	{`'a\'b'`, "str", `a'b`},
	{`'\'a\''`, "str", `'a'`},
	{`'\'\'\''`, "str", `'''`},
	{`'a"b'`, "str", `a"b`},
	{`'a\\b'`, "str", `a\\b`},
	{`'a\nb'`, "str", `a\nb`},
	{`'a\"b'`, "str", `a\"b`},
	{`'a\\\'b'`, "str", `a\\'b`},
	{`'{{ .Name }}/{{ index .Tags "host" }}'`, "str", `{{ .Name }}/{{ index .Tags "host" }}`},
	{`'a//b'`, "str", `a//b`},
	{`'a/b'`, "str", `a/b`},
	{`'lambda: "x"'`, "str", `lambda: "x"`},
	{`'é☃'`, "str", `é☃`},
	{"'two\nlines'", "str", "two\nlines"},
	{`'''abc'''`, "str", `abc`},
	{`''''''`, "str", ``},
	{`'''a'b'''`, "str", `a'b`},
	{`'''a''b'''`, "str", `a''b`},
	{`'''a\b'''`, "str", `a\b`},
	{`'''a\'b'''`, "str", `a\'b`},
	{`'''a"b'''`, "str", `a"b`},
	{`'''a\'''`, "str", `a\`},
	{`'''SELECT "v" FROM "db"."rp"."m" WHERE "h" = 'a' AND "x" =~ /a\/b/'''`, "str", `SELECT "v" FROM "db"."rp"."m" WHERE "h" = 'a' AND "x" =~ /a\/b/`},
	{"'''two\nlines'''", "str", "two\nlines"},
	{"'''  // not a comment\n'''", "str", "  // not a comment\n"},
	// line ends and control characters INSIDE a string are part of its value
	{"'a\r\nb'", "str", "a\r\nb"},
	{"'a\rb'", "str", "a\rb"},
	{"'a\tb'", "str", "a\tb"},
	{"'\r\n'", "str", "\r\n"},
	{"'''a\r\nb'''", "str", "a\r\nb"},
	{"'''a\rb\r'''", "str", "a\rb\r"},
	{"'''\ta\n\tb\r\n'''", "str", "\ta\n\tb\r\n"},
	// strings that look like another literal kind stay strings
	{`'1m'`, "str", `1m`},
	{`'10'`, "str", `10`},
	{`'1.5'`, "str", `1.5`},
	{`'TRUE'`, "str", `TRUE`},
	{`'/x/'`, "str", `/x/`},
	{`'*'`, "str", `*`},
	{`'-1'`, "str", `-1`},
}

var refLits = []lit{
	{`"x"`, "ref", `x`},
	{`"a b"`, "ref", `a b`},
	{`"a\"b"`, "ref", `a"b`},
	{`"a'b"`, "ref", `a'b`},
	{`"a\\b"`, "ref", `a\\b`},
	{`"a.b"`, "ref", `a.b`},
	{`"a/b"`, "ref", `a/b`},
	{`"é"`, "ref", `é`},
	{`""`, "ref", ``},
	{"\"a\tb\"", "ref", "a\tb"},
	{"\"a\r\nb\"", "ref", "a\r\nb"},
	{"\"a\rb\"", "ref", "a\rb"},
	{`"1m"`, "ref", `1m`},
}

var reLits = []lit{
	{`/a/`, "re", `a`},
	{`/^a.*b$/`, "re", `^a.*b$`},
	{`/a\/b/`, "re", `a/b`},
	{`/\//`, "re", `/`},
	{`/\/\//`, "re", `//`},
	{`/\d+/`, "re", `\d+`},
	{`/a|b/`, "re", `a|b`},
	{`/(a)(b)?/`, "re", `(a)(b)?`},
	{`/a{1,2}/`, "re", `a{1,2}`},
	{`/a b/`, "re", `a b`},
	{`/'/`, "re", `'`},
	{`/"/`, "re", `"`},
	{`/[a-z]+\.[0-9]/`, "re", `[a-z]+\.[0-9]`},
	{`/é/`, "re", `é`},
	{"/a\tb/", "re", "a\tb"},
	{"/a\rb/", "re", "a\rb"},
	{"/a\r\nb/", "re", "a\r\nb"},
}

var durLits = []lit{
	{`1u`, "dur", "1000"},
	{`1µ`, "dur", "1000"},
	{`1ms`, "dur", "1000000"},
	{`1s`, "dur", "1000000000"},
	{`1m`, "dur", "60000000000"},
	{`1h`, "dur", "3600000000000"},
	{`1d`, "dur", "86400000000000"},
	{`1w`, "dur", "604800000000000"},
	{`0s`, "dur", "0"},
	{`90m`, "dur", "5400000000000"},
	{`1000ms`, "dur", "1000000000"},
	{`36h`, "dur", "129600000000000"},
	{`15u`, "dur", "15000"},
	{`007s`, "dur", "7000000000"},
	{`100w`, "dur", "60480000000000000"},
}

var intLits = []lit{
	{`0`, "int", "0"},
	{`1`, "int", "1"},
	{`42`, "int", "42"},
	{`007`, "int", "7"},
	{`010`, "int", "8"},
	{`0777`, "int", "511"},
	{`9223372036854775807`, "int", "9223372036854775807"},
	{`100`, "int", "100"},
}

var floatLits = []lit{
	{`1.0`, "float", "1"},
	{`1.5`, "float", "1.5"},
	{`0.5`, "float", "0.5"},
	{`.5`, "float", "0.5"},
	{`5.`, "float", "5"},
	{`0.0`, "float", "0"},
	{`00.5`, "float", "0.5"},
	{`0.000001`, "float", "1e-06"},
	{`0.0000001`, "float", "1e-07"},
	{`123456789012345678901234567890.0`, "float", "1.2345678901234568e+29"},
	{`1.0000000000000002`, "float", "1.0000000000000002"},
	{`3.14159`, "float", "3.14159"},
	{`100.25`, "float", "100.25"},
}

var boolLits = []lit{{`TRUE`, "bool", "TRUE"}, {`FALSE`, "bool", "FALSE"}}

// every class, for the systematic literal sweep
var litClasses = []struct {
	Name string
	Lits []lit
}{
	{"string", strLits}, {"reference", refLits}, {"regex", reLits}, {"duration", durLits},
	{"int", intLits}, {"float", floatLits}, {"bool", boolLits},
}
