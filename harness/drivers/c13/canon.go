// Package c13: formatting / re-serialising a TICKscript never changes the task it
// defines (DESIGN.md C13, spec/TickExpr).
//
// canon.go: the canonical tree of an AST (nested arrays [kind, atom, child...]: the
// first two elements of every node are strings, all further elements are nodes, so two
// trees can always be compared by TLC without a type error) and the reflective dump of
// a pipeline (graph + every exported node property).
package c13

import (
	"crypto/sha256"
	"encoding/hex"
	"encoding/json"
	"fmt"
	"reflect"
	"regexp"
	"sort"
	"strconv"
	"strings"
	"time"

	"github.com/influxdata/kapacitor/pipeline"
	"github.com/influxdata/kapacitor/tick/ast"
)

// T is one canonical tree node: [kind, atom, children...].
type T = []any

func leaf(kind, atom string) T { return T{kind, atom} }

func fmtFloat(f float64) string { return strconv.FormatFloat(f, 'g', -1, 64) }

// Canon renders an AST node.  parens=true keeps the Parens flag of binary nodes (kind
// "par" instead of "bin"); AST Equal ignores the flag, so the law "same tree" is stated
// on parens=false and the parser/printer kernel on parens=true.
// fold=true folds unary minus on a number literal into a negative literal (the value a
// property receives), used where a tree went through evaluation (pipeline properties).
func Canon(n ast.Node, parens, fold bool) T {
	switch x := n.(type) {
	case nil:
		return leaf("nil", "")
	case *ast.NumberNode:
		if x == nil {
			return leaf("nil", "")
		}
		if x.IsInt {
			return leaf("int", strconv.FormatInt(x.Int64, 10))
		}
		return leaf("float", fmtFloat(x.Float64))
	case *ast.DurationNode:
		return leaf("dur", strconv.FormatInt(int64(x.Dur), 10))
	case *ast.BoolNode:
		if x.Bool {
			return leaf("bool", "TRUE")
		}
		return leaf("bool", "FALSE")
	case *ast.StringNode:
		return leaf("str", x.Literal)
	case *ast.RegexNode:
		if x.Regex == nil {
			return leaf("re", "<nil>:"+x.Literal)
		}
		return leaf("re", x.Regex.String())
	case *ast.StarNode:
		return leaf("star", "*")
	case *ast.ReferenceNode:
		return leaf("ref", x.Reference)
	case *ast.IdentifierNode:
		return leaf("id", x.Ident)
	case *ast.UnaryNode:
		c := Canon(x.Node, parens, fold)
		if fold && x.Operator == ast.TokenMinus && (c[0] == "int" || c[0] == "float") {
			a := c[1].(string)
			if strings.HasPrefix(a, "-") {
				a = a[1:]
			} else if a != "0" {
				a = "-" + a
			}
			return leaf(c[0].(string), a)
		}
		return T{"un", x.Operator.String(), c}
	case *ast.BinaryNode:
		k := "bin"
		if parens && x.Parens {
			k = "par"
		}
		return T{k, x.Operator.String(), Canon(x.Left, parens, fold), Canon(x.Right, parens, fold)}
	case *ast.FunctionNode:
		k := "fn"
		switch x.Type {
		case ast.ChainFunc:
			k = "fnc"
		case ast.PropertyFunc:
			k = "fnp"
		case ast.DynamicFunc:
			k = "fnd"
		}
		t := T{k, x.Func}
		for _, a := range x.Args {
			t = append(t, Canon(a, parens, fold))
		}
		return t
	case *ast.LambdaNode:
		if x == nil {
			return leaf("nil", "")
		}
		return T{"lam", "", Canon(x.Expression, parens, fold)}
	case *ast.ListNode:
		t := T{"list", ""}
		for _, a := range x.Nodes {
			t = append(t, Canon(a, parens, fold))
		}
		return t
	case *ast.ChainNode:
		return T{"chain", x.Operator.String(), Canon(x.Left, parens, fold), Canon(x.Right, parens, fold)}
	case *ast.DeclarationNode:
		return T{"decl", x.Left.Ident, Canon(x.Right, parens, fold)}
	case *ast.TypeDeclarationNode:
		return T{"tdecl", x.Node.Ident, leaf("id", x.Type.Ident)}
	case *ast.DBRPNode:
		return T{"dbrp", "", leaf("ref", x.DB.Reference), leaf("ref", x.RP.Reference)}
	case *ast.ProgramNode:
		t := T{"prog", ""}
		for _, a := range x.Nodes {
			t = append(t, Canon(a, parens, fold))
		}
		return t
	case *ast.CommentNode:
		// Equal: only the presence of a program-level comment node counts.
		return leaf("cmt", "")
	default:
		return leaf("unknown", fmt.Sprintf("%T", n))
	}
}

// S is the compact text of a canonical tree (JSON).
func S(t T) string {
	b, err := json.Marshal(t)
	if err != nil {
		panic(err)
	}
	return string(b)
}

func digest(s string) string {
	h := sha256.Sum256([]byte(s))
	return hex.EncodeToString(h[:8])
}

// ---------------------------------------------------------------------------
// Reflective dump of a pipeline: for every node (in Walk order) its name, type,
// edge types, parents, children and every exported field reachable from the node
// struct, flattened to path=value entries.  This is "the identical pipeline graph and
// node properties" of the property text, independent of which fields the JSON encoders
// happen to include.

var (
	lambdaType = reflect.TypeOf((*ast.LambdaNode)(nil))
	regexType  = reflect.TypeOf((*regexp.Regexp)(nil))
	durType    = reflect.TypeOf(time.Duration(0))
	timeType   = reflect.TypeOf(time.Time{})
	nodeIface  = reflect.TypeOf((*pipeline.Node)(nil)).Elem()
	astIface   = reflect.TypeOf((*ast.Node)(nil)).Elem()
)

type field struct{ Path, Val string }

// NodeDump is one pipeline node.
type NodeDump struct {
	Name     string
	Head     string // Go type, desc, wants, provides
	Type     string
	Parents  []string
	Children []string
	Fields   []field
}

// Dump is a whole pipeline.
type Dump []NodeDump

type dumper struct {
	out   []field
	depth int
}

// nm: a reference to another pipeline node, as a placeholder Iso can rename.
func nm(name string) string { return "\x00" + name + "\x00" }

func (d *dumper) leaf(path, v string) { d.out = append(d.out, field{path, v}) }

// val: embedded=true for the node struct itself and its anonymous fields (they ARE the
// node, not references to another node).
func (d *dumper) val(path string, v reflect.Value, embedded bool) {
	if d.depth > 12 {
		d.leaf(path, "<deep>")
		return
	}
	d.depth++
	defer func() { d.depth-- }()
	if !v.IsValid() {
		d.leaf(path, "<invalid>")
		return
	}
	t := v.Type()
	switch {
	case t == lambdaType:
		if v.IsNil() {
			d.leaf(path, "lambda:nil")
		} else if v.CanInterface() {
			d.leaf(path, "lambda:"+S(Canon(v.Interface().(*ast.LambdaNode), false, true)))
		}
		return
	case t == regexType:
		if v.IsNil() {
			d.leaf(path, "re:nil")
		} else if v.CanInterface() {
			d.leaf(path, "re:"+v.Interface().(*regexp.Regexp).String())
		}
		return
	case t == durType:
		d.leaf(path, "dur:"+strconv.FormatInt(v.Int(), 10))
		return
	case t == timeType:
		if v.CanInterface() {
			d.leaf(path, "time:"+v.Interface().(time.Time).UTC().Format(time.RFC3339Nano))
		}
		return
	}
	tn := t.Name()
	if t.Kind() == reflect.Pointer {
		tn = t.Elem().Name()
	}
	isHandler := strings.HasSuffix(tn, "Handler")
	if !embedded && t.Implements(nodeIface) && v.Kind() != reflect.Interface && !isHandler {
		// a reference to another pipeline node: by name, never by content (cycles)
		if v.Kind() == reflect.Pointer && v.IsNil() {
			d.leaf(path, "node:nil")
		} else if v.CanInterface() {
			d.leaf(path, "node:"+nm(v.Interface().(pipeline.Node).Name()))
		} else {
			d.leaf(path, "node:?")
		}
		return
	}
	if !embedded && t.Implements(astIface) && v.Kind() == reflect.Pointer {
		if v.IsNil() {
			d.leaf(path, "ast:nil")
			return
		}
		if v.CanInterface() {
			d.leaf(path, "ast:"+S(Canon(v.Interface().(ast.Node), false, true)))
			return
		}
	}
	switch v.Kind() {
	case reflect.Bool:
		d.leaf(path, strconv.FormatBool(v.Bool()))
	case reflect.Int, reflect.Int8, reflect.Int16, reflect.Int32, reflect.Int64:
		d.leaf(path, strconv.FormatInt(v.Int(), 10))
	case reflect.Uint, reflect.Uint8, reflect.Uint16, reflect.Uint32, reflect.Uint64:
		d.leaf(path, strconv.FormatUint(v.Uint(), 10))
	case reflect.Float32, reflect.Float64:
		d.leaf(path, "f"+fmtFloat(v.Float()))
	case reflect.String:
		d.leaf(path, strconv.Quote(v.String()))
	case reflect.Interface:
		if v.IsNil() {
			d.leaf(path, "nil")
			return
		}
		e := v.Elem()
		d.val(path+"("+e.Type().String()+")", e, false)
	case reflect.Pointer:
		if v.IsNil() {
			d.leaf(path, "nil")
			return
		}
		d.val(path, v.Elem(), embedded)
	case reflect.Slice, reflect.Array:
		if v.Len() == 0 {
			d.leaf(path, "[]") // nil and empty are the same to every consumer
			return
		}
		d.leaf(path+".len", strconv.Itoa(v.Len()))
		for i := 0; i < v.Len(); i++ {
			d.val(path+"["+strconv.Itoa(i)+"]", v.Index(i), false)
		}
	case reflect.Map:
		if v.Len() == 0 {
			d.leaf(path, "{}")
			return
		}
		type kv struct {
			k string
			v reflect.Value
		}
		var kvs []kv
		it := v.MapRange()
		for it.Next() {
			kvs = append(kvs, kv{fmt.Sprint(it.Key().Interface()), it.Value()})
		}
		sort.Slice(kvs, func(i, j int) bool { return kvs[i].k < kvs[j].k })
		d.leaf(path+".len", strconv.Itoa(len(kvs)))
		for _, e := range kvs {
			d.val(path+"{"+strconv.Quote(e.k)+"}", e.v, false)
		}
	case reflect.Struct:
		n := 0
		for i := 0; i < t.NumField(); i++ {
			f := t.Field(i)
			if !f.IsExported() && !f.Anonymous {
				continue
			}
			fv := v.Field(i)
			if f.Anonymous && !f.IsExported() && fv.Kind() != reflect.Struct {
				continue
			}
			if f.Anonymous && !embedded && f.Type.Implements(nodeIface) {
				continue // the back pointer of a handler object to its alert node
			}
			n++
			p := f.Name
			if f.Anonymous {
				p = "" // promoted: the path names the field, not the embedding
			}
			switch {
			case path == "":
				d.val(p, fv, f.Anonymous)
			case p == "":
				d.val(path, fv, f.Anonymous)
			default:
				d.val(path+"."+p, fv, f.Anonymous)
			}
		}
		if n == 0 {
			d.leaf(path, "{}")
		}
	case reflect.Func, reflect.Chan, reflect.UnsafePointer:
		if v.IsNil() {
			d.leaf(path, "nil")
		} else {
			d.leaf(path, "<"+v.Kind().String()+">")
		}
	default:
		d.leaf(path, "<"+v.Kind().String()+">")
	}
}

// DumpPipeline: one NodeDump per node, Walk order.
func DumpPipeline(p *pipeline.Pipeline) Dump {
	var out Dump
	_ = p.Walk(func(n pipeline.Node) error {
		names := func(ns []pipeline.Node) []string {
			s := make([]string, len(ns))
			for i, x := range ns {
				s[i] = x.Name()
			}
			return s
		}
		typ := strings.TrimPrefix(fmt.Sprintf("%T", n), "*pipeline.")
		if typ == "InfluxQLNode" {
			typ += "[" + n.Desc() + "]" // one Go type for ~20 functions: the function is part of the kind
		}
		nd := NodeDump{Name: n.Name(), Type: typ,
			Head:    fmt.Sprintf("%T desc=%s wants=%v provides=%v", n, n.Desc(), n.Wants(), n.Provides()),
			Parents: names(n.Parents()), Children: names(n.Children())}
		d := &dumper{}
		rv := reflect.ValueOf(n)
		if rv.Kind() == reflect.Pointer {
			rv = rv.Elem()
		}
		d.val("", rv, true)
		nd.Fields = d.out
		out = append(out, nd)
		return nil
	})
	return out
}

var reName = regexp.MustCompile("\x00([^\x00]*)\x00")

func (nd NodeDump) text(name func(string) string, sortChildren bool) string {
	var b strings.Builder
	ps := make([]string, len(nd.Parents))
	for i, p := range nd.Parents {
		ps[i] = name(p)
	}
	cs := make([]string, len(nd.Children))
	for i, c := range nd.Children {
		cs[i] = name(c)
	}
	if sortChildren {
		sort.Strings(cs)
	}
	fmt.Fprintf(&b, "%s parents=[%s] children=[%s]\n", nd.Head, strings.Join(ps, ","), strings.Join(cs, ","))
	for _, f := range nd.Fields {
		v := reName.ReplaceAllStringFunc(f.Val, func(x string) string { return name(strings.Trim(x, "\x00")) })
		fmt.Fprintf(&b, "  %s=%s\n", f.Path, v)
	}
	return b.String()
}

// Plain: the dump with the node names written out (exact comparison: same names, same order).
func (d Dump) Plain() string {
	var b strings.Builder
	for _, nd := range d {
		b.WriteString(nd.Name + " " + nd.text(func(s string) string { return s }, false))
	}
	return b.String()
}

// labels: colour refinement - a node's label is the digest of its own block with every
// referenced node replaced by that node's previous label.
func (d Dump) labels() map[string]string {
	label := map[string]string{}
	for _, nd := range d {
		label[nd.Name] = ""
	}
	for it := 0; it <= len(d)+1; it++ {
		next := map[string]string{}
		for _, nd := range d {
			next[nd.Name] = digest(nd.text(func(s string) string { return "<" + label[s] + ">" }, true))
		}
		label = next
	}
	return label
}

// Iso: the dump up to renaming of nodes, the order of nodes and the order of children.
func (d Dump) Iso() string {
	label := d.labels()
	blocks := make([]string, len(d))
	for i, nd := range d {
		blocks[i] = nd.text(func(s string) string { return "<" + label[s] + ">" }, true)
	}
	sort.Strings(blocks)
	return strings.Join(blocks, "")
}

// DiffPaths: which properties differ between two pipelines, as "NodeType.path" (or
// "graph" when the node multiset / wiring differs).  Nodes are aligned by their position
// in the sorted isomorphism-invariant order when the two pipelines have the same node
// types in that order, else reported as a graph difference.
func DiffPaths(a, b Dump) []string {
	if a.Iso() == b.Iso() {
		return nil
	}
	// graph: the first node (Walk order) of a that b does not have - by Go type, or by
	// its edge types if b has the type with other edges; an extra node of b; else the wiring
	graph := func() []string {
		cnt := map[string]int{}
		typ := map[string]int{}
		for _, nd := range b {
			cnt[nd.Head]++
			typ[nd.Type]++
		}
		for _, nd := range a {
			if cnt[nd.Head] > 0 {
				cnt[nd.Head]--
				typ[nd.Type]--
				continue
			}
			if typ[nd.Type] > 0 {
				return []string{"graph:" + nd.Type + ":edges"}
			}
			return []string{"graph:" + nd.Type + ":missing"}
		}
		for _, nd := range b {
			if cnt[nd.Head] > 0 {
				return []string{"graph:" + nd.Type + ":extra"}
			}
		}
		return []string{"graph:wiring"}
	}
	if len(a) != len(b) {
		return graph()
	}
	// alignment: nodes with the same place in the graph (structural label) AND the same own
	// property values are the same node; what is left is paired by place in the graph
	lab := func(d Dump) map[string]string {
		l := map[string]string{}
		for _, nd := range d {
			l[nd.Name] = ""
		}
		for it := 0; it <= len(d)+1; it++ {
			next := map[string]string{}
			for _, nd := range d {
				ps := make([]string, len(nd.Parents))
				for i, p := range nd.Parents {
					ps[i] = l[p]
				}
				next[nd.Name] = digest(nd.Head + "|" + strings.Join(ps, ","))
			}
			l = next
		}
		return l
	}
	own := func(nd NodeDump) string {
		var sb strings.Builder
		for _, f := range nd.Fields {
			sb.WriteString(f.Path + "=" + reName.ReplaceAllString(f.Val, "<node>") + "\n")
		}
		return digest(sb.String())
	}
	la, lb := lab(a), lab(b)
	usedB := make([]bool, len(b))
	var restA []NodeDump
	for _, x := range a {
		found := false
		for k, y := range b {
			if !usedB[k] && la[x.Name] == lb[y.Name] && own(x) == own(y) {
				usedB[k], found = true, true
				break
			}
		}
		if !found {
			restA = append(restA, x)
		}
	}
	set := map[string]bool{}
	for _, x := range restA {
		var y *NodeDump
		for k := range b {
			if !usedB[k] && la[x.Name] == lb[b[k].Name] {
				usedB[k] = true
				y = &b[k]
				break
			}
		}
		if y == nil || x.Head != y.Head || len(x.Parents) != len(y.Parents) || len(x.Children) != len(y.Children) {
			return graph()
		}
		fx := map[string]string{}
		// the dynamic type of an interface-typed value is the "(type)" suffix of its path
		tx, ty := map[string]string{}, map[string]string{}
		for _, f := range x.Fields {
			fx[f.Path] = reName.ReplaceAllString(f.Val, "<node>")
			if b, t, ok := splitDyn(f.Path); ok {
				tx[b] = t
			}
		}
		for _, f := range y.Fields {
			if b, t, ok := splitDyn(f.Path); ok {
				ty[b] = t
			}
		}
		seen := map[string]bool{}
		for _, f := range y.Fields {
			seen[f.Path] = true
			if v, ok := fx[f.Path]; !ok || v != reName.ReplaceAllString(f.Val, "<node>") {
				if b, t, isDyn := splitDyn(f.Path); isDyn && !ok && tx[b] != "" && tx[b] != t {
					// the argument changed its TYPE: named as such
					set[x.Type+"."+stripIndex(f.Path)+":"+tx[b]+"->"+t] = true
				} else {
					set[x.Type+"."+stripIndex(f.Path)] = true
				}
			}
		}
		for _, f := range x.Fields {
			if !seen[f.Path] {
				if b, t, isDyn := splitDyn(f.Path); isDyn && ty[b] != "" && ty[b] != t {
					continue // reported above as a type change
				}
				set[x.Type+"."+stripIndex(f.Path)] = true
			}
		}
	}
	if len(set) == 0 {
		return graph()
	}
	out := make([]string, 0, len(set))
	for k := range set {
		out = append(out, k)
	}
	sort.Strings(out)
	return out
}

// headTail: wants / provides of a node head ("*pipeline.X desc=d wants=w provides=p").
func headTail(h string) []string {
	fs := strings.Fields(h)
	if len(fs) >= 4 {
		return []string{strings.TrimPrefix(fs[2], "wants="), strings.TrimPrefix(fs[3], "provides=")}
	}
	return nil
}

// splitDyn: "Args[1](string)" -> ("Args[1]", "string"): an interface-typed leaf and its dynamic type.
func splitDyn(p string) (base, typ string, ok bool) {
	if !strings.HasSuffix(p, ")") {
		return "", "", false
	}
	i := strings.LastIndex(p, "(")
	if i < 0 {
		return "", "", false
	}
	return p[:i], p[i+1 : len(p)-1], true
}

// stripIndex: "Handlers[0].To.len" -> "Handlers": the property, not the element.
func stripIndex(p string) string {
	if i := strings.IndexAny(p, ".[{("); i >= 0 {
		return p[:i]
	}
	return p
}
