package c13

// gen.go: grammar-driven generation of statement-level TICKscripts.  Candidate text is
// produced from the reflected grammar (grammar.go) and the literal tables (lits.go);
// the REAL pipeline.CreatePipeline decides whether a candidate "defines a task" - only
// those are kept (the property quantifies over scripts that define a task).

import (
	"fmt"
	"math/rand"
	"reflect"
	"regexp"
	"strings"

	"github.com/influxdata/kapacitor/pipeline"

	"github.com/influxdata/kapacitor/udf/agent"
)

var (
	stringType = reflect.TypeOf("")
	int64Type  = reflect.TypeOf(int64(0))
	f64Type    = reflect.TypeOf(float64(0))
	boolType   = reflect.TypeOf(true)
	ifaceType  = reflect.TypeOf((*interface{})(nil)).Elem()
)

func udfOptionTypes(name string) []reflect.Type {
	var out []reflect.Type
	for _, vt := range udfOptions[name].ValueTypes {
		switch vt {
		case agent.ValueType_STRING:
			out = append(out, stringType)
		case agent.ValueType_INT:
			out = append(out, int64Type)
		case agent.ValueType_DOUBLE:
			out = append(out, f64Type)
		case agent.ValueType_BOOL:
			out = append(out, boolType)
		case agent.ValueType_DURATION:
			out = append(out, durType)
		}
	}
	return out
}

// lookalikes: STRING values spelled like another literal kind - duration, int, float, bool,
// regex, lambda, star, a negative number, a reference, a list.  The law: an argument keeps its
// TYPE and value through every re-serialisation.
var lookalikes = []string{"'1m'", "'30s'", "'10'", "'1.5'", "'TRUE'", "'/x/'", "'lambda: \"x\"'", "'*'", "'-1'", "'1h'", "'\"ref\"'", "'15m'"}

type gen struct {
	g   *grammar
	rnd *rand.Rand
	// 0: plain first spelling of every literal class (systematic sweeps); 1: random spellings
	rich    bool
	zero    bool // every argument is the zero value of its type ('' 0 0.0 0s FALSE)
	look    int  // > 0: string arguments are strings that LOOK like another literal kind (lookalikes[look-1], rotating)
	lookK   int  // string arguments handed out in the current call
	varKind map[string]reflect.Type
}

func (x *gen) srcType(edge string) reflect.Type {
	if edge == "batch" {
		return reflect.TypeOf((*pipeline.BatchNode)(nil))
	}
	return reflect.TypeOf((*pipeline.StreamNode)(nil))
}

func mustRegex(s string) *regexp.Regexp { return regexp.MustCompile(s) }

func (x *gen) pick(ls []lit) string {
	if !x.rich {
		return ls[0].Text
	}
	return ls[x.rnd.Intn(len(ls))].Text
}

// lambdaText: a lambda expression body.
func (x *gen) lambdaText() string {
	if !x.rich {
		return `"v" > 1`
	}
	return x.exprText(2 + x.rnd.Intn(2))
}

// exprText: a random expression of depth <= d with every operator, unary operators,
// redundant and required parentheses, function calls and every literal class.
func (x *gen) exprText(d int) string {
	r := x.rnd
	if d <= 1 {
		switch r.Intn(9) {
		case 0:
			return x.pick(refLits)
		case 1:
			return x.pick(intLits)
		case 2:
			return x.pick(floatLits)
		case 3:
			return x.pick(strLits)
		case 4:
			return x.pick(boolLits)
		case 5:
			return x.pick(durLits)
		case 6:
			return `"v"`
		case 7:
			return "-" + x.pick(intLits)
		default:
			return x.pick(refLits)
		}
	}
	switch r.Intn(10) {
	case 0:
		return "-" + x.exprText(d-1)
	case 1:
		return "!" + x.exprText(d-1)
	case 2:
		return "(" + x.exprText(d-1) + ")"
	case 3:
		fns := []string{"abs", "sigma", "if", "string", "count", "strSubstring"}
		n := r.Intn(4)
		args := make([]string, n)
		for i := range args {
			args[i] = x.exprText(d - 1)
		}
		return fns[r.Intn(len(fns))] + "(" + strings.Join(args, ", ") + ")"
	case 4:
		op := []string{"=~", "!~"}[r.Intn(2)]
		return x.exprText(d-1) + " " + op + " " + x.pick(reLits)
	default:
		op := allBinOps[r.Intn(len(allBinOps))]
		if op == "=~" || op == "!~" {
			op = "=="
		}
		l, rr := x.exprText(d-1), x.exprText(d-1)
		sep, pre := " ", " "
		switch r.Intn(9) {
		case 0:
			sep = "\n            "
		case 1:
			pre = "\n            " // operator-leading line break
		}
		s := l + pre + op + sep + rr
		if r.Intn(3) == 0 {
			s = "(" + s + ")"
		}
		return s
	}
}

// argText: one argument of the given Go type, as TICKscript text.
func (x *gen) argText(t reflect.Type, vars map[string]reflect.Type) (string, bool) {
	// a declared variable of the right type (identifier argument)
	if x.rich && len(vars) > 0 && x.rnd.Intn(4) == 0 {
		for _, name := range sortedKeys(vars) {
			if vars[name] == t {
				return name, true
			}
		}
	}
	if x.look > 0 && (t == stringType || t == ifaceType) {
		// every string argument of the call gets a different look-alike (duplicates are often invalid)
		l := lookalikes[(x.look-1+x.lookK)%len(lookalikes)]
		x.lookK++
		return l, true
	}
	if x.zero {
		switch {
		case t == stringType, t == ifaceType:
			return "''", true
		case t == int64Type:
			return "0", true
		case t == f64Type:
			return "0.0", true
		case t == boolType:
			return "FALSE", true
		case t == durType:
			return "0s", true
		}
	}
	switch {
	case t == stringType:
		return x.pick(strLits), true
	case t == int64Type:
		if x.rich && x.rnd.Intn(4) == 0 {
			return "-" + x.pick(intLits), true
		}
		if !x.rich {
			return "3", true
		}
		return x.pick(intLits), true
	case t == f64Type:
		if !x.rich {
			return "1.5", true
		}
		return x.pick(floatLits), true
	case t == boolType:
		return x.pick(boolLits), true
	case t == durType:
		if !x.rich {
			return "10s", true
		}
		return x.pick(durLits), true
	case t == lambdaType:
		return "lambda: " + x.lambdaText(), true
	case t == regexType:
		return x.pick(reLits), true
	case t == ifaceType:
		switch x.rnd.Intn(6) {
		case 0:
			return x.pick(strLits), true
		case 1:
			return "3", true
		case 2:
			return "1.5", true
		case 3:
			return "10s", true
		case 4:
			return "*", true
		default:
			return "'k'", true
		}
	}
	return "", false
}

// callText: "name(args)" for a member; false if an argument type cannot be written.
func (x *gen) callText(m member, vars map[string]reflect.Type, nodeVars []string) (string, bool) {
	var args []string
	x.lookK = 0
	n := len(m.In)
	for i, t := range m.In {
		if m.Variadic && i == n-1 {
			et := t.Elem()
			cnt := 1
			if x.rich {
				cnt = x.rnd.Intn(4)
			}
			if x.look > 0 {
				cnt = 3
			}
			for j := 0; j < cnt; j++ {
				if et.Kind() == reflect.Interface && et.NumMethod() > 0 || isKindType(et) {
					// pipeline.Node arguments (union/join): previously declared node variables
					if len(nodeVars) == 0 {
						return "", false
					}
					args = append(args, nodeVars[x.rnd.Intn(len(nodeVars))])
					continue
				}
				a, ok := x.argText(et, vars)
				if !ok {
					return "", false
				}
				args = append(args, a)
			}
			continue
		}
		if t.Kind() == reflect.Interface && t.NumMethod() > 0 || isKindType(t) {
			if len(nodeVars) == 0 {
				return "", false
			}
			args = append(args, nodeVars[x.rnd.Intn(len(nodeVars))])
			continue
		}
		a, ok := x.argText(t, vars)
		if !ok {
			return "", false
		}
		args = append(args, a)
	}
	sep := ", "
	if x.rich && len(args) > 1 && x.rnd.Intn(5) == 0 {
		return m.Name + "(\n            " + strings.Join(args, ",\n            ") + "\n        )", true
	}
	return m.Name + "(" + strings.Join(args, sep) + ")", true
}

// valid: does the real code accept the script as a task definition?
func valid(script, edge string) bool {
	p := mkPipeQuick(script, edge)
	return p
}

func mkPipeQuick(script, edge string) bool {
	ok := false
	_ = safe(func() {
		r := mkPipeNoDescribe(script, edge)
		ok = r
	})
	return ok
}

// requiredTail: properties a node kind needs before validate() accepts it (hand-written
// from the validate() functions of package pipeline); calls with fixed arguments.
var requiredTail = map[string]string{
	"BarrierNode":           "\n        .idle(10s)",
	"CombineNode":           "\n        .as('a', 'b')",
	"Ec2AutoscaleNode":      "\n        .groupName('g')\n        .replicas(lambda: 1)",
	"K8sAutoscaleNode":      "\n        .resourceName('r')\n        .replicas(lambda: 1)",
	"SwarmAutoscaleNode":    "\n        .serviceName('s')\n        .replicas(lambda: 1)",
	"KapacitorLoopbackNode": "\n        .database('d')\n        .retentionPolicy('r')",
	"JoinNode":              "\n        .as('a', 'b')",
	"EvalNode":              "\n        .as('e')",
}

// fixedCall: chain calls whose arguments cannot be guessed from the Go types alone.
var fixedCall = map[string]string{
	"combine": "combine(lambda: \"a\" == 1, lambda: \"b\" == 2)",
	"join":    "join(o)",
	"eval":    "eval(lambda: \"v\" + 1)",
	"union":   "union(o)",
}

type reached struct {
	Text string // script text that ends in an expression of the kind (includes the preamble)
	Src  string // stream | batch
}

func preamble(src string) string {
	if src == "batch" {
		return "var o = batch\n    |query('SELECT v FROM db.rp.o')\n        .period(10s)\n        .every(10s)\n"
	}
	return "var o = stream\n    |from()\n        .measurement('o')\n"
}

// reach: validated breadth-first search - for every kind the shortest script prefix the
// REAL CreatePipeline accepts (first-spelling arguments, required properties appended).
func (x *gen) reach() map[reflect.Type]reached {
	out := map[reflect.Type]reached{}
	type qe struct {
		t reflect.Type
		r reached
	}
	queue := []qe{
		{x.srcType("stream"), reached{"stream", "stream"}},
		{x.srcType("batch"), reached{"batch", "batch"}},
	}
	out[queue[0].t], out[queue[1].t] = queue[0].r, queue[1].r
	// phase 1 ignores deadman()/stats() (they exist on every node and would make most
	// shortest paths start with an alert); phase 2 uses them for what is still unreached
	var visited []qe
	phase := 1
	plain := &gen{g: x.g, rnd: rand.New(rand.NewSource(7))}
	for len(queue) > 0 || phase == 1 {
		if len(queue) == 0 {
			phase = 2
			queue = visited
			continue
		}
		e := queue[0]
		if phase == 1 {
			visited = append(visited, e)
		}
		queue = queue[1:]
		k := x.g.kinds[e.t]
		if k == nil {
			continue
		}
		ms := append([]member{}, k.Members...)
		if e.t.Implements(nodeIface) && e.t != x.srcType("stream") && e.t != x.srcType("batch") {
			ms = append(ms, member{Name: "udfS", Op: "@", Out: udfNodeType}, member{Name: "udfB", Op: "@", Out: udfNodeType})
		}
		for _, m := range ms {
			if m.Out == nil {
				continue
			}
			if _, seen := out[m.Out]; seen {
				continue
			}
			if phase == 1 && (m.Name == "deadman" || m.Name == "stats") {
				continue
			}
			var cands []string
			if fc, ok := fixedCall[m.Name]; ok {
				cands = append(cands, fc)
			}
			for v := 0; v < 6; v++ {
				plain.rich = v > 0
				if c, ok := plain.callText(m, nil, []string{"o"}); ok {
					cands = append(cands, c)
				}
			}
			plain.rich = false
			for _, call := range cands {
				text := e.r.Text
				if strings.Contains(call, "(o") && !strings.HasPrefix(text, "var o = ") {
					text = preamble(e.r.Src) + text
				}
				if m.Op == "." {
					text += "\n        ." + call
				} else {
					text += "\n    " + m.Op + call
				}
				text += requiredTail[m.Out.Elem().Name()]
				if valid(text+"\n", e.r.Src) {
					r := reached{text, e.r.Src}
					out[m.Out] = r
					queue = append(queue, qe{m.Out, r})
					break
				}
			}
		}
	}
	return out
}

func describeMember(k *kind, m member) string {
	return fmt.Sprintf("%s%s%s", k.Name, m.Op, m.Name)
}
