package c13

// tickfmt.go: the last entry point of "what tickfmt writes": the command line tool
// tick/cmd/tickfmt of the tree under test, built once per driver run and executed as a
// subprocess on temporary files holding the items (as they are, already formatted, and
// padded with indentation and blank lines, so that the formatted text is shorter, equally
// long and longer than the source).  Law: exit status 0 => the file after `-w` is exactly what
// the tool prints without -w, parses to the tree of the source, and the `.orig` backup (-b)
// holds the source byte for byte; exit status != 0 => the file is untouched.

import (
	"bytes"
	"fmt"
	"os"
	"os/exec"
	"path/filepath"
	"strings"
	"sync"
	"sync/atomic"

	"kapverif/rt"
)

var (
	tfOnce sync.Once
	tfBin  string
	tfDir  string
	tfNo   atomic.Int64
)

func tickfmtBin(outDir string) string {
	tfOnce.Do(func() {
		tfDir = filepath.Join(outDir, "tickfmt-work")
		if err := os.MkdirAll(tfDir, 0o755); err != nil {
			rt.Fatalf("tickfmt work dir: %v", err)
		}
		bin := filepath.Join(outDir, "tickfmt")
		cmd := exec.Command("go", "build", "-o", bin, "./tick/cmd/tickfmt")
		cmd.Dir = repoDir()
		if b, err := cmd.CombinedOutput(); err != nil {
			rt.Fatalf("building tick/cmd/tickfmt of %s: %v\n%s", repoDir(), err, b)
		}
		tfBin = bin
	})
	return tfBin
}

// pad: the same tokens with deeper indentation and blank lines (inside multi-line strings this
// changes the string - it is then simply another script; the oracle is the script in the file).
func pad(src string) string {
	return "\n\n" + strings.ReplaceAll(src, "\n    ", "\n\n            ") + "\n\n\n\n"
}

func run1(bin string, args ...string) (int, []byte) {
	cmd := exec.Command(bin, args...)
	var out bytes.Buffer
	cmd.Stdout = &out
	err := cmd.Run()
	rc := 0
	if err != nil {
		rc = 1
		if ee, ok := err.(*exec.ExitError); ok {
			rc = ee.ExitCode()
		}
	}
	return rc, out.Bytes()
}

// tickfmtStage: the "tf" cases of one item.
func tickfmtStage(outDir string, it item) []any {
	bin := tickfmtBin(outDir)
	cases := []any{}
	// the script as it is, and alternately padded (formatted text shorter) / already formatted (equal)
	variants := []struct{ name, src string }{{"raw", it.Src}}
	if f, e := format(it.Src); e == "" && len(it.Src)%2 == 1 {
		variants = append(variants, struct{ name, src string }{"formatted", f})
	} else {
		variants = append(variants, struct{ name, src string }{"padded", pad(it.Src)})
	}
	for _, v := range variants {
		if _, e := parse(v.src); e != "" {
			continue // padding broke it (e.g. inside a comment continuation): not a script
		}
		file := filepath.Join(tfDir, fmt.Sprintf("s%d.tick", tfNo.Add(1)))
		_ = os.WriteFile(file, []byte(v.src), 0o644)
		// an older backup is already there for every second file
		preBackup := tfNo.Load()%2 == 0
		if preBackup {
			_ = os.WriteFile(file+".orig", []byte("old backup"), 0o644)
		}
		rcOut, stdout := run1(bin, file)
		after0, _ := os.ReadFile(file)
		rcW, _ := run1(bin, "-w", "-b", file)
		after, _ := os.ReadFile(file)
		bak, _ := os.ReadFile(file + ".orig")
		size := "equal"
		if len(stdout) < len(v.src) {
			size = "shorter"
		} else if len(stdout) > len(v.src) {
			size = "longer"
		}
		cases = append(cases, rt.M{
			"v": v.name, "size": size, "rcout": rcOut, "rcw": rcW,
			"t":         treeDigest(v.src),
			"st":        treeDigest(string(stdout)),
			"wt":        treeDigest(string(after)),
			"wsame":     bytes.Equal(after, stdout),         // -w writes what is printed without -w
			"untouched": bytes.Equal(after0, []byte(v.src)), // without -w the file is not written
			"intact":    bytes.Equal(after, []byte(v.src)),  // (for rcw != 0) the file is as it was
			"bak":       bytes.Equal(bak, []byte(v.src)),    // -b keeps the source, replacing an older backup
		})
		os.Remove(file)
		os.Remove(file + ".orig")
	}
	return cases
}
