package c13

// grammar.go: the statement-level grammar of TICKscript is discovered from the real
// pipeline package by reflection, with exactly the rules tick.ReflectionDescriber uses
// (eval.go: getProperties / getChainMethods / PartialDescriber): for every node kind
// reachable from `stream` / `batch` the chaining methods ("|name(args)"), the property
// methods and settable fields (".name(args)") and the types of their arguments.  A kind
// is any pointer-to-struct type of package pipeline a method can return (nodes and the
// alert handler objects).  UDF nodes ("@name") describe themselves; their option table
// is the one newScope registers.

import (
	goast "go/ast"
	"reflect"
	"sort"
	"strings"
	"unicode"
	"unicode/utf8"

	"github.com/influxdata/kapacitor/pipeline"
	"github.com/influxdata/kapacitor/tick"
)

type member struct {
	Name     string // TICKscript spelling (first rune lower-cased)
	Op       string // "|" chain, "." property, "@" dynamic
	In       []reflect.Type
	Variadic bool
	Out      reflect.Type // kind the expression denotes afterwards (nil: unchanged)
	Field    bool
	Owner    string // struct type that declares it (promotion resolved), for de-duplication of sweeps
}

type kind struct {
	T       reflect.Type
	Name    string // e.g. "WindowNode"
	Members []member
}

type grammar struct {
	kinds map[reflect.Type]*kind
	order []*kind // discovery (BFS) order: deterministic
	// path[k]: a shortest sequence of (kind, member) from a source to k
	path map[reflect.Type][]step
	src  map[reflect.Type]string // "stream" | "batch": which source reaches the kind first
}

type step struct {
	K *kind
	M member
}

func lowerFirst(s string) string {
	r, n := utf8.DecodeRuneInString(s)
	return string(unicode.ToLower(r)) + s[n:]
}

var errorType = reflect.TypeOf((*error)(nil)).Elem()

func isKindType(t reflect.Type) bool {
	return t != nil && t.Kind() == reflect.Pointer && t.Elem().Kind() == reflect.Struct &&
		strings.HasSuffix(t.Elem().PkgPath(), "kapacitor/pipeline")
}

// instantiate: a zero value of the kind with every embedded pointer allocated (the
// describer skips nil embedded pointers; real nodes never have them nil).
func instantiate(t reflect.Type) reflect.Value {
	v := reflect.New(t.Elem())
	fillAnon(v.Elem(), 0)
	return v
}

func fillAnon(s reflect.Value, depth int) {
	if depth > 6 || s.Kind() != reflect.Struct {
		return
	}
	for i := 0; i < s.NumField(); i++ {
		f := s.Type().Field(i)
		if !f.Anonymous {
			continue
		}
		fv := s.Field(i)
		if fv.Kind() == reflect.Pointer && fv.Type().Elem().Kind() == reflect.Struct {
			if fv.IsNil() && fv.CanSet() {
				fv.Set(reflect.New(fv.Type().Elem()))
			}
			if !fv.IsNil() {
				fillAnon(fv.Elem(), depth+1)
			}
		} else if fv.Kind() == reflect.Struct {
			fillAnon(fv, depth+1)
		}
	}
}

// getProperties / getChainMethods: transcribed from tick/eval.go (same precedence of
// outer over embedded declarations).
func getProperties(rv, exported reflect.Value) (props map[string]reflect.Type, methods map[string]reflect.Value) {
	props, methods = map[string]reflect.Type{}, map[string]reflect.Value{}
	if rv.Kind() != reflect.Pointer || !rv.Elem().IsValid() || rv.Elem().Kind() != reflect.Struct {
		return
	}
	st := rv.Elem().Type()
	for i := 0; i < st.NumField(); i++ {
		p := st.Field(i)
		if p.Anonymous {
			av := reflect.Indirect(rv).Field(i)
			if av.Kind() != reflect.Pointer && av.CanAddr() {
				av = av.Addr()
			}
			if av.Kind() == reflect.Pointer && av.IsNil() {
				continue
			}
			ae := exported
			if goast.IsExported(p.Name) {
				ae = av
			}
			ps, ms := getProperties(av, ae)
			for k, v := range ps {
				if _, ok := props[k]; !ok {
					props[k] = v
				}
			}
			for k, v := range ms {
				if _, ok := methods[k]; !ok {
					methods[k] = v
				}
			}
			continue
		}
		if mn := p.Tag.Get("tick"); mn != "" {
			m := exported.MethodByName(mn)
			if !m.IsValid() && exported.CanAddr() {
				m = exported.Addr().MethodByName(mn)
			}
			if m.IsValid() {
				methods[mn] = m
			}
		} else {
			f := reflect.Indirect(rv).FieldByName(p.Name)
			if f.IsValid() && f.CanSet() {
				props[p.Name] = f.Type()
			}
		}
	}
	return
}

func getChainMethods(rv reflect.Value, propMethods map[string]reflect.Value) map[string]reflect.Value {
	out := map[string]reflect.Value{}
	if rv.Kind() != reflect.Pointer || !rv.Elem().IsValid() {
		return out
	}
	rt := rv.Type()
	for i := 0; i < rt.NumMethod(); i++ {
		m := rt.Method(i)
		if !goast.IsExported(m.Name) {
			continue
		}
		if _, isProp := propMethods[m.Name]; !isProp {
			out[m.Name] = rv.MethodByName(m.Name)
		}
	}
	if rv.Elem().Kind() != reflect.Struct {
		return out
	}
	st := rv.Elem().Type()
	for i := 0; i < st.NumField(); i++ {
		f := st.Field(i)
		if !f.Anonymous {
			continue
		}
		av := rv.Elem().Field(i)
		if av.Kind() != reflect.Pointer && av.CanAddr() {
			av = av.Addr()
		}
		for k, v := range getChainMethods(av, propMethods) {
			if _, ok := out[k]; !ok {
				out[k] = v
			}
		}
	}
	return out
}

func methodSig(m reflect.Value) (in []reflect.Type, variadic bool, out reflect.Type, ok bool) {
	mt := m.Type()
	for i := 0; i < mt.NumIn(); i++ {
		in = append(in, mt.In(i))
	}
	variadic = mt.IsVariadic()
	switch mt.NumOut() {
	case 0:
		return in, variadic, nil, true
	case 1:
		return in, variadic, mt.Out(0), true
	case 2:
		if mt.Out(1) == errorType {
			return in, variadic, mt.Out(0), true
		}
	}
	return nil, false, nil, false
}

func describeKind(t reflect.Type) *kind {
	k := &kind{T: t, Name: t.Elem().Name()}
	if t == reflect.TypeOf((*pipeline.UDFNode)(nil)) {
		// SelfDescriber: properties are the UDF's options; chain methods are those of the embedded chainnode.
		for _, name := range sortedKeys(udfOptions) {
			k.Members = append(k.Members, member{Name: name, Op: ".", In: udfOptionTypes(name), Out: nil})
		}
		v := instantiate(t)
		for _, name := range sortedVKeys(getChainMethods(v, nil)) {
			m := getChainMethods(v, nil)[name]
			in, va, out, ok := methodSig(m)
			if ok && isKindType(out) {
				k.Members = append(k.Members, member{Name: lowerFirst(name), Op: "|", In: in, Variadic: va, Out: out})
			}
		}
		return k
	}
	v := instantiate(t)
	props, pms := getProperties(v, v)
	chains := getChainMethods(v, pms)
	func() {
		defer func() { _ = recover() }()
		if pd, ok := v.Interface().(tick.PartialDescriber); ok {
			for n, m := range pd.ChainMethods() {
				chains[n] = m
			}
		}
	}()
	for _, name := range sortedTKeys(props) {
		if srcs.ignored(t, name, false) {
			continue
		}
		k.Members = append(k.Members, member{Name: lowerFirst(name), Op: ".", In: []reflect.Type{props[name]}, Field: true, Owner: srcs.owner(t, name, false)})
	}
	for _, name := range sortedVKeys(pms) {
		in, va, out, ok := methodSig(pms[name])
		if !ok || srcs.ignored(t, name, true) {
			continue
		}
		if !isKindType(out) || out == t {
			out = nil
		}
		k.Members = append(k.Members, member{Name: lowerFirst(name), Op: ".", In: in, Variadic: va, Out: out, Owner: srcs.owner(t, name, true)})
	}
	for _, name := range sortedVKeys(chains) {
		in, va, out, ok := methodSig(chains[name])
		if !ok || !isKindType(out) || srcs.ignored(t, name, true) {
			continue // not something a script can chain on (Children, MarshalJSON, ...) or undocumented
		}
		k.Members = append(k.Members, member{Name: lowerFirst(name), Op: "|", In: in, Variadic: va, Out: out, Owner: srcs.owner(t, name, true)})
	}
	return k
}

func sortedKeys[V any](m map[string]V) []string {
	ks := make([]string, 0, len(m))
	for k := range m {
		ks = append(ks, k)
	}
	sort.Strings(ks)
	return ks
}
func sortedVKeys(m map[string]reflect.Value) []string { return sortedKeys(m) }
func sortedTKeys(m map[string]reflect.Type) []string  { return sortedKeys(m) }

// srcs: tick:ignore marks of the tree under test (loaded once).
var srcs = loadSrcInfo()

var udfNodeType = reflect.TypeOf((*pipeline.UDFNode)(nil))

// buildGrammar: BFS from the two sources.
func buildGrammar() *grammar {
	g := &grammar{kinds: map[reflect.Type]*kind{}, path: map[reflect.Type][]step{}, src: map[reflect.Type]string{}}
	type qe struct {
		t    reflect.Type
		src  string
		path []step
	}
	queue := []qe{
		{reflect.TypeOf((*pipeline.StreamNode)(nil)), "stream", nil},
		{reflect.TypeOf((*pipeline.BatchNode)(nil)), "batch", nil},
	}
	// paths prefer the usual spine (from()/query(), window()) over deadman()/stats(), which
	// exist on every node and would make almost every shortest path start with an alert
	var deferred []qe
	detour := func(m member) bool { return m.Name == "deadman" || m.Name == "stats" }
	for len(queue) > 0 || len(deferred) > 0 {
		if len(queue) == 0 {
			queue, deferred = deferred, nil
		}
		e := queue[0]
		queue = queue[1:]
		if _, seen := g.kinds[e.t]; seen {
			continue
		}
		k := describeKind(e.t)
		g.kinds[e.t] = k
		g.order = append(g.order, k)
		g.path[e.t] = e.path
		g.src[e.t] = e.src
		for _, m := range k.Members {
			if m.Out != nil {
				if _, seen := g.kinds[m.Out]; !seen {
					np := append(append([]step{}, e.path...), step{k, m})
					if detour(m) {
						deferred = append(deferred, qe{m.Out, e.src, np})
					} else {
						queue = append(queue, qe{m.Out, e.src, np})
					}
				}
			}
		}
		// every chain node can be followed by a UDF
		if e.t != udfNodeType && e.t.Implements(nodeIface) {
			if _, seen := g.kinds[udfNodeType]; !seen && e.t != reflect.TypeOf((*pipeline.StreamNode)(nil)) && e.t != reflect.TypeOf((*pipeline.BatchNode)(nil)) {
				np := append(append([]step{}, e.path...), step{k, member{Name: "udfS", Op: "@", Out: udfNodeType}})
				queue = append(queue, qe{udfNodeType, e.src, np})
			}
		}
	}
	return g
}
