package c13

// kernel.go: the lambda-expression kernel of spec/TickExpr.  The driver enumerates the
// SAME trees as TickExpr.tla (Trees(d)): leaves are literal tokens [kind, value], inner
// nodes ["bin"|"par", op, L, R], ["un", op, X], ["fn", name, args...]; "par" is a binary
// node written in parentheses (ast.BinaryNode.Parens).  A tree is printed as a token
// list (parentheses exactly where kind = "par", plus optional redundant ones), the
// token list as text in several spacing styles; the REAL parser/formatter/JSON code runs
// on the text and TLC compares what it did with the model's parser and printer.

import (
	"strings"
)

// precedence classes, exactly parser.go's table
var precOf = map[string]int{
	"OR": 0, "AND": 1,
	"==": 2, "!=": 2, "=~": 2, "!~": 2,
	">": 3, ">=": 3, "<": 3, "<=": 3,
	"+": 4, "-": 4,
	"*": 5, "/": 5, "%": 5,
}

var allBinOps = []string{"OR", "AND", "==", "!=", "=~", "!~", ">", ">=", "<", "<=", "+", "-", "*", "/", "%"}
var classOps = []string{"OR", "AND", "==", "<", "+", "*"} // one operator per precedence class
var unOps = []string{"-", "!"}

type tok = [2]string // [class, text]; literal tokens have class = canonical kind and text = canonical value

func isBinKind(k string) bool { return k == "bin" || k == "par" }

// wellParenthesised: the tree can be the result of parsing (every binary child whose
// position requires parentheses has them).
func wellParenthesised(t T) bool {
	k := t[0].(string)
	switch {
	case isBinKind(k):
		p := precOf[t[1].(string)]
		l, r := t[2].(T), t[3].(T)
		if lk := l[0].(string); lk == "bin" && precOf[l[1].(string)] < p {
			return false
		}
		if rk := r[0].(string); rk == "bin" && precOf[r[1].(string)] <= p {
			return false
		}
		return wellParenthesised(l) && wellParenthesised(r)
	case k == "un":
		x := t[2].(T)
		if x[0].(string) == "bin" {
			return false
		}
		return wellParenthesised(x)
	case k == "fn":
		for _, a := range t[2:] {
			if !wellParenthesised(a.(T)) {
				return false
			}
		}
	}
	return true
}

// enumTrees: every tree of depth <= d over the alphabet (the same recursion as Trees(d)
// in TickExpr.tla).  fnArity: arities of the function symbol "f" (0 = none).
func enumTrees(d int, leaves []T, binOps, unaryOps []string, fnAr []int) []T {
	if d <= 1 {
		return append([]T{}, leaves...)
	}
	sub := enumTrees(d-1, leaves, binOps, unaryOps, fnAr)
	out := append([]T{}, leaves...)
	for _, op := range binOps {
		for _, k := range []string{"bin", "par"} {
			for _, l := range sub {
				for _, r := range sub {
					out = append(out, T{k, op, l, r})
				}
			}
		}
	}
	for _, op := range unaryOps {
		for _, x := range sub {
			out = append(out, T{"un", op, x})
		}
	}
	for _, ar := range fnAr {
		switch ar {
		case 0:
			out = append(out, T{"fn", "f"})
		case 1:
			for _, x := range sub {
				out = append(out, T{"fn", "f", x})
			}
		case 2:
			for _, x := range sub {
				for _, y := range sub {
					out = append(out, T{"fn", "f", x, y})
				}
			}
		}
	}
	// Trees(d) is a SET in the model: drop the duplicates of depth < d-1 subtrees re-derived
	seen := map[string]bool{}
	uniq := out[:0]
	for _, t := range out {
		s := S(t)
		if !seen[s] {
			seen[s] = true
			uniq = append(uniq, t)
		}
	}
	return uniq
}

func depthOf(t T) int {
	d := 0
	for _, c := range t[2:] {
		if x := depthOf(c.(T)); x > d {
			d = x
		}
	}
	return d + 1
}

// toks: the token list of a tree; redundant > 0 adds parentheses that carry no flag:
// 1 = around the whole expression if it is not a binary node, 2 = around every leaf.
func toks(t T, redundant int) []tok {
	k := t[0].(string)
	var out []tok
	switch {
	case isBinKind(k):
		if k == "par" {
			out = append(out, tok{"lp", "("})
		}
		out = append(out, toks(t[2].(T), redundant)...)
		out = append(out, tok{"op", t[1].(string)})
		out = append(out, toks(t[3].(T), redundant)...)
		if k == "par" {
			out = append(out, tok{"rp", ")"})
		}
	case k == "un":
		if t[1].(string) == "-" {
			out = append(out, tok{"op", "-"})
		} else {
			out = append(out, tok{"not", "!"})
		}
		out = append(out, toks(t[2].(T), redundant)...)
	case k == "fn":
		out = append(out, tok{"id", t[1].(string)}, tok{"lp", "("})
		for i, a := range t[2:] {
			if i > 0 {
				out = append(out, tok{"comma", ","})
			}
			out = append(out, toks(a.(T), redundant)...)
		}
		out = append(out, tok{"rp", ")"})
	default:
		if redundant == 2 {
			out = append(out, tok{"lp", "("}, tok{k, t[1].(string)}, tok{"rp", ")"})
		} else {
			out = append(out, tok{k, t[1].(string)})
		}
	}
	return out
}

// spell: the text of one token.  Literal tokens carry canonical values; the kernel only
// uses values whose spelling is fixed by these rules (see leafText in TickExpr.tla).
func spell(t tok) string {
	switch t[0] {
	case "ref":
		return `"` + t[1] + `"`
	case "str":
		return `'` + t[1] + `'`
	case "re":
		return `/` + t[1] + `/`
	case "dur":
		return durSpelling[t[1]]
	default:
		return t[1]
	}
}

// kernel durations are spelled in seconds / hours
var durSpelling = map[string]string{"1000000000": "1s", "3600000000000": "1h"}

// text styles: 0 = one space between all tokens; 1 = compact (spaces only around the
// word operators and after commas never); 2 = newline + indentation after every binary
// operator (MultiLine); 3 = tabs and double spaces; 4 = a newline BEFORE the first binary
// operator only; 5 = a newline before every binary operator.
func render(ts []tok, style int) string {
	var b strings.Builder
	seenBreak := false
	for i, t := range ts {
		s := spell(t)
		if i > 0 {
			prev := ts[i-1]
			switch style {
			case 0:
				b.WriteString(" ")
			case 1:
				if isWordOp(t) || isWordOp(prev) {
					b.WriteString(" ")
				}
			case 2:
				if prev[0] == "op" && i >= 2 && endsOperand(ts[i-2]) {
					b.WriteString("\n        ")
				} else {
					b.WriteString(" ")
				}
			case 3:
				if i%2 == 0 {
					b.WriteString("\t")
				} else {
					b.WriteString("  ")
				}
			case 4, 5:
				// operator-leading line breaks: before the first binary operator only (4) / before every one (5)
				if t[0] == "op" && endsOperand(prev) && (style == 5 || !seenBreak) {
					b.WriteString("\n        ")
					seenBreak = true
				} else {
					b.WriteString(" ")
				}
			}
		}
		b.WriteString(s)
	}
	return b.String()
}

func isWordOp(t tok) bool { return t[0] == "op" && (t[1] == "AND" || t[1] == "OR") }

// endsOperand: the token can end an operand, i.e. an operator after it is binary.
func endsOperand(t tok) bool {
	switch t[0] {
	case "op", "not", "lp", "comma":
		return false
	}
	return true
}

func toksJSON(ts []tok) []any {
	out := make([]any, len(ts))
	for i, t := range ts {
		out[i] = []any{t[0], t[1]}
	}
	return out
}
