package c13

// trace.go: driver entry points.
//   c13      : the check's driver - kernel expressions (the same trees as TickExpr.tla),
//              literal sweep, member sweep, hand-written shapes and seeded random scripts;
//              one NDJSON line (= one trace) per script / expression
//   c13scan  : the statement-level items only; prints the deviations clustered and, with
//              `cat FILE`, writes the signature catalogue input (triage / maintenance tool)

import (
	"encoding/json"
	"fmt"
	"os"
	"sort"
	"strings"

	"kapverif/rt"
)

func init() {
	rt.Register("c13", Run)
	rt.Register("c13scan", Scan)
}

type collector struct{ items []item }

func (c *collector) emit(it item) { c.items = append(c.items, it) }

func scriptItems(r *rt.Run, nRandom int) ([]item, map[string]any) {
	g := buildGrammar()
	x := &gen{g: g, rnd: seeded(r.Seed)}
	c := &collector{}
	kinds, members, unreachable := x.sweepMembers(c.emit)
	n0 := len(c.items)
	x.sweepLiterals(c.emit)
	x.hand(c.emit)
	// every literal-sweep and hand-written script also as a CRLF / CR / mixed file
	for _, it := range append([]item{}, c.items[n0:]...) {
		eolVariants(it, c.emit)
	}
	n1 := len(c.items)
	tried, kept := x.randomScripts(nRandom, c.emit)
	// ... and every fourth random composition as a CRLF file
	for i, it := range append([]item{}, c.items[n1:]...) {
		if i%4 == 0 {
			eolVariants(it, func(v item) {
				if strings.HasSuffix(v.Tag, "+crlf") {
					c.emit(v)
				}
			})
		}
	}
	// API histories replace the script on one id by ANOTHER script of the stream: the next item of the same edge
	next := map[string]string{}
	for i := len(c.items) - 1; i >= 0; i-- {
		it := &c.items[i]
		if len(it.Vars) == 0 {
			it.Alt = next[it.Edge]
			next[it.Edge] = it.Src
		}
	}
	for i := range c.items {
		if it := &c.items[i]; it.Alt == "" && len(it.Vars) == 0 {
			it.Alt = next[it.Edge] // the last one wraps around
		}
	}
	nm := 0
	for _, k := range g.order {
		nm += len(k.Members)
	}
	extra := map[string]any{
		"grammar_kinds": len(g.order), "grammar_members": nm, "kinds_reached": kinds, "members_swept": members,
		"kinds_unreachable": unreachable, "random_tried": tried, "random_kept": kept,
	}
	return c.items, extra
}

// kernelItems: the expression kernel.
//
//	all15 : every binary operator at depth 2 (and nested once under each class operator)
//	depth3: every well-parenthesised tree of depth <= 3 over one operator per class,
//	        exhaustively: the tree set of the TLC configuration of the same tier
//	text variants: spacing styles 0..3, redundant parentheses
func kernelItems(r *rt.Run) ([]item, map[string]any) {
	var out []item
	leaves2 := []T{leaf("ref", "x"), leaf("int", "1")}
	leaves1 := []T{leaf("ref", "x")}
	add := func(t T, tag string, styles []int, redundant []int) {
		for _, red := range redundant {
			ts := toks(t, red)
			for _, st := range styles {
				out = append(out, item{Cls: "expr", Src: render(ts, st), Toks: ts, ML: ((st == 2 || st >= 4) && hasBinOp(ts)) || newlineMakesMultiLine(ts), Tag: fmt.Sprintf("%s/s%d/r%d", tag, st, red)})
			}
		}
	}
	// every operator, every leaf kind the kernel can spell
	richLeaves := []T{leaf("ref", "x"), leaf("int", "1"), leaf("str", "s"), leaf("bool", "TRUE"), leaf("float", "1.5"), leaf("id", "v")}
	for _, op := range allBinOps {
		for _, k := range []string{"bin", "par"} {
			for _, l := range richLeaves {
				for _, rr := range richLeaves[:3] {
					add(T{k, op, l, rr}, "all15", []int{0, 1, 2, 3, 5}, []int{0, 2})
				}
			}
		}
	}
	// token values with line ends / control characters inside: Format must write them byte for byte
	ctl := []T{leaf("str", "a\r\nb"), leaf("str", "a\rb"), leaf("str", "a\tb"), leaf("str", "a\nb"), leaf("ref", "x\r\ny"), leaf("ref", "x\ty"), leaf("str", "1m")}
	for _, l := range ctl {
		for _, t := range []T{l, {"un", "-", l}, {"fn", "f", l}, {"fn", "f", leaf("int", "1"), l}, {"bin", "+", leaf("ref", "x"), l}, {"bin", "+", l, leaf("ref", "x")},
			{"bin", "==", T{"par", "+", l, leaf("int", "1")}, l}} {
			add(t, "ctl", []int{0, 1, 3}, []int{0, 2})
		}
	}
	d2 := enumTrees(2, leaves2, allBinOps, unOps, []int{0, 1, 2})
	n2 := 0
	for _, t := range d2 {
		if wellParenthesised(t) {
			n2++
			add(t, "depth2-all15", []int{0, 1}, []int{0})
		}
	}
	// depth 3, one operator per precedence class: exactly Trees(3) of TickExpr_quick.cfg
	// (quick: 2 leaves, f/1) resp. TickExpr_thorough.cfg (thorough: 3 leaves, f/0 f/1 f/2),
	// restricted to the trees a parser can produce (every other tree has no text)
	var d3 []T
	if r.Thorough() {
		d3 = enumTrees(3, []T{leaf("ref", "x"), leaf("int", "1"), leaf("str", "s")}, classOps, unOps, []int{0, 1, 2})
	} else {
		d3 = enumTrees(3, leaves2, classOps, unOps, []int{1})
	}
	n3, nAll := 0, len(d3)
	for i, t := range d3 {
		if !wellParenthesised(t) || depthOf(t) < 3 {
			continue
		}
		n3++
		st := []int{i % 6}
		if i%16 == 0 {
			st = []int{0, 1, 2, 3, 4, 5}
		}
		add(t, "depth3", st, []int{0})
	}
	sampled := 0
	_ = leaves1
	// deeper trees: seeded random, depth 4..5
	deep := 4000
	if r.Thorough() {
		deep = 20000
	}
	for k := 0; k < deep; k++ {
		t := randTree(r, 4+r.Rand.Intn(2))
		add(t, "deep", []int{r.Rand.Intn(6)}, []int{r.Rand.Intn(3)})
	}
	_ = sampled
	return out, map[string]any{"kernel_depth2_trees": n2, "kernel_trees_depth_le3_in_model": nAll, "kernel_depth3_parseable_trees_run": n3, "kernel_deep_random": deep, "kernel_exprs": len(out)}
}

// newlineMakesMultiLine: a token VALUE contains a newline and the expression has an operator or
// a second argument - the parser then finds the enclosing node multi-line and Format breaks
// the line (layout only; the model's text is the single-line one).
func newlineMakesMultiLine(ts []tok) bool {
	nl := false
	for _, t := range ts {
		nl = nl || strings.Contains(t[1], "\n")
	}
	if !nl {
		return false
	}
	if hasBinOp(ts) {
		return true
	}
	for _, t := range ts {
		if t[0] == "comma" {
			return true
		}
	}
	return false
}

func hasBinOp(ts []tok) bool {
	for i, t := range ts {
		if t[0] == "op" && i > 0 && endsOperand(ts[i-1]) {
			return true
		}
	}
	return false
}

// randTree: a random well-parenthesised tree (flags set where required, and randomly elsewhere).
func randTree(r *rt.Run, d int) T {
	rnd := r.Rand
	if d <= 1 || rnd.Intn(6) == 0 {
		return []T{leaf("ref", "x"), leaf("int", "1"), leaf("str", "s"), leaf("bool", "TRUE"), leaf("id", "v"), leaf("float", "1.5")}[rnd.Intn(6)]
	}
	switch rnd.Intn(8) {
	case 0:
		x := randTree(r, d-1)
		if x[0] == "bin" {
			x = T{"par", x[1], x[2], x[3]}
		}
		return T{"un", unOps[rnd.Intn(2)], x}
	case 1:
		n := rnd.Intn(3)
		t := T{"fn", "f"}
		for i := 0; i < n; i++ {
			t = append(t, randTree(r, d-1))
		}
		return t
	default:
		op := allBinOps[rnd.Intn(len(allBinOps))]
		l, rr := randTree(r, d-1), randTree(r, d-1)
		p := precOf[op]
		if l[0] == "bin" && (precOf[l[1].(string)] < p || rnd.Intn(4) == 0) {
			l = T{"par", l[1], l[2], l[3]}
		}
		if rr[0] == "bin" && (precOf[rr[1].(string)] <= p || rnd.Intn(4) == 0) {
			rr = T{"par", rr[1], rr[2], rr[3]}
		}
		k := "bin"
		if rnd.Intn(5) == 0 {
			k = "par"
		}
		return T{k, op, l, rr}
	}
}

// Run: the check's driver.
func runCheck(r *rt.Run) error {
	OutDir = r.OutDir
	nRandom := 1000
	if r.Thorough() {
		nRandom = 6000
	}
	kitems, kextra := kernelItems(r)
	sitems, sextra := scriptItems(r, nRandom)
	t := r.NewTrace("trace")
	kouts := parallelEval(kitems, evalExpr)
	souts := parallelEval(sitems, evalScript)
	counts := map[string]int{}
	obs := map[string]int{}
	sigHits := map[string]int{}
	skipped := 0
	emit := func(o *outcome, it item) {
		if o.Skip {
			skipped++
			return
		}
		// everything under "x": the line must start with {"ev":"Reset" (verifylib splits there)
		t.Reset(rt.M{"x": o.Line})
		counts[it.Cls]++
		if tr, ok := o.Line["t0"].(T); ok && len(tr) > 2 {
			t.Distinct(digest(S(tr)))
		}
		for _, d := range o.Devs {
			if strings.HasPrefix(d, "obs:random:") {
				obs["obs:random-script-deviates-in-pipeline/tick"]++
			} else if strings.HasPrefix(d, "obs:") {
				obs[d]++
			}
		}
		for _, s := range o.Sigs {
			sigHits[s.Sig]++
		}
	}
	// the evidence samples are the first traces: start with one of each kind
	first := map[int]bool{}
	firstS := map[int]bool{}
	for i, it := range kitems {
		if it.Tag == "depth3/s0/r0" && len(it.Toks) >= 7 && !kouts[i].Skip {
			emit(kouts[i], it)
			first[i] = true
			break
		}
	}
	for _, want := range []string{"comment:before-chain", "InfluxDBOutNode.precision"} {
		for i, it := range sitems {
			if it.Tag == want && !souts[i].Skip && !firstS[i] {
				emit(souts[i], it)
				firstS[i] = true
				break
			}
		}
	}
	for i, o := range kouts {
		if !first[i] {
			emit(o, kitems[i])
		}
	}
	for i, o := range souts {
		if !firstS[i] {
			emit(o, sitems[i])
		}
	}
	for k, v := range kextra {
		r.Extra[k] = v
	}
	for k, v := range sextra {
		r.Extra[k] = v
	}
	r.Extra["items_by_class"] = counts
	r.Extra["scripts_rejected_by_CreatePipeline_not_counted"] = skipped
	r.Extra["observations"] = obs
	r.Extra["catalogued_signatures_hit"] = len(sigHits)
	r.Finish("kernel: expression trees of TickExpr.tla printed as text in 4 spacing styles with redundant parentheses; statements: every reflected member of every node kind on its shortest accepted path x 3 argument spellings, every literal spelling x every position, hand-written comment/layout/var/template shapes, seeded random compositions; only scripts the real CreatePipeline accepts count; distinct = distinct canonical syntax trees with at least one inner node", false)
	return nil
}

// Run is registered as "c13".
func Run(r *rt.Run) error { return runCheck(r) }

// Scan: cluster the deviations of all statement-level items (triage).
//
//	kvh c13scan -out DIR [-tier thorough] [full] [dump FILE] [cat FILE]
func Scan(r *rt.Run) error {
	OutDir = r.OutDir
	n := 400
	if r.Thorough() {
		n = 6000
	}
	items, extra := scriptItems(r, n)
	// `reps K`: the deterministic items K times (Pipeline.Unmarshal iterates Go maps: the
	// outcome for pipelines with forks / several parents differs from run to run)
	for i, a := range r.Args {
		if a == "reps" && i+1 < len(r.Args) {
			k := 0
			fmt.Sscan(r.Args[i+1], &k)
			var det []item
			for _, it := range items {
				if it.Cls != "random" && it.Cls != "eol" {
					det = append(det, it)
				}
			}
			items = nil
			for j := 0; j < k; j++ {
				items = append(items, det...)
			}
		}
	}
	fmt.Printf("grammar: %v\nitems: %d\n", extra, len(items))
	outs := parallelEval(items, evalScript)
	type cl struct {
		n     int
		tags  map[string]int
		first string
		src   string
	}
	cls := map[string]*cl{}
	skipped := 0
	for i, o := range outs {
		if o.Skip {
			skipped++
			fmt.Printf("SKIPPED %s: %v\n", items[i].Tag, o.Note)
			continue
		}
		for k, d := range o.Devs {
			c := cls[d]
			if c == nil {
				c = &cl{tags: map[string]int{}}
				cls[d] = c
			}
			c.n++
			c.tags[items[i].Tag]++
			if c.first == "" || (len(items[i].Src) < len(c.src) && items[i].Cls != "random") {
				c.first = o.Note[k]
				c.src = items[i].Src
			}
		}
	}
	fmt.Printf("skipped (not a task): %d\n", skipped)
	keys := make([]string, 0, len(cls))
	for k := range cls {
		keys = append(keys, k)
	}
	sort.Strings(keys)
	arg := func(name string) string {
		for i, a := range r.Args {
			if a == name && i+1 < len(r.Args) {
				return r.Args[i+1]
			}
		}
		return ""
	}
	full := false
	for _, a := range r.Args {
		full = full || a == "full"
	}
	for _, k := range keys {
		c := cls[k]
		fmt.Printf("\n=== %s: %d items, %d tags\n", k, c.n, len(c.tags))
		tags := rt.SortedKeys(c.tags)
		lim := 8
		if full {
			lim = 10000
		}
		for i, t := range tags {
			if i >= lim {
				fmt.Printf("    ... %d more\n", len(tags)-lim)
				break
			}
			fmt.Printf("    %s (%d)\n", t, c.tags[t])
		}
		fmt.Printf("  first: %s\n  src:\n%s\n", c.first, indent(c.src))
	}
	if f := arg("dump"); f != "" {
		fh, err := os.Create(f)
		if err != nil {
			return err
		}
		defer fh.Close()
		for i, o := range outs {
			if o.Skip || len(o.Devs) == 0 {
				continue
			}
			fmt.Fprintf(fh, "######## %s [%s]\n%s\n", items[i].Tag, strings.Join(o.Devs, " "), items[i].Src)
			for _, n := range o.Note {
				fmt.Fprintf(fh, "  -- %s\n", n)
			}
		}
	}
	if f := arg("cat"); f != "" {
		// catalogue input: signature -> count, shortest example
		type ex struct {
			Sig   string `json:"sig"`
			Count int    `json:"count"`
			Tag   string `json:"tag"`
			Src   string `json:"src"`
			Note  string `json:"note"`
		}
		m := map[string]*ex{}
		for i, o := range outs {
			if o.Skip {
				continue
			}
			for _, s := range o.Sigs {
				e := m[s.Sig]
				if e == nil {
					e = &ex{Sig: s.Sig}
					m[s.Sig] = e
				}
				e.Count++
				if e.Src == "" || (len(items[i].Src) < len(e.Src)) {
					e.Src, e.Tag, e.Note = items[i].Src, items[i].Tag, s.Note
				}
			}
		}
		var list []*ex
		for _, k := range rt.SortedKeys(m) {
			list = append(list, m[k])
		}
		b, _ := json.MarshalIndent(list, "", " ")
		if err := os.WriteFile(f, b, 0o644); err != nil {
			return err
		}
	}
	return nil
}

func indent(s string) string {
	return "      | " + strings.ReplaceAll(strings.TrimRight(s, "\n"), "\n", "\n      | ")
}
