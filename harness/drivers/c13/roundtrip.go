package c13

// roundtrip.go: every stage of C13 on the REAL code for one script:
//   ast.Parse -> tick.Format -> ast.Parse (-> Format -> Format: stability)
//   pipeline.CreatePipeline on the original and on the formatted text: Dot, reflective
//   property dump and pipeline JSON compared
//   pipeline -> pipeline/tick AST -> text -> pipeline
//   pipeline JSON -> Unmarshal -> pipeline
//   AST JSON (MarshalJSON / UnmarshalJSON) of the program / of a lambda

import (
	"bytes"
	"encoding/json"
	"fmt"
	"os"
	"runtime/debug"
	"strings"
	"time"

	"github.com/influxdata/kapacitor"
	"github.com/influxdata/kapacitor/pipeline"
	ptick "github.com/influxdata/kapacitor/pipeline/tick"
	"github.com/influxdata/kapacitor/tick"
	"github.com/influxdata/kapacitor/tick/ast"
	"github.com/influxdata/kapacitor/tick/stateful"
	"github.com/influxdata/kapacitor/udf/agent"
)

type deadman struct{}

func (deadman) Interval() time.Duration { return 10 * time.Second }
func (deadman) Threshold() float64      { return 100 }
func (deadman) Id() string              { return "{{ .Name }}" }
func (deadman) Message() string         { return "msg" }
func (deadman) Global() bool            { return false }

var baseTM = &kapacitor.TaskMaster{}

// udfOptions: the option table of the fake UDFs "udfS" (stream->stream) and "udfB" (batch->batch).
var udfOptions = map[string]*agent.OptionInfo{
	"optS":  {ValueTypes: []agent.ValueType{agent.ValueType_STRING}},
	"optI":  {ValueTypes: []agent.ValueType{agent.ValueType_INT}},
	"optF":  {ValueTypes: []agent.ValueType{agent.ValueType_DOUBLE}},
	"optB":  {ValueTypes: []agent.ValueType{agent.ValueType_BOOL}},
	"optD":  {ValueTypes: []agent.ValueType{agent.ValueType_DURATION}},
	"optSI": {ValueTypes: []agent.ValueType{agent.ValueType_STRING, agent.ValueType_INT}},
	"flag":  {},
}

// newScope: the scope the real TaskMaster hands to CreatePipeline (time() for query
// group-by) plus two UDFs registered the way TaskMaster.CreateTICKScope does it.
func newScope() *stateful.Scope {
	scope := baseTM.CreateTICKScope()
	for _, u := range []struct {
		name     string
		in, outE agent.EdgeType
	}{{"udfS", agent.EdgeType_STREAM, agent.EdgeType_STREAM}, {"udfB", agent.EdgeType_BATCH, agent.EdgeType_BATCH}, {"udfSB", agent.EdgeType_STREAM, agent.EdgeType_BATCH}} {
		u := u
		scope.SetDynamicMethod(u.name, func(self interface{}, args ...interface{}) (interface{}, error) {
			parent, ok := self.(pipeline.Node)
			if !ok {
				return nil, fmt.Errorf("cannot call %s on %T", u.name, self)
			}
			return pipeline.NewUDF(parent, u.name, u.in, u.outE, udfOptions), nil
		})
	}
	return scope
}

func edgeOf(kind string) pipeline.EdgeType {
	if kind == "batch" {
		return pipeline.BatchEdge
	}
	return pipeline.StreamEdge
}

// Pipe is what we keep of one created pipeline.
type Pipe struct {
	P     *pipeline.Pipeline
	Err   string
	Dot   string
	D     Dump
	Props string // D.Plain(): names and order as created
	Iso   string // D.Iso(): up to renaming / order
	JSON  string // pipeline MarshalJSON ("" + JSONErr if it fails)
	JErr  string
}

func safe(f func()) (err string) {
	defer func() {
		if r := recover(); r != nil {
			err = fmt.Sprintf("PANIC: %v", r)
			if os.Getenv("C13_DEBUG") != "" {
				err += "\n" + string(debug.Stack())
			}
		}
	}()
	f()
	return ""
}

func mkPipe(script, kind string, vars map[string]tick.Var) *Pipe {
	r := &Pipe{}
	if e := safe(func() {
		p, err := pipeline.CreatePipeline(script, edgeOf(kind), newScope(), deadman{}, vars)
		if err != nil {
			r.Err = err.Error()
			return
		}
		r.P = p
	}); e != "" {
		r.Err = e
	}
	if r.P == nil {
		if r.Err == "" {
			r.Err = "nil pipeline"
		}
		return r
	}
	r.describe()
	return r
}

func (r *Pipe) describe() {
	if e := safe(func() { r.Dot = string(r.P.Dot("t")) }); e != "" {
		r.Dot = e
	}
	if e := safe(func() { r.D = DumpPipeline(r.P); r.Props = r.D.Plain(); r.Iso = r.D.Iso() }); e != "" {
		r.Props, r.Iso = e, e
	}
}

// marshal: pipeline JSON.  NOT part of describe(): the real MarshalJSON is allowed no
// side effects, so the caller marshals last (or a separately created pipeline) and
// compares the property dump before and after.
func (r *Pipe) marshal() {
	if e := safe(func() {
		b, err := json.Marshal(r.P)
		if err != nil {
			r.JErr = err.Error()
			return
		}
		r.JSON = string(b)
	}); e != "" {
		r.JErr = e
	}
}

// fromJSON: pipeline JSON -> pipeline (the real Unmarshal).
func fromJSON(js string) *Pipe {
	r := &Pipe{}
	if e := safe(func() {
		p := &pipeline.Pipeline{}
		if err := p.Unmarshal([]byte(js)); err != nil {
			r.Err = err.Error()
			return
		}
		r.P = p
	}); e != "" {
		r.Err = e
	}
	if r.P != nil {
		r.describe()
	}
	return r
}

// toTick: pipeline -> TICKscript text through the real pipeline/tick builder.
func toTick(p *pipeline.Pipeline) (script string, errs string) {
	if e := safe(func() {
		a := ptick.AST{}
		if err := a.Build(p); err != nil {
			errs = err.Error()
			return
		}
		var buf bytes.Buffer
		a.Program.Format(&buf, "", false)
		script = buf.String()
	}); e != "" {
		errs = e
	}
	return
}

// astJSON: node -> MarshalJSON -> UnmarshalJSON into a fresh node of the same type.
func astJSON(n ast.Node) (ast.Node, string) {
	var out ast.Node
	var errs string
	if e := safe(func() {
		b, err := n.MarshalJSON()
		if err != nil {
			errs = "marshal: " + err.Error()
			return
		}
		var fresh ast.Node
		switch n.(type) {
		case *ast.ProgramNode:
			fresh = &ast.ProgramNode{}
		case *ast.LambdaNode:
			fresh = &ast.LambdaNode{}
		default:
			errs = fmt.Sprintf("astJSON: unsupported root %T", n)
			return
		}
		if err := fresh.UnmarshalJSON(b); err != nil {
			errs = "unmarshal: " + err.Error()
			return
		}
		out = fresh
	}); e != "" {
		errs = e
	}
	return out, errs
}

func parse(script string) (ast.Node, string) {
	var n ast.Node
	var errs string
	if e := safe(func() {
		x, err := ast.Parse(script)
		if err != nil {
			errs = err.Error()
			return
		}
		n = x
	}); e != "" {
		errs = e
	}
	return n, errs
}

func format(script string) (string, string) {
	var out, errs string
	if e := safe(func() {
		s, err := tick.Format(script)
		if err != nil {
			errs = err.Error()
			return
		}
		out = s
	}); e != "" {
		errs = e
	}
	return out, errs
}

func astFormat(n ast.Node) (string, string) {
	var out string
	e := safe(func() { out = ast.Format(n) })
	return out, e
}

// firstDiff: a short human-readable description of where two multi-line texts differ.
func firstDiff(a, b string) string {
	la, lb := strings.Split(a, "\n"), strings.Split(b, "\n")
	for i := 0; i < len(la) || i < len(lb); i++ {
		var x, y string
		if i < len(la) {
			x = la[i]
		}
		if i < len(lb) {
			y = lb[i]
		}
		if x != y {
			return fmt.Sprintf("line %d: %.300q vs %.300q", i+1, x, y)
		}
	}
	return ""
}

// mkPipeNoDescribe: does CreatePipeline accept the script (no dumps; used by the generator)?
func mkPipeNoDescribe(script, kind string) bool {
	p, err := pipeline.CreatePipeline(script, edgeOf(kind), newScope(), deadman{}, nil)
	return err == nil && p != nil
}
