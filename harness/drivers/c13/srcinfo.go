package c13

// srcinfo.go: which reflected members are part of the documented TICKscript surface.
// The pipeline package marks everything that is exported for Go reasons only with a
// `tick:ignore` doc comment (tickdoc skips those).  Reflection cannot see comments, so
// the sources of the tree under test ($VERIF_REPO/pipeline) are parsed once.

import (
	goast "go/ast"
	"go/parser"
	"go/token"
	"os"
	"path/filepath"
	"reflect"
	"strings"
)

type srcInfo struct {
	fields  map[string]map[string]bool // type -> declared field -> ignored?
	methods map[string]map[string]bool // type -> declared method -> ignored?
	ok      bool
}

func repoDir() string {
	if d := os.Getenv("VERIF_REPO"); d != "" {
		return d
	}
	return "/repo"
}

func loadSrcInfo() *srcInfo {
	si := &srcInfo{fields: map[string]map[string]bool{}, methods: map[string]map[string]bool{}}
	fset := token.NewFileSet()
	pkgs, err := parser.ParseDir(fset, filepath.Join(repoDir(), "pipeline"), func(fi os.FileInfo) bool {
		return !strings.HasSuffix(fi.Name(), "_test.go")
	}, parser.ParseComments)
	if err != nil {
		return si
	}
	ign := func(g *goast.CommentGroup) bool {
		if g == nil {
			return false
		}
		for _, c := range g.List { // raw text: "//tick:ignore" looks like a directive and is dropped by Text()
			if strings.Contains(c.Text, "tick:ignore") {
				return true
			}
		}
		return false
	}
	for _, p := range pkgs {
		for _, f := range p.Files {
			for _, d := range f.Decls {
				switch x := d.(type) {
				case *goast.GenDecl:
					for _, s := range x.Specs {
						ts, ok := s.(*goast.TypeSpec)
						if !ok {
							continue
						}
						st, ok := ts.Type.(*goast.StructType)
						if !ok {
							continue
						}
						m := map[string]bool{}
						si.fields[ts.Name.Name] = m
						typeIgnored := ign(x.Doc) || ign(ts.Doc)
						_ = typeIgnored
						for _, fld := range st.Fields.List {
							for _, n := range fld.Names {
								m[n.Name] = ign(fld.Doc) || ign(fld.Comment)
							}
						}
					}
				case *goast.FuncDecl:
					if x.Recv == nil || len(x.Recv.List) != 1 {
						continue
					}
					rt := x.Recv.List[0].Type
					if s, ok := rt.(*goast.StarExpr); ok {
						rt = s.X
					}
					id, ok := rt.(*goast.Ident)
					if !ok {
						continue
					}
					if si.methods[id.Name] == nil {
						si.methods[id.Name] = map[string]bool{}
					}
					si.methods[id.Name][x.Name.Name] = ign(x.Doc)
				}
			}
		}
	}
	si.ok = len(si.fields) > 0
	return si
}

// owner: the struct type that declares member `name` of t (outer first), "" if unknown.
func (si *srcInfo) owner(t reflect.Type, name string, method bool) string {
	if t.Kind() == reflect.Pointer {
		t = t.Elem()
	}
	queue := []reflect.Type{t}
	for depth := 0; depth < 6 && len(queue) > 0; depth++ {
		var next []reflect.Type
		for _, c := range queue {
			tbl := si.fields
			if method {
				tbl = si.methods
			}
			if m, ok := tbl[c.Name()]; ok {
				if _, declared := m[name]; declared {
					return c.Name()
				}
			}
			if c.Kind() == reflect.Struct {
				for i := 0; i < c.NumField(); i++ {
					if f := c.Field(i); f.Anonymous {
						ft := f.Type
						if ft.Kind() == reflect.Pointer {
							ft = ft.Elem()
						}
						next = append(next, ft)
					}
				}
			}
		}
		queue = next
	}
	return ""
}

// ignored: is member `name` (Go name) of struct type t (looked up through embedding, outer
// first, as Go's promotion does) marked tick:ignore?  Unknown members are not ignored.
func (si *srcInfo) ignored(t reflect.Type, name string, method bool) bool {
	if t.Kind() == reflect.Pointer {
		t = t.Elem()
	}
	type qe struct{ t reflect.Type }
	queue := []reflect.Type{t}
	for depth := 0; depth < 6 && len(queue) > 0; depth++ {
		var next []reflect.Type
		for _, c := range queue {
			tbl := si.fields
			if method {
				tbl = si.methods
			}
			if m, ok := tbl[c.Name()]; ok {
				if ig, declared := m[name]; declared {
					return ig
				}
			}
			if c.Kind() == reflect.Struct {
				for i := 0; i < c.NumField(); i++ {
					f := c.Field(i)
					if f.Anonymous {
						ft := f.Type
						if ft.Kind() == reflect.Pointer {
							ft = ft.Elem()
						}
						next = append(next, ft)
					}
				}
			}
		}
		queue = next
	}
	return false
}
