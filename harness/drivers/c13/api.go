package c13

// api.go: the script as the HTTP API returns it (services/task_store/service.go:
// handleTask / handleListTasks / handleTemplate apply tick.Format unless
// script-format=raw).  A real task_store.Service on a real Bolt file with a real
// TaskMaster; the handlers the service registers are invoked through httptest.

import (
	"bytes"
	"encoding/json"
	"fmt"
	"net/http"
	"net/http/httptest"
	"net/url"
	"sync/atomic"

	"github.com/influxdata/kapacitor"
	"github.com/influxdata/kapacitor/client/v1"
	"github.com/influxdata/kapacitor/keyvalue"
	"github.com/influxdata/kapacitor/server/vars"
	"github.com/influxdata/kapacitor/services/httpd"
	"github.com/influxdata/kapacitor/services/task_store"

	"kapverif/rt"
)

type apiLookup struct{ tm *kapacitor.TaskMaster }

func (l *apiLookup) Main() *kapacitor.TaskMaster      { return l.tm }
func (l *apiLookup) Get(string) *kapacitor.TaskMaster { return l.tm }
func (l *apiLookup) Set(*kapacitor.TaskMaster)        {}
func (l *apiLookup) Delete(*kapacitor.TaskMaster)     {}

type apiDiag struct{}

func (apiDiag) StartingTask(string)                            {}
func (apiDiag) StartedTask(string)                             {}
func (apiDiag) FinishedTask(string)                            {}
func (apiDiag) Error(msg string, err error, ctx ...keyvalue.T) {}
func (apiDiag) Debug(string)                                   {}
func (apiDiag) AlreadyMigrated(string, string)                 {}
func (apiDiag) Migrated(string, string)                        {}

type apiWorld struct {
	store  *rt.BoltStore
	tm     *kapacitor.TaskMaster
	ts     *task_store.Service
	routes map[string]http.HandlerFunc
	n      atomic.Int64
}

var apiNo atomic.Int64

func openAPI() (*apiWorld, error) {
	w := &apiWorld{}
	d := rt.NewDiag()
	st, err := rt.NewBoltStore("", true, d)
	if err != nil {
		return nil, err
	}
	w.store = st
	hd := &rt.FakeHTTPD{}
	tm := kapacitor.NewTaskMaster(fmt.Sprintf("c13api%d", apiNo.Add(1)), vars.Info, d)
	tm.HTTPDService = hd
	tm.DeadmanService = deadman{}
	if err := tm.Open(); err != nil {
		return nil, fmt.Errorf("tm open: %w", err)
	}
	w.tm = tm
	ts := task_store.NewService(task_store.Config{}, apiDiag{})
	ts.StorageService = st
	ts.HTTPDService = hd
	ts.TaskMasterLookup = &apiLookup{tm: tm}
	tm.TaskStore = ts
	if err := ts.Open(); err != nil {
		return nil, fmt.Errorf("task store open: %w", err)
	}
	w.ts = ts
	w.routes = map[string]http.HandlerFunc{}
	for _, r := range hd.Routes {
		if hf, ok := r.HandlerFunc.(func(http.ResponseWriter, *http.Request)); ok {
			w.routes[r.Method+" "+r.Pattern] = hf
		}
	}
	return w, nil
}

func (w *apiWorld) close() {
	w.ts.Close()
	w.tm.Close()
	w.store.Close()
}

func (w *apiWorld) call(method, pattern, u string, body []byte) (int, []byte) {
	h, ok := w.routes[method+" "+pattern]
	if !ok {
		rt.Fatalf("no route %s %s registered by the task store", method, pattern)
	}
	r := httptest.NewRequest(method, u, bytes.NewReader(body))
	rec := httptest.NewRecorder()
	h(rec, r)
	return rec.Code, rec.Body.Bytes()
}

// apiStage: store the script as a (disabled) task - or as a template when it declares
// typed vars - and read it back formatted, raw and through the list handler.
// Returns the fields of the "api" record of the line.
func (w *apiWorld) apiStage(it item) rt.M {
	out := rt.M{"code": 0, "fcode": 0, "ferr": "", "t": nilTree, "raw": false, "lt": nilTree, "tpl": len(it.Vars) > 0}
	id := fmt.Sprintf("t%d", w.n.Add(1))
	typ := client.StreamTask
	if it.Edge == "batch" {
		typ = client.BatchTask
	}
	kind, coll := "/tasks", "tasks"
	var body []byte
	if len(it.Vars) > 0 {
		kind, coll = "/templates", "templates"
		body, _ = json.Marshal(client.CreateTemplateOptions{ID: id, Type: typ, TICKscript: it.Src})
	} else {
		body, _ = json.Marshal(client.CreateTaskOptions{ID: id, Type: typ, TICKscript: it.Src, Status: client.Disabled,
			DBRPs: []client.DBRP{{Database: "db", RetentionPolicy: "rp"}}})
	}
	code, resp := w.call("POST", kind, httpd.BasePath+kind, body)
	out["code"] = code
	if code != http.StatusOK {
		out["ferr"] = string(resp)
		return out
	}
	defer w.call("DELETE", kind+"/", httpd.BasePath+kind+"/"+id, nil)
	get := func(format string) (int, string) {
		c, b := w.call("GET", kind+"/", httpd.BasePath+kind+"/"+id+"?script-format="+format, nil)
		var v struct {
			Script string `json:"script"`
		}
		_ = json.Unmarshal(b, &v)
		return c, v.Script
	}
	fc, fs := get("formatted")
	out["fcode"] = fc
	if n, e := parse(fs); e != "" {
		out["ferr"] = "returned script does not parse: " + e
	} else {
		out["t"] = Canon(n, false, false)
	}
	_, rs := get("raw")
	out["raw"] = rs == it.Src
	// the list handler formats on its own code path
	q := url.Values{"pattern": {id}, "fields": {"script"}, "script-format": {"formatted"}}
	_, lb := w.call("GET", kind, httpd.BasePath+kind+"?"+q.Encode(), nil)
	var lv map[string]json.RawMessage
	_ = json.Unmarshal(lb, &lv)
	var l []struct {
		Script string `json:"script"`
	}
	_ = json.Unmarshal(lv[coll], &l)
	if len(l) == 1 {
		if n, e := parse(l[0].Script); e == "" {
			out["lt"] = Canon(n, false, false)
		}
	}
	return out
}

// ---------------------------------------------------------------------------
// Histories on one id (the API path over TIME): what GET / list return must follow the
// script that is in force NOW - after a template update pushed a new script into its tasks,
// after a rejected template update was rolled back, after a task PATCH, after delete and
// re-create of the same id.  Law per step and object: formatted(GET) and formatted(list)
// parse to the same tree as raw(GET), and raw(GET) is the script in force.

func treeDigest(script string) string {
	n, e := parse(script)
	if e != "" {
		return "parse error: " + e
	}
	return digest(S(Canon(n, false, false)))
}

// observe: one object (kind "/tasks" | "/templates") as the API shows it now.
func (w *apiWorld) observe(who, kind, id, inForce string) rt.M {
	coll := kind[1:]
	get := func(format string) string {
		_, b := w.call("GET", kind+"/", httpd.BasePath+kind+"/"+id+"?script-format="+format, nil)
		var v struct {
			Script string `json:"script"`
		}
		_ = json.Unmarshal(b, &v)
		return v.Script
	}
	raw := get("raw")
	q := url.Values{"pattern": {id}, "fields": {"script"}, "script-format": {"formatted"}}
	_, lb := w.call("GET", kind, httpd.BasePath+kind+"?"+q.Encode(), nil)
	var lv map[string]json.RawMessage
	_ = json.Unmarshal(lb, &lv)
	var l []struct {
		Script string `json:"script"`
	}
	_ = json.Unmarshal(lv[coll], &l)
	lt := "not listed"
	if len(l) == 1 {
		lt = treeDigest(l[0].Script)
	}
	return rt.M{"who": who, "f": treeDigest(get("formatted")), "r": treeDigest(raw), "l": lt, "rawis": raw == inForce, "exp": treeDigest(inForce)}
}

// history: the steps on one template id, one task created from it and one plain task id.
// it.Alt is another script of the item stream (same edge).
func (w *apiWorld) history(it item) []any {
	steps := []any{}
	if len(it.Vars) > 0 || it.Alt == "" {
		return steps
	}
	n := w.n.Add(1)
	T, K, P := fmt.Sprintf("ht%d", n), fmt.Sprintf("hk%d", n), fmt.Sprintf("hp%d", n)
	typ := client.StreamTask
	if it.Edge == "batch" {
		typ = client.BatchTask
	}
	dbrps := []client.DBRP{{Database: "db", RetentionPolicy: "rp"}}
	A, B := it.Src, it.Alt
	add := func(step string, code int, obs ...rt.M) {
		os := []any{}
		for _, o := range obs {
			os = append(os, o)
		}
		steps = append(steps, rt.M{"step": step, "code": code, "obs": os})
	}
	js := func(v any) []byte { b, _ := json.Marshal(v); return b }
	post := func(kind string, v any) int {
		c, _ := w.call("POST", kind, httpd.BasePath+kind, js(v))
		return c
	}
	patch := func(kind, id string, v any) int {
		c, _ := w.call("PATCH", kind+"/", httpd.BasePath+kind+"/"+id, js(v))
		return c
	}
	del := func(kind, id string) { w.call("DELETE", kind+"/", httpd.BasePath+kind+"/"+id, nil) }

	// --- template and a task created from it
	c := post("/templates", client.CreateTemplateOptions{ID: T, Type: typ, TICKscript: A})
	add("create-template", c)
	if c == http.StatusOK {
		defer del("/templates", T)
		c = post("/tasks", client.CreateTaskOptions{ID: K, TemplateID: T, DBRPs: dbrps, Status: client.Disabled})
		if c != http.StatusOK {
			add("create-task-from-template", c)
		} else {
			defer del("/tasks", K)
			force := A
			add("create-task-from-template", c, w.observe("task", "/tasks", K, force), w.observe("template", "/templates", T, force))
			// the template update pushes the new script into its tasks
			c = patch("/templates", T, client.UpdateTemplateOptions{TICKscript: B})
			if c == http.StatusOK {
				force = B
			}
			add("update-template", c, w.observe("task", "/tasks", K, force), w.observe("template", "/templates", T, force))
			// a template update the server rejects (no such node) leaves everything as it is
			c = patch("/templates", T, client.UpdateTemplateOptions{TICKscript: it.Edge + "\n    |noSuchNode()\n"})
			add("rejected-template-update", c, w.observe("task", "/tasks", K, force), w.observe("template", "/templates", T, force))
			// the script of a task that has a template is the template's, whatever a PATCH says
			c = patch("/tasks", K, client.UpdateTaskOptions{TICKscript: A})
			add("patch-templated-task", c, w.observe("task", "/tasks", K, force), w.observe("template", "/templates", T, force))
		}
	}
	// --- every 25th history: an ENABLED task, and a template update that is rolled back because the
	// task cannot be started with the new script (influxDBOut without an InfluxDB cluster)
	if n%25 == 0 {
		T2, K2 := fmt.Sprintf("hrt%d", n), fmt.Sprintf("hrk%d", n)
		A0 := "stream\n    |from()\n        .measurement('a')\n    |log()\n"
		A1 := "stream\n    |from()   .measurement('b')\n\n\n    |log()\n"
		R0 := "stream\n    |from()\n        .measurement('c')\n    |influxDBOut()\n        .database('d')\n"
		if c := post("/templates", client.CreateTemplateOptions{ID: T2, Type: client.StreamTask, TICKscript: A0}); c == http.StatusOK {
			if c = post("/tasks", client.CreateTaskOptions{ID: K2, TemplateID: T2, DBRPs: dbrps, Status: client.Enabled}); c == http.StatusOK {
				force2 := A0
				add("enabled:create", c, w.observe("task", "/tasks", K2, force2))
				c = patch("/templates", T2, client.UpdateTemplateOptions{TICKscript: A1})
				if c == http.StatusOK {
					force2 = A1
				}
				add("enabled:update-template", c, w.observe("task", "/tasks", K2, force2), w.observe("template", "/templates", T2, force2))
				c = patch("/templates", T2, client.UpdateTemplateOptions{TICKscript: R0})
				if c == http.StatusOK {
					force2 = R0
				}
				add("enabled:rolled-back-template-update", c, w.observe("task", "/tasks", K2, force2), w.observe("template", "/templates", T2, force2))
				patch("/tasks", K2, client.UpdateTaskOptions{Status: client.Disabled})
				del("/tasks", K2)
			} else {
				add("enabled:create", c)
			}
			del("/templates", T2)
		}
	}
	// --- a plain task: create, PATCH the script, delete, create the same id with the other script
	c = post("/tasks", client.CreateTaskOptions{ID: P, Type: typ, TICKscript: A, DBRPs: dbrps, Status: client.Disabled})
	if c != http.StatusOK {
		add("create-task", c)
		return steps
	}
	force := A
	add("create-task", c, w.observe("plain", "/tasks", P, force))
	c = patch("/tasks", P, client.UpdateTaskOptions{TICKscript: B})
	if c == http.StatusOK {
		force = B
	}
	add("patch-task", c, w.observe("plain", "/tasks", P, force))
	del("/tasks", P)
	other := A
	if force == A {
		other = B
	}
	c = post("/tasks", client.CreateTaskOptions{ID: P, Type: typ, TICKscript: other, DBRPs: dbrps, Status: client.Disabled})
	if c == http.StatusOK {
		add("recreate-same-id", c, w.observe("plain", "/tasks", P, other))
		del("/tasks", P)
	} else {
		add("recreate-same-id", c)
	}
	return steps
}
