package c13

// api.go: the script as the HTTP API returns it (services/task_store/service.go:
// handleTask / handleListTasks / handleTemplate apply tick.Format unless
// script-format=raw).  A real task_store.Service on a real Bolt file with a real
// TaskMaster; the handlers the service registers are invoked through httptest.

import (
	"bytes"
	"encoding/json"
	"fmt"
	"net/http"
	"net/http/httptest"
	"net/url"
	"sync/atomic"

	"github.com/influxdata/kapacitor"
	"github.com/influxdata/kapacitor/client/v1"
	"github.com/influxdata/kapacitor/keyvalue"
	"github.com/influxdata/kapacitor/server/vars"
	"github.com/influxdata/kapacitor/services/httpd"
	"github.com/influxdata/kapacitor/services/task_store"

	"kapverif/rt"
)

type apiLookup struct{ tm *kapacitor.TaskMaster }

func (l *apiLookup) Main() *kapacitor.TaskMaster      { return l.tm }
func (l *apiLookup) Get(string) *kapacitor.TaskMaster { return l.tm }
func (l *apiLookup) Set(*kapacitor.TaskMaster)        {}
func (l *apiLookup) Delete(*kapacitor.TaskMaster)     {}

type apiDiag struct{}

func (apiDiag) StartingTask(string)                              {}
func (apiDiag) StartedTask(string)                               {}
func (apiDiag) FinishedTask(string)                              {}
func (apiDiag) Error(msg string, err error, ctx ...keyvalue.T)   {}
func (apiDiag) Debug(string)                                     {}
func (apiDiag) AlreadyMigrated(string, string)                   {}
func (apiDiag) Migrated(string, string)                          {}

type apiWorld struct {
	store  *rt.BoltStore
	tm     *kapacitor.TaskMaster
	ts     *task_store.Service
	routes map[string]http.HandlerFunc
	n      atomic.Int64
}

var apiNo atomic.Int64

func openAPI() (*apiWorld, error) {
	w := &apiWorld{}
	d := rt.NewDiag()
	st, err := rt.NewBoltStore("", true, d)
	if err != nil {
		return nil, err
	}
	w.store = st
	hd := &rt.FakeHTTPD{}
	tm := kapacitor.NewTaskMaster(fmt.Sprintf("c13api%d", apiNo.Add(1)), vars.Info, d)
	tm.HTTPDService = hd
	tm.DeadmanService = deadman{}
	if err := tm.Open(); err != nil {
		return nil, fmt.Errorf("tm open: %w", err)
	}
	w.tm = tm
	ts := task_store.NewService(task_store.Config{}, apiDiag{})
	ts.StorageService = st
	ts.HTTPDService = hd
	ts.TaskMasterLookup = &apiLookup{tm: tm}
	tm.TaskStore = ts
	if err := ts.Open(); err != nil {
		return nil, fmt.Errorf("task store open: %w", err)
	}
	w.ts = ts
	w.routes = map[string]http.HandlerFunc{}
	for _, r := range hd.Routes {
		if hf, ok := r.HandlerFunc.(func(http.ResponseWriter, *http.Request)); ok {
			w.routes[r.Method+" "+r.Pattern] = hf
		}
	}
	return w, nil
}

func (w *apiWorld) close() {
	w.ts.Close()
	w.tm.Close()
	w.store.Close()
}

func (w *apiWorld) call(method, pattern, u string, body []byte) (int, []byte) {
	h, ok := w.routes[method+" "+pattern]
	if !ok {
		rt.Fatalf("no route %s %s registered by the task store", method, pattern)
	}
	r := httptest.NewRequest(method, u, bytes.NewReader(body))
	rec := httptest.NewRecorder()
	h(rec, r)
	return rec.Code, rec.Body.Bytes()
}

// apiStage: store the script as a (disabled) task - or as a template when it declares
// typed vars - and read it back formatted, raw and through the list handler.
// Returns the fields of the "api" record of the line.
func (w *apiWorld) apiStage(it item) rt.M {
	out := rt.M{"code": 0, "fcode": 0, "ferr": "", "t": nilTree, "raw": false, "lt": nilTree, "tpl": len(it.Vars) > 0}
	id := fmt.Sprintf("t%d", w.n.Add(1))
	typ := client.StreamTask
	if it.Edge == "batch" {
		typ = client.BatchTask
	}
	kind, coll := "/tasks", "tasks"
	var body []byte
	if len(it.Vars) > 0 {
		kind, coll = "/templates", "templates"
		body, _ = json.Marshal(client.CreateTemplateOptions{ID: id, Type: typ, TICKscript: it.Src})
	} else {
		body, _ = json.Marshal(client.CreateTaskOptions{ID: id, Type: typ, TICKscript: it.Src, Status: client.Disabled,
			DBRPs: []client.DBRP{{Database: "db", RetentionPolicy: "rp"}}})
	}
	code, resp := w.call("POST", kind, httpd.BasePath+kind, body)
	out["code"] = code
	if code != http.StatusOK {
		out["ferr"] = string(resp)
		return out
	}
	defer w.call("DELETE", kind+"/", httpd.BasePath+kind+"/"+id, nil)
	get := func(format string) (int, string) {
		c, b := w.call("GET", kind+"/", httpd.BasePath+kind+"/"+id+"?script-format="+format, nil)
		var v struct {
			Script string `json:"script"`
		}
		_ = json.Unmarshal(b, &v)
		return c, v.Script
	}
	fc, fs := get("formatted")
	out["fcode"] = fc
	if n, e := parse(fs); e != "" {
		out["ferr"] = "returned script does not parse: " + e
	} else {
		out["t"] = Canon(n, false, false)
	}
	_, rs := get("raw")
	out["raw"] = rs == it.Src
	// the list handler formats on its own code path
	q := url.Values{"pattern": {id}, "fields": {"script"}, "script-format": {"formatted"}}
	_, lb := w.call("GET", kind, httpd.BasePath+kind+"?"+q.Encode(), nil)
	var lv map[string]json.RawMessage
	_ = json.Unmarshal(lb, &lv)
	var l []struct {
		Script string `json:"script"`
	}
	_ = json.Unmarshal(lv[coll], &l)
	if len(l) == 1 {
		if n, e := parse(l[0].Script); e == "" {
			out["lt"] = Canon(n, false, false)
		}
	}
	return out
}
